(** SpecProofs.v — property C01: the concrete model of Graph.v REFINES the abstract reference
    model of Spec.v.

    1. [abs_equiv], [abs_wf]     : the abstraction is canonical and well formed.
    2. [refines_*]               : per operation, same outcome class and [abs] of the state left
                                   behind = the state of the reference model (ALL 15 operations,
                                   both classes; nothing is partial).
    3. [refines_run_op], [refines_step], [refines_run] : every operation, every history.
    4. [views_from_abs]          : every read view is a function of [abs g] alone.
    5. [s_closes_cycle_spec]     : the cycle clause in terms of the state before the insertion.
    6. [abs_surjective], [s_run_op_wf], [spec_one_edge_per_pair] : the reference model on its
                                   own state space.
    Non-vacuity: [SpecExamples] (a 35-call mixed history replayed on the implementation).

    PROOFS ONLY. *)
From Coq Require Import Relations.Relation_Operators.
From CG Require Import Base Digraph DigraphProofs Graph GraphObs GraphInv Spec.
From CG Require GraphLemmas GraphInvProofs GraphAcyclicLemmas GraphAcyclicProofs.
From CG Require Import GraphAtomicLemmas GraphAtomicProofs.

(** * 0. Generic facts on insertion sort *)

Section SortFacts.
  Variable A : Type.
  Variable leb : A -> A -> bool.
  Hypothesis leb_total : forall x y, leb x y = true \/ leb y x = true.
  Hypothesis leb_trans : forall x y z, leb x y = true -> leb y z = true -> leb x z = true.

  Lemma sp_insert_le_all x l :
    (forall y, In y l -> leb x y = true) -> insert leb x l = x :: l.
  Proof.
    destruct l as [|y l]; intros H; simpl; [reflexivity|].
    rewrite (H y (or_introl eq_refl)). reflexivity.
  Qed.

  Lemma sp_filter_insert (p : A -> bool) x l :
    StronglySorted (Base.le leb) l ->
    filter p (insert leb x l) = if p x then insert leb x (filter p l) else filter p l.
  Proof.
    induction 1 as [|y l Hs IH Hall]; simpl.
    - destruct (p x); reflexivity.
    - rewrite Forall_forall in Hall. destruct (leb x y) eqn:Exy.
      + cbn [filter]. destruct (p x) eqn:Epx; [|reflexivity].
        symmetry. apply sp_insert_le_all. intros z Hz.
        destruct (p y); [destruct Hz as [<-|Hz]; [exact Exy|]|];
          apply filter_In in Hz; (eapply leb_trans; [exact Exy|apply Hall, Hz]).
      + cbn [filter]. rewrite IH. destruct (p y) eqn:Epy, (p x) eqn:Epx; try reflexivity.
        simpl. rewrite Exy. reflexivity.
  Qed.

  Lemma sp_isort_filter (p : A -> bool) l : filter p (isort leb l) = isort leb (filter p l).
  Proof.
    induction l as [|x l IH]; simpl; [reflexivity|].
    rewrite sp_filter_insert by (apply isort_sorted; assumption).
    rewrite IH. destruct (p x); reflexivity.
  Qed.

  Lemma sp_filter_sorted (p : A -> bool) l :
    StronglySorted (Base.le leb) l -> StronglySorted (Base.le leb) (filter p l).
  Proof.
    induction 1 as [|y l Hs IH Hall]; simpl; [constructor|].
    destruct (p y); [|exact IH]. constructor; [exact IH|].
    rewrite Forall_forall in *. intros z Hz. apply filter_In in Hz. apply Hall, Hz.
  Qed.
End SortFacts.

Lemma sp_insert_map {A B} (f : A -> B) (leb : A -> A -> bool) (leb' : B -> B -> bool) x l :
  (forall a b, leb' (f a) (f b) = leb a b) ->
  map f (insert leb x l) = insert leb' (f x) (map f l).
Proof.
  intros H. induction l as [|y l IH]; simpl; [reflexivity|].
  rewrite H. destruct (leb x y); simpl; [reflexivity|]. rewrite IH. reflexivity.
Qed.

Lemma sp_isort_map {A B} (f : A -> B) (leb : A -> A -> bool) (leb' : B -> B -> bool) l :
  (forall a b, leb' (f a) (f b) = leb a b) ->
  map f (isort leb l) = isort leb' (map f l).
Proof.
  intros H. induction l as [|x l IH]; simpl; [reflexivity|].
  rewrite (sp_insert_map f leb leb' _ _ H), IH. reflexivity.
Qed.

Lemma sp_edges_sorted l : StronglySorted (Base.le pair_leb_e) (isort pair_leb_e l).
Proof. apply isort_sorted; [apply pair_leb_e_total|apply pair_leb_e_trans]. Qed.

Lemma sp_isort_edges_filter (p : edge -> bool) l :
  filter p (isort pair_leb_e l) = isort pair_leb_e (filter p l).
Proof. apply sp_isort_filter; [apply pair_leb_e_total|apply pair_leb_e_trans]. Qed.

(** * 1. The abstraction: lookups *)

Lemma sp_lookup_abs ns id :
  lookup id (map abs_node ns) = option_map (fun n => (nvt n, nmeta n)) (find_node id ns).
Proof.
  induction ns as [|n ns IH]; simpl; [reflexivity|].
  destruct (name_eqb id (nid n)); [reflexivity|exact IH].
Qed.

Lemma abs_has_node g id : a_has_node (abs g) id = node_exists g id.
Proof.
  unfold a_has_node, node_exists, get_node, abs; cbn [a_nodes]. rewrite sp_lookup_abs.
  destruct (find_node id (gnodes g)); reflexivity.
Qed.

Lemma abs_lag g id : a_lag (abs g) id = node_lag g id.
Proof.
  unfold a_lag, node_lag, get_node, abs; cbn [a_nodes]. rewrite sp_lookup_abs.
  destruct (find_node id (gnodes g)); reflexivity.
Qed.

Lemma abs_ids g : a_ids (abs g) = node_ids g.
Proof. unfold a_ids, node_ids, abs; cbn [a_nodes]. rewrite map_map. reflexivity. Qed.

Lemma abs_edge_at g s d : NoDup (edge_keys g) -> a_edge_at (abs g) s d = edge_at g s d.
Proof.
  intros ND. unfold a_edge_at, edge_at, abs, sorted_edges; cbn [a_edges].
  symmetry. apply at_find_edge_perm; [exact ND|apply isort_perm].
Qed.

Lemma abs_in_edges g e : In e (a_edges (abs g)) <-> In e (gsrc g).
Proof. unfold abs, sorted_edges; cbn [a_edges]. apply isort_in. Qed.

Lemma abs_arc g x y : arc (a_dgraph (abs g)) x y <-> arc (dgraph g) x y.
Proof.
  unfold arc, a_dgraph, dgraph; cbn [arcs]. rewrite !in_map_iff.
  split; intros (e & Hk & Hin); exists e; (split; [exact Hk|]);
    apply filter_In in Hin; apply filter_In; (split; [|apply Hin]);
    apply abs_in_edges, Hin.
Qed.

Lemma abs_path g x y : path (a_dgraph (abs g)) x y <-> path (dgraph g) x y.
Proof. split; apply path_mono; intros a b; apply abs_arc. Qed.

Lemma abs_same_nodes g1 g :
  Forall2 node_same (gnodes g1) (gnodes g) -> a_nodes (abs g1) = a_nodes (abs g).
Proof.
  intros F. unfold abs; cbn [a_nodes]. eapply at_map_Forall2; [exact F|].
  intros a b (H1 & H2 & H3). unfold abs_node. congruence.
Qed.

Lemma abs_eq g1 g :
  a_nodes (abs g1) = a_nodes (abs g) -> sorted_edges g1 = sorted_edges g -> abs g1 = abs g.
Proof. unfold abs; cbn [a_nodes]. intros -> ->. reflexivity. Qed.

(** * 1b. The abstraction of the elementary concrete state changes *)

Lemma abs_insert_edge g e :
  NoDup (map edge_key (gsrc g ++ [e])) -> abs (insert_edge g e) = a_insert_edge (abs g) e.
Proof.
  intros ND. unfold a_insert_edge. rewrite <- (abs_same_nodes _ _ (at_ins_same g e)).
  unfold abs at 1. f_equal. cbn [a_edges abs]. unfold sorted_edges.
  change (gsrc (insert_edge g e)) with (gsrc g ++ [e]).
  change (insert pair_leb_e e (isort pair_leb_e (gsrc g))) with (isort pair_leb_e (e :: gsrc g)).
  apply at_isort_edges_perm_eq; [exact ND|].
  symmetry. apply Permutation_cons_append.
Qed.

Lemma abs_del_state g s d e : abs (del_state g s d e) = a_remove_edge (abs g) s d.
Proof.
  unfold a_remove_edge. rewrite <- (abs_same_nodes _ _ (at_del_same g s d e)).
  unfold abs at 1. f_equal. cbn [a_edges abs]. unfold sorted_edges, drop_edge.
  cbn [gsrc del_state]. symmetry. apply sp_isort_edges_filter.
Qed.

Lemma abs_ext g n ls vs : abs (ext g [n] ls vs) = a_push_node (abs g) (nid n) (nvt n) (nmeta n).
Proof. unfold abs, ext, a_push_node; cbn. rewrite map_app. reflexivity. Qed.

Lemma abs_proj x g : abs (proj x g) = a_remove_node (abs g) x.
Proof.
  unfold abs, proj, a_remove_node; cbn [a_nodes a_edges gnodes gsrc]. f_equal.
  - unfold remove_key. induction (gnodes g) as [|n ns IH]; simpl; [reflexivity|].
    unfold not_id at 1. destruct (name_eqb x (nid n)); simpl; [exact IH|].
    rewrite IH. reflexivity.
  - unfold sorted_edges; cbn [gsrc]. symmetry. apply sp_isort_edges_filter.
Qed.

Lemma abs_with_idx g L V : abs (with_idx g L V) = abs g.
Proof. reflexivity. Qed.

(** * 1c. [set_tags] is idempotent (the time-series [add_node] tags the metadata twice) *)

Fixpoint sp_hit (key : name) (v : json) (m : meta) : Prop :=
  match m with
  | [] => False
  | (k', v') :: m' =>
      (key = k' /\ v = v') \/ (key <> k' /\ name_ltb key k' = false /\ sp_hit key v m')
  end.

Lemma sp_hit_fix key v m : sp_hit key v m -> meta_set key v m = m.
Proof.
  induction m as [|[k' v'] m IH]; simpl; [contradiction|].
  intros [[-> ->]|(Hn & Hlt & Hh)].
  - rewrite name_eqb_refl. reflexivity.
  - destruct (name_eqb_spec key k'); [contradiction|]. rewrite Hlt, (IH Hh). reflexivity.
Qed.

Lemma sp_hit_set key v m : sp_hit key v (meta_set key v m).
Proof.
  induction m as [|[k' v'] m IH]; simpl; [left; auto|].
  destruct (name_eqb_spec key k') as [E|E]; simpl; [left; auto|].
  destruct (name_ltb key k') eqn:Hlt; simpl; [left; auto|]. right. auto.
Qed.

Lemma sp_hit_other key v k2 v2 m : k2 <> key -> sp_hit key v m -> sp_hit key v (meta_set k2 v2 m).
Proof.
  intros Hne. induction m as [|[k' v'] m IH]; simpl; [contradiction|].
  intros H. destruct (name_eqb_spec k2 k') as [E2|E2].
  - subst k'. destruct H as [[E _]|(Hn & Hlt & Hh)]; [congruence|].
    simpl. right. auto.
  - destruct (name_ltb k2 k') eqn:Hlt2.
    + simpl. right. split; [congruence|]. split; [|exact H].
      destruct H as [[<- _]|(Hn & Hlt & Hh)]; [apply name_ltb_asym, Hlt2|].
      destruct (name_ltb key k2) eqn:Hk; [|reflexivity].
      rewrite (name_ltb_trans _ _ _ Hk Hlt2) in Hlt. discriminate.
    + simpl. destruct H as [[<- <-]|(Hn & Hlt & Hh)]; [left; auto|right; auto].
Qed.

Lemma sp_set_tags_idem v l m : set_tags v l (set_tags v l m) = set_tags v l m.
Proof.
  unfold set_tags.
  set (M := meta_set k_variable_name (JStr v) (meta_set k_time_lag (JInt l) m)).
  assert (H1 : meta_set k_time_lag (JInt l) M = M).
  { apply sp_hit_fix. apply sp_hit_other; [discriminate|apply sp_hit_set]. }
  rewrite H1. apply sp_hit_fix, sp_hit_set.
Qed.

(** * 2. Refinement *)

(** a concrete result refines an abstract one: same outcome class, and on success the
    abstraction of the new state is the new abstract state *)
Definition rel_res (r : res graph) (sr : res aspec) : Prop :=
  match r, sr with
  | Ok g', Ok a' => abs g' = a'
  | Err x, Err y => x = y
  | _, _ => False
  end.

(** ... for the operations that report (outcome, state left behind) *)
Definition refines (r : res graph * graph) (sr : res aspec * aspec) : Prop :=
  abs (snd r) = snd sr /\ rel_res (fst r) (fst sr).

Lemma rel_res_ok g a : abs g = a -> rel_res (Ok g) (Ok a).
Proof. intros H; exact H. Qed.

Lemma refines_lift g r sr : rel_res r sr -> refines (lift g r) (s_lift (abs g) sr).
Proof.
  destruct r as [g'|x], sr as [a'|y]; cbn; intros H; try contradiction; split; cbn; auto.
Qed.

Section Refinement.
  Variable parse : name -> option (name * Z).
  Variable fmt : name -> Z -> option name.

  Notation Inv := (Inv parse).

  (** ** 1. [abs] is canonical and well formed *)

  Theorem abs_equiv k g h : Inv k g -> equiv g h -> abs g = abs h.
  Proof.
    intros I E. unfold abs. f_equal.
    - eapply at_map_Forall2; [apply E|]. intros a b (H1 & H2 & H3 & _).
      unfold abs_node. congruence.
    - apply (oe_sorted_edges parse k g h I E).
  Qed.

  Lemma sp_nodup_sorted_keys k g : Inv k g -> NoDup (map edge_key (sorted_edges g)).
  Proof.
    intros I. eapply at_nodup_keys_perm; [apply isort_perm|apply (inv_nodup_keys I)].
  Qed.

  Lemma sp_in_sorted_keys g p : In p (map edge_key (sorted_edges g)) <-> In p (edge_keys g).
  Proof.
    unfold edge_keys, sorted_edges. rewrite !in_map_iff.
    split; intros (e & He & Hin); exists e; (split; [exact He|]); apply isort_in in Hin || apply isort_in; exact Hin.
  Qed.

  Theorem abs_wf k g : Inv k g -> spec_wf parse k (abs g).
  Proof.
    intros I. constructor.
    - rewrite abs_ids. apply (inv_nodup_nodes I).
    - apply sp_edges_sorted.
    - apply (sp_nodup_sorted_keys _ _ I).
    - intros e He. rewrite abs_ids. apply abs_in_edges in He. apply (inv_endpoints I e He).
    - intros e He. apply abs_in_edges in He. apply (inv_noloop I e He).
    - intros e He Hr. apply abs_in_edges in He. apply (inv_noreverse I e He).
      apply sp_in_sorted_keys. exact Hr.
    - intros Ek id vt m Hin. cbn [abs a_nodes] in Hin. apply in_map_iff in Hin.
      destruct Hin as (n & En & Hn). unfold abs_node in En. injection En as <- <- <-.
      apply (ts_nodeok (inv_ts I Ek) n Hn).
    - intros Ek e He. apply abs_in_edges in He. rewrite !abs_lag.
      apply (ts_time (inv_ts I Ek) e He).
  Qed.

  Lemma abs_dgraph_wf k g : Inv k g -> wf (a_dgraph (abs g)).
  Proof.
    intros I. split.
    - cbn [a_dgraph verts]. rewrite abs_ids. apply (inv_nodup_nodes I).
    - intros a b Hab. cbn [a_dgraph verts]. rewrite abs_ids. apply abs_arc in Hab.
      apply (proj2 (GraphAcyclicLemmas.dgraph_wf I) a b Hab).
  Qed.

  Lemma abs_closes_cycle k g d :
    Inv k g -> (s_closes_cycle (abs g) d = true <-> path (dgraph g) d d).
  Proof.
    intros I. unfold s_closes_cycle.
    rewrite (reachb_spec name_eqb name_eqb_spec d d (abs_dgraph_wf _ _ I)). apply abs_path.
  Qed.

  (** ** 2a. add_node *)

  Lemma abs_push_node g n : abs (push_node g n) = a_push_node (abs g) (nid n) (nvt n) (nmeta n).
  Proof. unfold abs, push_node, a_push_node; cbn. rewrite map_app. reflexivity. Qed.

  Lemma refines_add_node_id k g id vt m :
    rel_res (add_node_id parse k g id vt m) (s_add_node parse k (abs g) id vt (dflt m)).
  Proof.
    unfold add_node_id, s_add_node, s_node_meta, dflt. rewrite abs_has_node. destruct k.
    - cbn [bind]. destruct (node_exists g id); [reflexivity|].
      cbn [mk_node bind]. apply rel_res_ok. apply abs_push_node.
    - unfold mk_node. destruct (parse id) as [[v l]|]; cbn [bind]; [|reflexivity].
      destruct (node_exists g id); [reflexivity|]. cbn [nmeta].
      rewrite sp_set_tags_idem. unfold idx_add. cbn [nmeta nid].
      rewrite at_set_tags_lag, at_set_tags_var. apply rel_res_ok.
      unfold abs, push_node, a_push_node; cbn. rewrite map_app. reflexivity.
  Qed.

  Lemma sp_node_parses g id :
    Inv TS g -> node_exists g id = true -> exists v l, parse id = Some (v, l).
  Proof.
    intros I Hex. unfold node_exists in Hex. destruct (get_node g id) as [n|] eqn:Hn; [|discriminate].
    unfold get_node in Hn. apply at_find_node_some in Hn. destruct Hn as [Hn <-].
    destruct (ts_nodeok (inv_ts I eq_refl) n Hn) as (v & l & Hp & _). eauto.
  Qed.

  Lemma refines_add_node_obj k g id vt m :
    Inv k g -> rel_res (add_node_obj parse k g id vt m) (s_add_node parse k (abs g) id vt m).
  Proof.
    intros I. unfold add_node_obj, s_add_node, s_node_meta. rewrite abs_has_node.
    destruct (node_exists g id) eqn:Ex.
    - destruct k; cbn [bind]; [reflexivity|].
      destruct (sp_node_parses _ _ I Ex) as (v & l & ->). reflexivity.
    - unfold mk_node. destruct k; cbn [bind idx_add].
      + apply rel_res_ok. apply abs_push_node.
      + destruct (parse id) as [[v l]|]; cbn [bind]; [|reflexivity].
        unfold idx_add. cbn [nmeta nid]. rewrite at_set_tags_lag, at_set_tags_var.
        apply rel_res_ok. unfold abs, push_node, a_push_node; cbn. rewrite map_app. reflexivity.
  Qed.

  Lemma refines_add_node_vl k g v l vt m :
    rel_res (add_node_vl parse fmt k g v l vt m) (s_add_node_vl parse fmt k (abs g) v l vt (dflt m)).
  Proof.
    unfold add_node_vl, s_add_node_vl. destruct k; [reflexivity|].
    destruct (fmt v l); [apply refines_add_node_id|reflexivity].
  Qed.

  (** ** 2b. delete_edge *)

  Lemma refines_delete_edge k g s d oty :
    Inv k g -> rel_res (delete_edge g s d oty) (s_delete_edge (abs g) s d oty).
  Proof.
    intros I. unfold delete_edge, s_delete_edge.
    rewrite !abs_has_node, (abs_edge_at _ _ _ (inv_nodup_keys I)).
    destruct (node_exists g s); cbn [negb]; [|reflexivity].
    destruct (node_exists g d); cbn [negb]; [|reflexivity].
    destruct (edge_at g s d) as [e|]; [|reflexivity].
    destruct (match oty with Some t => negb (etype_eqb t (ety e)) | None => false end);
      [reflexivity|].
    apply rel_res_ok. apply (abs_del_state g s d e).
  Qed.

  (** ** 2c. delete_node *)

  Lemma delete_node_proj k g x :
    Inv k g -> node_exists g x = true -> delete_node k g x = Ok (proj x g).
  Proof.
    intros I Hx.
    destruct (at_delete_node_spec parse k (at_inv_facts parse) g x I Hx) as (g3 & D & P3).
    rewrite D. f_equal. rewrite <- P3. apply (at_proj_delete_node _ _ _ _ D).
  Qed.

  Lemma refines_delete_node k g x :
    Inv k g -> rel_res (delete_node k g x) (s_delete_node (abs g) x).
  Proof.
    intros I. unfold s_delete_node. rewrite abs_has_node.
    destruct (node_exists g x) eqn:Ex.
    - rewrite (delete_node_proj _ _ _ I Ex). apply rel_res_ok. apply abs_proj.
    - unfold delete_node. unfold node_exists in Ex.
      destruct (get_node g x); [discriminate|reflexivity].
  Qed.

  (** ** 2d. add_edge *)

  Lemma refines_add_endpoint k g p :
    Inv k g -> rel_res (add_endpoint parse k g p) (s_add_endpoint parse k (abs g) p).
  Proof.
    intros I. unfold add_endpoint, s_add_endpoint. rewrite abs_has_node.
    destruct (node_exists g (fst p)); [apply rel_res_ok; reflexivity|].
    destruct (snd p) as [[vt m]|].
    - apply refines_add_node_obj, I.
    - apply (refines_add_node_id k g (fst p) VUnspec None).
  Qed.

  Lemma abs_orient k g s d ty : s_orient k (abs g) s d ty = orient k g s d ty.
  Proof. unfold s_orient, orient. destruct k; [reflexivity|]. rewrite !abs_lag. reflexivity. Qed.

  Lemma refines_set_edge k g s d ty m v :
    Inv k g -> s <> d -> In s (node_ids g) -> In d (node_ids g) ->
    (k = TS -> exists ls ld, node_lag g s = Some ls /\ node_lag g d = Some ld /\ (ls <= ld)%Z) ->
    rel_res (set_edge g s d ty m v) (s_set_edge (abs g) s d ty m v).
  Proof.
    intros I Hne Hs Hd Ht. unfold set_edge, s_set_edge.
    rewrite !(abs_edge_at _ _ _ (inv_nodup_keys I)).
    destruct (edge_at g s d) eqn:E1; [reflexivity|].
    destruct (edge_at g d s) eqn:E2; [reflexivity|].
    set (e := {| esrc := s; edst := d; ety := ty; emeta := m |}).
    apply GraphLemmas.edge_at_none in E1, E2.
    assert (I1 : Inv k (insert_edge g e)).
    { apply GraphInvProofs.inv_insert_edge; cbn [esrc edst e]; assumption. }
    assert (Habs : abs (insert_edge g e) = a_insert_edge (abs g) e).
    { apply abs_insert_edge. rewrite map_app. cbn [map].
      apply GraphLemmas.nodup_snoc; [apply (inv_nodup_keys I)|exact E1]. }
    cbv zeta. rewrite <- Habs. destruct v; cbn [andb]; [|apply rel_res_ok; reflexivity].
    assert (Hd1 : In d (node_ids (insert_edge g e))).
    { rewrite GraphInvProofs.node_ids_insert_edge. exact Hd. }
    destruct (GraphAcyclicProofs.cycle_check parse k _ d I1 Hd1) as (b & Hb & Hiff). rewrite Hb.
    assert (Hc : s_closes_cycle (abs (insert_edge g e)) d = b).
    { destruct b.
      - apply (abs_closes_cycle _ _ d I1), Hiff. reflexivity.
      - destruct (s_closes_cycle (abs (insert_edge g e)) d) eqn:Hc; [|reflexivity].
        apply (abs_closes_cycle _ _ d I1), Hiff in Hc. discriminate. }
    rewrite Hc. destruct b; [|apply rel_res_ok; reflexivity].
    assert (Hdel : delete_edge (insert_edge g e) s d None = Ok g).
    { apply (at_insert_then_delete parse k g e I); cbn [esrc edst e]; try assumption.
      apply GraphLemmas.edge_at_none. exact E1. }
    rewrite Hdel. reflexivity.
  Qed.

  Lemma refines_add_edge_try k g sp dp ty m v :
    Inv k g ->
    rel_res (fst (add_edge_try parse k g sp dp ty m v))
      (s_add_edge parse k (abs g) sp dp ty (dflt m) v).
  Proof.
    intros I. unfold add_edge_try, s_add_edge. cbv zeta.
    destruct (name_eqb_spec (fst sp) (fst dp)) as [E|Hne]; [reflexivity|].
    pose proof (refines_add_endpoint k g sp I) as R1.
    destruct (add_endpoint parse k g sp) as [g1|x1] eqn:A1;
      destruct (s_add_endpoint parse k (abs g) sp) as [a1|y1]; cbn in R1; try contradiction;
      cbn [bind fst]; [|exact R1]. subst a1.
    destruct (GraphInvProofs.add_endpoint_ok parse _ _ _ _ I A1) as (I1 & Hs1 & Hinc1).
    pose proof (refines_add_endpoint k g1 dp I1) as R2.
    destruct (add_endpoint parse k g1 dp) as [g2|x2] eqn:A2;
      destruct (s_add_endpoint parse k (abs g1) dp) as [a2|y2]; cbn in R2; try contradiction;
      cbn [bind fst]; [|exact R2]. subst a2.
    destruct (GraphInvProofs.add_endpoint_ok parse _ _ _ _ I1 A2) as (I2 & Hd2 & Hinc2).
    assert (Hs2 : In (fst sp) (node_ids g2)) by (apply Hinc2, Hs1).
    rewrite (abs_edge_at _ _ _ (inv_nodup_keys I)).
    destruct (edge_at g (fst sp) (fst dp)); [reflexivity|].
    rewrite abs_orient.
    destruct (orient k g2 (fst sp) (fst dp) ty) as [[s' d']|x] eqn:Or; cbn [bind fst snd];
      [|reflexivity].
    destruct (GraphInvProofs.orient_ok _ _ _ _ _ _ _ Or) as (Hor & Ht).
    assert (R3 : rel_res (set_edge g2 s' d' ty (dflt m) v) (s_set_edge (abs g2) s' d' ty (dflt m) v)).
    { destruct Hor as [[-> ->]|[-> ->]]; apply (refines_set_edge k); auto. }
    unfold dflt in *.
    destruct (set_edge g2 s' d' ty _ v) as [g3|x3];
      destruct (s_set_edge (abs g2) s' d' ty _ v) as [a3|y3]; cbn in R3; try contradiction;
      cbn [fst]; exact R3.
  Qed.

  Theorem refines_add_edge k g sp dp ty m v :
    Inv k g ->
    refines (add_edge parse k g sp dp ty m v)
      (s_lift (abs g) (s_add_edge parse k (abs g) sp dp ty (dflt m) v)).
  Proof.
    intros I. pose proof (refines_add_edge_try k g sp dp ty m v I) as R.
    rewrite <- (GraphAcyclicProofs.fst_add_edge parse) in R.
    destruct (add_edge parse k g sp dp ty m v) as [[g'|x] gl] eqn:A;
      destruct (s_add_edge parse k (abs g) sp dp ty (dflt m) v) as [a'|y]; cbn in R;
      try contradiction.
    - pose proof (GraphInvProofs.coh_add_edge parse k g sp dp ty m v g') as C.
      rewrite A in C. cbn in C. rewrite (C eq_refl). split; cbn; exact R.
    - apply at_add_edge_fail in A; [|apply (at_inv_winv parse), I]. subst gl. split; cbn; auto.
  Qed.

  (** ** 2e. change_edge_type / replace_edge *)

  (** the common tail: try the new edge; on failure the old edge is put back (which always
      succeeds, [at_restore]) and the abstract state is the one before the call *)
  Lemma refines_add_or_restore k g g1 s d oty e0 sp dp ty m :
    Inv k g -> edge_at g s d = Some e0 -> delete_edge g s d oty = Ok g1 ->
    refines (match add_edge parse k g1 sp dp ty (Some m) true with
             | (Ok g2, _) => (Ok g2, g2)
             | (Err x, g2) =>
                 match add_edge parse k g2 (str_ep s) (str_ep d) (ety e0) (Some (emeta e0)) false with
                 | (Ok g3, _) => (Err x, g3)
                 | (Err y, g3) => (Err y, g3)
                 end
             end)
            (s_lift (abs g) (s_add_edge parse k (abs g1) sp dp ty m true)).
  Proof.
    intros I He Hdel.
    assert (I1 : Inv k g1) by (eapply GraphInvProofs.inv_delete_edge; eassumption).
    destruct (refines_add_edge k g1 sp dp ty (Some m) true I1) as [RA1 RA2]. cbn [dflt] in RA1, RA2.
    destruct (add_edge parse k g1 sp dp ty (Some m) true) as [[g2|x] g2'] eqn:Hadd;
      destruct (s_add_edge parse k (abs g1) sp dp ty m true) as [a2|y];
      cbn in RA1, RA2; try contradiction.
    - split; cbn; exact RA2.
    - apply at_add_edge_fail in Hadd; [|apply (at_inv_winv parse), I1]. subst g2'.
      destruct (at_restore parse k g s d oty e0 g1 I He Hdel) as (g3 & Hr & Heq).
      rewrite Hr. split; cbn; [|exact RA2].
      symmetry. apply (abs_equiv k g g3 I). apply equiv_sym, Heq.
  Qed.

  Theorem refines_change_edge_type k g s d ty :
    Inv k g ->
    refines (change_edge_type parse k g s d ty)
      (s_lift (abs g) (s_change_edge_type parse k (abs g) s d ty)).
  Proof.
    intros I. unfold change_edge_type, s_change_edge_type.
    rewrite (abs_edge_at _ _ _ (inv_nodup_keys I)).
    destruct (edge_at g s d) as [e0|] eqn:He; [|split; cbn; reflexivity].
    destruct (etype_eqb (ety e0) ty); [split; cbn; reflexivity|].
    pose proof (refines_delete_edge k g s d (Some (ety e0)) I) as RD.
    destruct (delete_edge g s d (Some (ety e0))) as [g1|x] eqn:Hdel;
      destruct (s_delete_edge (abs g) s d (Some (ety e0))) as [a1|y]; cbn in RD;
      try contradiction; cbn [bind]; [|split; cbn; auto].
    subst a1. eapply refines_add_or_restore; eassumption.
  Qed.

  Theorem refines_replace_edge k g s d s' d' oty om :
    Inv k g ->
    refines (replace_edge parse k g s d s' d' oty om)
      (s_lift (abs g) (s_replace_edge parse k (abs g) s d s' d' oty om)).
  Proof.
    intros I. unfold replace_edge, s_replace_edge.
    rewrite !(abs_edge_at _ _ _ (inv_nodup_keys I)).
    destruct (edge_at g s d) as [e0|] eqn:He; [|split; cbn; reflexivity].
    destruct (edge_at g s' d'); [split; cbn; reflexivity|]. cbv zeta.
    pose proof (refines_delete_edge k g s d None I) as RD.
    destruct (delete_edge g s d None) as [g1|x] eqn:Hdel;
      destruct (s_delete_edge (abs g) s d None) as [a1|y]; cbn in RD;
      try contradiction; cbn [bind]; [|split; cbn; auto].
    subst a1. eapply refines_add_or_restore; eassumption.
  Qed.

  Theorem refines_add_time_edge k g sv st dv dt m v :
    Inv k g ->
    refines (add_time_edge parse fmt k g sv st dv dt m v)
      (s_lift (abs g) (s_add_time_edge parse fmt k (abs g) sv st dv dt (dflt m) v)).
  Proof.
    intros I. unfold add_time_edge, s_add_time_edge. destruct k; [split; cbn; reflexivity|].
    destruct (fmt sv st); [|split; cbn; reflexivity].
    destruct (fmt dv dt); [|split; cbn; reflexivity].
    apply refines_add_edge, I.
  Qed.

  (** ** 2f. Folds (the bulk adders and the edge copies of replace_node) *)

  Notation Good := (GraphInvProofs.Good parse).

  Lemma refines_fold {X} k (F : graph -> X -> res graph * graph)
    (FS : aspec -> X -> res aspec * aspec) :
    (forall g x, Inv k g -> Good k (F g x)) ->
    (forall g x, Inv k g -> refines (F g x) (FS (abs g) x)) ->
    forall xs acc sacc, Good k acc -> refines acc sacc ->
      refines (fold_left (GraphInvProofs.okstep F) xs acc) (fold_left (s_okstep FS) xs sacc).
  Proof.
    intros HG HR. induction xs as [|x xs IH]; intros acc sacc G R; cbn [fold_left]; [exact R|].
    apply IH.
    - destruct acc as [[g'|e] gl]; cbn [GraphInvProofs.okstep]; [|exact G].
      apply HG. apply (proj2 G). reflexivity.
    - destruct acc as [[g'|e] gl], sacc as [[a'|y] al]; destruct R as [R1 R2];
        cbn in R1, R2; try contradiction; cbn [GraphInvProofs.okstep s_okstep].
      + subst a'. apply HR. apply (proj2 G). reflexivity.
      + split; cbn; assumption.
  Qed.

  Lemma refines_seq {X} k (F : graph -> X -> res graph * graph)
    (FS : aspec -> X -> res aspec * aspec) g xs :
    (forall g x, Inv k g -> Good k (F g x)) ->
    (forall g x, Inv k g -> refines (F g x) (FS (abs g) x)) ->
    Inv k g ->
    refines (fold_left (GraphInvProofs.okstep F) xs (Ok g, g)) (s_seq FS (abs g) xs).
  Proof.
    intros HG HR I. unfold s_seq. apply (refines_fold k F FS HG HR).
    - apply GraphInvProofs.good_ok, I.
    - split; cbn; reflexivity.
  Qed.

  Theorem refines_add_nodes_from k g ids :
    Inv k g -> refines (add_nodes_from parse k g ids) (s_add_nodes_from parse k (abs g) ids).
  Proof.
    intros I. unfold add_nodes_from, s_add_nodes_from.
    apply (refines_seq k (fun g' id => lift g' (add_node_id parse k g' id VUnspec None))).
    - intros g' id I'. apply GraphInvProofs.good_lift; [exact I'|].
      intros g'' Hadd. eapply GraphInvProofs.inv_add_node_id; eassumption.
    - intros g' id I'. apply refines_lift. apply (refines_add_node_id k g' id VUnspec None).
    - exact I.
  Qed.

  Theorem refines_add_edges_from k g pairs v :
    Inv k g -> refines (add_edges_from parse k g pairs v) (s_add_edges_from parse k (abs g) pairs v).
  Proof.
    intros I. unfold add_edges_from, s_add_edges_from.
    apply (refines_seq k (fun g' (p : name * name) =>
                            add_edge parse k g' (str_ep (fst p)) (str_ep (snd p)) Dir None v)).
    - intros g' p I'. apply GraphInvProofs.good_add_edge, I'.
    - intros g' p I'. apply (refines_add_edge k g' _ _ Dir None v I').
    - exact I.
  Qed.

  Theorem refines_add_fully_connected k g ins outs :
    Inv k g ->
    refines (add_fully_connected parse k g ins outs)
      (s_add_fully_connected parse k (abs g) ins outs).
  Proof. intros I. apply refines_add_edges_from, I. Qed.

  Theorem refines_add_path k g path v :
    Inv k g -> refines (add_path parse k g path v) (s_add_path parse k (abs g) path v).
  Proof.
    intros I. unfold add_path, s_add_path. destruct path as [|x path]; [split; cbn; reflexivity|].
    apply (refines_seq k (fun g' (p : name * name) =>
                            match edge_at g' (fst p) (snd p) with
                            | Some _ => (Ok g', g')
                            | None => add_edge parse k g' (str_ep (fst p)) (str_ep (snd p)) Dir None v
                            end)).
    - intros g' p I'. destruct (edge_at g' (fst p) (snd p)); [apply GraphInvProofs.good_ok, I'|].
      apply GraphInvProofs.good_add_edge, I'.
    - intros g' p I'. rewrite (abs_edge_at _ _ _ (inv_nodup_keys I')).
      destruct (edge_at g' (fst p) (snd p)); [split; cbn; reflexivity|].
      apply (refines_add_edge k g' _ _ Dir None v I').
    - exact I.
  Qed.

  Theorem refines_add_paths k g paths :
    Inv k g -> refines (add_paths parse k g paths) (s_add_paths parse k (abs g) paths).
  Proof.
    intros I. unfold add_paths, s_add_paths. destruct paths as [|x paths]; [split; cbn; reflexivity|].
    apply (refines_seq k (fun g' p => add_path parse k g' p true)).
    - intros g' p I'. apply GraphInvProofs.good_add_path, I'.
    - intros g' p I'. apply refines_add_path, I'.
    - exact I.
  Qed.

  (** ** 2g. replace_node *)

  Lemma abs_edges_from k g id :
    Inv k g -> edges_from g id = filter (fun e => name_eqb id (esrc e)) (a_edges (abs g)).
  Proof.
    intros _. unfold edges_from, abs, sorted_edges; cbn [a_edges].
    symmetry. apply sp_isort_edges_filter.
  Qed.

  Lemma abs_edges_into k g id :
    Inv k g -> edges_into g id = filter (fun e => name_eqb id (edst e)) (a_edges (abs g)).
  Proof.
    intros I. destruct (GraphInvProofs.views_agree parse k g id I) as (H & _).
    unfold v_edges_into in H. rewrite H. unfold abs, sorted_edges; cbn [a_edges].
    symmetry. apply sp_isort_edges_filter.
  Qed.

  Lemma refines_seq_edges k g calls :
    Inv k g -> refines (seq_edges parse k g calls) (s_seq (s_edge_call parse k) (abs g) calls).
  Proof.
    intros I. unfold seq_edges.
    apply (refines_seq k (fun g' (c : endpoint * endpoint * etype * meta) =>
                            let '(sp, dp, ty, m) := c in add_edge parse k g' sp dp ty (Some m) true)).
    - intros g' [[[sp dp] ty] m] I'. apply GraphInvProofs.good_add_edge, I'.
    - intros g' [[[sp dp] ty] m] I'. apply (refines_add_edge k g' sp dp ty (Some m) true I').
    - exact I.
  Qed.

  Lemma abs_update_node g id n vt' m' :
    find_node id (gnodes g) = Some n ->
    abs {| gnodes := update_node (fun _ => {| nid := nid n; nvt := vt'; nmeta := m';
                                              ninb := ninb n; noutb := noutb n |}) id (gnodes g);
           gsrc := gsrc g; gdst := gdst g; gmeta := gmeta g; glag := glag g; gvar := gvar g |}
    = a_set_node (abs g) id vt' m'.
  Proof.
    intros Hn. apply at_find_node_some in Hn. destruct Hn as [_ Hid].
    unfold abs, a_set_node; cbn [a_nodes a_edges gnodes]. f_equal.
    unfold update_node. rewrite !map_map. apply map_ext. intros x.
    cbn [abs_node fst]. destruct (name_eqb id (nid x)); [|reflexivity].
    unfold abs_node; cbn. rewrite Hid. reflexivity.
  Qed.

  Theorem refines_replace_node_base k g id new_id vt m :
    Inv k g ->
    refines (replace_node_base parse k g id new_id vt m)
      (s_lift (abs g) (s_replace_node_base parse k (abs g) id new_id vt m)).
  Proof.
    intros I.
    destruct (replace_node_base parse k g id new_id vt m) as [r gl] eqn:ERB.
    assert (Hfail : forall e, r = Err e -> gl = g).
    { intros e ->. eapply (at_replace_node_base_fail parse fmt k (at_inv_facts parse)); eassumption. }
    revert ERB. unfold replace_node_base, s_replace_node_base.
    cbn [abs a_nodes]. rewrite sp_lookup_abs. unfold get_node.
    destruct (find_node id (gnodes g)) as [n|] eqn:Hn; cbn [option_map];
      [|intros [= <- <-]; split; cbn; reflexivity].
    destruct new_id as [id'|].
    2:{ cbv zeta. intros [= <- <-]. split; cbn; apply (abs_update_node g id n _ _ Hn). }
    fold (abs g). rewrite abs_has_node.
    destruct (node_exists g id') eqn:Hex'; [intros [= <- <-]; split; cbn; reflexivity|].
    cbv zeta.
    set (vt' := match vt with Some t => t | None => nvt n end).
    set (m' := match m with Some x => x | None => nmeta n end).
    pose proof (refines_add_node_id k g id' vt' (Some m')) as RA. cbn [dflt] in RA.
    destruct (add_node_id parse k g id' vt' (Some m')) as [g1|x] eqn:A;
      destruct (s_add_node parse k (abs g) id' vt' m') as [a1|y]; cbn in RA; try contradiction;
      cbn [bind]; [|intros [= <- <-]; split; cbn; auto].
    subst a1.
    assert (I1 : Inv k g1) by (eapply GraphInvProofs.inv_add_node_id; eassumption).
    rewrite <- (abs_edges_into k g1 id I1), <- (abs_edges_from k g1 id I1).
    match goal with |- context [seq_edges parse k g1 ?c] => set (calls := c) end.
    pose proof (refines_seq_edges k g1 calls I1) as [RS1 RS2].
    pose proof (GraphInvProofs.good_seq_edges parse k g1 calls I1) as [GS1 GS2].
    (* the structural facts about the copies, as in the failure-atomicity proof *)
    pose proof A as A'. apply (at_add_node_id_ok parse) in A'.
    destruct A' as (_ & n' & ls & vs & Hid' & _ & _ & Hidx & Eg1 & _).
    assert (Hid_ex : node_exists g1 id = true).
    { rewrite Eg1, at_node_exists_ext. unfold node_exists, get_node. rewrite Hn. reflexivity. }
    assert (Hid'_ex : node_exists g1 id' = true).
    { rewrite Eg1, at_node_exists_ext. simpl. rewrite Hid', name_eqb_refl. apply orb_true_r. }
    destruct (seq_edges parse k g1 calls) as [r2 g2] eqn:S.
    pose proof S as S'. rewrite at_seq_edges_eq in S'.
    apply (at_seq_fold parse fmt k (at_inv_facts parse) id' g1) in S'; [|exact I1| |].
    2:{ apply at_Forall2_refl. intros a; repeat split. }
    2:{ intros c Hc. subst calls. apply in_app_iff in Hc.
        destruct Hc as [Hc|Hc]; apply in_map_iff in Hc; destruct Hc as (e0 & <- & He0).
        - exists (esrc e0), id', (ety e0), (emeta e0). repeat split; auto.
          unfold edges_into in He0. apply isort_in in He0. apply filter_In in He0.
          destruct He0 as [He0 _]. apply (Permutation_in _ (inv_mirror I1)) in He0.
          apply at_node_exists_in. apply (inv_endpoints I1 e0 He0).
        - exists id', (edst e0), (ety e0), (emeta e0). repeat split; auto.
          unfold edges_from in He0. apply isort_in in He0. apply filter_In in He0.
          destruct He0 as [He0 _].
          apply at_node_exists_in. apply (inv_endpoints I1 e0 He0). }
    destruct S' as (I2 & S2 & _ & Hr).
    cbn [fst snd] in RS1, RS2, GS1, GS2.
    destruct r2 as [ga|x];
      destruct (s_seq (s_edge_call parse k) (abs g1) calls) as [[a2|y] a2'];
      cbn [fst snd] in RS1, RS2; cbn in RS2; try contradiction; cbn [fst bind].
    - rewrite (Hr ga eq_refl) in *. subst a2.
      pose proof (refines_delete_node k g2 id I2) as RD.
      destruct (at_delete_node_succeeds parse k (at_inv_facts parse) g2 id I2) as (g3 & D).
      { rewrite (at_same_exists _ _ _ S2). exact Hid_ex. }
      rewrite D in *.
      destruct (s_delete_node (abs g2) id) as [a3|y]; cbn in RD; try contradiction.
      intros [= <- <-]. split; cbn; exact RD.
    - destruct (at_delete_node_succeeds parse k (at_inv_facts parse) g2 id' I2) as (g3 & D).
      { rewrite (at_same_exists _ _ _ S2). exact Hid'_ex. }
      rewrite D. intros [= <- <-]. split; cbn; [|exact RS2].
      rewrite (Hfail x eq_refl). reflexivity.
  Qed.

  Lemma replace_node_eq k g id new_id lag var vt m :
    replace_node parse fmt k g id new_id lag var vt m
    = match k with
      | Plain =>
          match lag, var with
          | None, None => replace_node_base parse k g id new_id vt m
          | _, _ => (Err EType, g)
          end
      | TS =>
          match ts_new_id parse fmt id new_id lag var with
          | Err x => (Err x, g)
          | Ok nid' =>
              match ts_new_meta parse id nid' m with
              | Err x => (Err x, g)
              | Ok m' => replace_node_base parse k g id nid' vt m'
              end
          end
      end.
  Proof. unfold replace_node. destruct k; reflexivity. Qed.

  Theorem refines_replace_node k g id new_id lag var vt m :
    Inv k g ->
    refines (replace_node parse fmt k g id new_id lag var vt m)
      (s_lift (abs g) (s_replace_node parse fmt k (abs g) id new_id lag var vt m)).
  Proof.
    intros I. rewrite replace_node_eq. unfold s_replace_node. destruct k.
    - destruct lag, var; try (split; cbn; reflexivity). apply refines_replace_node_base, I.
    - destruct (ts_new_id parse fmt id new_id lag var) as [nid'|x]; cbn [bind];
        [|split; cbn; reflexivity].
      destruct (ts_new_meta parse id nid' m) as [m'|x]; cbn [bind]; [|split; cbn; reflexivity].
      apply refines_replace_node_base, I.
  Qed.

  (** ** 3. Every operation, every history *)

  Theorem refines_run_op k g o :
    Inv k g -> refines (run_op parse fmt k g o) (s_run_op parse fmt k (abs g) o).
  Proof.
    intros I. destruct o; cbn [run_op s_run_op].
    - apply refines_lift. apply (refines_add_node_id k).
    - apply refines_lift. apply (refines_add_node_obj k), I.
    - apply refines_lift. apply (refines_add_node_vl k).
    - apply refines_add_nodes_from, I.
    - apply refines_add_fully_connected, I.
    - apply refines_lift. apply (refines_delete_node k), I.
    - apply refines_replace_node, I.
    - apply refines_add_edge, I.
    - apply refines_add_edges_from, I.
    - apply refines_add_path, I.
    - apply refines_add_paths, I.
    - apply refines_add_time_edge, I.
    - apply refines_lift. apply (refines_delete_edge k), I.
    - apply refines_change_edge_type, I.
    - apply refines_replace_edge, I.
  Qed.

  Theorem refines_step k g o :
    Inv k g ->
    abs (step parse fmt k g o) = s_step parse fmt k (abs g) o
    /\ outcome parse fmt k g o = s_outcome parse fmt k (abs g) o.
  Proof.
    intros I. destruct (refines_run_op k g o I) as [R1 R2].
    unfold step, s_step, outcome, s_outcome. split; [exact R1|].
    destruct (fst (run_op parse fmt k g o)), (fst (s_run_op parse fmt k (abs g) o));
      cbn in R2; try contradiction; congruence.
  Qed.

  (** on success the abstract result is the abstraction of the returned state *)
  Theorem refines_ok k g o g' :
    Inv k g -> fst (run_op parse fmt k g o) = Ok g' ->
    fst (s_run_op parse fmt k (abs g) o) = Ok (abs g').
  Proof.
    intros I H. destruct (refines_run_op k g o I) as [_ R2]. rewrite H in R2.
    destruct (fst (s_run_op parse fmt k (abs g) o)); cbn in R2; [congruence|contradiction].
  Qed.

  Theorem refines_run_from k ops : forall g,
    Inv k g ->
    abs (run parse fmt k ops g) = s_run parse fmt k ops (abs g)
    /\ outcomes parse fmt k g ops = s_outcomes parse fmt k (abs g) ops.
  Proof.
    induction ops as [|o ops IH]; intros g I; cbn; [split; reflexivity|].
    destruct (refines_step k g o I) as [R1 R2].
    destruct (IH (step parse fmt k g o) (GraphInvProofs.inv_step parse fmt k g o I)) as [H1 H2].
    unfold run in H1. rewrite H1, H2, R1, R2. split; reflexivity.
  Qed.

  Lemma abs_empty m : abs (empty_graph m) = a_empty.
  Proof. reflexivity. Qed.

  (** C01: after ANY history of public mutations from the empty graph, the abstraction of the
      concrete state is the state of the reference model after the same history, every call
      having had the same outcome (accepted, or rejected with the same error). *)
  Theorem refines_run k ops m :
    abs (run parse fmt k ops (empty_graph m)) = s_run parse fmt k ops a_empty
    /\ outcomes parse fmt k (empty_graph m) ops = s_outcomes parse fmt k a_empty ops.
  Proof.
    rewrite <- (abs_empty m). apply refines_run_from. apply (GraphInvProofs.inv_init parse).
  Qed.

  (** the reference model only visits well-formed states *)
  Corollary s_run_wf k ops : spec_wf parse k (s_run parse fmt k ops a_empty).
  Proof.
    destruct (refines_run k ops []) as [<- _]. apply abs_wf. apply GraphInvProofs.inv_run.
  Qed.
End Refinement.

(** * 4. Every read view is a function of the abstract state alone *)

Section Views.
  Variable parse : name -> option (name * Z).
  Notation Inv := (Inv parse).

  Lemma abs_nodes_sorted g : map abs_node (nodes_sorted g) = a_nodes_sorted (abs g).
  Proof.
    unfold nodes_sorted, a_nodes_sorted, abs; cbn [a_nodes].
    apply sp_isort_map. intros a b. reflexivity.
  Qed.

  Lemma view_nodes g : v_nodes g = a_node_list (abs g).
  Proof.
    unfold v_nodes, a_node_list. rewrite <- abs_nodes_sorted, map_map. reflexivity.
  Qed.

  Lemma view_node_names g : v_node_names g = a_node_names (abs g).
  Proof.
    unfold v_node_names, a_node_names. rewrite <- abs_nodes_sorted, map_map. reflexivity.
  Qed.

  Lemma view_edges g : v_edges g = a_edge_list (abs g).
  Proof. reflexivity. Qed.

  Lemma view_edges_from g n : v_edges_from g n = a_edges_from (abs g) n.
  Proof.
    unfold v_edges_from, a_edges_from, edges_from, abs, sorted_edges; cbn [a_edges].
    symmetry. apply sp_isort_edges_filter.
  Qed.

  Lemma view_edges_into k g n : Inv k g -> v_edges_into g n = a_edges_into (abs g) n.
  Proof. intros I. unfold v_edges_into, a_edges_into. apply (abs_edges_into parse k g n I). Qed.

  Lemma view_get_edge k g s d oty : Inv k g -> v_get_edge g s d oty = a_get_edge (abs g) s d oty.
  Proof.
    intros I. unfold v_get_edge, a_get_edge. rewrite (abs_edge_at _ _ _ (inv_nodup_keys I)).
    reflexivity.
  Qed.

  Lemma view_edge_exists k g s d oty :
    Inv k g -> v_edge_exists g s d oty = a_edge_exists (abs g) s d oty.
  Proof.
    intros I. unfold v_edge_exists, a_edge_exists. rewrite (abs_edge_at _ _ _ (inv_nodup_keys I)).
    reflexivity.
  Qed.

  Lemma sp_sorted_scan {B} (f : edge -> B) (p : edge -> bool) g :
    Permutation (map f (filter p (gsrc g))) (map f (filter p (sorted_edges g))).
  Proof. apply Permutation_map, at_filter_perm. unfold sorted_edges. apply isort_perm. Qed.

  Lemma view_parents k g n : Inv k g -> v_parents g n = a_parents (abs g) n.
  Proof.
    intros I. unfold a_parents. rewrite abs_has_node. destruct (node_exists g n) eqn:Ex.
    - apply at_node_exists_in in Ex.
      destruct (GraphInvProofs.views_agree parse k g n I) as (_ & H & _).
      destruct (H Ex) as [-> _]. f_equal. apply sort_names_perm_eq.
      unfold dir_into. apply sp_sorted_scan.
    - unfold v_parents. unfold node_exists in Ex. destruct (get_node g n); [discriminate|reflexivity].
  Qed.

  Lemma view_children k g n : Inv k g -> v_children g n = a_children (abs g) n.
  Proof.
    intros I. unfold a_children. rewrite abs_has_node. destruct (node_exists g n) eqn:Ex.
    - apply at_node_exists_in in Ex.
      destruct (GraphInvProofs.views_agree parse k g n I) as (_ & H & _).
      destruct (H Ex) as [_ ->]. f_equal. apply sort_names_perm_eq.
      unfold dir_from. apply sp_sorted_scan.
    - unfold v_children. unfold node_exists in Ex. destruct (get_node g n); [discriminate|reflexivity].
  Qed.

  Lemma view_neighbors k g n : Inv k g -> v_neighbors g n = a_neighbors (abs g) n.
  Proof.
    intros I. unfold v_neighbors, a_neighbors.
    rewrite abs_has_node, view_edges_from, (view_edges_into k g n I). reflexivity.
  Qed.

  Lemma view_inputs k g : Inv k g -> v_inputs g = a_inputs (abs g).
  Proof.
    intros I. unfold v_inputs, a_inputs. rewrite view_node_names. apply filter_ext.
    intros n. rewrite (view_edges_into k g n I). reflexivity.
  Qed.

  Lemma view_outputs g : v_outputs g = a_outputs (abs g).
  Proof.
    unfold v_outputs, a_outputs. rewrite view_node_names. apply filter_ext.
    intros n. rewrite view_edges_from. reflexivity.
  Qed.

  Lemma view_edges_of_type g t : v_edges_of_type g t = a_edges_of_type (abs g) t.
  Proof. reflexivity. Qed.

  Lemma view_nondirected g : v_nondirected g = a_nondirected (abs g).
  Proof. reflexivity. Qed.

  (** time-series lookups *)
  Lemma sp_scan_abs (P : meta -> bool) ns :
    map fst (filter (fun p => P (snd (snd p))) (map abs_node ns))
    = map nid (filter (fun n => P (nmeta n)) ns).
  Proof.
    induction ns as [|n ns IH]; simpl; [reflexivity|].
    destruct (P (nmeta n)); simpl; rewrite IH; reflexivity.
  Qed.

  Lemma view_nodes_at_lag g l : Inv TS g -> v_nodes_at_lag g l = a_nodes_at_lag (abs g) l.
  Proof.
    intros I. destruct (GraphInvProofs.lookups_eq_scan parse g l [] I) as [-> _].
    unfold a_nodes_at_lag, abs; cbn [a_nodes].
    symmetry.
    apply (sp_scan_abs (fun m => match meta_lag m with Some l' => Z.eqb l' l | None => false end)).
  Qed.

  Lemma view_nodes_for_var g v : Inv TS g -> v_nodes_for_var g v = a_nodes_for_var (abs g) v.
  Proof.
    intros I. destruct (GraphInvProofs.lookups_eq_scan parse g 0%Z v I) as [_ ->].
    unfold a_nodes_for_var, abs; cbn [a_nodes].
    symmetry.
    apply (sp_scan_abs (fun m => match meta_var m with Some v' => name_eqb v' v | None => false end)).
  Qed.

  Lemma view_contemporaneous g n :
    Inv TS g -> v_contemporaneous g n = a_contemporaneous (abs g) n.
  Proof.
    intros I. unfold v_contemporaneous, a_contemporaneous, get_node.
    cbn [abs a_nodes]. rewrite sp_lookup_abs.
    destruct (find_node n (gnodes g)) as [x|]; cbn [option_map]; [|reflexivity].
    destruct (meta_lag (nmeta x)) as [l|]; [|reflexivity].
    fold (abs g). rewrite (view_nodes_at_lag g l I). reflexivity.
  Qed.

  Lemma view_variables g : v_variables g = a_variables (abs g).
  Proof.
    unfold v_variables, a_variables. rewrite <- abs_nodes_sorted, map_map. reflexivity.
  Qed.

  Lemma view_node_lags g : node_lags g = a_node_lags (abs g).
  Proof.
    unfold node_lags, a_node_lags. rewrite <- abs_nodes_sorted, map_map. reflexivity.
  Qed.

  Lemma view_max_backward g : v_max_backward g = a_max_backward (abs g).
  Proof. unfold v_max_backward, a_max_backward. rewrite view_node_lags. reflexivity. Qed.

  Lemma view_max_forward g : v_max_forward g = a_max_forward (abs g).
  Proof. unfold v_max_forward, a_max_forward. rewrite view_node_lags. reflexivity. Qed.

  Lemma view_all_variable_names g :
    v_all_variable_names parse g = a_all_variable_names parse (abs g).
  Proof.
    unfold v_all_variable_names, a_all_variable_names. rewrite view_node_names. reflexivity.
  Qed.

  (** all of them together *)
  Theorem views_from_abs k g :
    Inv k g ->
    let a := abs g in
    v_nodes g = a_node_list a
    /\ v_node_names g = a_node_names a
    /\ v_edges g = a_edge_list a
    /\ (forall n, v_edges_from g n = a_edges_from a n)
    /\ (forall n, v_edges_into g n = a_edges_into a n)
    /\ (forall s d oty, v_get_edge g s d oty = a_get_edge a s d oty)
    /\ (forall s d oty, v_edge_exists g s d oty = a_edge_exists a s d oty)
    /\ (forall n, v_parents g n = a_parents a n)
    /\ (forall n, v_children g n = a_children a n)
    /\ (forall n, v_neighbors g n = a_neighbors a n)
    /\ v_inputs g = a_inputs a
    /\ v_outputs g = a_outputs a
    /\ (forall t, v_edges_of_type g t = a_edges_of_type a t)
    /\ v_nondirected g = a_nondirected a
    /\ (forall n, node_exists g n = a_has_node a n)
    /\ (k = TS ->
        (forall l, v_nodes_at_lag g l = a_nodes_at_lag a l)
        /\ (forall v, v_nodes_for_var g v = a_nodes_for_var a v)
        /\ (forall n, v_contemporaneous g n = a_contemporaneous a n)
        /\ v_variables g = a_variables a
        /\ v_all_variable_names parse g = a_all_variable_names parse a
        /\ v_max_backward g = a_max_backward a
        /\ v_max_forward g = a_max_forward a).
  Proof.
    intros I. cbv zeta.
    split; [apply view_nodes|]. split; [apply view_node_names|]. split; [apply view_edges|].
    split; [apply view_edges_from|]. split; [intros n; apply (view_edges_into k g n I)|].
    split; [intros s d oty; apply (view_get_edge k g s d oty I)|].
    split; [intros s d oty; apply (view_edge_exists k g s d oty I)|].
    split; [intros n; apply (view_parents k g n I)|].
    split; [intros n; apply (view_children k g n I)|].
    split; [intros n; apply (view_neighbors k g n I)|].
    split; [apply (view_inputs k g I)|]. split; [apply view_outputs|].
    split; [apply view_edges_of_type|]. split; [apply view_nondirected|].
    split; [intros n; symmetry; apply abs_has_node|].
    intros ->.
    split; [intros l; apply (view_nodes_at_lag g l I)|].
    split; [intros v; apply (view_nodes_for_var g v I)|].
    split; [intros n; apply (view_contemporaneous g n I)|].
    split; [apply view_variables|]. split; [apply view_all_variable_names|].
    split; [apply view_max_backward|apply view_max_forward].
  Qed.

  (** hence two states with the same abstraction are indistinguishable by the read views *)
  Corollary same_abs_same_views k g h n s d oty :
    Inv k g -> Inv k h -> abs g = abs h ->
    v_nodes g = v_nodes h /\ v_edges g = v_edges h
    /\ v_edges_from g n = v_edges_from h n /\ v_edges_into g n = v_edges_into h n
    /\ v_parents g n = v_parents h n /\ v_children g n = v_children h n
    /\ v_neighbors g n = v_neighbors h n /\ v_inputs g = v_inputs h /\ v_outputs g = v_outputs h
    /\ v_get_edge g s d oty = v_get_edge h s d oty
    /\ v_edge_exists g s d oty = v_edge_exists h s d oty.
  Proof.
    intros Ig Ih E.
    rewrite !view_nodes, !view_edges, !view_edges_from,
      (view_edges_into k g n Ig), (view_edges_into k h n Ih),
      (view_parents k g n Ig), (view_parents k h n Ih),
      (view_children k g n Ig), (view_children k h n Ih),
      (view_neighbors k g n Ig), (view_neighbors k h n Ih),
      (view_inputs k g Ig), (view_inputs k h Ih), !view_outputs,
      (view_get_edge k g s d oty Ig), (view_get_edge k h s d oty Ih),
      (view_edge_exists k g s d oty Ig), (view_edge_exists k h s d oty Ih), E.
    repeat split; reflexivity.
  Qed.
End Views.

(** * 5. The cycle clause of the reference model, in terms of the state BEFORE the insertion

    [s_set_edge] refuses a validated edge [s -> d] when, after its tentative insertion, [d] lies
    on a directed cycle.  In terms of the state before: [d] already lies on a directed cycle
    (only possible after unvalidated additions), or the edge is directed and [d] reaches [s].
    On an acyclic state this is the documented clause "directed and d reaches s". *)

Section SpecFacts.
  Variable parse : name -> option (name * Z).
  Variable k : kind.

  Lemma sp_insert_in (e x : edge) l : In x (insert pair_leb_e e l) <-> x = e \/ In x l.
  Proof.
    split; intros H.
    - apply (Permutation_in _ (Permutation_sym (insert_perm pair_leb_e e l))) in H.
      destruct H as [H|H]; [left; symmetry; exact H|right; exact H].
    - apply (Permutation_in _ (insert_perm pair_leb_e e l)).
      destruct H as [->|H]; [left; reflexivity|right; exact H].
  Qed.

  Lemma a_insert_arc a e x y :
    arc (a_dgraph (a_insert_edge a e)) x y
    <-> arc (a_dgraph a) x y \/ (ety e = Dir /\ x = esrc e /\ y = edst e).
  Proof.
    unfold arc, a_dgraph, a_insert_edge; cbn [arcs a_edges]. rewrite !in_map_iff. split.
    - intros (e' & Hk & Hin). apply filter_In in Hin. destruct Hin as [Hin Hty].
      apply sp_insert_in in Hin. destruct Hin as [->|Hin].
      + right. destruct (etype_eqb_spec (ety e) Dir); [|discriminate].
        unfold edge_key in Hk. injection Hk as <- <-. auto.
      + left. exists e'. split; [exact Hk|]. apply filter_In. auto.
    - intros [(e' & Hk & Hin)|(Hty & -> & ->)].
      + exists e'. split; [exact Hk|]. apply filter_In in Hin. apply filter_In.
        split; [apply sp_insert_in; right; apply Hin|apply Hin].
      + exists e. split; [reflexivity|]. apply filter_In.
        split; [apply sp_insert_in; left; reflexivity|rewrite Hty; reflexivity].
  Qed.

  Lemma spec_dgraph_wf a : spec_wf parse k a -> wf (a_dgraph a).
  Proof.
    intros W. split; [apply (wf_nodes W)|]. intros x y Hxy. cbn [a_dgraph verts].
    unfold arc, a_dgraph in Hxy; cbn [arcs] in Hxy. apply in_map_iff in Hxy.
    destruct Hxy as (e & Hk & Hin). apply filter_In in Hin. destruct Hin as [Hin _].
    unfold edge_key in Hk. injection Hk as <- <-. apply (wf_endpoints W e Hin).
  Qed.

  Theorem s_closes_cycle_spec a e :
    spec_wf parse k a -> In (esrc e) (a_ids a) -> In (edst e) (a_ids a) -> esrc e <> edst e ->
    (s_closes_cycle (a_insert_edge a e) (edst e) = true
     <-> path (a_dgraph a) (edst e) (edst e)
         \/ (ety e = Dir /\ path (a_dgraph a) (edst e) (esrc e))).
  Proof.
    intros W Hs Hd Hne. pose proof (spec_dgraph_wf a W) as [Wnd Warc].
    assert (W' : wf (a_dgraph (a_insert_edge a e))).
    { split; [exact Wnd|]. intros x y Hxy. apply a_insert_arc in Hxy.
      destruct Hxy as [Hxy|(_ & -> & ->)]; [apply Warc, Hxy|split; assumption]. }
    unfold s_closes_cycle. rewrite (reachb_spec name_eqb name_eqb_spec _ _ W').
    destruct (etype_eqb_spec (ety e) Dir) as [Hty|Hty].
    - assert (E : forall x y, path (a_dgraph (a_insert_edge a e)) x y
                              <-> path (add_arc (a_dgraph a) (esrc e) (edst e)) x y).
      { intros x y. split; apply path_mono; intros u v Huv.
        - apply add_arc_arc. apply a_insert_arc in Huv. tauto.
        - apply a_insert_arc. apply add_arc_arc in Huv. tauto. }
      rewrite E, path_add_arc_iff. split.
      + intros [H|[[H|H] _]]; [left; exact H|congruence|right; auto].
      + intros [H|[_ H]]; [left; exact H|right; split; [right; exact H|left; reflexivity]].
    - assert (E : forall x y, path (a_dgraph (a_insert_edge a e)) x y <-> path (a_dgraph a) x y).
      { intros x y. split; apply path_mono; intros u v Huv.
        - apply a_insert_arc in Huv. destruct Huv as [H|[H _]]; [exact H|contradiction].
        - apply a_insert_arc. left; exact Huv. }
      rewrite E. split; [intros H; left; exact H|intros [H|[H _]]; [exact H|contradiction]].
  Qed.

  Corollary s_closes_cycle_acyclic a e :
    spec_wf parse k a -> In (esrc e) (a_ids a) -> In (edst e) (a_ids a) -> esrc e <> edst e ->
    acyclic (a_dgraph a) ->
    s_closes_cycle (a_insert_edge a e) (edst e)
    = etype_eqb (ety e) Dir && reachb name_eqb (a_dgraph a) (edst e) (esrc e).
  Proof.
    intros W Hs Hd Hne Hac. pose proof (spec_dgraph_wf a W) as Wg.
    pose proof (s_closes_cycle_spec a e W Hs Hd Hne) as H.
    destruct (s_closes_cycle (a_insert_edge a e) (edst e)).
    - destruct (proj1 H eq_refl) as [Hp|[Hty Hp]]; [destruct (Hac _ Hp)|].
      rewrite Hty. cbn [etype_eqb andb]. symmetry.
      apply (reachb_spec name_eqb name_eqb_spec _ _ Wg), Hp.
    - destruct (etype_eqb_spec (ety e) Dir) as [Hty|Hty]; [|reflexivity]. cbn [andb].
      destruct (reachb name_eqb (a_dgraph a) (edst e) (esrc e)) eqn:R; [|reflexivity].
      apply (reachb_spec name_eqb name_eqb_spec _ _ Wg) in R.
      assert (Hcontra : false = true) by (apply H; right; auto). discriminate.
  Qed.
End SpecFacts.

(** * Non-vacuity and pinned behaviour (codec instantiated with Names.parse / Names.fmt)

    The history below mixes every kind of call, accepted and rejected, on both classes.  It was
    replayed on the real [TimeSeriesCausalGraph] / [CausalGraph]: the exception classes, the final
    node order and the final edge list are the ones stated here.  The equalities between the
    concrete run and the run of the reference model are checked by [vm_compute] on BOTH sides,
    independently of the theorems above. *)
From CG Require Names.

Module SpecExamples.
  Definition P := Names.parse.
  Definition F := Names.fmt.

  Definition nX : name := [88%N].
  Definition nY : name := [89%N].
  Definition nZ : name := [90%N].
  Definition nW : name := [87%N].
  Definition nV : name := [86%N].
  Definition nP : name := [80%N].
  Definition nQ : name := [81%N].
  Definition nX1 : name := Eval vm_compute in Names.render nX (-1).   (* "X lag(n=1)" *)
  Definition nY1 : name := Eval vm_compute in Names.render nY (-1).   (* "Y lag(n=1)" *)
  Definition nBad : name := Eval vm_compute in Names.render nX1 (-2). (* "X lag(n=1) lag(n=2)" *)

  Definition ex_ops : list op :=
    [ OAddNodeVL nX (-1) VCont None;
      OAddTimeEdge nX (-1) nX 0 None true;
      OAddEdge (str_ep nY) (str_ep nX) Und None true;
      OAddTimeEdge nY (-1) nY 0 (Some [(nX, JInt 3)]) true;
      OAddEdge (str_ep nY) (str_ep nY1) Bi None true;          (* TS: duplicate after the swap *)
      OAddEdge (str_ep nX) (str_ep nX1) Dir None true;         (* TS: backwards in time *)
      OAddEdge (str_ep nY1) (str_ep nX) Dir None true;
      OChangeEdgeType nY1 nX UnkDir;
      OAddEdge (str_ep nX) (str_ep nY) Dir None true;          (* reverse exists *)
      OReplaceNode nY None None None (Some VBin) (Some [(nY, JBool true)]);
      OAddEdge (str_ep nX) (str_ep nX) Dir None true;          (* self loop *)
      OAddEdge (str_ep nX) (nZ, Some (VOrd, [(nX, JNull)])) Dir None true;  (* Node object *)
      OAddEdge (str_ep nZ) (str_ep nY) Dir None true;
      OChangeEdgeType nY nX Dir;                               (* would close X -> Z -> Y -> X *)
      OAddEdge (str_ep nBad) (str_ep nX) Dir None true;        (* TS: unparsable source *)
      OAddEdge (str_ep nQ) (str_ep nBad) Dir None true;        (* TS: Q created, then removed *)
      ODeleteEdge nX nY None;                                  (* stored as Y -- X *)
      ODeleteEdge nQ nX None;
      OAddNode nX VUnspec None;
      OAddNodeObj nX VUnspec [];
      OReplaceNode nX None (Some (-2)%Z) None None None;       (* TS: a copy against time *)
      OReplaceNode nZ (Some nW) None None None None;           (* rename Z to W *)
      OAddEdgesFrom [(nW, nV); (nV, nX); (nX, nQ)] true;       (* second edge closes a cycle *)
      OAddPath [nY1; nY; nP] true;
      OAddPaths [];
      OAddEdge (str_ep nV) (str_ep nX) Dir None false;         (* unvalidated: X -> W -> V -> X *)
      OAddEdge (str_ep nQ) (str_ep nX) Und None true;          (* X already on a cycle *)
      OReplaceEdge nY nX nX1 nY (Some Bi) None;
      OReplaceEdge nY1 nX nV nW None None;                     (* reverse of W -> V: restored *)
      ODeleteNode nQ;
      ODeleteNode nP;
      ODeleteNode nP;
      OAddNodesFrom [nP; nQ; nX];                              (* P, Q stay *)
      OAddFullyConnected [nP; nQ] [nY1];
      OAddFullyConnected [nX1] [nP; nQ] ].

  (** the outcomes observed on the real time-series class *)
  Example ex_ts_outcomes :
    outcomes P F TS (empty_graph []) ex_ops
    = [None; None; None; None; Some EEdgeDup; Some EValue; None; None; Some EReverse; None;
       Some ECyclic; None; None; Some ECyclic; Some EValue; Some EValue; Some EEdgeMissing;
       Some ENodeMissing; Some ENodeDup; Some ENodeDup; Some EValue; None; Some ECyclic; None;
       Some EAssert; None; Some ECyclic; None; Some EReverse; Some EKey; None; Some EKey;
       Some ENodeDup; Some EValue; None].
  Proof. vm_compute. reflexivity. Qed.

  (** ... and on the plain class (the time-series calls are refused) *)
  Example ex_plain_outcomes :
    outcomes P F Plain (empty_graph []) ex_ops
    = [Some EType; Some EType; None; Some EType; None; None; None; None; Some EReverse; None;
       Some ECyclic; None; None; Some ECyclic; None; None; Some EEdgeMissing; Some EEdgeMissing;
       Some ENodeDup; Some ENodeDup; Some EType; None; Some ECyclic; Some EReverse; Some EAssert;
       None; Some ECyclic; None; Some EReverse; None; Some EKey; Some EKey; Some ENodeDup; None;
       None].
  Proof. vm_compute. reflexivity. Qed.

  (** the refinement on this history, by computation on both sides *)
  Example ex_ts_refines :
    abs (run P F TS ex_ops (empty_graph [])) = s_run P F TS ex_ops a_empty
    /\ outcomes P F TS (empty_graph []) ex_ops = s_outcomes P F TS a_empty ex_ops.
  Proof. split; vm_compute; reflexivity. Qed.

  Example ex_plain_refines :
    abs (run P F Plain ex_ops (empty_graph [])) = s_run P F Plain ex_ops a_empty
    /\ outcomes P F Plain (empty_graph []) ex_ops = s_outcomes P F Plain a_empty ex_ops.
  Proof. split; vm_compute; reflexivity. Qed.

  (** the same, after every prefix of the history *)
  Fixpoint abs_trace (k : kind) (g : graph) (ops : list op) : list aspec :=
    match ops with
    | [] => []
    | o :: r => abs (step P F k g o) :: abs_trace k (step P F k g o) r
    end.
  Fixpoint s_trace (k : kind) (a : aspec) (ops : list op) : list aspec :=
    match ops with
    | [] => []
    | o :: r => s_step P F k a o :: s_trace k (s_step P F k a o) r
    end.
  Example ex_ts_refines_stepwise :
    abs_trace TS (empty_graph []) ex_ops = s_trace TS a_empty ex_ops
    /\ abs_trace Plain (empty_graph []) ex_ops = s_trace Plain a_empty ex_ops.
  Proof. split; vm_compute; reflexivity. Qed.

  (** the final abstract state (as on the implementation) *)
  Definition ex_final : aspec := Eval vm_compute in s_run P F TS ex_ops a_empty.

  Example ex_final_shape :
    a_ids ex_final = [nX1; nX; nY; nY1; nW; nV; nP; nQ]
    /\ map (fun e => (esrc e, edst e, ety e)) (a_edges ex_final)
       = [(nV, nX, Dir); (nW, nV, Dir); (nW, nY, Dir); (nX, nW, Dir); (nX1, nP, Dir);
          (nX1, nQ, Dir); (nX1, nX, Dir); (nX1, nY, Bi); (nY1, nX, UnkDir); (nY1, nY, Dir)]
    /\ lookup nW (a_nodes ex_final)
       = Some (VOrd, [(nX, JNull); (k_time_lag, JInt 0); (k_variable_name, JStr nW)])
    /\ option_map emeta (a_edge_at ex_final nY1 nY) = Some [(nX, JInt 3)].
  Proof. vm_compute. repeat split; reflexivity. Qed.

  Example ex_final_wf : spec_wf P TS ex_final.
  Proof.
    assert (E : ex_final = s_run P F TS ex_ops a_empty) by (vm_compute; reflexivity).
    rewrite E. apply s_run_wf.
  Qed.

  (** the hypotheses of the theorems hold of a non-trivial state, and the views computed from
      the abstract state are the ones of the concrete state *)
  Definition ex_g : graph := Eval vm_compute in run P F TS ex_ops (empty_graph []).

  Example ex_g_inv : Inv P TS ex_g.
  Proof.
    assert (E : ex_g = run P F TS ex_ops (empty_graph [])) by (vm_compute; reflexivity).
    rewrite E. apply GraphInvProofs.inv_run.
  Qed.

  Example ex_g_views :
    abs ex_g = ex_final
    /\ a_parents ex_final nX = Ok [nV; nX1] /\ v_parents ex_g nX = Ok [nV; nX1]
    /\ a_neighbors ex_final nY = Ok [nW; nX1; nY1]
    /\ a_inputs ex_final = [nX1; nY1] /\ a_outputs ex_final = [nP; nQ; nY]
    /\ a_nodes_at_lag ex_final (-1) = [nX1; nY1] /\ v_nodes_at_lag ex_g (-1) = [nX1; nY1]
    /\ a_max_backward ex_final = Ok (Some 1%Z).
  Proof. vm_compute. repeat split; reflexivity. Qed.

  (** [abs] identifies states that differ in private insertion orders only: the rejected
      change_edge_type (14th call) leaves a DIFFERENT concrete state with the SAME abstraction *)
  Definition ex_g13 : graph := Eval vm_compute in run P F TS (firstn 13 ex_ops) (empty_graph []).
  Definition ex_g14 : graph := Eval vm_compute in step P F TS ex_g13 (OChangeEdgeType nY nX Dir).

  Example ex_abs_quotient :
    map edge_key (gsrc ex_g14) <> map edge_key (gsrc ex_g13)
    /\ outcome P F TS ex_g13 (OChangeEdgeType nY nX Dir) = Some ECyclic
    /\ equiv ex_g14 ex_g13 /\ abs ex_g14 = abs ex_g13.
  Proof.
    split; [vm_compute; discriminate|]. split; [vm_compute; reflexivity|].
    split; [|vm_compute; reflexivity].
    assert (I : Inv P TS ex_g13).
    { assert (E : ex_g13 = run P F TS (firstn 13 ex_ops) (empty_graph []))
        by (vm_compute; reflexivity).
      rewrite E. apply GraphInvProofs.inv_run. }
    assert (E : ex_g14 = step P F TS ex_g13 (OChangeEdgeType nY nX Dir))
      by (vm_compute; reflexivity).
    rewrite E. apply (failed_step_equiv P F TS ex_g13 (OChangeEdgeType nY nX Dir) ECyclic I).
    - reflexivity.
    - vm_compute. reflexivity.
  Qed.

  (** the cycle clause: the validated undirected add Q -- X (27th call) is refused because X
      already lies on the directed cycle X -> W -> V -> X made by the unvalidated 26th call;
      on the acyclic state before it, the clause is "directed and d reaches s" *)
  Definition ex_a25 : aspec := Eval vm_compute in s_run P F TS (firstn 25 ex_ops) a_empty.
  Definition ex_a26 : aspec := Eval vm_compute in s_run P F TS (firstn 26 ex_ops) a_empty.
  Example ex_cycle_clause :
    acyclicb name_eqb (a_dgraph ex_a25) = true
    /\ acyclicb name_eqb (a_dgraph ex_a26) = false
    /\ s_closes_cycle ex_a26 nX = true
    /\ s_outcome P F TS ex_a26 (OAddEdge (str_ep nQ) (str_ep nX) Und None true) = Some ECyclic
    /\ s_outcome P F TS ex_a25 (OAddEdge (str_ep nQ) (str_ep nX) Und None true) = None
    /\ s_outcome P F TS ex_a25 (OAddEdge (str_ep nV) (str_ep nX) Dir None true) = Some ECyclic.
  Proof. vm_compute. repeat split; reflexivity. Qed.
End SpecExamples.

(** * 6. The reference model on its own state space

    [abs] is onto the well-formed abstract states ([abs_surjective]: a concrete representative
    is built with empty insertion history), so the refinement theorem speaks about EVERY
    well-formed abstract state, and the reference model preserves [spec_wf] (uniquely named
    nodes, at most one edge per pair of nodes, ...) from every well-formed state — not only
    from those reached from the empty graph ([s_run_wf]). *)

Section Surjective.
  Variable parse : name -> option (name * Z).
  Variable fmt : name -> Z -> option name.
  Notation Inv := (Inv parse).

  Definition conc_node (a : aspec) (p : name * (vtype * meta)) : node :=
    {| nid := fst p; nvt := fst (snd p); nmeta := snd (snd p);
       ninb := map esrc (filter (fun e => etype_eqb (ety e) Dir && name_eqb (fst p) (edst e))
                           (a_edges a));
       noutb := map edst (filter (fun e => etype_eqb (ety e) Dir && name_eqb (fst p) (esrc e))
                            (a_edges a)) |}.

  (** a concrete representative (the defaults below are never reached on a well-formed
      time-series state, whose nodes all carry both tags) *)
  Definition conc (k : kind) (a : aspec) : graph :=
    {| gnodes := map (conc_node a) (a_nodes a);
       gsrc := a_edges a; gdst := a_edges a; gmeta := [];
       glag := match k with
               | Plain => []
               | TS => map (fun p => (match meta_lag (snd (snd p)) with Some l => l | None => 0%Z end,
                                      fst p)) (a_nodes a)
               end;
       gvar := match k with
               | Plain => []
               | TS => map (fun p => (match meta_var (snd (snd p)) with Some v => v | None => [] end,
                                      fst p)) (a_nodes a)
               end |}.

  Lemma sp_Forall2_map2 {A B C} (R : B -> C -> Prop) (f : A -> B) (h : A -> C) l :
    (forall x, In x l -> R (f x) (h x)) -> Forall2 R (map f l) (map h l).
  Proof.
    induction l as [|x l IH]; intros H; cbn [map]; constructor.
    - apply H. left; reflexivity.
    - apply IH. intros y Hy. apply H. right; exact Hy.
  Qed.

  Lemma conc_ids k a : node_ids (conc k a) = a_ids a.
  Proof. unfold node_ids, a_ids, conc; cbn [gnodes]. rewrite map_map. reflexivity. Qed.

  Lemma conc_find_node a id ns :
    find_node id (map (conc_node a) ns) = option_map (conc_node a) (
      match lookup id ns with Some v => Some (id, v) | None => None end).
  Proof.
    induction ns as [|[i v] ns IH]; simpl; [reflexivity|].
    destruct (name_eqb_spec id i) as [->|_]; [reflexivity|exact IH].
  Qed.

  Lemma conc_lag k a id : node_lag (conc k a) id = a_lag a id.
  Proof.
    unfold node_lag, get_node, a_lag, conc; cbn [gnodes]. rewrite conc_find_node.
    destruct (lookup id (a_nodes a)) as [[vt m]|]; reflexivity.
  Qed.

  Lemma conc_inv k a : spec_wf parse k a -> Inv k (conc k a).
  Proof.
    intros W. constructor.
    - rewrite conc_ids. apply (wf_nodes W).
    - reflexivity.
    - apply (wf_keys W).
    - intros e He. rewrite conc_ids. apply (wf_endpoints W e He).
    - apply (wf_noloop W).
    - apply (wf_one_per_pair W).
    - intros n Hn. cbn [conc gnodes] in Hn. apply in_map_iff in Hn.
      destruct Hn as (p & <- & _). reflexivity.
    - intros n Hn. cbn [conc gnodes] in Hn. apply in_map_iff in Hn.
      destruct Hn as (p & <- & _). reflexivity.
    - intros ->. split; reflexivity.
    - intros ->. constructor.
      + intros n Hn. cbn [conc gnodes] in Hn. apply in_map_iff in Hn.
        destruct Hn as ([id [vt m]] & <- & Hp). cbn [conc_node nid nmeta fst snd].
        apply (wf_ts_nodes W eq_refl id vt m Hp).
      + cbn [conc glag gnodes]. apply sp_Forall2_map2. intros [id [vt m]] Hp.
        cbn [fst snd conc_node nid nmeta]. split; [reflexivity|].
        destruct (wf_ts_nodes W eq_refl id vt m Hp) as (v & l & _ & _ & ->). reflexivity.
      + cbn [conc gvar gnodes]. apply sp_Forall2_map2. intros [id [vt m]] Hp.
        cbn [fst snd conc_node nid nmeta]. split; [reflexivity|].
        destruct (wf_ts_nodes W eq_refl id vt m Hp) as (v & l & _ & -> & _). reflexivity.
      + intros e He. rewrite !conc_lag. apply (wf_ts_time W eq_refl e He).
  Qed.

  Lemma abs_conc k a : spec_wf parse k a -> abs (conc k a) = a.
  Proof.
    intros W. destruct a as [ns es]. unfold abs, conc; cbn [gnodes gsrc a_nodes a_edges].
    f_equal.
    - rewrite map_map. rewrite <- (map_id ns) at 2. apply map_ext.
      intros [id [vt m]]. reflexivity.
    - unfold sorted_edges; cbn [gsrc]. apply at_sorted_perm_eq_keyed.
      + eapply at_nodup_keys_perm; [apply isort_perm|apply (wf_keys W)].
      + apply sp_edges_sorted.
      + apply (wf_sorted W).
      + symmetry. apply isort_perm.
  Qed.

  Theorem abs_surjective k a : spec_wf parse k a -> exists g, Inv k g /\ abs g = a.
  Proof. intros W. exists (conc k a). split; [apply conc_inv, W|apply abs_conc, W]. Qed.

  (** the reference model preserves well-formedness, from ANY well-formed state *)
  Theorem s_run_op_wf k a o :
    spec_wf parse k a ->
    spec_wf parse k (s_step parse fmt k a o)
    /\ (forall a', fst (s_run_op parse fmt k a o) = Ok a' -> spec_wf parse k a').
  Proof.
    intros W. destruct (abs_surjective k a W) as (g & I & <-).
    destruct (refines_run_op parse fmt k g o I) as [R1 R2]. split.
    - unfold s_step. rewrite <- R1. apply abs_wf.
      apply (GraphInvProofs.inv_step parse fmt k g o I).
    - intros a' Ha'. rewrite Ha' in R2.
      destruct (fst (run_op parse fmt k g o)) as [g'|x] eqn:Hr; cbn in R2; [|contradiction].
      subst a'. apply abs_wf. apply (GraphInvProofs.inv_run_op_ok parse fmt k g o g' I Hr).
  Qed.

  Corollary s_run_wf_from k ops : forall a,
    spec_wf parse k a -> spec_wf parse k (s_run parse fmt k ops a).
  Proof.
    induction ops as [|o ops IH]; intros a W; cbn; [exact W|].
    apply IH. exact (proj1 (s_run_op_wf k a o W)).
  Qed.

  (** at most one edge between two nodes, whatever the orientation, in every well-formed state *)
  Theorem spec_one_edge_per_pair k a x y :
    spec_wf parse k a ->
    length (filter (fun e => (name_eqb x (esrc e) && name_eqb y (edst e))
                             || (name_eqb y (esrc e) && name_eqb x (edst e))) (a_edges a)) <= 1.
  Proof.
    intros W. apply GraphInvProofs.one_edge_list; [apply (wf_keys W)|apply (wf_one_per_pair W)].
  Qed.

  (** a rejected single-element call leaves the abstract state unchanged (by definition of the
      reference model; for the concrete model this is C03, [failed_step_equiv]) *)
  Theorem s_failed_step_noop k a o e :
    single_element o = true -> s_outcome parse fmt k a o = Some e -> s_step parse fmt k a o = a.
  Proof.
    unfold s_outcome, s_step. destruct o; cbn [single_element s_run_op]; try discriminate;
      intros _;
      match goal with |- context [s_lift a ?r] => destruct r; cbn; [discriminate|reflexivity] end.
  Qed.
End Surjective.

Module SpecExamples2.
  Import SpecExamples.

  (** the hypotheses of [s_closes_cycle_acyclic] hold on the 25-call state with the edge V -> X *)
  Example ex_cycle_clause_hyps :
    let e := {| esrc := nV; edst := nX; ety := Dir; emeta := [] |} in
    spec_wf P TS ex_a25 /\ In (esrc e) (a_ids ex_a25) /\ In (edst e) (a_ids ex_a25)
    /\ esrc e <> edst e /\ Digraph.acyclic (a_dgraph ex_a25)
    /\ s_closes_cycle (a_insert_edge ex_a25 e) (edst e) = true.
  Proof.
    cbv zeta.
    assert (W : spec_wf P TS ex_a25).
    { assert (E : ex_a25 = s_run P F TS (firstn 25 ex_ops) a_empty) by (vm_compute; reflexivity).
      rewrite E. apply s_run_wf. }
    split; [exact W|]. split; [vm_compute; tauto|]. split; [vm_compute; tauto|].
    split; [vm_compute; discriminate|]. split; [|vm_compute; reflexivity].
    apply (DigraphProofs.acyclicb_spec name_eqb name_eqb_spec (spec_dgraph_wf P TS ex_a25 W)).
    vm_compute. reflexivity.
  Qed.

  (** [conc] computes a concrete representative of an abstract state given directly (the final
      example state with its node order reversed) *)
  Definition ex_rev : aspec := {| a_nodes := rev (a_nodes ex_final); a_edges := a_edges ex_final |}.
  Example ex_rev_conc : abs (conc TS ex_rev) = ex_rev /\ a_ids ex_rev = rev (a_ids ex_final).
  Proof. split; vm_compute; reflexivity. Qed.
End SpecExamples2.
