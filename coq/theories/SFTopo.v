(** SFTopo.v — one regenerated-source fact (see SourceFacts.v); a closed computation on Extracted.v. *)
From Coq Require Import String List Bool.
From CG Require Import Extracted SourceFacts.
Import ListNotations.
Local Open Scope string_scope.

Lemma topological_order_defaults : topological_order_defaults_ok = true.
Proof. vm_compute; reflexivity. Qed.
