(** IdentifyProofs.v — proofs about the model of identify_utils.py in Identify.v.

    The generic section [IdentifyGen] takes the characterisations of [desc] / [anc]
    ([desc_spec] / [anc_spec] of DigraphProofs.v) as section hypotheses; the last section of
    the file instantiates them, so that the final theorems are closed. *)
From Coq Require Import Relations.Relation_Operators.
From CG Require Import Base Digraph Identify.
Set Implicit Arguments.

Section IdentifyGen.
  Variable A : Type.
  Variable eqb : A -> A -> bool.
  Hypothesis eqb_spec : forall x y, reflect (x = y) (eqb x y).
  Hypothesis Hdesc : forall (g : digraph A) x y, wf g -> (In y (desc eqb g x) <-> path g x y).
  Hypothesis Hanc : forall (g : digraph A) x y, wf g -> (In y (anc eqb g x) <-> path g y x).

  (** * Small local facts (prefixed [id_]) *)

  Lemma id_eqb_refl x : eqb x x = true.
  Proof. destruct (eqb_spec x x) as [_|Hn]; [reflexivity|contradiction]. Qed.

  Lemma id_eqb_eq x y : eqb x y = true <-> x = y.
  Proof. destruct (eqb_spec x y); split; congruence. Qed.

  Lemma id_eqb_neq x y : eqb x y = false <-> x <> y.
  Proof. destruct (eqb_spec x y); split; congruence. Qed.

  Lemma id_memb_in x l : memb eqb x l = true <-> In x l.
  Proof.
    unfold memb; rewrite existsb_exists; split.
    - intros (y & Hy & E). apply id_eqb_eq in E; subst; exact Hy.
    - intros H; exists x; split; [exact H|apply id_eqb_refl].
  Qed.

  Lemma id_memb_false x l : memb eqb x l = false <-> ~ In x l.
  Proof. rewrite <- id_memb_in; destruct (memb eqb x l); split; congruence. Qed.

  Lemma id_union_cons a l1 l2 :
    union eqb (a :: l1) l2 =
    if memb eqb a (union eqb l1 l2) then union eqb l1 l2 else a :: union eqb l1 l2.
  Proof. reflexivity. Qed.

  Lemma id_union_in x l1 l2 : In x (union eqb l1 l2) <-> In x l1 \/ In x l2.
  Proof.
    induction l1 as [|a l1 IH].
    - simpl; tauto.
    - rewrite id_union_cons. destruct (memb eqb a (union eqb l1 l2)) eqn:E.
      + rewrite IH. split; [simpl; tauto|].
        intros [[Ha|Hl]|Hr]; [|left; exact Hl|right; exact Hr].
        subst a. apply id_memb_in in E. apply IH in E. exact E.
      + simpl. rewrite IH. tauto.
  Qed.

  Lemma id_inter_in x l1 l2 : In x (inter eqb l1 l2) <-> In x l1 /\ In x l2.
  Proof. unfold inter. rewrite filter_In, id_memb_in. tauto. Qed.

  Lemma id_diff_in x l1 l2 : In x (diff eqb l1 l2) <-> In x l1 /\ ~ In x l2.
  Proof. unfold diff. rewrite filter_In, negb_true_iff, id_memb_false. tauto. Qed.

  Lemma id_parents_in (g : digraph A) x y : In y (parents eqb g x) <-> arc g y x.
  Proof.
    unfold parents, arc. rewrite in_map_iff. split.
    - intros ([a b] & Hf & Hin). simpl in Hf. subst a.
      apply filter_In in Hin. destruct Hin as [Hin Hb]. simpl in Hb.
      apply id_eqb_eq in Hb. subst b. exact Hin.
    - intros H. exists (y, x). split; [reflexivity|].
      apply filter_In. split; [exact H|]. simpl. apply id_eqb_refl.
  Qed.

  Lemma id_children_in (g : digraph A) x y : In y (children eqb g x) <-> arc g x y.
  Proof.
    unfold children, arc. rewrite in_map_iff. split.
    - intros ([a b] & Hf & Hin). simpl in Hf. subst b.
      apply filter_In in Hin. destruct Hin as [Hin Ha]. simpl in Ha.
      apply id_eqb_eq in Ha. subst a. exact Hin.
    - intros H. exists (x, y). split; [reflexivity|].
      apply filter_In. split; [exact H|]. simpl. apply id_eqb_refl.
  Qed.

  Lemma id_path_arc (g : digraph A) a b : arc g a b -> path g a b.
  Proof. intros H. apply t_step. exact H. Qed.

  Lemma id_path_trans (g : digraph A) a b c : path g a b -> path g b c -> path g a c.
  Proof. intros H1 H2. eapply t_trans; eassumption. Qed.

  Lemma id_path_mono (g1 g2 : digraph A) :
    (forall a b, arc g1 a b -> arc g2 a b) -> forall x y, path g1 x y -> path g2 x y.
  Proof.
    intros Hs x y Hp. unfold path in *.
    induction Hp as [x y Harc | x y z _ IH1 _ IH2].
    - apply t_step. apply Hs. exact Harc.
    - eapply t_trans; eassumption.
  Qed.

  Lemma id_path_in_verts (g : digraph A) x y :
    wf g -> path g x y -> In x (verts g) /\ In y (verts g).
  Proof.
    intros [_ Hw] Hp. unfold path in Hp.
    induction Hp as [x y Harc | x y z _ IH1 _ IH2].
    - apply Hw. exact Harc.
    - split; [apply IH1|apply IH2].
  Qed.

  Lemma id_del_arc (g : digraph A) xs a b :
    arc (del_arcs_from eqb g xs) a b <-> arc g a b /\ ~ In a xs.
  Proof.
    unfold arc, del_arcs_from; simpl. rewrite filter_In. simpl.
    rewrite negb_true_iff, id_memb_false. tauto.
  Qed.

  Lemma id_del_wf (g : digraph A) xs : wf g -> wf (del_arcs_from eqb g xs).
  Proof.
    intros [Hnd Harc]. split; [exact Hnd|].
    intros a b Hab. apply id_del_arc in Hab. apply Harc. tauto.
  Qed.

  Lemma id_del_path (g : digraph A) xs x y : path (del_arcs_from eqb g xs) x y -> path g x y.
  Proof. apply id_path_mono. intros a b Hab. apply id_del_arc in Hab. tauto. Qed.

  Lemma id_del_acyclic (g : digraph A) xs : acyclic g -> acyclic (del_arcs_from eqb g xs).
  Proof. intros Hac v Hv. apply (Hac v). eapply id_del_path. exact Hv. Qed.

  Lemma id_filter_length_le (f : A -> bool) l : length (filter f l) <= length l.
  Proof. induction l as [|a l IH]; simpl; [lia|]. destruct (f a); simpl; lia. Qed.

  Lemma id_filter_neq_length p l :
    In p l -> length (filter (fun a => negb (eqb a p)) l) < length l.
  Proof.
    induction l as [|a l IH]; intros Hin; [destruct Hin|].
    simpl. destruct (eqb_spec a p) as [->|Hne]; simpl.
    - pose proof (id_filter_length_le (fun a => negb (eqb a p)) l). lia.
    - destruct Hin as [Heq|Hin]; [contradiction|]. specialize (IH Hin). lia.
  Qed.

  (** * [id_collect] *)

  Lemma id_collect_some l :
    (forall o, In o l -> o <> None) -> exists R, id_collect eqb l = Some R.
  Proof.
    induction l as [|o l IH]; intros Hall; simpl.
    - exists []. reflexivity.
    - destruct o as [s|]; [|exfalso; apply (Hall None); [left|]; reflexivity].
      destruct IH as [R HR]; [intros o Ho; apply Hall; right; exact Ho|].
      rewrite HR. eexists. reflexivity.
  Qed.

  Lemma id_collect_all_some l R o :
    id_collect eqb l = Some R -> In o l -> exists s, o = Some s.
  Proof.
    revert R; induction l as [|o' l IH]; intros R H Hin; [destruct Hin|].
    simpl in H. destruct o' as [s|]; [|discriminate].
    destruct (id_collect eqb l) as [r|] eqn:E; [|discriminate].
    destruct Hin as [<-|Hin]; [eexists; reflexivity|]. eapply IH; [reflexivity|exact Hin].
  Qed.

  Lemma id_collect_in l R :
    id_collect eqb l = Some R -> forall z, In z R <-> exists s, In (Some s) l /\ In z s.
  Proof.
    revert R; induction l as [|o l IH]; intros R H z.
    - simpl in H. injection H as <-. split; [intros []|intros (s & [] & _)].
    - simpl in H. destruct o as [s|]; [|discriminate].
      destruct (id_collect eqb l) as [r|] eqn:E; [|discriminate].
      injection H as <-. rewrite id_union_in, (IH r eq_refl). split.
      + intros [Hz|(s' & Hs' & Hz)].
        * exists s. split; [left; reflexivity|exact Hz].
        * exists s'. split; [right; exact Hs'|exact Hz].
      + intros (s' & [Hs'|Hs'] & Hz).
        * injection Hs' as ->. left. exact Hz.
        * right. exists s'. split; assumption.
  Qed.

  Lemma id_collect_map_ext (F F' : A -> option (list A)) l R :
    (forall p s, In p l -> F p = Some s -> F' p = Some s) ->
    id_collect eqb (map F l) = Some R -> id_collect eqb (map F' l) = Some R.
  Proof.
    revert R; induction l as [|a l IH]; intros R Hext H; [exact H|].
    simpl in H |- *. destruct (F a) as [s|] eqn:Ea; [|discriminate].
    destruct (id_collect eqb (map F l)) as [r|] eqn:Er; [|discriminate].
    rewrite (Hext a s (or_introl eq_refl) Ea).
    rewrite (IH r); [exact H| |reflexivity].
    intros p s' Hp. apply Hext. right. exact Hp.
  Qed.

  (** * 1. The fuel of [conf_search] suffices on a well-formed acyclic graph *)

  Lemma id_conf_search_S fuel (g : digraph A) n1 n2 :
    conf_search eqb (S fuel) g n1 n2 =
    id_collect eqb
      (map (fun p => if memb eqb p (anc eqb (del_arcs_from eqb g [n1; n2]) n2) then Some [p]
                     else conf_search eqb fuel (del_arcs_from eqb g [n1; n2]) p n2)
           (parents eqb (del_arcs_from eqb g [n1; n2]) n1)).
  Proof. reflexivity. Qed.

  (** Each recursive call moves to a strict ancestor of [n1]: a duplicate-free list [l] that
      contains all strict ancestors of [n1] bounds the recursion depth. *)
  Lemma id_conf_search_fuel_aux fuel : forall (g : digraph A) n1 n2 l,
    wf g -> acyclic g -> NoDup l -> (forall a, path g a n1 -> In a l) -> length l < fuel ->
    conf_search eqb fuel g n1 n2 <> None.
  Proof.
    induction fuel as [|fuel IH]; intros g n1 n2 l Hwf Hac Hnd Hl Hlen; [lia|].
    rewrite id_conf_search_S.
    set (g' := del_arcs_from eqb g [n1; n2]).
    match goal with |- id_collect eqb ?L <> None =>
      destruct (@id_collect_some L) as [R HR]; [|rewrite HR; discriminate] end.
    intros o Ho. apply in_map_iff in Ho. destruct Ho as (p & Hp & Hpin). subst o.
    destruct (memb eqb p (anc eqb g' n2)); [discriminate|].
    apply id_parents_in in Hpin.
    assert (Harc : arc g p n1) by (apply id_del_arc in Hpin; tauto).
    apply IH with (l := filter (fun a => negb (eqb a p)) l).
    - apply id_del_wf; exact Hwf.
    - apply id_del_acyclic; exact Hac.
    - apply NoDup_filter; exact Hnd.
    - intros a Ha. apply id_del_path in Ha. apply filter_In. split.
      + apply Hl. eapply id_path_trans; [exact Ha|apply id_path_arc; exact Harc].
      + apply negb_true_iff, id_eqb_neq. intros ->. apply (Hac p). exact Ha.
    - pose proof (id_filter_neq_length p l (Hl p (id_path_arc _ _ _ Harc))). lia.
  Qed.

  Theorem conf_search_fuel_gen (g : digraph A) n1 n2 :
    wf g -> acyclic g -> conf_search eqb (length (verts g) + 1) g n1 n2 <> None.
  Proof.
    intros Hwf Hac. apply id_conf_search_fuel_aux with (l := verts g).
    - exact Hwf.
    - exact Hac.
    - apply Hwf.
    - intros a Ha. apply (id_path_in_verts Hwf Ha).
    - lia.
  Qed.

  Lemma id_conf_search_mono_S fuel : forall (g : digraph A) n1 n2 R,
    conf_search eqb fuel g n1 n2 = Some R -> conf_search eqb (S fuel) g n1 n2 = Some R.
  Proof.
    induction fuel as [|fuel IH]; intros g n1 n2 R H; [discriminate|].
    rewrite id_conf_search_S in H. rewrite id_conf_search_S.
    eapply id_collect_map_ext; [|exact H].
    intros p s _ Hp. simpl in Hp |- *.
    destruct (memb eqb p (anc eqb (del_arcs_from eqb g [n1; n2]) n2)); [exact Hp|].
    apply IH. exact Hp.
  Qed.

  (** More fuel gives the same answer. *)
  Theorem conf_search_mono_gen fuel fuel' (g : digraph A) n1 n2 R :
    fuel <= fuel' -> conf_search eqb fuel g n1 n2 = Some R ->
    conf_search eqb fuel' g n1 n2 = Some R.
  Proof.
    intros Hle H. induction Hle as [|m _ IH]; [exact H|].
    apply id_conf_search_mono_S. exact IH.
  Qed.

  Theorem confounders_some_gen (g : digraph A) x y :
    wf g -> acyclic g -> exists Z, confounders eqb g x y = Some Z.
  Proof.
    intros Hwf Hac. unfold confounders, conf_fuel.
    destruct (conf_search eqb (length (verts g) + 1) g x y) as [c1|] eqn:E1;
      [|exfalso; exact (conf_search_fuel_gen x y Hwf Hac E1)].
    destruct (conf_search eqb (length (verts g) + 1) g y x) as [c2|] eqn:E2;
      [|exfalso; exact (conf_search_fuel_gen y x Hwf Hac E2)].
    eexists. reflexivity.
  Qed.

  (** * 2. Every returned node is a strict common ancestor *)

  Lemma id_conf_search_anc fuel : forall (g : digraph A) n1 n2 R,
    wf g -> conf_search eqb fuel g n1 n2 = Some R ->
    forall z, In z R -> path g z n1 /\ path g z n2.
  Proof.
    induction fuel as [|fuel IH]; intros g n1 n2 R Hwf H z Hz; [discriminate|].
    rewrite id_conf_search_S in H.
    set (g' := del_arcs_from eqb g [n1; n2]) in *.
    assert (Hwf' : wf g') by (apply id_del_wf; exact Hwf).
    apply (id_collect_in _ H) in Hz. destruct Hz as (s & Hs & Hzs).
    apply in_map_iff in Hs. destruct Hs as (p & Hp & Hpin).
    apply id_parents_in in Hpin.
    assert (Harc : arc g p n1) by (apply id_del_arc in Hpin; tauto).
    destruct (memb eqb p (anc eqb g' n2)) eqn:E.
    - injection Hp as <-. destruct Hzs as [<-|[]].
      split; [apply id_path_arc; exact Harc|].
      apply id_memb_in in E. apply (Hanc _ _ Hwf') in E.
      eapply id_del_path; exact E.
    - destruct (IH g' p n2 s Hwf' Hp z Hzs) as [H1 H2]. split.
      + eapply id_path_trans; [eapply id_del_path; exact H1|apply id_path_arc; exact Harc].
      + eapply id_del_path; exact H2.
  Qed.

  Theorem conf_common_ancestors_gen (g : digraph A) x y Z :
    wf g -> confounders eqb g x y = Some Z ->
    forall z, In z Z -> path g z x /\ path g z y.
  Proof.
    intros Hwf H z Hz. unfold confounders in H.
    destruct (conf_search eqb (conf_fuel g) g x y) as [c1|] eqn:E1; [|discriminate].
    destruct (conf_search eqb (conf_fuel g) g y x) as [c2|] eqn:E2; [|discriminate].
    injection H as <-. apply id_inter_in in Hz. destruct Hz as [Hz _].
    exact (id_conf_search_anc _ _ _ Hwf E1 z Hz).
  Qed.

  (** * 3. Symmetry *)

  Theorem conf_sym_gen (g : digraph A) x y Z :
    confounders eqb g x y = Some Z ->
    exists Z', confounders eqb g y x = Some Z' /\ forall z, In z Z <-> In z Z'.
  Proof.
    unfold confounders. intros H.
    destruct (conf_search eqb (conf_fuel g) g x y) as [c1|] eqn:E1; [|discriminate].
    destruct (conf_search eqb (conf_fuel g) g y x) as [c2|] eqn:E2; [|discriminate].
    injection H as <-. eexists. split; [reflexivity|].
    intros z. rewrite !id_inter_in. tauto.
  Qed.

  (** * 5. Instruments *)

  Lemma id_filter_opt_in (f : A -> option bool) l r :
    id_filter_opt f l = Some r -> forall x, In x r <-> In x l /\ f x = Some true.
  Proof.
    revert r; induction l as [|a l IH]; intros r H x.
    - simpl in H. injection H as <-. simpl. tauto.
    - simpl in H. destruct (f a) as [b|] eqn:Ea; [|discriminate].
      destruct (id_filter_opt f l) as [r'|] eqn:Er; [|discriminate].
      injection H as <-. specialize (IH r' eq_refl x). destruct b; simpl; rewrite IH.
      + split.
        * intros [->|[Hin Hf]]; [split; [left; reflexivity|exact Ea]|split; [right|]; assumption].
        * intros [[->|Hin] Hf]; [left; reflexivity|right; split; assumption].
      + split.
        * intros [Hin Hf]. split; [right|]; assumption.
        * intros [[->|Hin] Hf]; [congruence|split; assumption].
  Qed.

  Lemma id_filter_opt_some (f : A -> option bool) l :
    (forall x, In x l -> f x <> None) -> exists r, id_filter_opt f l = Some r.
  Proof.
    induction l as [|a l IH]; intros Hall; simpl.
    - eexists; reflexivity.
    - destruct (f a) as [b|] eqn:Ea; [|exfalso; apply (Hall a); [left; reflexivity|exact Ea]].
      destruct IH as [r Hr]; [intros x Hx; apply Hall; right; exact Hx|].
      rewrite Hr. eexists; reflexivity.
  Qed.

  Lemma id_negb_existsb (f : A -> bool) l :
    negb (existsb f l) = true <-> forall z, In z l -> f z = false.
  Proof.
    rewrite negb_true_iff. split.
    - intros H z Hz. destruct (f z) eqn:E; [|reflexivity].
      assert (Hex : existsb f l = true) by (apply existsb_exists; exists z; split; assumption).
      congruence.
    - intros H. destruct (existsb f l) eqn:E; [|reflexivity].
      apply existsb_exists in E. destruct E as (z & Hz & Hf). rewrite (H z Hz) in Hf. discriminate.
  Qed.

  Theorem inst_sub_anc_gen (g : digraph A) s d I :
    wf g -> instruments eqb g s d = Some I -> forall i, In i I -> path g i s.
  Proof.
    intros Hwf H i Hi. unfold instruments in H.
    destruct (memb eqb d (anc eqb g s)); [injection H as <-; destruct Hi|].
    destruct (confounders eqb g s d) as [C|]; [|discriminate].
    match type of H with match ?X with _ => _ end = _ =>
      destruct X as [cand2|] eqn:E2; [|discriminate] end.
    apply (id_filter_opt_in _ _ H) in Hi. destruct Hi as [Hi _].
    apply (id_filter_opt_in _ _ E2) in Hi. destruct Hi as [Hi _].
    apply filter_In in Hi. destruct Hi as [Hi _].
    apply id_diff_in in Hi. destruct Hi as [Hi _].
    apply (Hanc _ _ Hwf) in Hi. exact Hi.
  Qed.

  Theorem inst_empty_if_dest_anc_gen (g : digraph A) s d :
    wf g -> path g d s -> instruments eqb g s d = Some [].
  Proof.
    intros Hwf Hp. unfold instruments.
    apply (Hanc _ _ Hwf), id_memb_in in Hp. rewrite Hp. reflexivity.
  Qed.

  Theorem med_empty_if_dest_anc_gen (g : digraph A) s d :
    wf g -> path g d s -> mediators eqb g s d = Some [].
  Proof.
    intros Hwf Hp. unfold mediators.
    apply (Hanc _ _ Hwf), id_memb_in in Hp. rewrite Hp. reflexivity.
  Qed.

  (** * Enumeration of simple directed paths *)

  (** [id_spath g d x p]: [p] is the list of nodes of a simple directed path of [g] from [x]
      to [d] ([p] starts with [x], ends with [d], consecutive nodes are joined by arcs, no node
      occurs twice). *)
  Inductive id_spath (g : digraph A) (d : A) : A -> list A -> Prop :=
  | id_sp_end : id_spath g d d [d]
  | id_sp_step x y p : arc g x y -> id_spath g d y p -> ~ In x p -> id_spath g d x (x :: p).

  Lemma id_spath_hd (g : digraph A) d x p : id_spath g d x p -> exists p', p = x :: p'.
  Proof. intros H; destruct H; eexists; reflexivity. Qed.

  Lemma id_spath_hd_in (g : digraph A) d x p : id_spath g d x p -> In x p.
  Proof. intros H; destruct H; left; reflexivity. Qed.

  Lemma id_spath_in_d (g : digraph A) d x p : id_spath g d x p -> In d p.
  Proof. intros H; induction H as [|x y p _ _ IH _]; [left; reflexivity|right; exact IH]. Qed.

  Lemma id_last_indep (a : A) l d1 d2 : last (a :: l) d1 = last (a :: l) d2.
  Proof.
    revert a; induction l as [|b l IH]; intros a; [reflexivity|].
    change (last (b :: l) d1 = last (b :: l) d2). apply IH.
  Qed.

  Lemma id_spath_last (g : digraph A) d x p : id_spath g d x p -> last p x = d.
  Proof.
    intros H; induction H as [|x y p _ Hp IH _]; [reflexivity|].
    destruct (id_spath_hd Hp) as [p' ->].
    change (last (y :: p') x = d). rewrite (id_last_indep y p' x y). exact IH.
  Qed.

  Lemma id_spath_nodup (g : digraph A) d x p : id_spath g d x p -> NoDup p.
  Proof.
    intros H; induction H as [|x y p _ _ IH Hn].
    - constructor; [intros []|constructor].
    - constructor; assumption.
  Qed.

  Lemma id_spath_at_d (g : digraph A) d p : id_spath g d d p -> p = [d].
  Proof.
    intros H. inversion H as [|x y q Harc Hq Hn]; subst; [reflexivity|].
    exfalso. apply Hn. eapply id_spath_in_d. exact Hq.
  Qed.

  (** Consecutive nodes are joined by arcs. *)
  Fixpoint id_chain (g : digraph A) (p : list A) : Prop :=
    match p with
    | x :: ((y :: _) as p') => arc g x y /\ id_chain g p'
    | _ => True
    end.

  Lemma id_spath_chain (g : digraph A) d x p : id_spath g d x p -> id_chain g p.
  Proof.
    intros H; induction H as [|x y p Harc Hp IH _]; [exact I|].
    destruct (id_spath_hd Hp) as [p' ->]. simpl. split; assumption.
  Qed.

  (** The inductive predicate is exactly "duplicate-free chain from [x] to [d]". *)
  Lemma id_spath_iff (g : digraph A) d x p :
    id_spath g d x p <->
    (exists p', p = x :: p') /\ last p x = d /\ NoDup p /\ id_chain g p.
  Proof.
    split.
    - intros H. split; [exact (id_spath_hd H)|]. split; [exact (id_spath_last H)|].
      split; [exact (id_spath_nodup H)|exact (id_spath_chain H)].
    - intros ((p' & ->) & Hlast & Hnd & Hch). revert x Hlast Hnd Hch.
      induction p' as [|y p' IH]; intros x Hlast Hnd Hch.
      + simpl in Hlast. subst. constructor.
      + destruct Hch as [Harc Hch]. inversion Hnd as [|? ? Hn Hnd']; subst.
        apply id_sp_step with (y := y); [exact Harc| |exact Hn].
        apply IH; [|exact Hnd'|exact Hch].
        change (last (y :: p') y = last (y :: p') x). apply id_last_indep.
  Qed.

  (** Every node of a simple path from [x] to [d] is [x] or a strict descendant of [x], and
      is [d] or a strict ancestor of [d]. *)
  Lemma id_spath_between (g : digraph A) d x p :
    id_spath g d x p ->
    forall m, In m p -> (m = x \/ path g x m) /\ (m = d \/ path g m d).
  Proof.
    intros H; induction H as [|x y p Harc Hp IH Hn]; intros m Hm.
    - destruct Hm as [<-|[]]. split; left; reflexivity.
    - destruct Hm as [<-|Hm].
      + split; [left; reflexivity|]. right.
        destruct (IH y (id_spath_hd_in Hp)) as [_ [->|Hyd]].
        * apply id_path_arc; exact Harc.
        * eapply id_path_trans; [apply id_path_arc; exact Harc|exact Hyd].
      + destruct (IH m Hm) as [[->|Hym] Hmd]; (split; [right|exact Hmd]).
        * apply id_path_arc; exact Harc.
        * eapply id_path_trans; [apply id_path_arc; exact Harc|exact Hym].
  Qed.

  Lemma id_concat_some (l : list (option (list (list A)))) :
    (forall o, In o l -> o <> None) -> exists r, id_concat l = Some r.
  Proof.
    induction l as [|o l IH]; intros Hall; simpl.
    - eexists; reflexivity.
    - destruct o as [s|]; [|exfalso; apply (Hall None); [left|]; reflexivity].
      destruct IH as [r Hr]; [intros o Ho; apply Hall; right; exact Ho|].
      rewrite Hr. eexists; reflexivity.
  Qed.

  Lemma id_concat_all_some (l : list (option (list (list A)))) r o :
    id_concat l = Some r -> In o l -> exists s, o = Some s.
  Proof.
    revert r; induction l as [|o' l IH]; intros r H Hin; [destruct Hin|].
    simpl in H. destruct o' as [s|]; [|discriminate].
    destruct (id_concat l) as [r'|] eqn:E; [|discriminate].
    destruct Hin as [<-|Hin]; [eexists; reflexivity|]. eapply IH; [reflexivity|exact Hin].
  Qed.

  Lemma id_concat_in (l : list (option (list (list A)))) r :
    id_concat l = Some r -> forall p, In p r <-> exists s, In (Some s) l /\ In p s.
  Proof.
    revert r; induction l as [|o l IH]; intros r H p.
    - simpl in H. injection H as <-. split; [intros []|intros (s & [] & _)].
    - simpl in H. destruct o as [s|]; [|discriminate].
      destruct (id_concat l) as [r'|] eqn:E; [|discriminate].
      injection H as <-. rewrite in_app_iff, (IH r' eq_refl). split.
      + intros [Hp|(s' & Hs' & Hp)].
        * exists s. split; [left; reflexivity|exact Hp].
        * exists s'. split; [right; exact Hs'|exact Hp].
      + intros (s' & [Hs'|Hs'] & Hp).
        * injection Hs' as ->. left. exact Hp.
        * right. exists s'. split; assumption.
  Qed.

  Lemma id_paths_from_eq fuel (g : digraph A) d vis x :
    id_paths_from eqb fuel g d vis x =
    if eqb x d then Some [[x]]
    else match fuel with
         | O => None
         | S fuel' =>
             option_map (map (cons x))
               (id_concat
                  (map (fun c => if memb eqb c (x :: vis) then Some []
                                 else id_paths_from eqb fuel' g d (x :: vis) c)
                       (children eqb g x)))
         end.
  Proof. destruct fuel; reflexivity. Qed.

  (** Soundness and completeness of the DFS. *)
  Lemma id_paths_from_spec fuel : forall (g : digraph A) d vis x ps,
    ~ In x vis -> id_paths_from eqb fuel g d vis x = Some ps ->
    forall p, In p ps <-> (id_spath g d x p /\ forall v, In v p -> ~ In v vis).
  Proof.
    induction fuel as [|fuel IH]; intros g d vis x ps Hx H p;
      rewrite id_paths_from_eq in H; destruct (eqb_spec x d) as [Hxd|Hne].
    - subst x. injection H as <-. split.
      + intros [<-|[]]. split; [constructor|]. intros v [<-|[]]. exact Hx.
      + intros [Hsp _]. apply id_spath_at_d in Hsp. subst p. left; reflexivity.
    - discriminate.
    - subst x. injection H as <-. split.
      + intros [<-|[]]. split; [constructor|]. intros v [<-|[]]. exact Hx.
      + intros [Hsp _]. apply id_spath_at_d in Hsp. subst p. left; reflexivity.
    - match type of H with option_map _ ?X = _ => destruct X as [qs|] eqn:E end;
        simpl in H; [|discriminate].
      injection H as <-. rewrite in_map_iff. split.
      + intros (q & <- & Hq). apply (id_concat_in _ E) in Hq. destruct Hq as (s & Hs & Hqs).
        apply in_map_iff in Hs. destruct Hs as (c & Hc & Hcin).
        apply id_children_in in Hcin.
        destruct (memb eqb c (x :: vis)) eqn:Em; [injection Hc as <-; destruct Hqs|].
        apply id_memb_false in Em.
        apply (IH g d (x :: vis) c s Em Hc) in Hqs. destruct Hqs as [Hsp Hav]. split.
        * eapply id_sp_step; [exact Hcin|exact Hsp|].
          intros Hin. apply (Hav x Hin). left; reflexivity.
        * intros v [<-|Hv]; [exact Hx|]. intros Hvis. apply (Hav v Hv). right; exact Hvis.
      + intros [Hsp Hav]. inversion Hsp as [Hd|x' y q Harc Hq Hnin]; subst.
        { contradiction Hne; reflexivity. }
        exists q. split; [reflexivity|]. apply (id_concat_in _ E).
        assert (Hyq : In y q) by exact (id_spath_hd_in Hq).
        assert (Hy : ~ In y (x :: vis)).
        { intros [<-|Hv]; [exact (Hnin Hyq)|]. apply (Hav y); [right; exact Hyq|exact Hv]. }
        assert (Hyc : In y (children eqb g x)) by (apply id_children_in; exact Harc).
        set (F := fun c => if memb eqb c (x :: vis) then Some []
                           else id_paths_from eqb fuel g d (x :: vis) c) in *.
        destruct (@id_concat_all_some _ _ (F y) E (in_map F _ _ Hyc)) as [s Hs].
        exists s. split; [rewrite <- Hs; apply in_map; exact Hyc|].
        unfold F in Hs. apply id_memb_false in Hy. rewrite Hy in Hs. apply id_memb_false in Hy.
        apply (IH g d (x :: vis) y s Hy Hs). split; [exact Hq|].
        intros v Hv [<-|Hvis]; [exact (Hnin Hv)|]. apply (Hav v); [right; exact Hv|exact Hvis].
  Qed.

  (** The fuel [|V|] suffices on every well-formed graph (pigeonhole on the DFS prefix). *)
  Lemma id_paths_from_fuel fuel : forall (g : digraph A) d vis x,
    wf g -> NoDup (x :: vis) -> incl (x :: vis) (verts g) ->
    length (verts g) <= fuel + length vis ->
    id_paths_from eqb fuel g d vis x <> None.
  Proof.
    induction fuel as [|fuel IH]; intros g d vis x Hwf Hnd Hincl Hlen;
      rewrite id_paths_from_eq; destruct (eqb_spec x d) as [Hxd|Hne]; try discriminate.
    - pose proof (NoDup_incl_length Hnd Hincl) as Hle. simpl in Hle, Hlen. lia.
    - match goal with |- option_map _ (id_concat ?L) <> None =>
        destruct (@id_concat_some L) as [r Hr]; [|rewrite Hr; discriminate] end.
      intros o Ho. apply in_map_iff in Ho. destruct Ho as (c & Hc & Hcin). subst o.
      destruct (memb eqb c (x :: vis)) eqn:Em; [discriminate|].
      apply id_memb_false in Em. apply id_children_in in Hcin.
      apply IH.
      + exact Hwf.
      + constructor; assumption.
      + intros v [<-|Hv]; [apply (proj2 Hwf x c Hcin)|apply Hincl; exact Hv].
      + simpl. lia.
  Qed.

  Theorem id_all_paths_some (g : digraph A) s d :
    wf g -> In s (verts g) -> exists ps, id_all_paths eqb g s d = Some ps.
  Proof.
    intros Hwf Hs. unfold id_all_paths. destruct (eqb s d); [eexists; reflexivity|].
    destruct (id_paths_from eqb (length (verts g)) g d [] s) as [ps|] eqn:E;
      [eexists; reflexivity|].
    exfalso. revert E. apply id_paths_from_fuel.
    - exact Hwf.
    - constructor; [intros []|constructor].
    - intros v [<-|[]]. exact Hs.
    - simpl. lia.
  Qed.

  Theorem id_all_paths_spec (g : digraph A) s d ps :
    s <> d -> id_all_paths eqb g s d = Some ps -> forall p, In p ps <-> id_spath g d s p.
  Proof.
    intros Hne H p. unfold id_all_paths in H.
    destruct (eqb_spec s d) as [Heq|_]; [contradiction|].
    rewrite (@id_paths_from_spec _ g d [] s ps (fun F => F) H p). split.
    - intros [Hsp _]. exact Hsp.
    - intros Hsp. split; [exact Hsp|]. intros v _ [].
  Qed.

  (** * 5'. What [instruments] computes, exactly *)

  Theorem instruments_some_gen (g : digraph A) s d :
    wf g -> acyclic g -> exists I, instruments eqb g s d = Some I.
  Proof.
    intros Hwf Hac. unfold instruments.
    destruct (memb eqb d (anc eqb g s)); [eexists; reflexivity|].
    destruct (confounders_some_gen s d Hwf Hac) as [C EC]. rewrite EC. cbv zeta.
    match goal with |- exists I, match id_filter_opt ?f ?l with _ => _ end = _ =>
      destruct (@id_filter_opt_some f l) as [cand2 E2] end.
    { intros c Hc. apply filter_In in Hc. destruct Hc as [Hc _].
      apply id_diff_in in Hc. destruct Hc as [Hc _]. apply (Hanc _ _ Hwf) in Hc.
      destruct (@id_all_paths_some g c d Hwf (proj1 (id_path_in_verts Hwf Hc))) as [ps Eps].
      rewrite Eps. discriminate. }
    rewrite E2. apply id_filter_opt_some. intros c _.
    destruct (confounders_some_gen c d Hwf Hac) as [Z EZ]. rewrite EZ. discriminate.
  Qed.

  Theorem inst_spec_gen (g : digraph A) s d I :
    wf g -> ~ path g d s -> instruments eqb g s d = Some I ->
    exists C, confounders eqb g s d = Some C /\
      forall i, In i I <->
        path g i s /\ ~ In i C /\
        (forall z, In z C -> ~ path g z i /\ ~ path g i z) /\
        (forall p, id_spath g d i p -> In s p) /\
        confounders eqb g i d = Some [].
  Proof.
    intros Hwf Hnp H. unfold instruments in H.
    destruct (memb eqb d (anc eqb g s)) eqn:Ed.
    { apply id_memb_in, (Hanc _ _ Hwf) in Ed. contradiction. }
    destruct (confounders eqb g s d) as [C|]; [|discriminate].
    exists C. split; [reflexivity|]. cbv zeta in H.
    match type of H with match ?X with _ => _ end = _ =>
      destruct X as [cand2|] eqn:E2; [|discriminate] end.
    intros i.
    rewrite (id_filter_opt_in _ _ H i), (id_filter_opt_in _ _ E2 i), filter_In, id_diff_in,
      id_negb_existsb, (Hanc _ _ Hwf).
    cbv beta.
    assert (H4 : option_map (fun Z : list A => match Z with [] => true | _ :: _ => false end)
                   (confounders eqb g i d) = Some true <-> confounders eqb g i d = Some []).
    { destruct (confounders eqb g i d) as [[|a Z]|]; simpl; split; congruence. }
    assert (Hz : (forall z, In z C ->
                    memb eqb i (desc eqb g z) || memb eqb i (anc eqb g z) = false) <->
                 (forall z, In z C -> ~ path g z i /\ ~ path g i z)).
    { split; intros Hall z Hzc; specialize (Hall z Hzc).
      - apply orb_false_iff in Hall. destruct Hall as [H1 H2]. apply id_memb_false in H1, H2.
        split; intros Hp; [apply H1; apply (Hdesc _ _ Hwf)|apply H2; apply (Hanc _ _ Hwf)];
          exact Hp.
      - destruct Hall as [H1 H2]. apply orb_false_iff.
        split; apply id_memb_false; intros Hin;
          [apply H1; apply (Hdesc _ _ Hwf)|apply H2; apply (Hanc _ _ Hwf)]; exact Hin. }
    rewrite H4, Hz.
    assert (H3 : path g i s ->
                 (option_map (forallb (fun p => memb eqb s p)) (id_all_paths eqb g i d)
                  = Some true <-> forall p, id_spath g d i p -> In s p)).
    { intros Hp. assert (Hid : i <> d) by (intros ->; exact (Hnp Hp)).
      destruct (@id_all_paths_some g i d Hwf (proj1 (id_path_in_verts Hwf Hp))) as [ps Eps].
      rewrite Eps. simpl. pose proof (@id_all_paths_spec g i d ps Hid Eps) as Hps. split.
      - intros Hf p Hsp. injection Hf as Hf. rewrite forallb_forall in Hf.
        apply id_memb_in. apply Hf. apply Hps. exact Hsp.
      - intros Hall. f_equal. apply forallb_forall. intros p Hin.
        apply id_memb_in. apply Hall. apply Hps. exact Hin. }
    split.
    - intros [[[[Hp Hn] Hzz] H3'] H4']. pose proof (H3 Hp) as H3i. tauto.
    - intros (Hp & Hn & Hzz & H3' & H4'). pose proof (H3 Hp) as H3i. tauto.
  Qed.

  (** * 4. What [mediators] computes, exactly *)

  Lemma id_fold_inter_in rest : forall p0 m,
    In m (fold_left (inter eqb) rest p0) <-> In m p0 /\ forall q, In q rest -> In m q.
  Proof.
    induction rest as [|a rest IH]; intros p0 m; simpl.
    - split; [intros H; split; [exact H|intros q []]|intros [H _]; exact H].
    - rewrite IH, id_inter_in. split.
      + intros [[H0 Ha] Hr]. split; [exact H0|].
        intros q [<-|Hq]; [exact Ha|apply Hr; exact Hq].
      + intros [H0 Hall]. split; [split; [exact H0|apply Hall; left; reflexivity]|].
        intros q Hq; apply Hall; right; exact Hq.
  Qed.

  Theorem mediators_some_gen (g : digraph A) s d :
    wf g -> acyclic g -> In s (verts g) -> exists M, mediators eqb g s d = Some M.
  Proof.
    intros Hwf Hac Hs. unfold mediators.
    destruct (memb eqb d (anc eqb g s)); [eexists; reflexivity|].
    destruct (confounders_some_gen s d Hwf Hac) as [C EC]. rewrite EC.
    destruct (@id_all_paths_some g s d Hwf Hs) as [ps Eps]. rewrite Eps. cbv zeta.
    match goal with |- exists M, match ?X with _ => _ end = _ => destruct X end;
      eexists; reflexivity.
  Qed.

  (** With [C] the confounders of [s] and [d] and [d] not an ancestor of [s]: [m] is returned
      iff there is a causal path [s ~> d] with more than two nodes, [m] is an inner node of EVERY
      causal path [s ~> d] with more than two nodes (the direct edge [s -> d], if any, is
      ignored), and no confounder reaches [m] once the out-edges of [s] are removed.  In
      particular the result is empty when there is no causal path with more than two nodes. *)
  Theorem med_spec_gen (g : digraph A) s d M :
    wf g -> s <> d -> ~ path g d s -> mediators eqb g s d = Some M ->
    exists C, confounders eqb g s d = Some C /\
      forall m, In m M <->
        (exists p, id_spath g d s p /\ 2 < length p) /\
        (forall p, id_spath g d s p -> 2 < length p -> In m p /\ m <> s /\ m <> d) /\
        (forall z, In z C -> ~ path (del_arcs_from eqb g [s]) z m).
  Proof.
    intros Hwf Hsd Hnp H. unfold mediators in H.
    destruct (memb eqb d (anc eqb g s)) eqn:Ed.
    { apply id_memb_in, (Hanc _ _ Hwf) in Ed. contradiction. }
    destruct (confounders eqb g s d) as [C|]; [|discriminate].
    exists C. split; [reflexivity|].
    destruct (id_all_paths eqb g s d) as [ps|] eqn:Eps; [|discriminate].
    pose proof (@id_all_paths_spec g s d ps Hsd Eps) as Hps. cbv zeta in H.
    match type of H with context [map ?f (filter ?h ps)] =>
      set (strip := f) in *; set (long := filter h ps) in * end.
    assert (Hlong : forall p, In p long <-> id_spath g d s p /\ 2 < length p).
    { intros p. unfold long. rewrite filter_In, Hps, Nat.ltb_lt. tauto. }
    assert (Hstrip : forall p m, In m (strip p) <-> In m p /\ m <> s /\ m <> d).
    { intros p m. unfold strip.
      rewrite filter_In, andb_true_iff, !negb_true_iff, !id_eqb_neq. tauto. }
    assert (Hpg : wf (del_arcs_from eqb g [s])) by (apply id_del_wf; exact Hwf).
    destruct (map strip long) as [|p0 rest] eqn:El.
    - injection H as <-. intros m. split; [intros []|].
      intros [(p & Hp & Hlen) _]. exfalso.
      assert (Hin : In (strip p) (map strip long))
        by (apply in_map, Hlong; split; assumption).
      rewrite El in Hin. destruct Hin.
    - injection H as <-. intros m.
      rewrite filter_In, id_fold_inter_in, id_negb_existsb.
      assert (Hall : (In m p0 /\ forall q, In q rest -> In m q) <->
                     forall q, In q (map strip long) -> In m q).
      { rewrite El. split.
        - intros [H0 Hr] q [<-|Hq]; [exact H0|apply Hr; exact Hq].
        - intros Hq. split; [apply Hq; left; reflexivity|].
          intros q Hin; apply Hq; right; exact Hin. }
      rewrite Hall. split.
      + intros [Hq Hz]. split; [|split].
        * assert (Hin : In p0 (map strip long)) by (rewrite El; left; reflexivity).
          apply in_map_iff in Hin. destruct Hin as (p & _ & Hp).
          exists p. apply Hlong. exact Hp.
        * intros p Hp Hlen. apply Hstrip. apply Hq. apply in_map. apply Hlong.
          split; assumption.
        * intros z Hzc Hpath. specialize (Hz z Hzc). apply id_memb_false in Hz.
          apply Hz. apply (Hdesc _ _ Hpg). exact Hpath.
      + intros (_ & Hq & Hz). split.
        * intros q Hin. apply in_map_iff in Hin. destruct Hin as (p & <- & Hp).
          apply Hlong in Hp. destruct Hp as [Hp Hlen]. apply Hstrip. apply Hq; assumption.
        * intros z Hzc. apply id_memb_false. intros Hin. apply (Hz z Hzc).
          apply (Hdesc _ _ Hpg). exact Hin.
  Qed.

  (** No causal path with more than two nodes: the result is empty. *)
  Corollary med_empty_if_no_long_path_gen (g : digraph A) s d M :
    wf g -> s <> d -> mediators eqb g s d = Some M ->
    (forall p, id_spath g d s p -> length p <= 2) -> M = [].
  Proof.
    intros Hwf Hsd H Hshort.
    destruct (memb eqb d (anc eqb g s)) eqn:Ed.
    - unfold mediators in H. rewrite Ed in H. injection H as <-. reflexivity.
    - assert (Hnp : ~ path g d s).
      { intros Hp. apply (Hanc _ _ Hwf), id_memb_in in Hp. congruence. }
      destruct (med_spec_gen Hwf Hsd Hnp H) as (C & _ & Hspec).
      destruct M as [|m M]; [reflexivity|]. exfalso.
      destruct (proj1 (Hspec m) (or_introl eq_refl)) as [(p & Hp & Hlen) _].
      specialize (Hshort p Hp). lia.
  Qed.

  (** Every mediator lies strictly between the source and the destination. *)
  Corollary med_between_gen (g : digraph A) s d M :
    wf g -> s <> d -> mediators eqb g s d = Some M ->
    forall m, In m M -> path g s m /\ path g m d.
  Proof.
    intros Hwf Hsd H m Hm.
    destruct (memb eqb d (anc eqb g s)) eqn:Ed.
    - unfold mediators in H. rewrite Ed in H. injection H as <-. destruct Hm.
    - assert (Hnp : ~ path g d s).
      { intros Hp. apply (Hanc _ _ Hwf), id_memb_in in Hp. congruence. }
      destruct (med_spec_gen Hwf Hsd Hnp H) as (C & _ & Hspec).
      apply Hspec in Hm. destruct Hm as ((p & Hp & Hlen) & Hall & _).
      destruct (Hall p Hp Hlen) as (Hin & Hms & Hmd).
      destruct (id_spath_between Hp m Hin) as [[Heq|H1] [Heq'|H2]]; try contradiction.
      split; assumption.
  Qed.

  (** * Extras: stability of the answer in the fuel, and a completeness fact *)

  Corollary conf_search_fuel_stable_gen fuel (g : digraph A) n1 n2 :
    wf g -> acyclic g -> length (verts g) + 1 <= fuel ->
    conf_search eqb fuel g n1 n2 = conf_search eqb (length (verts g) + 1) g n1 n2.
  Proof.
    intros Hwf Hac Hle.
    destruct (conf_search eqb (length (verts g) + 1) g n1 n2) as [R|] eqn:E.
    - exact (conf_search_mono_gen _ _ _ Hle E).
    - exfalso. exact (conf_search_fuel_gen n1 n2 Hwf Hac E).
  Qed.

  Lemma id_conf_search_common_parent fuel (g : digraph A) n1 n2 R p :
    wf g -> conf_search eqb (S fuel) g n1 n2 = Some R ->
    arc g p n1 -> arc g p n2 -> p <> n1 -> p <> n2 -> In p R.
  Proof.
    intros Hwf H H1 H2 Hn1 Hn2. rewrite id_conf_search_S in H.
    set (g' := del_arcs_from eqb g [n1; n2]) in *.
    assert (Hwf' : wf g') by (apply id_del_wf; exact Hwf).
    assert (Hnin : ~ In p [n1; n2]) by (intros [Heq|[Heq|[]]]; congruence).
    apply (id_collect_in _ H). exists [p]. split; [|left; reflexivity].
    apply in_map_iff. exists p. split.
    - assert (E : memb eqb p (anc eqb g' n2) = true).
      { apply id_memb_in, (Hanc _ _ Hwf'). apply id_path_arc. apply id_del_arc.
        split; assumption. }
      rewrite E. reflexivity.
    - apply id_parents_in. apply id_del_arc. split; assumption.
  Qed.

  (** A common parent of [x] and [y] is always returned. *)
  Theorem conf_common_parent_gen (g : digraph A) x y Z p :
    wf g -> acyclic g -> confounders eqb g x y = Some Z ->
    arc g p x -> arc g p y -> In p Z.
  Proof.
    intros Hwf Hac H Hx Hy. unfold confounders, conf_fuel in H.
    rewrite Nat.add_1_r in H.
    destruct (conf_search eqb (S (length (verts g))) g x y) as [c1|] eqn:E1; [|discriminate].
    destruct (conf_search eqb (S (length (verts g))) g y x) as [c2|] eqn:E2; [|discriminate].
    injection H as <-.
    assert (Hpx : p <> x) by (intros ->; exact (Hac x (id_path_arc _ _ _ Hx))).
    assert (Hpy : p <> y) by (intros ->; exact (Hac y (id_path_arc _ _ _ Hy))).
    apply id_inter_in. split.
    - exact (id_conf_search_common_parent _ Hwf E1 Hx Hy Hpx Hpy).
    - exact (id_conf_search_common_parent _ Hwf E2 Hy Hx Hpy Hpx).
  Qed.

End IdentifyGen.

(** * Checkers used by the concrete examples *)

Section IdentifyCheckers.
  Variable A : Type.
  Variable eqb : A -> A -> bool.
  Hypothesis eqb_spec : forall x y, reflect (x = y) (eqb x y).

  Fixpoint id_nodupb (l : list A) : bool :=
    match l with
    | [] => true
    | x :: l' => negb (memb eqb x l') && id_nodupb l'
    end.

  Definition id_wfb (g : digraph A) : bool :=
    id_nodupb (verts g) &&
    forallb (fun e => memb eqb (fst e) (verts g) && memb eqb (snd e) (verts g)) (arcs g).

  Lemma id_nodupb_nodup l : id_nodupb l = true -> NoDup l.
  Proof.
    induction l as [|x l IH]; intros H; [constructor|].
    simpl in H. apply andb_true_iff in H. destruct H as [Hx Hl].
    constructor; [|apply IH; exact Hl].
    apply negb_true_iff in Hx. apply (@id_memb_false A eqb eqb_spec x l). exact Hx.
  Qed.

  Lemma id_wfb_wf (g : digraph A) : id_wfb g = true -> wf g.
  Proof.
    unfold id_wfb. intros H. apply andb_true_iff in H. destruct H as [Hnd Harcs].
    split; [apply id_nodupb_nodup; exact Hnd|].
    intros a b Hab. rewrite forallb_forall in Harcs. specialize (Harcs (a, b) Hab).
    simpl in Harcs. apply andb_true_iff in Harcs. destruct Harcs as [Ha Hb].
    split; apply (@id_memb_in A eqb eqb_spec); assumption.
  Qed.

  (** A graph whose arcs all increase a rank is acyclic. *)
  Lemma id_rank_acyclic (g : digraph A) (rank : A -> nat) :
    forallb (fun e => Nat.ltb (rank (fst e)) (rank (snd e))) (arcs g) = true -> acyclic g.
  Proof.
    intros H. rewrite forallb_forall in H.
    assert (Hp : forall x y, path g x y -> rank x < rank y).
    { intros x y Hxy. unfold path in Hxy.
      induction Hxy as [x y Harc|x y z _ IH1 _ IH2]; [|lia].
      specialize (H (x, y) Harc). simpl in H. apply Nat.ltb_lt in H. exact H. }
    intros v Hv. specialize (Hp v v Hv). lia.
  Qed.
End IdentifyCheckers.

(** * The closed theorems: [desc_spec] / [anc_spec] of DigraphProofs.v discharge the section
    hypotheses of [IdentifyGen]. *)
From CG Require Import DigraphProofs.

Section IdentifyClosed.
  Variable A : Type.
  Variable eqb : A -> A -> bool.
  Hypothesis eqb_spec : forall x y, reflect (x = y) (eqb x y).

  Let Hdesc := @desc_spec A eqb eqb_spec.
  Let Hanc := @anc_spec A eqb eqb_spec.

  (** 1. Fuel. *)
  Theorem conf_search_fuel (g : digraph A) n1 n2 :
    wf g -> acyclic g -> conf_search eqb (length (verts g) + 1) g n1 n2 <> None.
  Proof. exact (@conf_search_fuel_gen A eqb eqb_spec g n1 n2). Qed.

  Theorem conf_search_mono fuel fuel' (g : digraph A) n1 n2 R :
    fuel <= fuel' -> conf_search eqb fuel g n1 n2 = Some R ->
    conf_search eqb fuel' g n1 n2 = Some R.
  Proof. exact (@conf_search_mono_gen A eqb fuel fuel' g n1 n2 R). Qed.

  Theorem confounders_some (g : digraph A) x y :
    wf g -> acyclic g -> exists Z, confounders eqb g x y = Some Z.
  Proof. exact (@confounders_some_gen A eqb eqb_spec g x y). Qed.

  Corollary conf_search_fuel_stable fuel (g : digraph A) n1 n2 :
    wf g -> acyclic g -> length (verts g) + 1 <= fuel ->
    conf_search eqb fuel g n1 n2 = conf_search eqb (length (verts g) + 1) g n1 n2.
  Proof. exact (@conf_search_fuel_stable_gen A eqb eqb_spec fuel g n1 n2). Qed.

  (** A common parent of [x] and [y] is always returned. *)
  Theorem conf_common_parent (g : digraph A) x y Z p :
    wf g -> acyclic g -> confounders eqb g x y = Some Z ->
    arc g p x -> arc g p y -> In p Z.
  Proof. exact (@conf_common_parent_gen A eqb eqb_spec Hanc g x y Z p). Qed.

  (** 2. Every confounder returned is a strict common ancestor. *)
  Theorem conf_common_ancestors (g : digraph A) x y Z :
    wf g -> confounders eqb g x y = Some Z ->
    forall z, In z Z -> path g z x /\ path g z y.
  Proof. exact (@conf_common_ancestors_gen A eqb eqb_spec Hanc g x y Z). Qed.

  (** 3. Symmetry (as sets). *)
  Theorem conf_sym (g : digraph A) x y Z :
    confounders eqb g x y = Some Z ->
    exists Z', confounders eqb g y x = Some Z' /\ forall z, In z Z <-> In z Z'.
  Proof. exact (@conf_sym_gen A eqb eqb_spec g x y Z). Qed.

  (** 5. Instruments. *)
  Theorem instruments_some (g : digraph A) s d :
    wf g -> acyclic g -> exists I, instruments eqb g s d = Some I.
  Proof. exact (@instruments_some_gen A eqb eqb_spec Hanc g s d). Qed.

  Theorem inst_sub_anc (g : digraph A) s d I :
    wf g -> instruments eqb g s d = Some I -> forall i, In i I -> path g i s.
  Proof. exact (@inst_sub_anc_gen A eqb eqb_spec Hanc g s d I). Qed.

  Theorem inst_empty_if_dest_anc (g : digraph A) s d :
    wf g -> path g d s -> instruments eqb g s d = Some [].
  Proof. exact (@inst_empty_if_dest_anc_gen A eqb eqb_spec Hanc g s d). Qed.

  Theorem med_empty_if_dest_anc (g : digraph A) s d :
    wf g -> path g d s -> mediators eqb g s d = Some [].
  Proof. exact (@med_empty_if_dest_anc_gen A eqb eqb_spec Hanc g s d). Qed.

  Theorem inst_spec (g : digraph A) s d I :
    wf g -> ~ path g d s -> instruments eqb g s d = Some I ->
    exists C, confounders eqb g s d = Some C /\
      forall i, In i I <->
        path g i s /\ ~ In i C /\
        (forall z, In z C -> ~ path g z i /\ ~ path g i z) /\
        (forall p, id_spath g d i p -> In s p) /\
        confounders eqb g i d = Some [].
  Proof. exact (@inst_spec_gen A eqb eqb_spec Hdesc Hanc g s d I). Qed.

  (** 4. Mediators. *)
  Theorem mediators_some (g : digraph A) s d :
    wf g -> acyclic g -> In s (verts g) -> exists M, mediators eqb g s d = Some M.
  Proof. exact (@mediators_some_gen A eqb eqb_spec g s d). Qed.

  Theorem med_spec (g : digraph A) s d M :
    wf g -> s <> d -> ~ path g d s -> mediators eqb g s d = Some M ->
    exists C, confounders eqb g s d = Some C /\
      forall m, In m M <->
        (exists p, id_spath g d s p /\ 2 < length p) /\
        (forall p, id_spath g d s p -> 2 < length p -> In m p /\ m <> s /\ m <> d) /\
        (forall z, In z C -> ~ path (del_arcs_from eqb g [s]) z m).
  Proof. exact (@med_spec_gen A eqb eqb_spec Hdesc Hanc g s d M). Qed.

  Theorem med_empty_if_no_long_path (g : digraph A) s d M :
    wf g -> s <> d -> mediators eqb g s d = Some M ->
    (forall p, id_spath g d s p -> length p <= 2) -> M = [].
  Proof. exact (@med_empty_if_no_long_path_gen A eqb eqb_spec Hdesc Hanc g s d M). Qed.

  Theorem med_between (g : digraph A) s d M :
    wf g -> s <> d -> mediators eqb g s d = Some M ->
    forall m, In m M -> path g s m /\ path g m d.
  Proof. exact (@med_between_gen A eqb eqb_spec Hdesc Hanc g s d M). Qed.
End IdentifyClosed.

(** * Concrete examples over [nat] vertices (non-vacuity, and pins to the observed Python
    behaviour: every value below was obtained from the real library) *)

Definition id_mk (n : nat) (ar : list (nat * nat)) : digraph nat :=
  {| verts := seq 0 n; arcs := ar |}.

Local Ltac id_wf_acyclic rank :=
  split; [apply (@id_wfb_wf nat Nat.eqb Nat.eqb_spec); vm_compute; reflexivity
         |apply (@id_rank_acyclic nat _ rank); vm_compute; reflexivity].

(** Docstring of [identify_confounders]: z=0, u=1, x=2, y=3. *)
Definition ex_conf : digraph nat := id_mk 4 [(0, 1); (1, 2); (1, 3); (2, 3)].
Example ex_conf_ok : wf ex_conf /\ acyclic ex_conf.
Proof. id_wf_acyclic (fun n : nat => n). Qed.
Example ex_conf_run : confounders Nat.eqb ex_conf 2 3 = Some [1].
Proof. vm_compute. reflexivity. Qed.
Example ex_conf_run_rev : confounders Nat.eqb ex_conf 3 2 = Some [1].
Proof. vm_compute. reflexivity. Qed.
Example ex_conf_fuel : conf_search Nat.eqb (length (verts ex_conf) + 1) ex_conf 2 3 = Some [1].
Proof. vm_compute. reflexivity. Qed.
(** Fuel exhaustion is visible: too little fuel gives [None], never a normal looking value. *)
Example ex_conf_fuel_short : conf_search Nat.eqb 1 (id_mk 3 [(0, 1); (1, 2)]) 2 0 = None.
Proof. vm_compute. reflexivity. Qed.
Example ex_conf_common : path ex_conf 1 2 /\ path ex_conf 1 3.
Proof.
  apply (@conf_common_ancestors nat Nat.eqb Nat.eqb_spec ex_conf 2 3 [1]
           (proj1 ex_conf_ok) ex_conf_run 1). left; reflexivity.
Qed.

(** Docstring of [identify_instruments]: z=0, u=1, x=2, y=3. *)
Definition ex_inst : digraph nat := id_mk 4 [(0, 2); (1, 2); (1, 3); (2, 3)].
Example ex_inst_ok : wf ex_inst /\ acyclic ex_inst.
Proof. id_wf_acyclic (fun n : nat => n). Qed.
Example ex_inst_run : instruments Nat.eqb ex_inst 2 3 = Some [0].
Proof. vm_compute. reflexivity. Qed.
(** The hypotheses of [inst_spec] hold here: y is not an ancestor of x. *)
Example ex_inst_hyp : ~ path ex_inst 3 2.
Proof.
  intros Hp.
  apply (@anc_spec nat Nat.eqb Nat.eqb_spec ex_inst 2 3 (proj1 ex_inst_ok)) in Hp.
  vm_compute in Hp. intuition discriminate.
Qed.
(** The destination is an ancestor of the source: empty. *)
Example ex_inst_run_rev : instruments Nat.eqb ex_inst 3 2 = Some [].
Proof. vm_compute. reflexivity. Qed.
Example ex_inst_rev_hyp : path ex_inst 2 3.
Proof. apply t_step. unfold arc. simpl. tauto. Qed.
(** z -> x, z -> y, x -> y: z reaches y avoiding x, so it is rejected. *)
Example ex_inst_rejected : instruments Nat.eqb (id_mk 3 [(0, 1); (0, 2); (1, 2)]) 1 2 = Some [].
Proof. vm_compute. reflexivity. Qed.

(** Docstring of [identify_mediators]: x=0, m=1, y=2, u=3. *)
Definition ex_med : digraph nat := id_mk 4 [(0, 1); (1, 2); (3, 0); (3, 2); (0, 2)].
Example ex_med_ok : wf ex_med /\ acyclic ex_med.
Proof. id_wf_acyclic (fun n : nat => match n with 3 => 0 | _ => S n end). Qed.
Example ex_med_run : mediators Nat.eqb ex_med 0 2 = Some [1].
Proof. vm_compute. reflexivity. Qed.
Example ex_med_run_rev : mediators Nat.eqb ex_med 2 0 = Some [].
Proof. vm_compute. reflexivity. Qed.
Example ex_med_hyp : 0 <> 2 /\ ~ path ex_med 2 0.
Proof.
  split; [discriminate|]. intros Hp.
  apply (@anc_spec nat Nat.eqb Nat.eqb_spec ex_med 0 2 (proj1 ex_med_ok)) in Hp.
  vm_compute in Hp. intuition discriminate.
Qed.
Example ex_med_paths :
  id_all_paths Nat.eqb ex_med 0 2 = Some [[0; 1; 2]; [0; 2]].
Proof. vm_compute. reflexivity. Qed.
(** Two disjoint long paths (diamond): no node lies on every causal path. *)
Example ex_med_diamond : mediators Nat.eqb (id_mk 4 [(0, 1); (1, 3); (0, 2); (2, 3)]) 0 3 = Some [].
Proof. vm_compute. reflexivity. Qed.
(** Only the direct edge: no causal path with more than two nodes. *)
Example ex_med_direct : mediators Nat.eqb (id_mk 2 [(0, 1)]) 0 1 = Some [].
Proof. vm_compute. reflexivity. Qed.
(** u -> x, u -> m, x -> m, m -> y, u -> y (x=0, m=1, y=2, u=3): m is a descendant of the
    confounder u in the graph without the out-edges of x, so it is rejected. *)
Example ex_med_conf_rejected :
  let g := id_mk 4 [(3, 0); (3, 1); (0, 1); (1, 2); (3, 2)] in
  confounders Nat.eqb g 0 2 = Some [3] /\ mediators Nat.eqb g 0 2 = Some [].
Proof. vm_compute. split; reflexivity. Qed.

(** * 6. The confounder set is NOT a sufficient adjustment set in general: the witness.
    a=0, b=1, c=2, d=3, e=4 with a->d a->e b->c b->e e->c e->d and (x, y) = (c, d): the code
    returns {e}; conditioning on the collider e opens c <- b -> e <- a -> d.  (The d-separation
    half of the refutation is proved where the d-separation model lives.) *)
Definition conf_witness_graph : digraph nat :=
  id_mk 5 [(0, 3); (0, 4); (1, 2); (1, 4); (4, 2); (4, 3)].
Example conf_witness_ok : wf conf_witness_graph /\ acyclic conf_witness_graph.
Proof.
  id_wf_acyclic (fun n : nat => match n with 0 => 0 | 1 => 0 | 4 => 1 | _ => 2 end).
Qed.
Example conf_witness : confounders Nat.eqb conf_witness_graph 2 3 = Some [4].
Proof. vm_compute. reflexivity. Qed.
Example conf_witness_rev : confounders Nat.eqb conf_witness_graph 3 2 = Some [4].
Proof. vm_compute. reflexivity. Qed.
(** Neither a nor b (the two other common ancestors of c and d) is returned. *)
Example conf_witness_common :
  path conf_witness_graph 0 2 /\ path conf_witness_graph 0 3 /\
  path conf_witness_graph 1 2 /\ path conf_witness_graph 1 3.
Proof.
  assert (Hwf : wf conf_witness_graph) by exact (proj1 conf_witness_ok).
  assert (H : forall a b, In a (anc Nat.eqb conf_witness_graph b) ->
                          path conf_witness_graph a b).
  { intros a b.
    exact (proj1 (@anc_spec nat Nat.eqb Nat.eqb_spec conf_witness_graph b a Hwf)). }
  split; [|split; [|split]]; apply H; vm_compute; auto 10.
Qed.
