(** AliasProofs.v — separation theorems for the identity model of Alias.v (property C06).

    Method: every separation statement ([NoDup] of a concatenation, disjointness, bounds) is
    turned into a statement about OCCURRENCE COUNTS ([cnt l x]), which are additive over [++]
    and [flat_map]; each operation is characterised by how it changes the counts; the rest is
    linear arithmetic.  The allocator argument is: every identity in use is [< s_next]
    ([Bounded]), every identity allocated by a step is [>= s_next] and allocated once. *)
From CG Require Import Base Alias.
From Coq Require Import String.
Local Notation length := List.length (only parsing).

(** * Occurrence counts *)

Definition cnt (l : list loc) (x : loc) : nat := count_occ Nat.eq_dec l x.

Lemma cnt_nil x : cnt [] x = 0.
Proof. reflexivity. Qed.

Lemma cnt_app l1 l2 x : cnt (l1 ++ l2) x = cnt l1 x + cnt l2 x.
Proof. unfold cnt; apply count_occ_app. Qed.

Lemma cnt_cons a l x : cnt (a :: l) x = cnt [a] x + cnt l x.
Proof. change (a :: l) with ([a] ++ l); apply cnt_app. Qed.

Lemma cnt_In l x : In x l <-> cnt l x > 0.
Proof. unfold cnt; apply count_occ_In. Qed.

Lemma cnt_notIn l x : ~ In x l <-> cnt l x = 0.
Proof. unfold cnt; apply count_occ_not_In. Qed.

Lemma cnt_NoDup l : NoDup l <-> forall x, cnt l x <= 1.
Proof. unfold cnt; apply NoDup_count_occ. Qed.

Lemma cnt_single a x : cnt [a] x <= 1 /\ (cnt [a] x > 0 <-> a = x).
Proof.
  unfold cnt; simpl; destruct (Nat.eq_dec a x) as [E|E]; split; try lia; split; intros H;
    try lia; try assumption; contradiction.
Qed.

Lemma cnt_seq n k x : cnt (seq n k) x <= 1 /\ (cnt (seq n k) x > 0 <-> n <= x < n + k).
Proof.
  split.
  - apply cnt_NoDup, seq_NoDup.
  - rewrite <- cnt_In, in_seq; tauto.
Qed.

Lemma cnt_flat_map_app {A} (f : A -> list loc) l1 l2 x :
  cnt (flat_map f (l1 ++ l2)) x = cnt (flat_map f l1) x + cnt (flat_map f l2) x.
Proof. rewrite flat_map_app; apply cnt_app. Qed.

Lemma cnt_map_app {A} (f : A -> loc) l1 l2 x :
  cnt (map f (l1 ++ l2)) x = cnt (map f l1) x + cnt (map f l2) x.
Proof. rewrite map_app; apply cnt_app. Qed.

Lemma cnt_flat_map_in {A} (f : A -> list loc) l a x :
  In a l -> cnt (f a) x <= cnt (flat_map f l) x.
Proof.
  induction l as [|b l IH]; simpl; [tauto|].
  intros [->|Hin]; rewrite cnt_app; [lia|]. specialize (IH Hin); lia.
Qed.

(** Two different positions of a list contribute separately. *)
Lemma cnt_flat_map_two {A} (f : A -> list loc) l i j a b x :
  i <> j -> nth_error l i = Some a -> nth_error l j = Some b ->
  cnt (f a) x + cnt (f b) x <= cnt (flat_map f l) x.
Proof.
  revert i j; induction l as [|c l IH]; intros [|i] [|j] Hij Hi Hj; simpl in *;
    try discriminate; try congruence; rewrite cnt_app.
  - injection Hi as ->. pose proof (cnt_flat_map_in f l b x (nth_error_In _ _ Hj)). lia.
  - injection Hj as ->. pose proof (cnt_flat_map_in f l a x (nth_error_In _ _ Hi)). lia.
  - assert (Hn : i <> j) by congruence. specialize (IH i j Hn Hi Hj). lia.
Qed.

(** ** Removing the i-th element *)

Lemma remove_nth_none {A} i (l : list A) : nth_error l i = None -> remove_nth i l = l.
Proof.
  unfold remove_nth; intros H; apply nth_error_None in H.
  rewrite firstn_all2 by lia. rewrite skipn_all2 by lia. apply app_nil_r.
Qed.

Lemma cnt_flat_map_remove_nth {A} (f : A -> list loc) i l a x :
  nth_error l i = Some a ->
  cnt (flat_map f l) x = cnt (flat_map f (remove_nth i l)) x + cnt (f a) x.
Proof.
  unfold remove_nth; revert i; induction l as [|b l IH]; intros [|i] H;
    cbn [nth_error firstn skipn app flat_map] in *; try discriminate.
  - injection H as ->. rewrite cnt_app; lia.
  - rewrite !cnt_app, (IH i H). lia.
Qed.

Lemma cnt_map_remove_nth {A} (f : A -> loc) i l a x :
  nth_error l i = Some a ->
  cnt (map f l) x = cnt (map f (remove_nth i l)) x + cnt [f a] x.
Proof.
  unfold remove_nth; revert i; induction l as [|b l IH]; intros [|i] H;
    cbn [nth_error firstn skipn app map] in *; try discriminate.
  - injection H as ->. rewrite (cnt_cons (f a)). lia.
  - rewrite (cnt_cons (f b)), (cnt_cons (f b) (map f _)), (IH i H). lia.
Qed.

Lemma cnt_remove_nth_le i (l : list loc) x : cnt (remove_nth i l) x <= cnt l x.
Proof.
  destruct (nth_error l i) as [a|] eqn:E.
  - pose proof (@cnt_map_remove_nth _ (fun y => y) i l a x E) as H.
    rewrite !map_id in H. lia.
  - rewrite (remove_nth_none _ _ E). lia.
Qed.

(** * Counts of the components of a state *)

Definition GO (s : state) x := cnt (g_outer (s_graph s)) x.
Definition GI (s : state) x := cnt (g_inner (s_graph s)) x.
Definition EO (s : state) x := cnt (exports_outer (s_exports s)) x.
Definition EI (s : state) x := cnt (exports_inner (s_exports s)) x.
Definition ED (s : state) x := cnt (exports_inner_deep (s_exports s)) x.
Definition ES (s : state) x := cnt (exports_inner_shallow (s_exports s)) x.

Lemma EI_split_list es x :
  cnt (exports_inner es) x = cnt (exports_inner_deep es) x + cnt (exports_inner_shallow es) x.
Proof.
  unfold exports_inner, exports_inner_deep, exports_inner_shallow.
  induction es as [|e es IH]; simpl; [reflexivity|].
  rewrite !cnt_app, IH. destruct (e_shallow e); simpl; rewrite ?cnt_nil; lia.
Qed.

Lemma EI_split s x : EI s x = ED s x + ES s x.
Proof. apply EI_split_list. Qed.

Lemma cnt_all_locs s x : cnt (all_locs s) x = GO s x + EO s x + GI s x + EI s x.
Proof. unfold all_locs, all_outer, all_inner, GO, EO, GI, EI; rewrite !cnt_app; lia. Qed.

Lemma cnt_all_outer s x : cnt (all_outer s) x = GO s x + EO s x.
Proof. unfold all_outer, GO, EO; rewrite !cnt_app; lia. Qed.

Lemma cnt_strict s x : cnt (strict_locs s) x = GO s x + EO s x + GI s x + ED s x.
Proof. unfold strict_locs, all_outer, GO, EO, GI, ED; rewrite !cnt_app; lia. Qed.

(** Count forms of the invariants. *)
Definition BoundedC (s : state) x := GO s x + EO s x + GI s x + EI s x > 0 -> x < s_next s.
Definition SepC (s : state) x := BoundedC s x /\ GO s x + EO s x + GI s x + EI s x <= 1.
Definition SepOuterC (s : state) x := BoundedC s x /\ GO s x + EO s x <= 1.
Definition Sep'C (s : state) x :=
  BoundedC s x /\ GO s x + EO s x + GI s x + ED s x <= 1 /\
  (ES s x > 0 -> GO s x + EO s x + GI s x + ED s x > 0 -> GI s x > 0).

Lemma bounded_iff s : Bounded s <-> forall x, BoundedC s x.
Proof.
  unfold Bounded, BoundedC; split; intros H x Hx.
  - apply H, cnt_In. rewrite cnt_all_locs; exact Hx.
  - apply H. rewrite <- cnt_all_locs. apply cnt_In, Hx.
Qed.

Lemma sep_iff s : Sep s <-> forall x, SepC s x.
Proof.
  unfold Sep, SepC; rewrite bounded_iff, cnt_NoDup; split.
  - intros [H1 H2] x; split; [apply H1|rewrite <- cnt_all_locs; apply H2].
  - intros H; split; intros x; [apply H|rewrite cnt_all_locs; apply H].
Qed.

Lemma sep_outer_iff s : SepOuter s <-> forall x, SepOuterC s x.
Proof.
  unfold SepOuter, SepOuterC; rewrite bounded_iff, cnt_NoDup; split.
  - intros [H1 H2] x; split; [apply H1|rewrite <- cnt_all_outer; apply H2].
  - intros H; split; intros x; [apply H|rewrite cnt_all_outer; apply H].
Qed.

Lemma sep'_iff s : Sep' s <-> forall x, Sep'C s x.
Proof.
  unfold Sep', Sep'C; rewrite bounded_iff, cnt_NoDup; split.
  - intros (H1 & H2 & H3) x; split; [apply H1|split].
    + rewrite <- cnt_strict; apply H2.
    + intros Hs Hst. apply cnt_In, H3; [apply cnt_In, Hs|apply cnt_In; rewrite cnt_strict; exact Hst].
  - intros H; split; [intros x; apply H|split].
    + intros x; rewrite cnt_strict; apply H.
    + intros l Hs Hst. apply cnt_In. apply (H l); [apply cnt_In, Hs|].
      rewrite <- cnt_strict; apply cnt_In, Hst.
Qed.

(** Relations between the three invariants. *)
Theorem sep_sep' s : Sep s -> Sep' s.
Proof.
  rewrite sep_iff, sep'_iff; intros H x; destruct (H x) as [Hb Hn].
  pose proof (EI_split s x). unfold Sep'C; repeat split; try assumption; lia.
Qed.

Theorem sep'_sep_outer s : Sep' s -> SepOuter s.
Proof.
  rewrite sep'_iff, sep_outer_iff; intros H x; destruct (H x) as (Hb & Hn & _).
  split; [assumption|lia].
Qed.

Theorem sep_sep_outer s : Sep s -> SepOuter s.
Proof. intros H; apply sep'_sep_outer, sep_sep', H. Qed.

(** Without shallow exports the carve-out is empty. *)
Theorem sep'_no_shallow_sep s :
  Sep' s -> (forall e, In e (s_exports s) -> e_shallow e = false) -> Sep s.
Proof.
  rewrite sep'_iff, sep_iff; intros H Hsh x; destruct (H x) as (Hb & Hn & _).
  assert (E : ES s x = 0).
  { unfold ES, exports_inner_shallow. revert Hsh; generalize (s_exports s) as es.
    induction es as [|e es IH]; intros Hsh; cbn [flat_map]; [reflexivity|].
    rewrite cnt_app, (Hsh e (or_introl eq_refl)), cnt_nil.
    rewrite IH; [reflexivity|]. intros e' He'; apply Hsh; right; exact He'. }
  pose proof (EI_split s x). split; [assumption|lia].
Qed.

(** The invariants do not look at the write log. *)
Lemma log_irrelevant s w x :
  GO (log_writes s w) x = GO s x /\ GI (log_writes s w) x = GI s x /\
  EO (log_writes s w) x = EO s x /\ EI (log_writes s w) x = EI s x /\
  ED (log_writes s w) x = ED s x /\ ES (log_writes s w) x = ES s x.
Proof. repeat split; reflexivity. Qed.

(** * Allocation: what a copy at a given level allocates *)

(** Nested identities of a copied metadata list, split into the part that was ALLOCATED by the
    copy (deep levels) and the part that was TAKEN OVER from the source (shallow level). *)
Definition dpart (lv : level) (r : list mref) (x : loc) : nat :=
  if is_shallow lv then 0 else cnt (flat_map inner r) x.
Definition spart (lv : level) (r : list mref) (x : loc) : nat :=
  if is_shallow lv then cnt (flat_map inner r) x else 0.

Lemma parts_sum lv r x : cnt (flat_map inner r) x = dpart lv r x + spart lv r x.
Proof. unfold dpart, spart; destruct (is_shallow lv); lia. Qed.

Lemma spart_not_shallow lv r x : is_shallow lv = false -> spart lv r x = 0.
Proof. unfold spart; intros ->; reflexivity. Qed.

Lemma copy_mrefs_spec lv ms : forall n r n',
  copy_mrefs lv n ms = (r, n') -> lv <> LAlias ->
  n <= n' /\ forall x,
    cnt (map outer r) x + dpart lv r x <= 1 /\
    (cnt (map outer r) x + dpart lv r x > 0 -> n <= x < n') /\
    (spart lv r x > 0 -> cnt (flat_map inner ms) x > 0).
Proof.
  induction ms as [|m ms IH]; intros n r n' E Hlv.
  - cbn [copy_mrefs] in E. injection E as <- <-. split; [lia|]. intros x.
    unfold dpart, spart; destruct (is_shallow lv); cbn [map flat_map]; rewrite !cnt_nil; lia.
  - cbn [copy_mrefs] in E.
    destruct (copy_mref lv n m) as [a n1] eqn:Ea.
    destruct (copy_mrefs lv n1 ms) as [b n2] eqn:Eb.
    injection E as <- <-.
    destruct (IH _ _ _ Eb Hlv) as [Hle IHx]. clear IH.
    destruct lv; cbn [copy_mref] in Ea; injection Ea as <- <-; try congruence.
    + (* none *) split; [exact Hle|]. intros x; specialize (IHx x).
      unfold dpart, spart in *; cbn [is_shallow level_eqb app flat_map] in *.
      rewrite ?cnt_app. lia.
    + (* handle *) split; [exact Hle|]. intros x; specialize (IHx x).
      unfold dpart, spart in *; cbn [is_shallow level_eqb app flat_map] in *.
      rewrite ?cnt_app. lia.
    + (* shallow *) split; [lia|]. intros x; specialize (IHx x).
      unfold dpart, spart in *; cbn [is_shallow level_eqb app flat_map map outer inner] in *.
      rewrite (cnt_cons n), !cnt_app. pose proof (cnt_single n x) as [S1 S2]. lia.
    + (* deep *) split; [lia|]. intros x; specialize (IHx x).
      unfold dpart, spart in *; cbn [is_shallow level_eqb app flat_map map outer inner] in *.
      rewrite (cnt_cons n), !cnt_app.
      pose proof (cnt_single n x) as [S1 S2].
      pose proof (cnt_seq (S n) (length (inner m)) x) as [Q1 Q2]. lia.
Qed.

Lemma copy_cells_spec lv n src extra cs n' :
  copy_cells lv n src extra = (cs, n') -> lv <> LAlias ->
  n <= n' /\ forall x, cnt cs x <= 1 /\ (cnt cs x > 0 -> n <= x < n').
Proof.
  intros E Hlv; destruct lv; cbn [copy_cells] in E; injection E as <- <-; try congruence;
    (split; [lia|]); intros x; rewrite ?cnt_nil; try lia;
    pose proof (cnt_seq n (length src + extra) x) as [Q1 Q2]; lia.
Qed.

Lemma fresh_mrefs_outer n k : map outer (fresh_mrefs n k) = seq n k.
Proof. unfold fresh_mrefs; rewrite map_map; cbn [outer]; apply map_id. Qed.

Lemma fresh_mrefs_inner n k : flat_map inner (fresh_mrefs n k) = [].
Proof.
  unfold fresh_mrefs; generalize (seq n k) as l; induction l as [|a l IH]; cbn; [reflexivity|].
  exact IH.
Qed.

(** ** Identities of a holder list built by [export_with] *)

Lemma reach_outer_nodes ms : reach_outer (map node_holder ms) = map outer ms.
Proof.
  unfold reach_outer; induction ms as [|m ms IH]; cbn; [reflexivity|]. f_equal; exact IH.
Qed.
Lemma reach_outer_edges ms : reach_outer (map edge_holder ms) = map outer ms.
Proof.
  unfold reach_outer; induction ms as [|m ms IH]; cbn; [reflexivity|]. f_equal; exact IH.
Qed.
Lemma reach_inner_nodes ms : reach_inner (map node_holder ms) = flat_map inner ms.
Proof.
  unfold reach_inner; induction ms as [|m ms IH]; cbn; [reflexivity|].
  rewrite app_nil_r. f_equal; exact IH.
Qed.
Lemma reach_inner_edges ms : reach_inner (map edge_holder ms) = flat_map inner ms.
Proof.
  unfold reach_inner; induction ms as [|m ms IH]; cbn; [reflexivity|].
  rewrite app_nil_r. f_equal; exact IH.
Qed.

Lemma cnt_holders_outer k gm cs ns es x :
  cnt (reach_outer ({| h_kind := k; h_meta := gm; h_cells := cs |}
                      :: map node_holder ns ++ map edge_holder es)) x
  = cnt (map outer gm) x + cnt cs x + cnt (map outer ns) x + cnt (map outer es) x.
Proof.
  unfold reach_outer; cbn [flat_map]. rewrite flat_map_app.
  change (flat_map holder_outer (map node_holder ns)) with (reach_outer (map node_holder ns)).
  change (flat_map holder_outer (map edge_holder es)) with (reach_outer (map edge_holder es)).
  rewrite reach_outer_nodes, reach_outer_edges. unfold holder_outer; cbn [h_meta h_cells].
  rewrite !cnt_app; lia.
Qed.

Lemma cnt_holders_inner k gm cs ns es x :
  cnt (reach_inner ({| h_kind := k; h_meta := gm; h_cells := cs |}
                      :: map node_holder ns ++ map edge_holder es)) x
  = cnt (flat_map inner gm) x + cnt (flat_map inner ns) x + cnt (flat_map inner es) x.
Proof.
  unfold reach_inner; cbn [flat_map]. rewrite flat_map_app.
  change (flat_map holder_inner (map node_holder ns)) with (reach_inner (map node_holder ns)).
  change (flat_map holder_inner (map edge_holder es)) with (reach_inner (map edge_holder es)).
  rewrite reach_inner_nodes, reach_inner_edges. unfold holder_inner; cbn [h_meta].
  rewrite !cnt_app; lia.
Qed.

(** The holder view of the graph reaches exactly [g_outer] / [g_inner]. *)
Lemma graph_holders_outer g x : cnt (reach_outer (graph_holders g)) x = cnt (g_outer g) x.
Proof.
  unfold graph_holders. rewrite cnt_holders_outer. unfold g_outer.
  cbn [map]. rewrite (cnt_cons (outer (g_meta g)) (_ ++ _)), !cnt_app. lia.
Qed.
Lemma graph_holders_inner g x : cnt (reach_inner (graph_holders g)) x = cnt (g_inner g) x.
Proof.
  unfold graph_holders. rewrite cnt_holders_inner. unfold g_inner.
  cbn [flat_map]. rewrite ?app_nil_r, !cnt_app. lia.
Qed.

(** * The generic export *)

Lemma spart_pos lv r x : spart lv r x > 0 -> is_shallow lv = true.
Proof. unfold spart; destruct (is_shallow lv); [reflexivity|lia]. Qed.

(** How [export_with] changes the counts: the graph is untouched; the new export consists of
    freshly allocated identities ([fo] containers, [fi] nested values) and — only if some level
    is "shallow" — nested values taken over from the copied metadata ([si]). *)
Lemma export_with_delta kind nl el gl ns es gm src extra fr s :
  nl <> LAlias -> el <> LAlias -> gl <> LAlias ->
  let s' := export_with kind nl el gl ns es gm src extra fr s in
  let sh := is_shallow nl || is_shallow el || is_shallow gl in
  s_graph s' = s_graph s /\ s_log s' = s_log s /\ s_next s <= s_next s' /\
  exists fo fi si : loc -> nat, forall x,
    EO s' x = EO s x + fo x /\
    ED s' x = ED s x + (if sh then 0 else fi x + si x) /\
    ES s' x = ES s x + (if sh then fi x + si x else 0) /\
    fo x + fi x <= 1 /\ (fo x + fi x > 0 -> s_next s <= x < s_next s') /\
    (si x > 0 -> sh = true /\ cnt (flat_map inner (gm ++ ns ++ es)) x > 0).
Proof.
  intros Hnl Hel Hgl s' sh; subst s'; unfold export_with.
  destruct (copy_mrefs gl (s_next s) gm) as [gm' n1] eqn:E1.
  destruct (copy_cells gl n1 src extra) as [cs' n2] eqn:E2.
  destruct (copy_mrefs nl n2 ns) as [ns' n3] eqn:E3.
  destruct (copy_mrefs el n3 es) as [es' n4] eqn:E4.
  destruct (copy_mrefs_spec _ _ _ _ _ E1 Hgl) as [L1 S1].
  destruct (copy_cells_spec _ _ _ _ _ _ E2 Hgl) as [L2 S2].
  destruct (copy_mrefs_spec _ _ _ _ _ E3 Hnl) as [L3 S3].
  destruct (copy_mrefs_spec _ _ _ _ _ E4 Hel) as [L4 S4].
  cbn [s_graph s_next s_log]. split; [reflexivity|]. split; [reflexivity|]. split; [lia|].
  exists (fun x => cnt (map outer gm') x + cnt cs' x + cnt (map outer ns') x
                   + cnt (seq n4 fr) x + cnt (map outer es') x),
         (fun x => dpart gl gm' x + dpart nl ns' x + dpart el es' x),
         (fun x => spart gl gm' x + spart nl ns' x + spart el es' x).
  intros x.
  specialize (S1 x); specialize (S2 x); specialize (S3 x); specialize (S4 x).
  destruct S1 as (A1 & B1 & C1), S2 as (A2 & B2), S3 as (A3 & B3 & C3), S4 as (A4 & B4 & C4).
  pose proof (cnt_seq n4 fr x) as [Q1 Q2].
  unfold EO, ED, ES; cbn [s_exports].
  unfold exports_outer, exports_inner_deep, exports_inner_shallow.
  rewrite !cnt_flat_map_app. cbn [flat_map e_shallow]. rewrite !app_nil_r.
  unfold e_outer, e_inner; cbn [e_holders].
  rewrite cnt_holders_outer. rewrite map_app, fresh_mrefs_outer, cnt_app.
  assert (EIN : cnt (reach_inner ({| h_kind := kind; h_meta := gm'; h_cells := cs' |}
             :: map node_holder (ns' ++ fresh_mrefs n4 fr) ++ map edge_holder es')) x
           = (dpart gl gm' x + dpart nl ns' x + dpart el es' x)
             + (spart gl gm' x + spart nl ns' x + spart el es' x)).
  { rewrite cnt_holders_inner, flat_map_app, fresh_mrefs_inner, app_nil_r.
    rewrite (parts_sum gl gm'), (parts_sum nl ns'), (parts_sum el es'). lia. }
  refine (conj _ (conj _ (conj _ (conj _ (conj _ _))))).
  - lia.
  - fold sh. destruct sh; rewrite ?cnt_nil, ?EIN; lia.
  - fold sh. destruct sh; rewrite ?cnt_nil, ?EIN; lia.
  - lia.
  - lia.
  - intros Hs.
    assert (D : spart gl gm' x > 0 \/ spart nl ns' x > 0 \/ spart el es' x > 0) by lia.
    split.
    + subst sh. destruct D as [D|[D|D]]; rewrite (spart_pos _ _ _ D); rewrite ?orb_true_r;
        reflexivity.
    + rewrite ?cnt_flat_map_app.
      destruct D as [D|[D|D]]; [specialize (C1 D)|specialize (C3 D)|specialize (C4 D)]; lia.
Qed.

Lemma GO_graph_eq s s' x : s_graph s' = s_graph s -> GO s' x = GO s x /\ GI s' x = GI s x.
Proof. unfold GO, GI; intros ->; split; reflexivity. Qed.

(** [export_with] at any levels other than "alias" preserves [Sep'], provided what is copied
    belongs to the graph. *)
Lemma export_with_sep' kind nl el gl ns es gm src extra fr s :
  nl <> LAlias -> el <> LAlias -> gl <> LAlias ->
  (forall x, cnt (flat_map inner (gm ++ ns ++ es)) x > 0 -> GI s x > 0) ->
  Sep' s -> Sep' (export_with kind nl el gl ns es gm src extra fr s).
Proof.
  intros Hnl Hel Hgl Hsrc. rewrite !sep'_iff. intros H x.
  destruct (@export_with_delta kind nl el gl ns es gm src extra fr s Hnl Hel Hgl)
    as (Hg & _ & Hn & fo & fi & si & D).
  specialize (D x). destruct D as (D1 & D2 & D3 & D4 & D5 & D6).
  destruct (GO_graph_eq s _ x Hg) as [G1 G2].
  specialize (Hsrc x). destruct (H x) as (Hb & Hs & Hc). unfold Sep'C, BoundedC in *.
  rewrite !EI_split in *. rewrite G1, G2, D1, D2, D3.
  destruct (is_shallow nl || is_shallow el || is_shallow gl) eqn:Esh.
  - assert (Hsi : si x > 0 -> GI s x > 0) by (intros Hp; apply Hsrc, D6, Hp). lia.
  - assert (Hsi : si x = 0).
    { destruct (Nat.eq_dec (si x) 0) as [E|E]; [exact E|].
      destruct D6 as [D6 _]; [lia|discriminate]. }
    lia.
Qed.

(** At levels none / handle / deep it preserves full [Sep]. *)
Lemma export_with_sep kind nl el gl ns es gm src extra fr s :
  nl <> LAlias -> el <> LAlias -> gl <> LAlias ->
  is_shallow nl = false -> is_shallow el = false -> is_shallow gl = false ->
  Sep s -> Sep (export_with kind nl el gl ns es gm src extra fr s).
Proof.
  intros Hnl Hel Hgl Snl Sel Sgl. rewrite !sep_iff. intros H x.
  destruct (@export_with_delta kind nl el gl ns es gm src extra fr s Hnl Hel Hgl)
    as (Hg & _ & Hn & fo & fi & si & D).
  specialize (D x). destruct D as (D1 & D2 & D3 & D4 & D5 & D6).
  destruct (GO_graph_eq s _ x Hg) as [G1 G2].
  destruct (H x) as (Hb & Hs). unfold SepC, BoundedC in *.
  rewrite !EI_split in *. rewrite G1, G2, D1, D2, D3.
  rewrite Snl, Sel, Sgl in *. cbn [orb] in *.
  assert (Hsi : si x = 0).
  { destruct (Nat.eq_dec (si x) 0) as [E|E]; [exact E|].
    destruct D6 as [D6 _]; [lia|discriminate]. }
  lia.
Qed.

(** * Cache filling *)

Lemma GO_unfold g x :
  cnt (g_outer g) x =
  cnt [outer (g_meta g)] x + cnt (map outer (g_nodes g)) x + cnt (map outer (g_edges g)) x
  + cnt (opt (g_nx g)) x + cnt (opt (g_adj g)) x + cnt (opt (g_variables g)) x
  + cnt (g_lag_lists g) x + cnt (g_var_lists g) x.
Proof.
  unfold g_outer, g_cells. rewrite (cnt_cons (outer (g_meta g)) (_ ++ _)), !cnt_app. lia.
Qed.

Lemma GI_unfold g x :
  cnt (g_inner g) x =
  cnt (inner (g_meta g)) x + cnt (flat_map inner (g_nodes g)) x
  + cnt (flat_map inner (g_edges g)) x.
Proof. unfold g_inner. rewrite !cnt_app. lia. Qed.

Lemma fill_if_spec (b : bool) c n c' n' :
  (if b then fill_opt c n else (c, n)) = (c', n') ->
  n <= n' /\ slot_kept c c' /\
  exists d : loc -> nat, forall x,
    cnt (opt c') x = cnt (opt c) x + d x /\ d x <= 1 /\ (d x > 0 -> n <= x < n').
Proof.
  destruct b; [destruct c as [l|]|]; cbn [fill_opt]; intros E; injection E as <- <-.
  - split; [lia|]. split; [reflexivity|]. exists (fun _ => 0). intros x; lia.
  - split; [lia|]. split; [exact I|]. exists (cnt [n]). intros x.
    cbn [opt]. rewrite cnt_nil. pose proof (cnt_single n x) as [S1 S2]. lia.
  - split; [lia|]. split; [destruct c; reflexivity|]. exists (fun _ => 0). intros x; lia.
Qed.

Lemma fill_caches_delta f s :
  let s1 := fill_caches f s in
  s_next s <= s_next s1 /\ s_exports s1 = s_exports s /\ s_log s1 = s_log s /\
  graph_core (s_graph s1) = graph_core (s_graph s) /\
  slot_kept (g_nx (s_graph s)) (g_nx (s_graph s1)) /\
  slot_kept (g_adj (s_graph s)) (g_adj (s_graph s1)) /\
  slot_kept (g_variables (s_graph s)) (g_variables (s_graph s1)) /\
  exists d : loc -> nat, forall x,
    GO s1 x = GO s x + d x /\ GI s1 x = GI s x /\ d x <= 1 /\
    (d x > 0 -> s_next s <= x < s_next s1).
Proof.
  destruct f as [[fnx fadj] fvar]. unfold fill_caches.
  destruct (if fnx then fill_opt (g_nx (s_graph s)) (s_next s) else (g_nx (s_graph s), s_next s))
    as [nx n1] eqn:E1.
  destruct (if fadj then fill_opt (g_adj (s_graph s)) n1 else (g_adj (s_graph s), n1))
    as [adj n2] eqn:E2.
  destruct (if fvar then fill_opt (g_variables (s_graph s)) n2 else (g_variables (s_graph s), n2))
    as [vars n3] eqn:E3.
  destruct (fill_if_spec _ _ _ _ _ E1) as (L1 & K1 & d1 & D1).
  destruct (fill_if_spec _ _ _ _ _ E2) as (L2 & K2 & d2 & D2).
  destruct (fill_if_spec _ _ _ _ _ E3) as (L3 & K3 & d3 & D3).
  cbn [s_next s_exports s_log s_graph with_caches g_nx g_adj g_variables].
  repeat (split; [first [lia|reflexivity|assumption]|]).
  exists (fun x => d1 x + d2 x + d3 x). intros x.
  specialize (D1 x); specialize (D2 x); specialize (D3 x).
  unfold GO, GI; cbn [s_graph]. rewrite !GO_unfold, !GI_unfold.
  cbn [with_caches g_meta g_nodes g_edges g_nx g_adj g_variables g_lag_lists g_var_lists].
  lia.
Qed.

Lemma fill_caches_sep' f s : Sep' s -> Sep' (fill_caches f s).
Proof.
  rewrite !sep'_iff; intros H x.
  destruct (fill_caches_delta f s) as (Hn & He & _ & _ & _ & _ & _ & d & D).
  destruct (D x) as (D1 & D2 & D3 & D4). destruct (H x) as (Hb & Hs & Hc).
  unfold Sep'C, BoundedC in *. rewrite !EI_split in *. unfold EO, ED, ES in *.
  rewrite He, D1, D2. lia.
Qed.

Lemma fill_caches_sep f s : Sep s -> Sep (fill_caches f s).
Proof.
  rewrite !sep_iff; intros H x.
  destruct (fill_caches_delta f s) as (Hn & He & _ & _ & _ & _ & _ & d & D).
  destruct (D x) as (D1 & D2 & D3 & D4). destruct (H x) as (Hb & Hs).
  unfold SepC, BoundedC, EO, EI in *. rewrite He, D1, D2. lia.
Qed.

(** * What an export operation copies belongs to the graph *)

Lemma sel_in ms idx m : In m (sel ms idx) -> In m ms.
Proof.
  unfold sel; rewrite in_flat_map; intros (i & _ & Hi).
  destruct (nth_error ms i) as [m'|] eqn:E; [|contradiction].
  destruct Hi as [<-|[]]. eapply nth_error_In; exact E.
Qed.

Lemma x_nodes_in x g m : In m (x_nodes x g) -> In m (g_nodes g).
Proof.
  destruct x; cbn [x_nodes]; try contradiction; try (apply sel_in); try (intros H; exact H).
  rewrite in_app_iff; intros [H|H]; [exact H|eapply sel_in; exact H].
Qed.

Lemma x_edges_in x g m : In m (x_edges x g) -> In m (g_edges g).
Proof.
  destruct x; cbn [x_edges]; try contradiction; try (apply sel_in); try (intros H; exact H).
Qed.

Lemma x_gmeta_in x g m : In m (x_gmeta x g) -> m = g_meta g.
Proof.
  destruct x; cbn [x_gmeta]; try contradiction; intros [<-|[]]; reflexivity.
Qed.

Lemma x_sources_in_graph x g y :
  cnt (flat_map inner (x_gmeta x g ++ x_nodes x g ++ x_edges x g)) y > 0 ->
  cnt (g_inner g) y > 0.
Proof.
  rewrite <- !cnt_In. rewrite in_flat_map. intros (m & Hm & Hy).
  unfold g_inner. rewrite !in_app_iff in *. rewrite !in_flat_map.
  destruct Hm as [Hm|[Hm|Hm]].
  - left. apply x_gmeta_in in Hm; subst m; exact Hy.
  - right; left. exists m; split; [eapply x_nodes_in; exact Hm|exact Hy].
  - right; right. exists m; split; [eapply x_edges_in; exact Hm|exact Hy].
Qed.

(** * The table: no row aliases; only [to_dict] is shallow *)

Definition is_export_dict (x : xop) : bool :=
  match x with ExportDict _ => true | _ => false end.

Ltac destruct_xop x :=
  destruct x; repeat match goal with b : bool |- _ => destruct b end.

Lemma levels_no_alias x :
  let '(nl, el, gl) := levels_of x in nl <> LAlias /\ el <> LAlias /\ gl <> LAlias.
Proof. destruct_xop x; vm_compute; repeat split; discriminate. Qed.

Lemma levels_not_shallow x :
  is_export_dict x = false ->
  let '(nl, el, gl) := levels_of x in
  is_shallow nl = false /\ is_shallow el = false /\ is_shallow gl = false.
Proof. destruct_xop x; intros E; try discriminate E; vm_compute; repeat split. Qed.

(** Every row of the table is used by some operation and parses to a non-alias level; the
    only row with a shallow level is [to_dict]. *)
Lemma table_rows_safe :
  forallb (fun r => match r with (_, a, b) =>
             negb (level_eqb (level_of_string a) LAlias) &&
             negb (level_eqb (level_of_string b) LAlias) end) copy_discipline = true.
Proof. vm_compute; reflexivity. Qed.

Lemma table_only_to_dict_shallow :
  map (fun r => match r with (n, _, _) => n end)
      (filter (fun r => match r with (_, a, b) =>
                 is_shallow (level_of_string a) || is_shallow (level_of_string b) end)
              copy_discipline) = ["to_dict"%string].
Proof. vm_compute; reflexivity. Qed.

(** * Export steps preserve separation *)

Lemma step_export_sep' s x : Sep' s -> Sep' (step_export s x).
Proof.
  intros H. unfold step_export.
  pose proof (levels_no_alias x) as HL.
  destruct (levels_of x) as [[nl el] gl]. destruct HL as (H1 & H2 & H3).
  apply export_with_sep'; try assumption.
  - intros y; unfold GI; apply x_sources_in_graph.
  - apply fill_caches_sep', H.
Qed.

Lemma step_export_sep s x : is_export_dict x = false -> Sep s -> Sep (step_export s x).
Proof.
  intros Hx H. unfold step_export.
  pose proof (levels_no_alias x) as HL. pose proof (levels_not_shallow x Hx) as HS.
  destruct (levels_of x) as [[nl el] gl]. destruct HL as (H1 & H2 & H3), HS as (S1 & S2 & S3).
  apply export_with_sep; try assumption. apply fill_caches_sep, H.
Qed.

(** * Graph mutations *)

Ltac gnorm :=
  unfold GO, GI;
  cbn [s_graph s_next s_exports s_log];
  rewrite ?GO_unfold, ?GI_unfold;
  cbn [set_nodes set_edges set_lists g_meta g_nodes g_edges g_nx g_adj g_variables
       g_lag_lists g_var_lists opt outer inner];
  rewrite ?cnt_map_app, ?cnt_flat_map_app, ?cnt_app;
  unfold fresh_mref;
  cbn [map flat_map outer inner];
  rewrite ?app_nil_r, ?cnt_nil.

Definition caches (g : graph) (x : loc) : nat :=
  cnt (opt (g_nx g)) x + cnt (opt (g_adj g)) x + cnt (opt (g_variables g)) x.

(** A graph mutation drops some of the graph's identities ([ro], [ri]) and allocates new ones
    ([fo], [fi]); it does not touch the exports. *)
Definition gdelta (s s' : state) : Prop :=
  s_exports s' = s_exports s /\ s_next s <= s_next s' /\
  exists ro ri fo fi : loc -> nat, forall x,
    GO s' x + ro x = GO s x + fo x /\ GI s' x + ri x = GI s x + fi x /\
    fo x + fi x <= 1 /\ (fo x + fi x > 0 -> s_next s <= x < s_next s').

Lemma gdelta_refl_log s w :
  gdelta s {| s_next := s_next s; s_graph := s_graph s; s_exports := s_exports s; s_log := w |}.
Proof.
  split; [reflexivity|]. split; [cbn; lia|].
  exists (fun _ => 0), (fun _ => 0), (fun _ => 0), (fun _ => 0). intros x.
  unfold GO, GI; cbn [s_graph s_next]. lia.
Qed.

Lemma gdelta_refl s : gdelta s s.
Proof.
  split; [reflexivity|]. split; [lia|].
  exists (fun _ => 0), (fun _ => 0), (fun _ => 0), (fun _ => 0). intros x. lia.
Qed.

Lemma step_gmeta_delta s k : gdelta s (step_gmeta s k).
Proof.
  unfold step_gmeta. split; [reflexivity|]. split; [cbn [s_next]; lia|].
  exists (fun _ => 0), (fun _ => 0), (fun _ => 0), (cnt (seq (s_next s) k)). intros x.
  pose proof (cnt_seq (s_next s) k x) as [Q1 Q2].
  gnorm. lia.
Qed.

Lemma step_gmut_delta s m : gdelta s (step_gmut s m).
Proof.
  destruct m as [k nl nv|k|i|i|i|[|] i|]; unfold step_gmut.
  - (* add node *)
    split; [reflexivity|]. split; [cbn [s_next]; lia|].
    set (n := s_next s). set (n1 := S n + k).
    exists (caches (s_graph s)), (fun _ => 0),
      (fun x => cnt [n] x + cnt (seq n1 (b2n nl)) x + cnt (seq (n1 + b2n nl) (b2n nv)) x),
      (cnt (seq (S n) k)).
    intros x. unfold caches.
    pose proof (cnt_single n x) as [S1 S2].
    pose proof (cnt_seq (S n) k x) as [Q1 Q2].
    pose proof (cnt_seq n1 (b2n nl) x) as [Q3 Q4].
    pose proof (cnt_seq (n1 + b2n nl) (b2n nv) x) as [Q5 Q6].
    gnorm. fold n. subst n1. lia.
  - (* add edge *)
    split; [reflexivity|]. split; [cbn [s_next]; lia|].
    set (n := s_next s).
    exists (caches (s_graph s)), (fun _ => 0), (cnt [n]), (cnt (seq (S n) k)).
    intros x. unfold caches.
    pose proof (cnt_single n x) as [S1 S2].
    pose proof (cnt_seq (S n) k x) as [Q1 Q2].
    gnorm. fold n. lia.
  - (* delete node *)
    split; [reflexivity|]. split; [cbn [s_next]; lia|].
    destruct (nth_error (g_nodes (s_graph s)) i) as [old|] eqn:E.
    + exists (fun x => caches (s_graph s) x + cnt [outer old] x), (cnt (inner old)),
        (fun _ => 0), (fun _ => 0).
      intros x. unfold caches. gnorm.
      rewrite (cnt_map_remove_nth outer i _ _ x E), (cnt_flat_map_remove_nth inner i _ _ x E). lia.
    + exists (caches (s_graph s)), (fun _ => 0), (fun _ => 0), (fun _ => 0).
      intros x. unfold caches. gnorm. rewrite (remove_nth_none _ _ E). lia.
  - (* delete edge *)
    split; [reflexivity|]. split; [cbn [s_next]; lia|].
    destruct (nth_error (g_edges (s_graph s)) i) as [old|] eqn:E.
    + exists (fun x => caches (s_graph s) x + cnt [outer old] x), (cnt (inner old)),
        (fun _ => 0), (fun _ => 0).
      intros x. unfold caches. gnorm.
      rewrite (cnt_map_remove_nth outer i _ _ x E), (cnt_flat_map_remove_nth inner i _ _ x E). lia.
    + exists (caches (s_graph s)), (fun _ => 0), (fun _ => 0), (fun _ => 0).
      intros x. unfold caches. gnorm. rewrite (remove_nth_none _ _ E). lia.
  - (* replace node *)
    destruct (nth_error (g_nodes (s_graph s)) i) as [old|] eqn:E; [|apply gdelta_refl].
    split; [reflexivity|]. split; [cbn [s_next]; lia|].
    set (n := s_next s).
    exists (fun x => caches (s_graph s) x + cnt [outer old] x), (fun _ => 0),
      (cnt [n]), (fun _ => 0).
    intros x. unfold caches. pose proof (cnt_single n x) as [S1 S2]. gnorm. fold n.
    rewrite (cnt_map_remove_nth outer i _ _ x E), (cnt_flat_map_remove_nth inner i _ _ x E). lia.
  - (* drop a per-variable index list *)
    split; [reflexivity|]. split; [cbn [s_next]; lia|].
    exists (fun x => caches (s_graph s) x + (cnt (g_var_lists (s_graph s)) x
                       - cnt (remove_nth i (g_var_lists (s_graph s))) x)),
      (fun _ => 0), (fun _ => 0), (fun _ => 0).
    intros x. unfold caches. pose proof (cnt_remove_nth_le i (g_var_lists (s_graph s)) x).
    gnorm. lia.
  - (* drop a per-lag index list *)
    split; [reflexivity|]. split; [cbn [s_next]; lia|].
    exists (fun x => caches (s_graph s) x + (cnt (g_lag_lists (s_graph s)) x
                       - cnt (remove_nth i (g_lag_lists (s_graph s))) x)),
      (fun _ => 0), (fun _ => 0), (fun _ => 0).
    intros x. unfold caches. pose proof (cnt_remove_nth_le i (g_lag_lists (s_graph s)) x).
    gnorm. lia.
  - (* writes only *)
    apply gdelta_refl_log.
Qed.

Lemma gdelta_sep' s s' : gdelta s s' -> Sep' s -> Sep' s'.
Proof.
  intros (He & Hn & ro & ri & fo & fi & D). rewrite !sep'_iff. intros H x.
  destruct (D x) as (D1 & D2 & D3 & D4). destruct (H x) as (Hb & Hs & Hc).
  unfold Sep'C, BoundedC in *. rewrite !EI_split in *. unfold EO, ED, ES in *. rewrite He.
  lia.
Qed.

Lemma gdelta_sep s s' : gdelta s s' -> Sep s -> Sep s'.
Proof.
  intros (He & Hn & ro & ri & fo & fi & D). rewrite !sep_iff. intros H x.
  destruct (D x) as (D1 & D2 & D3 & D4). destruct (H x) as (Hb & Hs).
  unfold SepC, BoundedC in *. unfold EO, EI in *. rewrite He. lia.
Qed.

(** * Main theorems: separation is an invariant of every history *)

Theorem sep_init : Sep init.
Proof.
  split.
  - intros l Hl. vm_compute in Hl. destruct Hl as [<-|[]]. cbn; lia.
  - vm_compute. constructor; [intros []|constructor].
Qed.

Theorem sep'_init : Sep' init.
Proof. apply sep_sep', sep_init. Qed.

(** [Sep'] ([Sep] with the [to_dict] nested-value carve-out) is preserved by EVERY operation. *)
Theorem sep_step s o : Sep' s -> Sep' (step s o).
Proof.
  intros H; destruct o as [x|k|m|i|i]; cbn [step].
  - apply step_export_sep', H.
  - eapply gdelta_sep'; [apply step_gmeta_delta|exact H].
  - eapply gdelta_sep'; [apply step_gmut_delta|exact H].
  - eapply gdelta_sep'; [apply gdelta_refl_log|exact H].
  - eapply gdelta_sep'; [apply gdelta_refl_log|exact H].
Qed.

Theorem sep_run ops : forall s, Sep' s -> Sep' (run s ops).
Proof.
  unfold run; induction ops as [|o ops IH]; intros s H; cbn [fold_left]; [exact H|].
  apply IH, sep_step, H.
Qed.

Corollary sep_run_init ops : Sep' (run init ops).
Proof. apply sep_run, sep'_init. Qed.

(** Container-level separation holds after every history ([to_dict] included). *)
Corollary sep_outer_run_init ops : SepOuter (run init ops).
Proof. apply sep'_sep_outer, sep_run_init. Qed.

(** Every operation OTHER than [to_dict] preserves full [Sep]. *)
Definition op_is_to_dict (o : op) : bool :=
  match o with X (ExportDict _) => true | _ => false end.

Theorem sep_full_step s o : op_is_to_dict o = false -> Sep s -> Sep (step s o).
Proof.
  intros Ho H; destruct o as [x|k|m|i|i]; cbn [step].
  - apply step_export_sep; [destruct x; try reflexivity; discriminate Ho|exact H].
  - eapply gdelta_sep; [apply step_gmeta_delta|exact H].
  - eapply gdelta_sep; [apply step_gmut_delta|exact H].
  - eapply gdelta_sep; [apply gdelta_refl_log|exact H].
  - eapply gdelta_sep; [apply gdelta_refl_log|exact H].
Qed.

Theorem sep_full_run ops : forall s,
  forallb (fun o => negb (op_is_to_dict o)) ops = true -> Sep s -> Sep (run s ops).
Proof.
  unfold run; induction ops as [|o ops IH]; intros s Hops H; cbn [fold_left]; [exact H|].
  cbn [forallb] in Hops. apply andb_true_iff in Hops. destruct Hops as [Ho Hops].
  apply IH; [exact Hops|]. apply sep_full_step; [|exact H].
  destruct (op_is_to_dict o); [discriminate Ho|reflexivity].
Qed.

(** For [to_dict] itself: container-level separation. *)
Theorem sep_outer_export_dict s ep : Sep s -> SepOuter (step s (ExportDict ep)).
Proof. intros H. apply sep'_sep_outer, sep_step, sep_sep', H. Qed.

(** * Boolean checkers are sound (used for the concrete witnesses and examples) *)

Lemma memb_iff l ls : memb l ls = true <-> In l ls.
Proof.
  unfold memb; rewrite existsb_exists; split.
  - intros (y & Hy & E). apply Nat.eqb_eq in E; subst; exact Hy.
  - intros H; exists l; split; [exact H|apply Nat.eqb_refl].
Qed.

Lemma nodupb_iff l : nodupb l = true <-> NoDup l.
Proof.
  induction l as [|a l IH]; cbn [nodupb].
  - split; [constructor|reflexivity].
  - rewrite andb_true_iff, negb_true_iff, IH. fold (memb a l). split.
    + intros [Hm Hn]. constructor; [|exact Hn]. intros Hin. apply memb_iff in Hin. congruence.
    + intros Hnd. inversion Hnd as [|? ? Hnot Hnd']; subst. split; [|exact Hnd'].
      destruct (memb a l) eqn:E; [|reflexivity]. apply memb_iff in E. contradiction.
Qed.

Lemma boundedb_iff s : boundedb s = true <-> Bounded s.
Proof.
  unfold boundedb, Bounded. rewrite forallb_forall. split; intros H l Hl.
  - apply Nat.ltb_lt, H, Hl.
  - apply Nat.ltb_lt, H, Hl.
Qed.

Lemma sepb_iff s : sepb s = true <-> Sep s.
Proof. unfold sepb, Sep. rewrite andb_true_iff, boundedb_iff, nodupb_iff. tauto. Qed.

Lemma sep_outerb_iff s : sep_outerb s = true <-> SepOuter s.
Proof. unfold sep_outerb, SepOuter. rewrite andb_true_iff, boundedb_iff, nodupb_iff. tauto. Qed.

Lemma sep'b_sound s : sep'b s = true -> Sep' s.
Proof.
  unfold sep'b, Sep'. rewrite !andb_true_iff, boundedb_iff, nodupb_iff, forallb_forall.
  intros [[Hb Hn] Hf]. split; [exact Hb|]. split; [exact Hn|].
  intros l Hs Hst. specialize (Hf l Hs). apply orb_true_iff in Hf. destruct Hf as [Hf|Hf].
  - apply negb_true_iff in Hf. apply memb_iff in Hst. congruence.
  - apply memb_iff, Hf.
Qed.

(** * The known finding: [to_dict] shares nested values *)

(** A graph with one node whose metadata holds one nested mutable value
    ([g.add_node('x', meta={'a': []})]). *)
Definition one_node_state : state := run init [MutateGraph (GAddNode 1 true true)].

(** The full statement, kept visible. *)
Definition sep_full_step_statement : Prop := forall s o, Sep s -> Sep (step s o).

Theorem to_dict_inner_shared_refuted :
  exists s, Sep s /\ ~ Sep (step s (ExportDict [])).
Proof.
  exists one_node_state. split.
  - apply sepb_iff. vm_compute. reflexivity.
  - intros H. apply sepb_iff in H. vm_compute in H. discriminate H.
Qed.

Corollary sep_full_step_refuted : ~ sep_full_step_statement.
Proof.
  intros H. destruct to_dict_inner_shared_refuted as (s & Hs & Hn).
  apply Hn, H, Hs.
Qed.

(** The shared identity, concretely: the nested value of the node's metadata (identity 2) is
    reachable from the graph and from the dictionary; the dictionaries themselves differ. *)
Example to_dict_shares_exactly_inner :
  let s := step one_node_state (ExportDict []) in
  g_nodes (s_graph s) = [{| outer := 1; inner := [2] |}] /\
  map (fun e => flat_map h_meta (e_holders e)) (s_exports s)
    = [[{| outer := 5; inner := [] |}; {| outer := 10; inner := [2] |}]] /\
  sepb s = false /\ sep_outerb s = true /\ sep'b s = true.
Proof. vm_compute. repeat split. Qed.

(** * Mutating an export is invisible elsewhere; mutating the graph is invisible in exports *)

Lemma content_log_writes s w l : content (log_writes s w) l = cnt w l + content s l.
Proof. unfold content, log_writes; cbn [s_log]. apply count_occ_app. Qed.

Lemma observe_log_writes s w ls :
  (forall l, In l ls -> ~ In l w) -> observe (log_writes s w) ls = observe s ls.
Proof.
  intros H. unfold observe. apply map_ext_in. intros l Hl.
  rewrite content_log_writes. apply H, cnt_notIn in Hl. lia.
Qed.

Lemma cnt_e_reach e x : cnt (e_reach e) x = cnt (e_outer e) x + cnt (e_inner e) x.
Proof. unfold e_reach, reach, e_outer, e_inner. apply cnt_app. Qed.

Lemma cnt_graph_locs s x :
  cnt (g_outer (s_graph s) ++ g_inner (s_graph s)) x = GO s x + GI s x.
Proof. rewrite cnt_app. reflexivity. Qed.

Definition deep_inner (e : export) : list loc := if e_shallow e then [] else e_inner e.
Definition shallow_inner (e : export) : list loc := if e_shallow e then e_inner e else [].

Lemma e_inner_split e x : cnt (e_inner e) x = cnt (deep_inner e) x + cnt (shallow_inner e) x.
Proof. unfold deep_inner, shallow_inner; destruct (e_shallow e); rewrite cnt_nil; lia. Qed.

(** Bounds of one export (resp. two different exports) by the totals. *)
Lemma export_le s i e x :
  nth_error (s_exports s) i = Some e ->
  cnt (e_outer e) x <= EO s x /\ cnt (e_inner e) x <= EI s x /\
  cnt (deep_inner e) x <= ED s x /\ cnt (shallow_inner e) x <= ES s x.
Proof.
  intros E. apply nth_error_In in E. unfold EO, EI, ED, ES.
  repeat split.
  - apply (cnt_flat_map_in e_outer _ _ x E).
  - apply (cnt_flat_map_in e_inner _ _ x E).
  - apply (cnt_flat_map_in deep_inner _ _ x E).
  - apply (cnt_flat_map_in shallow_inner _ _ x E).
Qed.

Lemma export_two_le s i j ei ej x :
  i <> j -> nth_error (s_exports s) i = Some ei -> nth_error (s_exports s) j = Some ej ->
  cnt (e_outer ei) x + cnt (e_outer ej) x <= EO s x /\
  cnt (e_inner ei) x + cnt (e_inner ej) x <= EI s x /\
  cnt (deep_inner ei) x + cnt (deep_inner ej) x <= ED s x.
Proof.
  intros Hij Ei Ej. unfold EO, EI, ED. repeat split.
  - apply (cnt_flat_map_two e_outer _ _ _ _ _ x Hij Ei Ej).
  - apply (cnt_flat_map_two e_inner _ _ _ _ _ x Hij Ei Ej).
  - apply (cnt_flat_map_two deep_inner _ _ _ _ _ x Hij Ei Ej).
Qed.

(** ** The write set of [MutateExport i] is disjoint from the graph and from every other export *)

Theorem writes_disjoint_graph s i l :
  Sep s -> In l (writes s i) -> ~ In l (g_outer (s_graph s) ++ g_inner (s_graph s)).
Proof.
  rewrite sep_iff. intros H Hw. unfold writes in Hw.
  destruct (nth_error (s_exports s) i) as [e|] eqn:E; [|contradiction].
  apply cnt_In in Hw. rewrite cnt_e_reach in Hw. apply cnt_notIn. rewrite cnt_graph_locs.
  destruct (export_le s i _ l E) as (L1 & L2 & _). destruct (H l) as [_ Hs]. lia.
Qed.

Theorem writes_disjoint_export s i j e l :
  Sep s -> j <> i -> nth_error (s_exports s) j = Some e ->
  In l (writes s i) -> ~ In l (e_reach e).
Proof.
  rewrite sep_iff. intros H Hji Ej Hw. unfold writes in Hw.
  destruct (nth_error (s_exports s) i) as [ei|] eqn:Ei; [|contradiction].
  apply cnt_In in Hw. rewrite cnt_e_reach in Hw. apply cnt_notIn. rewrite cnt_e_reach.
  assert (Hij : i <> j) by congruence.
  destruct (export_two_le s _ _ _ _ l Hij Ei Ej) as (L1 & L2 & _). destruct (H l) as [_ Hs]. lia.
Qed.

Theorem export_mutation_invisible s i :
  Sep s ->
  observe_graph (step s (MutateExport i)) = observe_graph s /\
  (forall j, j <> i -> observe_export (step s (MutateExport i)) j = observe_export s j) /\
  s_graph (step s (MutateExport i)) = s_graph s /\
  s_exports (step s (MutateExport i)) = s_exports s.
Proof.
  intros H. cbn [step]. split; [|split; [|split; reflexivity]].
  - unfold observe_graph. cbn [log_writes s_graph]. apply observe_log_writes.
    intros l Hl Hw. exact (writes_disjoint_graph s i l H Hw Hl).
  - intros j Hj. unfold observe_export. cbn [log_writes s_exports].
    destruct (nth_error (s_exports s) j) as [e|] eqn:E; [|reflexivity].
    apply observe_log_writes. intros l Hl Hw.
    exact (writes_disjoint_export s i j e l H Hj E Hw Hl).
Qed.

(** Under [Sep'] the same holds for every export that was not made by a shallow copy … *)
Theorem export_mutation_invisible' s i ei :
  Sep' s -> nth_error (s_exports s) i = Some ei -> e_shallow ei = false ->
  observe_graph (step s (MutateExport i)) = observe_graph s /\
  (forall j, j <> i -> observe_export (step s (MutateExport i)) j = observe_export s j).
Proof.
  rewrite sep'_iff. intros H Ei Hsh. cbn [step]. unfold writes. rewrite Ei.
  assert (Hd : forall x, cnt (e_inner ei) x = cnt (deep_inner ei) x)
    by (intros x; unfold deep_inner; rewrite Hsh; reflexivity).
  split.
  - unfold observe_graph. cbn [log_writes s_graph]. apply observe_log_writes.
    intros l Hl Hw. apply cnt_In in Hl, Hw. rewrite cnt_graph_locs in Hl.
    rewrite cnt_e_reach, Hd in Hw.
    destruct (export_le s i _ l Ei) as (L1 & _ & L3 & _). destruct (H l) as (_ & Hs & _). lia.
  - intros j Hj. unfold observe_export. cbn [log_writes s_exports].
    destruct (nth_error (s_exports s) j) as [ej|] eqn:Ej; [|reflexivity].
    apply observe_log_writes. intros l Hl Hw. apply cnt_In in Hl, Hw.
    rewrite cnt_e_reach in Hl, Hw. rewrite Hd in Hw. rewrite (e_inner_split ej) in Hl.
    assert (Hij : i <> j) by congruence.
    destruct (export_two_le s _ _ _ _ l Hij Ei Ej) as (L1 & _ & L3).
    destruct (export_le s j _ l Ej) as (_ & _ & _ & L4).
    destruct (H l) as (_ & Hs & Hc). lia.
Qed.

(** … and for EVERY export (shallow ones included) when only its containers are written. *)
Theorem export_outer_mutation_invisible s i :
  Sep' s ->
  observe_graph (step s (MutateExportOuter i)) = observe_graph s /\
  (forall j, j <> i -> observe_export (step s (MutateExportOuter i)) j = observe_export s j).
Proof.
  rewrite sep'_iff. intros H. cbn [step]. unfold writes_outer.
  destruct (nth_error (s_exports s) i) as [ei|] eqn:Ei.
  2:{ split; [|intros j _]; reflexivity. }
  split.
  - unfold observe_graph. cbn [log_writes s_graph]. apply observe_log_writes.
    intros l Hl Hw. apply cnt_In in Hl, Hw. rewrite cnt_graph_locs in Hl.
    destruct (export_le s i _ l Ei) as (L1 & _). destruct (H l) as (_ & Hs & _). lia.
  - intros j Hj. unfold observe_export. cbn [log_writes s_exports].
    destruct (nth_error (s_exports s) j) as [ej|] eqn:Ej; [|reflexivity].
    apply observe_log_writes. intros l Hl Hw. apply cnt_In in Hl, Hw.
    rewrite cnt_e_reach in Hl. rewrite (e_inner_split ej) in Hl.
    assert (Hij : i <> j) by congruence.
    destruct (export_two_le s _ _ _ _ l Hij Ei Ej) as (L1 & _ & _).
    destruct (export_le s j _ l Ej) as (_ & _ & L3 & L4).
    destruct (H l) as (_ & Hs & Hc). lia.
Qed.

(** With the carve-out the deep mutation of a [to_dict] result IS visible in the graph
    (known finding F9, behavioural form). *)
Theorem to_dict_nested_write_visible :
  exists s i, Sep' s /\ observe_graph (step s (MutateExport i)) <> observe_graph s.
Proof.
  exists (step one_node_state (ExportDict [])), 0. split.
  - apply sep'b_sound. vm_compute. reflexivity.
  - vm_compute. discriminate.
Qed.

(** ** Later changes of the graph never reach an earlier export *)

Definition is_graph_mutation (o : op) : bool :=
  match o with MutateGraphMeta _ | MutateGraph _ => true | _ => false end.

Lemma graph_mutation_log s o :
  is_graph_mutation o = true ->
  s_exports (step s o) = s_exports s /\
  exists w, s_log (step s o) = w ++ s_log s /\
            forall l, In l w -> In l (g_outer (s_graph s) ++ g_inner (s_graph s)).
Proof.
  destruct o as [x|k|m|i|i]; try discriminate; intros _; cbn [step].
  - split; [reflexivity|]. exists [outer (g_meta (s_graph s))]. split; [reflexivity|].
    intros l [<-|[]]. apply in_or_app; left. unfold g_outer; left; reflexivity.
  - assert (Hidx : forall l, In l (g_lag_lists (s_graph s) ++ g_var_lists (s_graph s)) ->
                             In l (g_outer (s_graph s) ++ g_inner (s_graph s))).
    { intros l Hl. apply in_or_app; left. unfold g_outer, g_cells. right.
      rewrite !in_app_iff in *. tauto. }
    destruct m as [k nl nv|k|i|i|i|[|] i|]; unfold step_gmut;
      try (split; [reflexivity|]; exists []; split; [reflexivity|intros l []]);
      try (split; [reflexivity|];
           exists (g_lag_lists (s_graph s) ++ g_var_lists (s_graph s));
           split; [cbn [s_log]; rewrite app_assoc; reflexivity|exact Hidx]).
    + destruct (nth_error (g_nodes (s_graph s)) i) as [old|].
      * split; [reflexivity|].
        exists (g_lag_lists (s_graph s) ++ g_var_lists (s_graph s));
          split; [cbn [s_log]; rewrite app_assoc; reflexivity|exact Hidx].
      * split; [reflexivity|]; exists []; split; [reflexivity|intros l []].
    + split; [reflexivity|]. exists (g_outer (s_graph s) ++ g_inner (s_graph s)).
      split; [cbn [s_log]; rewrite app_assoc; reflexivity|intros l Hl; exact Hl].
Qed.

Lemma observe_log_app s s' w ls :
  s_log s' = w ++ s_log s -> (forall l, In l ls -> ~ In l w) -> observe s' ls = observe s ls.
Proof.
  intros E H. unfold observe. apply map_ext_in. intros l Hl.
  unfold content. rewrite E. change (cnt (w ++ s_log s) l = cnt (s_log s) l).
  rewrite cnt_app. apply H, cnt_notIn in Hl. lia.
Qed.

Theorem graph_mutation_invisible s o j :
  Sep s -> is_graph_mutation o = true ->
  observe_export (step s o) j = observe_export s j.
Proof.
  rewrite sep_iff. intros H Ho. destruct (graph_mutation_log s o Ho) as (He & w & Hlog & Hw).
  unfold observe_export. rewrite He.
  destruct (nth_error (s_exports s) j) as [e|] eqn:Ej; [|reflexivity].
  apply (observe_log_app _ _ _ _ Hlog). intros l Hl Hin. apply Hw in Hin.
  apply cnt_In in Hl, Hin. rewrite cnt_e_reach in Hl. rewrite cnt_graph_locs in Hin.
  destruct (export_le s j _ l Ej) as (L1 & L2 & _). destruct (H l) as [_ Hs]. lia.
Qed.

Theorem graph_mutation_invisible' s o j e :
  Sep' s -> is_graph_mutation o = true ->
  nth_error (s_exports s) j = Some e -> e_shallow e = false ->
  observe_export (step s o) j = observe_export s j.
Proof.
  rewrite sep'_iff. intros H Ho Ej Hsh.
  destruct (graph_mutation_log s o Ho) as (He & w & Hlog & Hw).
  unfold observe_export. rewrite He, Ej.
  apply (observe_log_app _ _ _ _ Hlog). intros l Hl Hin. apply Hw in Hin.
  apply cnt_In in Hl, Hin. rewrite cnt_e_reach in Hl. rewrite cnt_graph_locs in Hin.
  assert (Hd : cnt (e_inner e) l = cnt (deep_inner e) l)
    by (unfold deep_inner; rewrite Hsh; reflexivity).
  destruct (export_le s j _ l Ej) as (L1 & _ & L3 & _). destruct (H l) as (_ & Hs & _). lia.
Qed.

(** * Producing an export never modifies the source graph *)

Lemma export_with_exports kind nl el gl ns es gm src extra fr s :
  exists e, s_exports (export_with kind nl el gl ns es gm src extra fr s) = s_exports s ++ [e].
Proof.
  unfold export_with.
  destruct (copy_mrefs gl (s_next s) gm) as [gm' n1].
  destruct (copy_cells gl n1 src extra) as [cs' n2].
  destruct (copy_mrefs nl n2 ns) as [ns' n3].
  destruct (copy_mrefs el n3 es) as [es' n4].
  cbn [s_exports]. eexists. reflexivity.
Qed.

Lemma export_with_graph_log kind nl el gl ns es gm src extra fr s :
  s_graph (export_with kind nl el gl ns es gm src extra fr s) = s_graph s /\
  s_log (export_with kind nl el gl ns es gm src extra fr s) = s_log s.
Proof.
  unfold export_with.
  destruct (copy_mrefs gl (s_next s) gm) as [gm' n1].
  destruct (copy_cells gl n1 src extra) as [cs' n2].
  destruct (copy_mrefs nl n2 ns) as [ns' n3].
  destruct (copy_mrefs el n3 es) as [es' n4].
  split; reflexivity.
Qed.

(** No export / derived-graph operation changes the graph's metadata containers, its nodes,
    its edges, its index lists, a cache that was already filled, any stored content, or any
    export handed out earlier; the only effect is that an EMPTY cache slot may get filled. *)
Theorem producing_is_readonly s (x : xop) :
  let s' := step s x in
  graph_core (s_graph s') = graph_core (s_graph s) /\
  slot_kept (g_nx (s_graph s)) (g_nx (s_graph s')) /\
  slot_kept (g_adj (s_graph s)) (g_adj (s_graph s')) /\
  slot_kept (g_variables (s_graph s)) (g_variables (s_graph s')) /\
  s_log s' = s_log s /\
  (exists e, s_exports s' = s_exports s ++ [e]) /\
  (forall ls, observe s' ls = observe s ls).
Proof.
  cbn [step]. unfold step_export.
  destruct (levels_of x) as [[nl el] gl].
  destruct (fill_caches_delta (fills x) s) as (_ & He & Hl & Hc & K1 & K2 & K3 & _).
  set (s1 := fill_caches (fills x) s) in *.
  destruct (export_with_graph_log (kind_of x) nl el gl (x_nodes x (s_graph s1))
              (x_edges x (s_graph s1)) (x_gmeta x (s_graph s1)) (x_src_cells x (s_graph s1))
              (x_extra x (s_graph s1)) (x_fresh x) s1) as [Hg Hlog].
  destruct (export_with_exports (kind_of x) nl el gl (x_nodes x (s_graph s1))
              (x_edges x (s_graph s1)) (x_gmeta x (s_graph s1)) (x_src_cells x (s_graph s1))
              (x_extra x (s_graph s1)) (x_fresh x) s1) as [e Hexp].
  rewrite Hg, Hlog, Hexp, He, Hl.
  repeat (split; [assumption || reflexivity|]).
  split; [exists e; reflexivity|].
  intros ls. unfold observe, content. rewrite Hlog, Hl. reflexivity.
Qed.

(** * The invariants in the words of the property *)

Lemma cnt_graph_reach g x :
  cnt (reach (graph_holders g)) x = cnt (g_outer g) x + cnt (g_inner g) x.
Proof. unfold reach. rewrite cnt_app, graph_holders_outer, graph_holders_inner. reflexivity. Qed.

(** An export never reaches an identity of the graph … *)
Theorem sep_graph_export_disjoint s i e l :
  Sep s -> nth_error (s_exports s) i = Some e ->
  In l (e_reach e) -> ~ In l (reach (graph_holders (s_graph s))).
Proof.
  rewrite sep_iff. intros H E Hl. apply cnt_In in Hl. apply cnt_notIn.
  rewrite cnt_graph_reach. rewrite cnt_e_reach in Hl. fold (GO s l) (GI s l).
  destruct (export_le s i _ l E) as (L1 & L2 & _). destruct (H l) as [_ Hs]. lia.
Qed.

(** … two different exports never reach a common identity … *)
Theorem sep_exports_disjoint s i j ei ej l :
  Sep s -> i <> j -> nth_error (s_exports s) i = Some ei -> nth_error (s_exports s) j = Some ej ->
  In l (e_reach ei) -> ~ In l (e_reach ej).
Proof.
  rewrite sep_iff. intros H Hij Ei Ej Hl. apply cnt_In in Hl. apply cnt_notIn.
  rewrite cnt_e_reach in *.
  destruct (export_two_le s _ _ _ _ l Hij Ei Ej) as (L1 & L2 & _). destruct (H l) as [_ Hs]. lia.
Qed.

(** … and inside one export (one derived graph) no identity is reached twice: distinct nodes
    and edges never share a metadata container or a nested value. *)
Theorem sep_export_internal s i e :
  Sep s -> nth_error (s_exports s) i = Some e -> NoDup (e_reach e).
Proof.
  rewrite sep_iff. intros H E. apply cnt_NoDup. intros x. rewrite cnt_e_reach.
  destruct (export_le s i _ x E) as (L1 & L2 & _). destruct (H x) as [_ Hs]. lia.
Qed.

Theorem sep_graph_internal s : Sep s -> NoDup (reach (graph_holders (s_graph s))).
Proof.
  rewrite sep_iff. intros H. apply cnt_NoDup. intros x. rewrite cnt_graph_reach.
  fold (GO s x) (GI s x). destruct (H x) as [_ Hs]. lia.
Qed.

(** The container-level versions hold under [Sep'], i.e. after EVERY history. *)
Theorem sep'_graph_export_outer_disjoint s i e l :
  Sep' s -> nth_error (s_exports s) i = Some e ->
  In l (e_outer e) -> ~ In l (reach (graph_holders (s_graph s))).
Proof.
  rewrite sep'_iff. intros H E Hl. apply cnt_In in Hl. apply cnt_notIn.
  rewrite cnt_graph_reach. fold (GO s l) (GI s l).
  destruct (export_le s i _ l E) as (L1 & _). destruct (H l) as (_ & Hs & _). lia.
Qed.

Theorem sep'_exports_outer_disjoint s i j ei ej l :
  Sep' s -> i <> j -> nth_error (s_exports s) i = Some ei -> nth_error (s_exports s) j = Some ej ->
  In l (e_outer ei) -> ~ In l (e_reach ej).
Proof.
  rewrite sep'_iff. intros H Hij Ei Ej Hl. apply cnt_In in Hl. apply cnt_notIn.
  rewrite cnt_e_reach, (e_inner_split ej).
  destruct (export_two_le s _ _ _ _ l Hij Ei Ej) as (L1 & _ & _).
  destruct (export_le s j _ l Ej) as (_ & _ & L3 & L4).
  destruct (H l) as (_ & Hs & Hc). lia.
Qed.

(** Distinct holders (graph-level holder, nodes, edges) of one export never share a container. *)
Theorem sep'_holders_outer_disjoint s i e a b h1 h2 l :
  Sep' s -> nth_error (s_exports s) i = Some e -> a <> b ->
  nth_error (e_holders e) a = Some h1 -> nth_error (e_holders e) b = Some h2 ->
  In l (holder_outer h1) -> ~ In l (holder_outer h2).
Proof.
  rewrite sep'_iff. intros H E Hab Ha Hb Hl. apply cnt_In in Hl. apply cnt_notIn.
  pose proof (cnt_flat_map_two holder_outer _ _ _ _ _ l Hab Ha Hb) as L0.
  fold (reach_outer (e_holders e)) in L0. fold (e_outer e) in L0.
  destruct (export_le s i _ l E) as (L1 & _). destruct (H l) as (_ & Hs & _). lia.
Qed.

(** A derived graph (any export not made by a shallow copy) is fully separated under [Sep']. *)
Theorem sep'_deep_export_separated s i e :
  Sep' s -> nth_error (s_exports s) i = Some e -> e_shallow e = false ->
  NoDup (e_reach e) /\
  (forall l, In l (e_reach e) -> ~ In l (reach (graph_holders (s_graph s)))) /\
  (forall j ej l, j <> i -> nth_error (s_exports s) j = Some ej ->
                  In l (e_reach e) -> ~ In l (e_reach ej)).
Proof.
  rewrite sep'_iff. intros H E Hsh.
  assert (Hd : forall x, cnt (e_inner e) x = cnt (deep_inner e) x)
    by (intros x; unfold deep_inner; rewrite Hsh; reflexivity).
  split; [|split].
  - apply cnt_NoDup. intros x. rewrite cnt_e_reach, Hd.
    destruct (export_le s i _ x E) as (L1 & _ & L3 & _). destruct (H x) as (_ & Hs & _). lia.
  - intros l Hl. apply cnt_In in Hl. apply cnt_notIn. rewrite cnt_graph_reach.
    fold (GO s l) (GI s l). rewrite cnt_e_reach, Hd in Hl.
    destruct (export_le s i _ l E) as (L1 & _ & L3 & _). destruct (H l) as (_ & Hs & _). lia.
  - intros j ej l Hj Ej Hl. apply cnt_In in Hl. apply cnt_notIn.
    rewrite cnt_e_reach, Hd in Hl. rewrite cnt_e_reach, (e_inner_split ej).
    assert (Hij : i <> j) by congruence.
    destruct (export_two_le s _ _ _ _ l Hij E Ej) as (L1 & _ & L3).
    destruct (export_le s j _ l Ej) as (_ & _ & _ & L4).
    destruct (H l) as (_ & Hs & Hc). lia.
Qed.

(** * Non-vacuity and pinning examples *)

Definition ex_shape : shape :=
  {| sh_nodes := [0; 1; 1]; sh_edges := [0]; sh_fresh_nodes := 0; sh_cells := 3 |}.

(** A graph with nested mutable metadata on the graph, two nodes and an edge; then three
    exports (networkx, dictionary, numpy), a derived graph (minimal), mutations of an export and
    of the graph, a copy, and a second networkx export. *)
Definition ex_ops : list op :=
  [ MutateGraphMeta 2;
    MutateGraph (GAddNode 2 true true); MutateGraph (GAddNode 1 false true);
    MutateGraph (GAddEdge 2);
    X ExportNx; X (ExportDict [0; 1]); X (ExportAdj true); X (Minimal ex_shape);
    MutateExport 3; MutateGraph GWriteAll; MutateGraph (GReplaceNode 0);
    X Copy; X ExportNx ].

Example ex_run_sep' :
  Sep' (run init ex_ops) /\ length (s_exports (run init ex_ops)) = 6 /\
  sep'b (run init ex_ops) = true /\ sep_outerb (run init ex_ops) = true /\
  sepb (run init ex_ops) = false.
Proof. split; [apply sep_run_init|]. vm_compute. repeat split. Qed.

(** The same history without [to_dict] satisfies full [Sep]. *)
Definition ex_ops_nodict : list op :=
  filter (fun o => negb (op_is_to_dict o)) ex_ops.

Example ex_run_sep :
  Sep (run init ex_ops_nodict) /\ length (s_exports (run init ex_ops_nodict)) = 5 /\
  length (all_locs (run init ex_ops_nodict)) = 49.
Proof.
  split; [apply sep_full_run; [vm_compute; reflexivity|apply sep_init]|].
  vm_compute. split; reflexivity.
Qed.

(** The hypotheses of [export_mutation_invisible'] are met by the derived graph of [ex_ops]. *)
Example ex_derived_graph_mutation_invisible :
  let s := run init ex_ops in
  exists e, nth_error (s_exports s) 3 = Some e /\ e_shallow e = false /\ e_kind e = 21%N /\
            length (e_reach e) = 16 /\
            observe_graph (step s (MutateExport 3)) = observe_graph s.
Proof.
  eexists. split; [vm_compute; reflexivity|]. split; [reflexivity|]. split; [reflexivity|].
  split; [reflexivity|].
  eapply export_mutation_invisible'; [apply sep_run_init|vm_compute; reflexivity|reflexivity].
Qed.

(** Levels read from the table, as measured on the Python objects. *)
Example levels_to_dict : levels_of (ExportDict []) = (LShallow, LShallow, LShallow).
Proof. vm_compute; reflexivity. Qed.
Example levels_to_networkx : levels_of ExportNx = (LNone, LNone, LDeep).
Proof. vm_compute; reflexivity. Qed.
Example levels_nodes_at_lag : levels_of (ExportNodesAtLag false 0) = (LHandle, LHandle, LDeep).
Proof. vm_compute; reflexivity. Qed.
Example levels_copy : levels_of Copy = (LDeep, LDeep, LDeep).
Proof. vm_compute; reflexivity. Qed.
Example levels_all_derived_deep :
  forallb (fun x => match levels_of x with (LDeep, LDeep, LDeep) => true | _ => false end)
    [Copy; Minimal ex_shape; Extend ex_shape; Stationary ex_shape; Summary ex_shape;
     SubGraph false ex_shape; SubGraph true ex_shape; ParentsGraph false ex_shape;
     ParentsGraph true ex_shape; ClassConvert false; ClassConvert true] = true.
Proof. vm_compute; reflexivity. Qed.

(** Measured: the FIRST [to_networkx()] fills the cache and returns a copy of it; the second
    returns another copy (three different objects). *)
Example nx_first_and_second_call :
  let s := run init [X ExportNx; X ExportNx] in
  g_nx (s_graph s) = Some 1 /\
  map (fun e => flat_map h_cells (e_holders e)) (s_exports s) = [[2]; [3]].
Proof. vm_compute. split; reflexivity. Qed.

(** Measured: [get_nodes_at_lag] returns a new list each time, never the index list. *)
Example nodes_at_lag_is_a_new_list :
  let s := run one_node_state [X (ExportNodesAtLag false 0); X (ExportNodesAtLag false 0);
                               X (ExportNodesAtLag false 7)] in
  g_lag_lists (s_graph s) = [3] /\
  map (fun e => (flat_map h_meta (e_holders e), flat_map h_cells (e_holders e))) (s_exports s)
    = [([], [5]); ([], [6]); ([], [7])].
Proof. vm_compute. split; reflexivity. Qed.

(** Measured: [copy()] shares nothing; [replace_node] keeps the nested values of the removed
    node inside the graph. *)
Example copy_is_deep_replace_is_shallow :
  let s := run one_node_state [X Copy; MutateGraph (GReplaceNode 0)] in
  g_nodes (s_graph s) = [{| outer := 10; inner := [2] |}] /\
  map (fun e => flat_map h_meta (e_holders e)) (s_exports s)
    = [[{| outer := 5; inner := [] |}; {| outer := 8; inner := [9] |}]] /\
  sepb s = true.
Proof. vm_compute. repeat split. Qed.

(** The model is sensitive to the table: at level "alias" (what the first [to_networkx()] call
    did before the repair — it returned the cache object) even container-level separation
    fails, and so does it for an "alias" of node metadata. *)
Example alias_level_breaks_separation :
  let s := fill_caches (true, false, false) one_node_state in
  sep_outerb s = true /\
  sep_outerb (export_with 10 LNone LNone LAlias [] [] [] (opt (g_nx (s_graph s))) 0 0 s) = false /\
  sep_outerb (export_with 20 LAlias LDeep LDeep (g_nodes (s_graph s)) [] [] [] 0 0 s) = false.
Proof. vm_compute. repeat split. Qed.
