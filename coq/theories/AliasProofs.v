(** AliasProofs.v — separation theorems for the identity model of Alias.v (property C06).

    Method: every separation statement ([NoDup] of a concatenation, disjointness, bounds) is
    turned into a statement about OCCURRENCE COUNTS ([cnt l x]), which are additive over [++]
    and [flat_map]; each operation is characterised by how it changes the counts; the rest is
    linear arithmetic.  The allocator argument is: every identity in use is [< s_next]
    ([Bounded]), every identity allocated by a step is [>= s_next] and allocated once. *)
From CG Require Import Base Alias.
From Coq Require Import String.
Local Notation length := List.length (only parsing).

(** * Occurrence counts *)

Definition cnt (l : list loc) (x : loc) : nat := count_occ Nat.eq_dec l x.

Lemma cnt_nil x : cnt [] x = 0.
Proof. reflexivity. Qed.

Lemma cnt_app l1 l2 x : cnt (l1 ++ l2) x = cnt l1 x + cnt l2 x.
Proof. unfold cnt; apply count_occ_app. Qed.

Lemma cnt_cons a l x : cnt (a :: l) x = cnt [a] x + cnt l x.
Proof. change (a :: l) with ([a] ++ l); apply cnt_app. Qed.

Lemma cnt_In l x : In x l <-> cnt l x > 0.
Proof. unfold cnt; apply count_occ_In. Qed.

Lemma cnt_notIn l x : ~ In x l <-> cnt l x = 0.
Proof. unfold cnt; apply count_occ_not_In. Qed.

Lemma cnt_NoDup l : NoDup l <-> forall x, cnt l x <= 1.
Proof. unfold cnt; apply NoDup_count_occ. Qed.

Lemma cnt_single a x : cnt [a] x <= 1 /\ (cnt [a] x > 0 <-> a = x).
Proof.
  unfold cnt; simpl; destruct (Nat.eq_dec a x) as [E|E]; split; try lia; split; intros H;
    try lia; try assumption; contradiction.
Qed.

Lemma cnt_seq n k x : cnt (seq n k) x <= 1 /\ (cnt (seq n k) x > 0 <-> n <= x < n + k).
Proof.
  split.
  - apply cnt_NoDup, seq_NoDup.
  - rewrite <- cnt_In, in_seq; tauto.
Qed.

Lemma cnt_flat_map_app {A} (f : A -> list loc) l1 l2 x :
  cnt (flat_map f (l1 ++ l2)) x = cnt (flat_map f l1) x + cnt (flat_map f l2) x.
Proof. rewrite flat_map_app; apply cnt_app. Qed.

Lemma cnt_map_app {A} (f : A -> loc) l1 l2 x :
  cnt (map f (l1 ++ l2)) x = cnt (map f l1) x + cnt (map f l2) x.
Proof. rewrite map_app; apply cnt_app. Qed.

Lemma cnt_flat_map_in {A} (f : A -> list loc) l a x :
  In a l -> cnt (f a) x <= cnt (flat_map f l) x.
Proof.
  induction l as [|b l IH]; simpl; [tauto|].
  intros [->|Hin]; rewrite cnt_app; [lia|]. specialize (IH Hin); lia.
Qed.

(** Two different positions of a list contribute separately. *)
Lemma cnt_flat_map_two {A} (f : A -> list loc) l i j a b x :
  i <> j -> nth_error l i = Some a -> nth_error l j = Some b ->
  cnt (f a) x + cnt (f b) x <= cnt (flat_map f l) x.
Proof.
  revert i j; induction l as [|c l IH]; intros [|i] [|j] Hij Hi Hj; simpl in *;
    try discriminate; try congruence; rewrite cnt_app.
  - injection Hi as ->. pose proof (cnt_flat_map_in f l b x (nth_error_In _ _ Hj)). lia.
  - injection Hj as ->. pose proof (cnt_flat_map_in f l a x (nth_error_In _ _ Hi)). lia.
  - assert (Hn : i <> j) by congruence. specialize (IH i j Hn Hi Hj). lia.
Qed.

(** ** Removing the i-th element *)

Lemma remove_nth_none {A} i (l : list A) : nth_error l i = None -> remove_nth i l = l.
Proof.
  unfold remove_nth; intros H; apply nth_error_None in H.
  rewrite firstn_all2 by lia. rewrite skipn_all2 by lia. apply app_nil_r.
Qed.

Lemma cnt_flat_map_remove_nth {A} (f : A -> list loc) i l a x :
  nth_error l i = Some a ->
  cnt (flat_map f l) x = cnt (flat_map f (remove_nth i l)) x + cnt (f a) x.
Proof.
  unfold remove_nth; revert i; induction l as [|b l IH]; intros [|i] H;
    cbn [nth_error firstn skipn app flat_map] in *; try discriminate.
  - injection H as ->. rewrite cnt_app; lia.
  - rewrite !cnt_app, (IH i H). lia.
Qed.

Lemma cnt_map_remove_nth {A} (f : A -> loc) i l a x :
  nth_error l i = Some a ->
  cnt (map f l) x = cnt (map f (remove_nth i l)) x + cnt [f a] x.
Proof.
  unfold remove_nth; revert i; induction l as [|b l IH]; intros [|i] H;
    cbn [nth_error firstn skipn app map] in *; try discriminate.
  - injection H as ->. rewrite (cnt_cons (f a)). lia.
  - rewrite (cnt_cons (f b)), (cnt_cons (f b) (map f _)), (IH i H). lia.
Qed.

Lemma cnt_remove_nth_le i (l : list loc) x : cnt (remove_nth i l) x <= cnt l x.
Proof.
  destruct (nth_error l i) as [a|] eqn:E.
  - pose proof (@cnt_map_remove_nth _ (fun y => y) i l a x E) as H.
    rewrite !map_id in H. lia.
  - rewrite (remove_nth_none _ _ E). lia.
Qed.

(** * Counts of the components of a state *)

Definition GO (s : state) x := cnt (g_outer (s_graph s)) x.
Definition GI (s : state) x := cnt (g_inner (s_graph s)) x.
Definition EO (s : state) x := cnt (exports_outer (s_exports s)) x.
Definition EI (s : state) x := cnt (exports_inner (s_exports s)) x.
Definition ED (s : state) x := cnt (exports_inner_deep (s_exports s)) x.
Definition ES (s : state) x := cnt (exports_inner_shallow (s_exports s)) x.

Lemma EI_split_list es x :
  cnt (exports_inner es) x = cnt (exports_inner_deep es) x + cnt (exports_inner_shallow es) x.
Proof.
  unfold exports_inner, exports_inner_deep, exports_inner_shallow.
  induction es as [|e es IH]; simpl; [reflexivity|].
  rewrite !cnt_app, IH. destruct (e_shallow e); simpl; rewrite ?cnt_nil; lia.
Qed.

Lemma EI_split s x : EI s x = ED s x + ES s x.
Proof. apply EI_split_list. Qed.

Lemma cnt_all_locs s x : cnt (all_locs s) x = GO s x + EO s x + GI s x + EI s x.
Proof. unfold all_locs, all_outer, all_inner, GO, EO, GI, EI; rewrite !cnt_app; lia. Qed.

Lemma cnt_all_outer s x : cnt (all_outer s) x = GO s x + EO s x.
Proof. unfold all_outer, GO, EO; rewrite !cnt_app; lia. Qed.

Lemma cnt_strict s x : cnt (strict_locs s) x = GO s x + EO s x + GI s x + ED s x.
Proof. unfold strict_locs, all_outer, GO, EO, GI, ED; rewrite !cnt_app; lia. Qed.

(** Count forms of the invariants. *)
Definition BoundedC (s : state) x := GO s x + EO s x + GI s x + EI s x > 0 -> x < s_next s.
Definition SepC (s : state) x := BoundedC s x /\ GO s x + EO s x + GI s x + EI s x <= 1.
Definition SepOuterC (s : state) x := BoundedC s x /\ GO s x + EO s x <= 1.
Definition Sep'C (s : state) x :=
  BoundedC s x /\ GO s x + EO s x + GI s x + ED s x <= 1 /\
  (ES s x > 0 -> GO s x + EO s x + GI s x + ED s x > 0 -> GI s x > 0).

Lemma bounded_iff s : Bounded s <-> forall x, BoundedC s x.
Proof.
  unfold Bounded, BoundedC; split; intros H x Hx.
  - apply H, cnt_In. rewrite cnt_all_locs; exact Hx.
  - apply H. rewrite <- cnt_all_locs. apply cnt_In, Hx.
Qed.

Lemma sep_iff s : Sep s <-> forall x, SepC s x.
Proof.
  unfold Sep, SepC; rewrite bounded_iff, cnt_NoDup; split.
  - intros [H1 H2] x; split; [apply H1|rewrite <- cnt_all_locs; apply H2].
  - intros H; split; intros x; [apply H|rewrite cnt_all_locs; apply H].
Qed.

Lemma sep_outer_iff s : SepOuter s <-> forall x, SepOuterC s x.
Proof.
  unfold SepOuter, SepOuterC; rewrite bounded_iff, cnt_NoDup; split.
  - intros [H1 H2] x; split; [apply H1|rewrite <- cnt_all_outer; apply H2].
  - intros H; split; intros x; [apply H|rewrite cnt_all_outer; apply H].
Qed.

Lemma sep'_iff s : Sep' s <-> forall x, Sep'C s x.
Proof.
  unfold Sep', Sep'C; rewrite bounded_iff, cnt_NoDup; split.
  - intros (H1 & H2 & H3) x; split; [apply H1|split].
    + rewrite <- cnt_strict; apply H2.
    + intros Hs Hst. apply cnt_In, H3; [apply cnt_In, Hs|apply cnt_In; rewrite cnt_strict; exact Hst].
  - intros H; split; [intros x; apply H|split].
    + intros x; rewrite cnt_strict; apply H.
    + intros l Hs Hst. apply cnt_In. apply (H l); [apply cnt_In, Hs|].
      rewrite <- cnt_strict; apply cnt_In, Hst.
Qed.

(** Relations between the three invariants. *)
Theorem sep_sep' s : Sep s -> Sep' s.
Proof.
  rewrite sep_iff, sep'_iff; intros H x; destruct (H x) as [Hb Hn].
  pose proof (EI_split s x). unfold Sep'C; repeat split; try assumption; lia.
Qed.

Theorem sep'_sep_outer s : Sep' s -> SepOuter s.
Proof.
  rewrite sep'_iff, sep_outer_iff; intros H x; destruct (H x) as (Hb & Hn & _).
  split; [assumption|lia].
Qed.

Theorem sep_sep_outer s : Sep s -> SepOuter s.
Proof. intros H; apply sep'_sep_outer, sep_sep', H. Qed.

(** Without shallow exports the carve-out is empty. *)
Theorem sep'_no_shallow_sep s :
  Sep' s -> (forall e, In e (s_exports s) -> e_shallow e = false) -> Sep s.
Proof.
  rewrite sep'_iff, sep_iff; intros H Hsh x; destruct (H x) as (Hb & Hn & _).
  assert (E : ES s x = 0).
  { unfold ES, exports_inner_shallow. revert Hsh; generalize (s_exports s) as es.
    induction es as [|e es IH]; intros Hsh; cbn [flat_map]; [reflexivity|].
    rewrite cnt_app, (Hsh e (or_introl eq_refl)), cnt_nil.
    rewrite IH; [reflexivity|]. intros e' He'; apply Hsh; right; exact He'. }
  pose proof (EI_split s x). split; [assumption|lia].
Qed.

(** The invariants do not look at the write log. *)
Lemma log_irrelevant s w x :
  GO (log_writes s w) x = GO s x /\ GI (log_writes s w) x = GI s x /\
  EO (log_writes s w) x = EO s x /\ EI (log_writes s w) x = EI s x /\
  ED (log_writes s w) x = ED s x /\ ES (log_writes s w) x = ES s x.
Proof. repeat split; reflexivity. Qed.

(** * Allocation: what a copy at a given level allocates *)

(** Nested identities of a copied metadata list, split into the part that was ALLOCATED by the
    copy (deep levels) and the part that was TAKEN OVER from the source (shallow level). *)
Definition dpart (lv : level) (r : list mref) (x : loc) : nat :=
  if is_shallow lv then 0 else cnt (flat_map inner r) x.
Definition spart (lv : level) (r : list mref) (x : loc) : nat :=
  if is_shallow lv then cnt (flat_map inner r) x else 0.

Lemma parts_sum lv r x : cnt (flat_map inner r) x = dpart lv r x + spart lv r x.
Proof. unfold dpart, spart; destruct (is_shallow lv); lia. Qed.

Lemma spart_not_shallow lv r x : is_shallow lv = false -> spart lv r x = 0.
Proof. unfold spart; intros ->; reflexivity. Qed.

Lemma copy_mrefs_spec lv ms : forall n r n',
  copy_mrefs lv n ms = (r, n') -> lv <> LAlias ->
  n <= n' /\ forall x,
    cnt (map outer r) x + dpart lv r x <= 1 /\
    (cnt (map outer r) x + dpart lv r x > 0 -> n <= x < n') /\
    (spart lv r x > 0 -> cnt (flat_map inner ms) x > 0).
Proof.
  induction ms as [|m ms IH]; intros n r n' E Hlv.
  - cbn [copy_mrefs] in E. injection E as <- <-. split; [lia|]. intros x.
    unfold dpart, spart; destruct (is_shallow lv); cbn [map flat_map]; rewrite !cnt_nil; lia.
  - cbn [copy_mrefs] in E.
    destruct (copy_mref lv n m) as [a n1] eqn:Ea.
    destruct (copy_mrefs lv n1 ms) as [b n2] eqn:Eb.
    injection E as <- <-.
    destruct (IH _ _ _ Eb Hlv) as [Hle IHx]. clear IH.
    destruct lv; cbn [copy_mref] in Ea; injection Ea as <- <-; try congruence.
    + (* none *) split; [exact Hle|]. intros x; specialize (IHx x).
      unfold dpart, spart in *; cbn [is_shallow level_eqb app flat_map] in *.
      rewrite ?cnt_app. lia.
    + (* handle *) split; [exact Hle|]. intros x; specialize (IHx x).
      unfold dpart, spart in *; cbn [is_shallow level_eqb app flat_map] in *.
      rewrite ?cnt_app. lia.
    + (* shallow *) split; [lia|]. intros x; specialize (IHx x).
      unfold dpart, spart in *; cbn [is_shallow level_eqb app flat_map map outer inner] in *.
      rewrite (cnt_cons n), !cnt_app. pose proof (cnt_single n x) as [S1 S2]. lia.
    + (* deep *) split; [lia|]. intros x; specialize (IHx x).
      unfold dpart, spart in *; cbn [is_shallow level_eqb app flat_map map outer inner] in *.
      rewrite (cnt_cons n), !cnt_app.
      pose proof (cnt_single n x) as [S1 S2].
      pose proof (cnt_seq (S n) (length (inner m)) x) as [Q1 Q2]. lia.
Qed.

Lemma copy_cells_spec lv n src extra cs n' :
  copy_cells lv n src extra = (cs, n') -> lv <> LAlias ->
  n <= n' /\ forall x, cnt cs x <= 1 /\ (cnt cs x > 0 -> n <= x < n').
Proof.
  intros E Hlv; destruct lv; cbn [copy_cells] in E; injection E as <- <-; try congruence;
    (split; [lia|]); intros x; rewrite ?cnt_nil; try lia;
    pose proof (cnt_seq n (length src + extra) x) as [Q1 Q2]; lia.
Qed.

Lemma fresh_mrefs_outer n k : map outer (fresh_mrefs n k) = seq n k.
Proof. unfold fresh_mrefs; rewrite map_map; cbn [outer]; apply map_id. Qed.

Lemma fresh_mrefs_inner n k : flat_map inner (fresh_mrefs n k) = [].
Proof.
  unfold fresh_mrefs; generalize (seq n k) as l; induction l as [|a l IH]; cbn; [reflexivity|].
  exact IH.
Qed.

(** ** Identities of a holder list built by [export_with] *)

Lemma reach_outer_nodes ms : reach_outer (map node_holder ms) = map outer ms.
Proof.
  unfold reach_outer; induction ms as [|m ms IH]; cbn; [reflexivity|]. f_equal; exact IH.
Qed.
Lemma reach_outer_edges ms : reach_outer (map edge_holder ms) = map outer ms.
Proof.
  unfold reach_outer; induction ms as [|m ms IH]; cbn; [reflexivity|]. f_equal; exact IH.
Qed.
Lemma reach_inner_nodes ms : reach_inner (map node_holder ms) = flat_map inner ms.
Proof.
  unfold reach_inner; induction ms as [|m ms IH]; cbn; [reflexivity|].
  rewrite app_nil_r. f_equal; exact IH.
Qed.
Lemma reach_inner_edges ms : reach_inner (map edge_holder ms) = flat_map inner ms.
Proof.
  unfold reach_inner; induction ms as [|m ms IH]; cbn; [reflexivity|].
  rewrite app_nil_r. f_equal; exact IH.
Qed.

Lemma cnt_holders_outer k gm cs ns es x :
  cnt (reach_outer ({| h_kind := k; h_meta := gm; h_cells := cs |}
                      :: map node_holder ns ++ map edge_holder es)) x
  = cnt (map outer gm) x + cnt cs x + cnt (map outer ns) x + cnt (map outer es) x.
Proof.
  unfold reach_outer; cbn [flat_map]. rewrite flat_map_app.
  change (flat_map holder_outer (map node_holder ns)) with (reach_outer (map node_holder ns)).
  change (flat_map holder_outer (map edge_holder es)) with (reach_outer (map edge_holder es)).
  rewrite reach_outer_nodes, reach_outer_edges. unfold holder_outer; cbn [h_meta h_cells].
  rewrite !cnt_app; lia.
Qed.

Lemma cnt_holders_inner k gm cs ns es x :
  cnt (reach_inner ({| h_kind := k; h_meta := gm; h_cells := cs |}
                      :: map node_holder ns ++ map edge_holder es)) x
  = cnt (flat_map inner gm) x + cnt (flat_map inner ns) x + cnt (flat_map inner es) x.
Proof.
  unfold reach_inner; cbn [flat_map]. rewrite flat_map_app.
  change (flat_map holder_inner (map node_holder ns)) with (reach_inner (map node_holder ns)).
  change (flat_map holder_inner (map edge_holder es)) with (reach_inner (map edge_holder es)).
  rewrite reach_inner_nodes, reach_inner_edges. unfold holder_inner; cbn [h_meta].
  rewrite !cnt_app; lia.
Qed.

(** The holder view of the graph reaches exactly [g_outer] / [g_inner]. *)
Lemma graph_holders_outer g x : cnt (reach_outer (graph_holders g)) x = cnt (g_outer g) x.
Proof.
  unfold graph_holders. rewrite cnt_holders_outer. unfold g_outer.
  cbn [map]. rewrite (cnt_cons (outer (g_meta g)) (_ ++ _)), !cnt_app. lia.
Qed.
Lemma graph_holders_inner g x : cnt (reach_inner (graph_holders g)) x = cnt (g_inner g) x.
Proof.
  unfold graph_holders. rewrite cnt_holders_inner. unfold g_inner.
  cbn [flat_map]. rewrite ?app_nil_r, !cnt_app. lia.
Qed.

(** * The generic export *)

Lemma spart_pos lv r x : spart lv r x > 0 -> is_shallow lv = true.
Proof. unfold spart; destruct (is_shallow lv); [reflexivity|lia]. Qed.

(** How [export_with] changes the counts: the graph is untouched; the new export consists of
    freshly allocated identities ([fo] containers, [fi] nested values) and — only if some level
    is "shallow" — nested values taken over from the copied metadata ([si]). *)
Lemma export_with_delta kind nl el gl ns es gm src extra fr s :
  nl <> LAlias -> el <> LAlias -> gl <> LAlias ->
  let s' := export_with kind nl el gl ns es gm src extra fr s in
  let sh := is_shallow nl || is_shallow el || is_shallow gl in
  s_graph s' = s_graph s /\ s_log s' = s_log s /\ s_next s <= s_next s' /\
  exists fo fi si : loc -> nat, forall x,
    EO s' x = EO s x + fo x /\
    ED s' x = ED s x + (if sh then 0 else fi x + si x) /\
    ES s' x = ES s x + (if sh then fi x + si x else 0) /\
    fo x + fi x <= 1 /\ (fo x + fi x > 0 -> s_next s <= x < s_next s') /\
    (si x > 0 -> sh = true /\ cnt (flat_map inner (gm ++ ns ++ es)) x > 0).
Proof.
  intros Hnl Hel Hgl s' sh; subst s'; unfold export_with.
  destruct (copy_mrefs gl (s_next s) gm) as [gm' n1] eqn:E1.
  destruct (copy_cells gl n1 src extra) as [cs' n2] eqn:E2.
  destruct (copy_mrefs nl n2 ns) as [ns' n3] eqn:E3.
  destruct (copy_mrefs el n3 es) as [es' n4] eqn:E4.
  destruct (copy_mrefs_spec _ _ _ _ _ E1 Hgl) as [L1 S1].
  destruct (copy_cells_spec _ _ _ _ _ _ E2 Hgl) as [L2 S2].
  destruct (copy_mrefs_spec _ _ _ _ _ E3 Hnl) as [L3 S3].
  destruct (copy_mrefs_spec _ _ _ _ _ E4 Hel) as [L4 S4].
  cbn [s_graph s_next s_log]. split; [reflexivity|]. split; [reflexivity|]. split; [lia|].
  exists (fun x => cnt (map outer gm') x + cnt cs' x + cnt (map outer ns') x
                   + cnt (seq n4 fr) x + cnt (map outer es') x),
         (fun x => dpart gl gm' x + dpart nl ns' x + dpart el es' x),
         (fun x => spart gl gm' x + spart nl ns' x + spart el es' x).
  intros x.
  specialize (S1 x); specialize (S2 x); specialize (S3 x); specialize (S4 x).
  destruct S1 as (A1 & B1 & C1), S2 as (A2 & B2), S3 as (A3 & B3 & C3), S4 as (A4 & B4 & C4).
  pose proof (cnt_seq n4 fr x) as [Q1 Q2].
  unfold EO, ED, ES; cbn [s_exports].
  unfold exports_outer, exports_inner_deep, exports_inner_shallow.
  rewrite !cnt_flat_map_app. cbn [flat_map e_shallow]. rewrite !app_nil_r.
  unfold e_outer, e_inner; cbn [e_holders].
  rewrite cnt_holders_outer. rewrite map_app, fresh_mrefs_outer, cnt_app.
  assert (EIN : cnt (reach_inner ({| h_kind := kind; h_meta := gm'; h_cells := cs' |}
             :: map node_holder (ns' ++ fresh_mrefs n4 fr) ++ map edge_holder es')) x
           = (dpart gl gm' x + dpart nl ns' x + dpart el es' x)
             + (spart gl gm' x + spart nl ns' x + spart el es' x)).
  { rewrite cnt_holders_inner, flat_map_app, fresh_mrefs_inner, app_nil_r.
    rewrite (parts_sum gl gm'), (parts_sum nl ns'), (parts_sum el es'). lia. }
  refine (conj _ (conj _ (conj _ (conj _ (conj _ _))))).
  - lia.
  - fold sh. destruct sh; rewrite ?cnt_nil, ?EIN; lia.
  - fold sh. destruct sh; rewrite ?cnt_nil, ?EIN; lia.
  - lia.
  - lia.
  - intros Hs.
    assert (D : spart gl gm' x > 0 \/ spart nl ns' x > 0 \/ spart el es' x > 0) by lia.
    split.
    + subst sh. destruct D as [D|[D|D]]; rewrite (spart_pos _ _ _ D); rewrite ?orb_true_r;
        reflexivity.
    + rewrite ?cnt_flat_map_app.
      destruct D as [D|[D|D]]; [specialize (C1 D)|specialize (C3 D)|specialize (C4 D)]; lia.
Qed.

Lemma GO_graph_eq s s' x : s_graph s' = s_graph s -> GO s' x = GO s x /\ GI s' x = GI s x.
Proof. unfold GO, GI; intros ->; split; reflexivity. Qed.

(** [export_with] at any levels other than "alias" preserves [Sep'], provided what is copied
    belongs to the graph. *)
Lemma export_with_sep' kind nl el gl ns es gm src extra fr s :
  nl <> LAlias -> el <> LAlias -> gl <> LAlias ->
  (forall x, cnt (flat_map inner (gm ++ ns ++ es)) x > 0 -> GI s x > 0) ->
  Sep' s -> Sep' (export_with kind nl el gl ns es gm src extra fr s).
Proof.
  intros Hnl Hel Hgl Hsrc. rewrite !sep'_iff. intros H x.
  destruct (@export_with_delta kind nl el gl ns es gm src extra fr s Hnl Hel Hgl)
    as (Hg & _ & Hn & fo & fi & si & D).
  specialize (D x). destruct D as (D1 & D2 & D3 & D4 & D5 & D6).
  destruct (GO_graph_eq s _ x Hg) as [G1 G2].
  specialize (Hsrc x). destruct (H x) as (Hb & Hs & Hc). unfold Sep'C, BoundedC in *.
  rewrite !EI_split in *. rewrite G1, G2, D1, D2, D3.
  destruct (is_shallow nl || is_shallow el || is_shallow gl) eqn:Esh.
  - assert (Hsi : si x > 0 -> GI s x > 0) by (intros Hp; apply Hsrc, D6, Hp). lia.
  - assert (Hsi : si x = 0).
    { destruct (Nat.eq_dec (si x) 0) as [E|E]; [exact E|].
      destruct D6 as [D6 _]; [lia|discriminate]. }
    lia.
Qed.

(** At levels none / handle / deep it preserves full [Sep]. *)
Lemma export_with_sep kind nl el gl ns es gm src extra fr s :
  nl <> LAlias -> el <> LAlias -> gl <> LAlias ->
  is_shallow nl = false -> is_shallow el = false -> is_shallow gl = false ->
  Sep s -> Sep (export_with kind nl el gl ns es gm src extra fr s).
Proof.
  intros Hnl Hel Hgl Snl Sel Sgl. rewrite !sep_iff. intros H x.
  destruct (@export_with_delta kind nl el gl ns es gm src extra fr s Hnl Hel Hgl)
    as (Hg & _ & Hn & fo & fi & si & D).
  specialize (D x). destruct D as (D1 & D2 & D3 & D4 & D5 & D6).
  destruct (GO_graph_eq s _ x Hg) as [G1 G2].
  destruct (H x) as (Hb & Hs). unfold SepC, BoundedC in *.
  rewrite !EI_split in *. rewrite G1, G2, D1, D2, D3.
  rewrite Snl, Sel, Sgl in *. cbn [orb] in *.
  assert (Hsi : si x = 0).
  { destruct (Nat.eq_dec (si x) 0) as [E|E]; [exact E|].
    destruct D6 as [D6 _]; [lia|discriminate]. }
  lia.
Qed.

(** * Cache filling *)

Lemma GO_unfold g x :
  cnt (g_outer g) x =
  cnt [outer (g_meta g)] x + cnt (map outer (g_nodes g)) x + cnt (map outer (g_edges g)) x
  + cnt (opt (g_nx g)) x + cnt (opt (g_adj g)) x + cnt (opt (g_variables g)) x
  + cnt (g_lag_lists g) x + cnt (g_var_lists g) x.
Proof.
  unfold g_outer, g_cells. rewrite (cnt_cons (outer (g_meta g)) (_ ++ _)), !cnt_app. lia.
Qed.

Lemma GI_unfold g x :
  cnt (g_inner g) x =
  cnt (inner (g_meta g)) x + cnt (flat_map inner (g_nodes g)) x
  + cnt (flat_map inner (g_edges g)) x.
Proof. unfold g_inner. rewrite !cnt_app. lia. Qed.

Lemma fill_if_spec (b : bool) c n c' n' :
  (if b then fill_opt c n else (c, n)) = (c', n') ->
  n <= n' /\ slot_kept c c' /\
  exists d : loc -> nat, forall x,
    cnt (opt c') x = cnt (opt c) x + d x /\ d x <= 1 /\ (d x > 0 -> n <= x < n').
Proof.
  destruct b; [destruct c as [l|]|]; cbn [fill_opt]; intros E; injection E as <- <-.
  - split; [lia|]. split; [reflexivity|]. exists (fun _ => 0). intros x; lia.
  - split; [lia|]. split; [exact I|]. exists (cnt [n]). intros x.
    cbn [opt]. rewrite cnt_nil. pose proof (cnt_single n x) as [S1 S2]. lia.
  - split; [lia|]. split; [destruct c; reflexivity|]. exists (fun _ => 0). intros x; lia.
Qed.

Lemma fill_caches_delta f s :
  let s1 := fill_caches f s in
  s_next s <= s_next s1 /\ s_exports s1 = s_exports s /\ s_log s1 = s_log s /\
  graph_core (s_graph s1) = graph_core (s_graph s) /\
  slot_kept (g_nx (s_graph s)) (g_nx (s_graph s1)) /\
  slot_kept (g_adj (s_graph s)) (g_adj (s_graph s1)) /\
  slot_kept (g_variables (s_graph s)) (g_variables (s_graph s1)) /\
  exists d : loc -> nat, forall x,
    GO s1 x = GO s x + d x /\ GI s1 x = GI s x /\ d x <= 1 /\
    (d x > 0 -> s_next s <= x < s_next s1).
Proof.
  destruct f as [[fnx fadj] fvar]. unfold fill_caches.
  destruct (if fnx then fill_opt (g_nx (s_graph s)) (s_next s) else (g_nx (s_graph s), s_next s))
    as [nx n1] eqn:E1.
  destruct (if fadj then fill_opt (g_adj (s_graph s)) n1 else (g_adj (s_graph s), n1))
    as [adj n2] eqn:E2.
  destruct (if fvar then fill_opt (g_variables (s_graph s)) n2 else (g_variables (s_graph s), n2))
    as [vars n3] eqn:E3.
  destruct (fill_if_spec _ _ _ _ _ E1) as (L1 & K1 & d1 & D1).
  destruct (fill_if_spec _ _ _ _ _ E2) as (L2 & K2 & d2 & D2).
  destruct (fill_if_spec _ _ _ _ _ E3) as (L3 & K3 & d3 & D3).
  cbn [s_next s_exports s_log s_graph with_caches g_nx g_adj g_variables].
  repeat (split; [first [lia|reflexivity|assumption]|]).
  exists (fun x => d1 x + d2 x + d3 x). intros x.
  specialize (D1 x); specialize (D2 x); specialize (D3 x).
  unfold GO, GI; cbn [s_graph]. rewrite !GO_unfold, !GI_unfold.
  cbn [with_caches g_meta g_nodes g_edges g_nx g_adj g_variables g_lag_lists g_var_lists].
  lia.
Qed.

Lemma fill_caches_sep' f s : Sep' s -> Sep' (fill_caches f s).
Proof.
  rewrite !sep'_iff; intros H x.
  destruct (fill_caches_delta f s) as (Hn & He & _ & _ & _ & _ & _ & d & D).
  destruct (D x) as (D1 & D2 & D3 & D4). destruct (H x) as (Hb & Hs & Hc).
  unfold Sep'C, BoundedC in *. rewrite !EI_split in *. unfold EO, ED, ES in *.
  rewrite He, D1, D2. lia.
Qed.

Lemma fill_caches_sep f s : Sep s -> Sep (fill_caches f s).
Proof.
  rewrite !sep_iff; intros H x.
  destruct (fill_caches_delta f s) as (Hn & He & _ & _ & _ & _ & _ & d & D).
  destruct (D x) as (D1 & D2 & D3 & D4). destruct (H x) as (Hb & Hs).
  unfold SepC, BoundedC, EO, EI in *. rewrite He, D1, D2. lia.
Qed.

(** * What an export operation copies belongs to the graph *)

Lemma sel_in ms idx m : In m (sel ms idx) -> In m ms.
Proof.
  unfold sel; rewrite in_flat_map; intros (i & _ & Hi).
  destruct (nth_error ms i) as [m'|] eqn:E; [|contradiction].
  destruct Hi as [<-|[]]. eapply nth_error_In; exact E.
Qed.

Lemma x_nodes_in x g m : In m (x_nodes x g) -> In m (g_nodes g).
Proof.
  destruct x; cbn [x_nodes]; try contradiction; try (apply sel_in); try (intros H; exact H).
  rewrite in_app_iff; intros [H|H]; [exact H|eapply sel_in; exact H].
Qed.

Lemma x_edges_in x g m : In m (x_edges x g) -> In m (g_edges g).
Proof.
  destruct x; cbn [x_edges]; try contradiction; try (apply sel_in); try (intros H; exact H).
Qed.

Lemma x_gmeta_in x g m : In m (x_gmeta x g) -> m = g_meta g.
Proof.
  destruct x; cbn [x_gmeta]; try contradiction; intros [<-|[]]; reflexivity.
Qed.

Lemma x_sources_in_graph x g y :
  cnt (flat_map inner (x_gmeta x g ++ x_nodes x g ++ x_edges x g)) y > 0 ->
  cnt (g_inner g) y > 0.
Proof.
  rewrite <- !cnt_In. rewrite in_flat_map. intros (m & Hm & Hy).
  unfold g_inner. rewrite !in_app_iff in *. rewrite !in_flat_map.
  destruct Hm as [Hm|[Hm|Hm]].
  - left. apply x_gmeta_in in Hm; subst m; exact Hy.
  - right; left. exists m; split; [eapply x_nodes_in; exact Hm|exact Hy].
  - right; right. exists m; split; [eapply x_edges_in; exact Hm|exact Hy].
Qed.

(** * The table: no row aliases; only [to_dict] is shallow *)

Definition is_export_dict (x : xop) : bool :=
  match x with ExportDict _ => true | _ => false end.

Ltac destruct_xop x :=
  destruct x; repeat match goal with b : bool |- _ => destruct b end.

Lemma levels_no_alias x :
  let '(nl, el, gl) := levels_of x in nl <> LAlias /\ el <> LAlias /\ gl <> LAlias.
Proof. destruct_xop x; vm_compute; repeat split; discriminate. Qed.

Lemma levels_not_shallow x :
  is_export_dict x = false ->
  let '(nl, el, gl) := levels_of x in
  is_shallow nl = false /\ is_shallow el = false /\ is_shallow gl = false.
Proof. destruct_xop x; intros E; try discriminate E; vm_compute; repeat split. Qed.

(** Every row of the table is used by some operation and parses to a non-alias level; the
    only row with a shallow level is [to_dict]. *)
Lemma table_rows_safe :
  forallb (fun r => match r with (_, a, b) =>
             negb (level_eqb (level_of_string a) LAlias) &&
             negb (level_eqb (level_of_string b) LAlias) end) copy_discipline = true.
Proof. vm_compute; reflexivity. Qed.

Lemma table_only_to_dict_shallow :
  map (fun r => match r with (n, _, _) => n end)
      (filter (fun r => match r with (_, a, b) =>
                 is_shallow (level_of_string a) || is_shallow (level_of_string b) end)
              copy_discipline) = ["to_dict"%string].
Proof. vm_compute; reflexivity. Qed.

(** * Export steps preserve separation *)

Lemma step_export_sep' s x : Sep' s -> Sep' (step_export s x).
Proof.
  intros H. unfold step_export.
  pose proof (levels_no_alias x) as HL.
  destruct (levels_of x) as [[nl el] gl]. destruct HL as (H1 & H2 & H3).
  apply export_with_sep'; try assumption.
  - intros y; unfold GI; apply x_sources_in_graph.
  - apply fill_caches_sep', H.
Qed.

Lemma step_export_sep s x : is_export_dict x = false -> Sep s -> Sep (step_export s x).
Proof.
  intros Hx H. unfold step_export.
  pose proof (levels_no_alias x) as HL. pose proof (levels_not_shallow x Hx) as HS.
  destruct (levels_of x) as [[nl el] gl]. destruct HL as (H1 & H2 & H3), HS as (S1 & S2 & S3).
  apply export_with_sep; try assumption. apply fill_caches_sep, H.
Qed.

(** * Graph mutations *)

Ltac gnorm :=
  unfold GO, GI;
  cbn [s_graph s_next s_exports s_log];
  rewrite ?GO_unfold, ?GI_unfold;
  cbn [set_nodes set_edges set_lists g_meta g_nodes g_edges g_nx g_adj g_variables
       g_lag_lists g_var_lists opt outer inner];
  rewrite ?cnt_map_app, ?cnt_flat_map_app, ?cnt_app;
  cbn [map flat_map outer inner];
  rewrite ?app_nil_r, ?cnt_nil.

Definition caches (g : graph) (x : loc) : nat :=
  cnt (opt (g_nx g)) x + cnt (opt (g_adj g)) x + cnt (opt (g_variables g)) x.

(** A graph mutation drops some of the graph's identities ([ro], [ri]) and allocates new ones
    ([fo], [fi]); it does not touch the exports. *)
Definition gdelta (s s' : state) : Prop :=
  s_exports s' = s_exports s /\ s_next s <= s_next s' /\
  exists ro ri fo fi : loc -> nat, forall x,
    GO s' x + ro x = GO s x + fo x /\ GI s' x + ri x = GI s x + fi x /\
    fo x + fi x <= 1 /\ (fo x + fi x > 0 -> s_next s <= x < s_next s').

Lemma gdelta_refl_log s w :
  gdelta s {| s_next := s_next s; s_graph := s_graph s; s_exports := s_exports s; s_log := w |}.
Proof.
  split; [reflexivity|]. split; [cbn; lia|].
  exists (fun _ => 0), (fun _ => 0), (fun _ => 0), (fun _ => 0). intros x.
  unfold GO, GI; cbn [s_graph s_next]. lia.
Qed.

Lemma gdelta_refl s : gdelta s s.
Proof.
  split; [reflexivity|]. split; [lia|].
  exists (fun _ => 0), (fun _ => 0), (fun _ => 0), (fun _ => 0). intros x. lia.
Qed.

Lemma step_gmeta_delta s k : gdelta s (step_gmeta s k).
Proof.
  unfold step_gmeta. split; [reflexivity|]. split; [cbn [s_next]; lia|].
  exists (fun _ => 0), (fun _ => 0), (fun _ => 0), (cnt (seq (s_next s) k)). intros x.
  pose proof (cnt_seq (s_next s) k x) as [Q1 Q2].
  gnorm. lia.
Qed.

Lemma step_gmut_delta s m : gdelta s (step_gmut s m).
Proof.
  destruct m as [k nl nv|k|i|i|i|[|] i|]; unfold step_gmut.
  - (* add node *)
    split; [reflexivity|]. split; [cbn [s_next]; lia|].
    set (n := s_next s). set (n1 := S n + k).
    exists (caches (s_graph s)), (fun _ => 0),
      (fun x => cnt [n] x + cnt (seq n1 (b2n nl)) x + cnt (seq (n1 + b2n nl) (b2n nv)) x),
      (cnt (seq (S n) k)).
    intros x. unfold caches.
    pose proof (cnt_single n x) as [S1 S2].
    pose proof (cnt_seq (S n) k x) as [Q1 Q2].
    pose proof (cnt_seq n1 (b2n nl) x) as [Q3 Q4].
    pose proof (cnt_seq (n1 + b2n nl) (b2n nv) x) as [Q5 Q6].
    gnorm. fold n. subst n1. lia.
  - (* add edge *)
    split; [reflexivity|]. split; [cbn [s_next]; lia|].
    set (n := s_next s).
    exists (caches (s_graph s)), (fun _ => 0), (cnt [n]), (cnt (seq (S n) k)).
    intros x. unfold caches.
    pose proof (cnt_single n x) as [S1 S2].
    pose proof (cnt_seq (S n) k x) as [Q1 Q2].
    gnorm. fold n. lia.
  - (* delete node *)
    split; [reflexivity|]. split; [cbn [s_next]; lia|].
    destruct (nth_error (g_nodes (s_graph s)) i) as [old|] eqn:E.
    + exists (fun x => caches (s_graph s) x + cnt [outer old] x), (cnt (inner old)),
        (fun _ => 0), (fun _ => 0).
      intros x. unfold caches. gnorm.
      rewrite (cnt_map_remove_nth outer i _ x E), (cnt_flat_map_remove_nth inner i _ x E). lia.
    + exists (caches (s_graph s)), (fun _ => 0), (fun _ => 0), (fun _ => 0).
      intros x. unfold caches. gnorm. rewrite (remove_nth_none _ _ E). lia.
  - (* delete edge *)
    split; [reflexivity|]. split; [cbn [s_next]; lia|].
    destruct (nth_error (g_edges (s_graph s)) i) as [old|] eqn:E.
    + exists (fun x => caches (s_graph s) x + cnt [outer old] x), (cnt (inner old)),
        (fun _ => 0), (fun _ => 0).
      intros x. unfold caches. gnorm.
      rewrite (cnt_map_remove_nth outer i _ x E), (cnt_flat_map_remove_nth inner i _ x E). lia.
    + exists (caches (s_graph s)), (fun _ => 0), (fun _ => 0), (fun _ => 0).
      intros x. unfold caches. gnorm. rewrite (remove_nth_none _ _ E). lia.
  - (* replace node *)
    destruct (nth_error (g_nodes (s_graph s)) i) as [old|] eqn:E; [|apply gdelta_refl].
    split; [reflexivity|]. split; [cbn [s_next]; lia|].
    set (n := s_next s).
    exists (fun x => caches (s_graph s) x + cnt [outer old] x), (fun _ => 0),
      (cnt [n]), (fun _ => 0).
    intros x. unfold caches. pose proof (cnt_single n x) as [S1 S2]. gnorm. fold n.
    rewrite (cnt_map_remove_nth outer i _ x E), (cnt_flat_map_remove_nth inner i _ x E). lia.
  - (* drop a per-variable index list *)
    split; [reflexivity|]. split; [cbn [s_next]; lia|].
    exists (fun x => caches (s_graph s) x + (cnt (g_var_lists (s_graph s)) x
                       - cnt (remove_nth i (g_var_lists (s_graph s))) x)),
      (fun _ => 0), (fun _ => 0), (fun _ => 0).
    intros x. unfold caches. pose proof (cnt_remove_nth_le i (g_var_lists (s_graph s)) x).
    gnorm. lia.
  - (* drop a per-lag index list *)
    split; [reflexivity|]. split; [cbn [s_next]; lia|].
    exists (fun x => caches (s_graph s) x + (cnt (g_lag_lists (s_graph s)) x
                       - cnt (remove_nth i (g_lag_lists (s_graph s))) x)),
      (fun _ => 0), (fun _ => 0), (fun _ => 0).
    intros x. unfold caches. pose proof (cnt_remove_nth_le i (g_lag_lists (s_graph s)) x).
    gnorm. lia.
  - (* writes only *)
    apply gdelta_refl_log.
Qed.

Lemma gdelta_sep' s s' : gdelta s s' -> Sep' s -> Sep' s'.
Proof.
  intros (He & Hn & ro & ri & fo & fi & D). rewrite !sep'_iff. intros H x.
  destruct (D x) as (D1 & D2 & D3 & D4). destruct (H x) as (Hb & Hs & Hc).
  unfold Sep'C, BoundedC in *. rewrite !EI_split in *. unfold EO, ED, ES in *. rewrite He.
  lia.
Qed.

Lemma gdelta_sep s s' : gdelta s s' -> Sep s -> Sep s'.
Proof.
  intros (He & Hn & ro & ri & fo & fi & D). rewrite !sep_iff. intros H x.
  destruct (D x) as (D1 & D2 & D3 & D4). destruct (H x) as (Hb & Hs).
  unfold SepC, BoundedC in *. unfold EO, EI in *. rewrite He. lia.
Qed.
