(** CorrTSGenMinimal.v — entry points of the correspondence harness for the functions GENERATED from
    [TimeSeriesCausalGraph.get_minimal_graph] / [is_minimal_graph] (TSGenMinimal.v), in the style of CorrTS.v.
    DEFINITIONS and pinned [Example]s only.  Depends on TSGenMinimal.v only (not on TSGenExtend.v).

    Case format: EXACTLY the [tcase] of CorrTS.v (the harness /verif/harness/tsprops.py builds it with [cq_case]):
    the graph as the implementation stores it ([tc_g]) and what the implementation returned ([tc_min],
    [tc_ismin]; the other fields are ignored here).  [check_tcase_gen_minimal c] returns
      [gen_min_eq; gen_ismin_eq; gen_min_vs_model; gen_ismin_vs_model; closed]
    - [gen_min_eq], [gen_ismin_eq]: the same comparisons as columns 0 and 1 of [CorrTS.check_tcase] (min_eq, ismin_eq),
      with the generated code in the place of the hand model: 1 = equal to the implementation, 0 = differs,
      2 = the case is not a C14 case ([tc_which]);
    - [gen_min_vs_model], [gen_ismin_vs_model]: generated code against the hand model on the same input (1 / 0);
    - [closed]: 1 when the premise [ends_closed] of the equivalence theorems holds of [tc_g] (always, for a graph
      extracted from the library).
    [is_minimal_graph] is evaluated with an empty cache ([self._is_minimal_graph is None], the state after any
    mutation); [gen_is_minimal] strips the [Some] of the cache value (TSGenMinimalProofs.gen_is_minimal_never_none). *)
From CG Require Import Base Digraph TSGraph CorrTS PyRtTSb TSGenMinimal.
Set Implicit Arguments.

Definition gen_is_minimal (g : tsg) : res bool :=
  match gen_is_minimal_graph g None with
  | Ok (Some b) => Ok b
  | Ok None => Err EConv     (* cannot happen: see gen_is_minimal_never_none; not a normal-looking value *)
  | Err e => Err e
  end.

Definition check_tcase_gen_minimal (c : tcase) : list N :=
  let g := tc_g c in
  let on (i : nat) := nth i (tc_which c) false in
  let cmp (i : nat) (t : unit -> bool) : N := if on i then b2n (t tt) else 2%N in
  [ cmp 0 (fun _ => res_eqb tsg_eqb (gen_get_minimal_graph g) (tc_min c));
    cmp 0 (fun _ => res_eqb Bool.eqb (gen_is_minimal g) (tc_ismin c));
    b2n (res_eqb tsg_eqb (gen_get_minimal_graph g) (minimal g));
    b2n (res_eqb Bool.eqb (gen_is_minimal g) (is_minimal g));
    b2n (ends_closed_b g) ].

Definition check_tcases_gen_minimal (cs : list tcase) : list (list N) := map check_tcase_gen_minimal cs.

(** * Pinned behaviour: every [pin_min] / [pin_ismin] below was printed by the real library
      (PYTHONPATH=/repo /venv/bin/python, extraction functions of /verif/harness/tsprops.py) for the graph [pin_g]:
      1  y(t-1)->y {e:1}, x(t-2)->y(t-1), x--y, floating binary z(t-3) {u:1}, graph meta {g:1}
      2  a(t-1)->a, a(t-2)->a(t-1), b(t-1)<>a, a->b
      3  the empty graph with meta {k:[1,2]}
      4  x(t-1)->x, x->y, floating w   (already minimal)
      5  x->y(t+1) {m:None}, y->y(t+2), floating q(t+1)   (forward lags) *)
Module Pins.
Local Open Scope N_scope.
Definition pin_g1 : tsg := {| tnodes := [{| tv := [121]; tl := (-1)%Z; tvt := VUnspec; tm := [] |}; {| tv := [121]; tl := (0)%Z; tvt := VUnspec; tm := [] |}; {| tv := [120]; tl := (-2)%Z; tvt := VUnspec; tm := [] |}; {| tv := [120]; tl := (0)%Z; tvt := VUnspec; tm := [] |}; {| tv := [122]; tl := (-3)%Z; tvt := VBin; tm := [([117], (JInt (1)%Z))] |}]; tedges := [{| es := [120]; esl := (0)%Z; ed := [121]; edl := (0)%Z; ety := Und; em := [] |}; {| es := [120]; esl := (-2)%Z; ed := [121]; edl := (-1)%Z; ety := Dir; em := [] |}; {| es := [121]; esl := (-1)%Z; ed := [121]; edl := (0)%Z; ety := Dir; em := [([101], (JInt (1)%Z))] |}]; tgmeta := [([103], (JInt (1)%Z))] |}.
Definition pin_min1 : res tsg := (Ok {| tnodes := [{| tv := [120]; tl := (0)%Z; tvt := VUnspec; tm := [] |}; {| tv := [121]; tl := (0)%Z; tvt := VUnspec; tm := [] |}; {| tv := [120]; tl := (-1)%Z; tvt := VUnspec; tm := [] |}; {| tv := [121]; tl := (-1)%Z; tvt := VUnspec; tm := [] |}; {| tv := [122]; tl := (0)%Z; tvt := VBin; tm := [([117], (JInt (1)%Z))] |}]; tedges := [{| es := [120]; esl := (0)%Z; ed := [121]; edl := (0)%Z; ety := Und; em := [] |}; {| es := [120]; esl := (-1)%Z; ed := [121]; edl := (0)%Z; ety := Dir; em := [] |}; {| es := [121]; esl := (-1)%Z; ed := [121]; edl := (0)%Z; ety := Dir; em := [([101], (JInt (1)%Z))] |}]; tgmeta := [([103], (JInt (1)%Z))] |}).
Definition pin_ismin1 : res bool := (Ok false).
Definition pin_g2 : tsg := {| tnodes := [{| tv := [97]; tl := (-1)%Z; tvt := VUnspec; tm := [] |}; {| tv := [97]; tl := (0)%Z; tvt := VUnspec; tm := [] |}; {| tv := [97]; tl := (-2)%Z; tvt := VUnspec; tm := [] |}; {| tv := [98]; tl := (-1)%Z; tvt := VUnspec; tm := [] |}; {| tv := [98]; tl := (0)%Z; tvt := VUnspec; tm := [] |}]; tedges := [{| es := [97]; esl := (0)%Z; ed := [98]; edl := (0)%Z; ety := Dir; em := [] |}; {| es := [97]; esl := (-1)%Z; ed := [97]; edl := (0)%Z; ety := Dir; em := [] |}; {| es := [97]; esl := (-2)%Z; ed := [97]; edl := (-1)%Z; ety := Dir; em := [] |}; {| es := [98]; esl := (-1)%Z; ed := [97]; edl := (0)%Z; ety := Bi; em := [] |}]; tgmeta := [] |}.
Definition pin_min2 : res tsg := (Ok {| tnodes := [{| tv := [97]; tl := (0)%Z; tvt := VUnspec; tm := [] |}; {| tv := [98]; tl := (0)%Z; tvt := VUnspec; tm := [] |}; {| tv := [97]; tl := (-1)%Z; tvt := VUnspec; tm := [] |}; {| tv := [98]; tl := (-1)%Z; tvt := VUnspec; tm := [] |}]; tedges := [{| es := [97]; esl := (0)%Z; ed := [98]; edl := (0)%Z; ety := Dir; em := [] |}; {| es := [97]; esl := (-1)%Z; ed := [97]; edl := (0)%Z; ety := Dir; em := [] |}; {| es := [98]; esl := (-1)%Z; ed := [97]; edl := (0)%Z; ety := Bi; em := [] |}]; tgmeta := [] |}).
Definition pin_ismin2 : res bool := (Ok false).
Definition pin_g3 : tsg := {| tnodes := []; tedges := []; tgmeta := [([107], (JList [(JInt (1)%Z); (JInt (2)%Z)]))] |}.
Definition pin_min3 : res tsg := (Ok {| tnodes := []; tedges := []; tgmeta := [([107], (JList [(JInt (1)%Z); (JInt (2)%Z)]))] |}).
Definition pin_ismin3 : res bool := (Ok true).
Definition pin_g4 : tsg := {| tnodes := [{| tv := [120]; tl := (-1)%Z; tvt := VUnspec; tm := [] |}; {| tv := [120]; tl := (0)%Z; tvt := VUnspec; tm := [] |}; {| tv := [121]; tl := (0)%Z; tvt := VUnspec; tm := [] |}; {| tv := [119]; tl := (0)%Z; tvt := VUnspec; tm := [] |}]; tedges := [{| es := [120]; esl := (0)%Z; ed := [121]; edl := (0)%Z; ety := Dir; em := [] |}; {| es := [120]; esl := (-1)%Z; ed := [120]; edl := (0)%Z; ety := Dir; em := [] |}]; tgmeta := [] |}.
Definition pin_min4 : res tsg := (Ok {| tnodes := [{| tv := [120]; tl := (0)%Z; tvt := VUnspec; tm := [] |}; {| tv := [121]; tl := (0)%Z; tvt := VUnspec; tm := [] |}; {| tv := [120]; tl := (-1)%Z; tvt := VUnspec; tm := [] |}; {| tv := [119]; tl := (0)%Z; tvt := VUnspec; tm := [] |}]; tedges := [{| es := [120]; esl := (0)%Z; ed := [121]; edl := (0)%Z; ety := Dir; em := [] |}; {| es := [120]; esl := (-1)%Z; ed := [120]; edl := (0)%Z; ety := Dir; em := [] |}]; tgmeta := [] |}).
Definition pin_ismin4 : res bool := (Ok true).
Definition pin_g5 : tsg := {| tnodes := [{| tv := [120]; tl := (0)%Z; tvt := VUnspec; tm := [] |}; {| tv := [121]; tl := (1)%Z; tvt := VUnspec; tm := [] |}; {| tv := [121]; tl := (0)%Z; tvt := VUnspec; tm := [] |}; {| tv := [121]; tl := (2)%Z; tvt := VUnspec; tm := [] |}; {| tv := [113]; tl := (1)%Z; tvt := VUnspec; tm := [] |}]; tedges := [{| es := [120]; esl := (0)%Z; ed := [121]; edl := (1)%Z; ety := Dir; em := [([109], JNull)] |}; {| es := [121]; esl := (0)%Z; ed := [121]; edl := (2)%Z; ety := Dir; em := [] |}]; tgmeta := [] |}.
Definition pin_min5 : res tsg := (Ok {| tnodes := [{| tv := [120]; tl := (-1)%Z; tvt := VUnspec; tm := [] |}; {| tv := [121]; tl := (0)%Z; tvt := VUnspec; tm := [] |}; {| tv := [121]; tl := (-2)%Z; tvt := VUnspec; tm := [] |}; {| tv := [113]; tl := (0)%Z; tvt := VUnspec; tm := [] |}]; tedges := [{| es := [120]; esl := (-1)%Z; ed := [121]; edl := (0)%Z; ety := Dir; em := [([109], JNull)] |}; {| es := [121]; esl := (-2)%Z; ed := [121]; edl := (0)%Z; ety := Dir; em := [] |}]; tgmeta := [] |}).
Definition pin_ismin5 : res bool := (Ok false).

Definition pin_case (g : tsg) (mn : res tsg) (ism : res bool) : tcase :=
  {| tc_g := g; tc_which := [true; false; false; false]; tc_min := mn; tc_ismin := ism; tc_adj := Err EIndex;
     tc_ext := []; tc_stat := Err EIndex; tc_isstat := Err EIndex; tc_sum := Err EIndex |}.
Example pin_gen_minimal_1 : check_tcase_gen_minimal (pin_case pin_g1 pin_min1 pin_ismin1) = [1; 1; 1; 1; 1].
Proof. vm_compute. reflexivity. Qed.
Example pin_gen_minimal_2 : check_tcase_gen_minimal (pin_case pin_g2 pin_min2 pin_ismin2) = [1; 1; 1; 1; 1].
Proof. vm_compute. reflexivity. Qed.
Example pin_gen_minimal_3 : check_tcase_gen_minimal (pin_case pin_g3 pin_min3 pin_ismin3) = [1; 1; 1; 1; 1].
Proof. vm_compute. reflexivity. Qed.
Example pin_gen_minimal_4 : check_tcase_gen_minimal (pin_case pin_g4 pin_min4 pin_ismin4) = [1; 1; 1; 1; 1].
Proof. vm_compute. reflexivity. Qed.
Example pin_gen_minimal_5 : check_tcase_gen_minimal (pin_case pin_g5 pin_min5 pin_ismin5) = [1; 1; 1; 1; 1].
Proof. vm_compute. reflexivity. Qed.
(* the hand-model entry point gives the same verdicts on the same cases *)
Example pin_model_minimal :
  map (fun c => firstn 2 (check_tcase c))
      [pin_case pin_g1 pin_min1 pin_ismin1; pin_case pin_g2 pin_min2 pin_ismin2; pin_case pin_g3 pin_min3 pin_ismin3;
       pin_case pin_g4 pin_min4 pin_ismin4; pin_case pin_g5 pin_min5 pin_ismin5]
  = [[1; 1]; [1; 1]; [1; 1]; [1; 1]; [1; 1]].
Proof. vm_compute. reflexivity. Qed.
(* a wrong expected value is noticed: graph 1 is NOT minimal *)
Example pin_gen_minimal_wrong : check_tcase_gen_minimal (pin_case pin_g1 pin_min1 (Ok true)) = [1; 0; 1; 1; 1].
Proof. vm_compute. reflexivity. Qed.
End Pins.
