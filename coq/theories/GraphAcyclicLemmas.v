(** GraphAcyclicLemmas.v — helper lemmas for GraphAcyclicProofs.v (property C02, first half).

    Part A: elementary facts about [find_node] / [find_edge] / [dgraph]; [CCInv] (what the
            cycle check needs of a state; implied by [Inv]).
    Part B: the literal stack loop [dep_loop] of _assert_node_does_not_depend_on_itself decides
            "d lies on a directed cycle" and never runs out of its fuel.
    Part C: how every primitive mutator changes the by-source edge index [gsrc] (the only
            component the directed part [dgraph] reads its arcs from); shape of add_edge results.
    Part D: [CInv], a small invariant implied by [Inv] and preserved by every primitive, under
            which a [Some false] answer of the loop is sound; used to prove the acyclicity
            theorems without any premise on the full invariant.
    Part E: the intermediate state of [_set_edge] satisfies [CCInv]. *)
From Coq Require Import Relations.Relation_Operators.
From CG Require Import Base Digraph DigraphProofs Graph GraphObs GraphInv.


(** * Part A: basic facts *)

Lemma find_node_some id ns n : find_node id ns = Some n -> In n ns /\ nid n = id.
Proof.
  induction ns as [|a ns IH]; simpl; [discriminate|].
  destruct (name_eqb_spec id (nid a)) as [E|Hn].
  - intros [= <-]. split; [left; reflexivity|symmetry; exact E].
  - intros H. destruct (IH H) as [Hin Hid]. split; [right; exact Hin|exact Hid].
Qed.

Lemma find_node_in id ns : In id (map nid ns) -> exists n, find_node id ns = Some n.
Proof.
  induction ns as [|a ns IH]; simpl; [intros []|].
  destruct (name_eqb_spec id (nid a)) as [E|Hn].
  - intros _. exists a; reflexivity.
  - intros [E|Hin]; [congruence|apply IH, Hin].
Qed.

Lemma find_node_none id ns : find_node id ns = None -> ~ In id (map nid ns).
Proof.
  intros Hnone Hin. destruct (find_node_in _ _ Hin) as (n & Hn). congruence.
Qed.

Lemma get_node_some g x n : get_node g x = Some n -> In n (gnodes g) /\ nid n = x.
Proof. apply find_node_some. Qed.

Lemma get_node_in g x : In x (node_ids g) -> exists n, get_node g x = Some n.
Proof. apply find_node_in. Qed.

Lemma node_exists_in g x : node_exists g x = true <-> In x (node_ids g).
Proof.
  unfold node_exists. split.
  - destruct (get_node g x) as [n|] eqn:E; [intros _|discriminate].
    destruct (get_node_some _ _ _ E) as [Hin Hid]. subst x. apply in_map, Hin.
  - intros Hin. destruct (get_node_in _ _ Hin) as (n & ->). reflexivity.
Qed.

Lemma find_edge_some s d es e :
  find_edge s d es = Some e -> In e es /\ esrc e = s /\ edst e = d.
Proof.
  induction es as [|a es IH]; simpl; [discriminate|].
  destruct (name_eqb_spec s (esrc a)) as [E1|Hn1]; simpl.
  - destruct (name_eqb_spec d (edst a)) as [E2|Hn2].
    + intros [= <-]. split; [left; reflexivity|split; symmetry; assumption].
    + intros H. destruct (IH H) as (Hin & Hs & Hd). split; [right; exact Hin|split; assumption].
  - intros H. destruct (IH H) as (Hin & Hs & Hd). split; [right; exact Hin|split; assumption].
Qed.

Lemma find_edge_none s d es :
  find_edge s d es = None -> forall e, In e es -> ~ (esrc e = s /\ edst e = d).
Proof.
  induction es as [|a es IH]; simpl; [intros _ e []|].
  destruct (name_eqb_spec s (esrc a)) as [E1|Hn1]; simpl.
  - destruct (name_eqb_spec d (edst a)) as [E2|Hn2]; [discriminate|].
    intros H e [<-|Hin]; [intros [_ Hd]; congruence|apply IH; assumption].
  - intros H e [<-|Hin]; [intros [Hs _]; congruence|apply IH; assumption].
Qed.

Lemma find_edge_none_keys s d es : find_edge s d es = None -> ~ In (s, d) (map edge_key es).
Proof.
  intros Hnone Hin. apply in_map_iff in Hin. destruct Hin as (e & Hk & Hin).
  unfold edge_key in Hk. inversion Hk; subst.
  apply (find_edge_none _ _ _ Hnone e Hin). split; reflexivity.
Qed.

Lemma find_edge_in s d es : In (s, d) (map edge_key es) -> exists e, find_edge s d es = Some e.
Proof.
  intros Hin. destruct (find_edge s d es) as [e|] eqn:E; [exists e; reflexivity|].
  exfalso. exact (find_edge_none_keys _ _ _ E Hin).
Qed.

(** the arcs of the directed part *)
Lemma arc_dgraph g a b :
  arc (dgraph g) a b <->
  exists e, In e (gsrc g) /\ ety e = Dir /\ esrc e = a /\ edst e = b.
Proof.
  unfold arc, dgraph; cbn [arcs]. rewrite in_map_iff. split.
  - intros (e & Hk & Hin). apply filter_In in Hin. destruct Hin as [Hin Hty].
    destruct (etype_eqb_spec (ety e) Dir) as [Hd|]; [|discriminate].
    unfold edge_key in Hk. inversion Hk; subst. exists e. repeat split; assumption.
  - intros (e & Hin & Hty & Hs & Hd). exists e. split; [unfold edge_key; congruence|].
    apply filter_In. split; [exact Hin|]. rewrite Hty. reflexivity.
Qed.

Lemma dir_into_in g x p : In p (dir_into g x) <-> arc (dgraph g) p x.
Proof.
  rewrite arc_dgraph. unfold dir_into. rewrite in_map_iff. split.
  - intros (e & Hs & Hin). apply filter_In in Hin. destruct Hin as [Hin Hc].
    apply andb_true_iff in Hc. destruct Hc as [Hty Hd].
    destruct (etype_eqb_spec (ety e) Dir) as [Hty'|]; [|discriminate].
    apply name_eqb_eq in Hd. exists e. repeat split; auto.
  - intros (e & Hin & Hty & Hs & Hd). exists e. split; [exact Hs|].
    apply filter_In. split; [exact Hin|]. rewrite Hty, Hd, name_eqb_refl. reflexivity.
Qed.

Lemma dir_into_length g x :
  length (dir_into g x)
  = length (filter (fun e => etype_eqb (ety e) Dir && name_eqb x (edst e)) (gsrc g)).
Proof. unfold dir_into. apply map_length. Qed.

(** sub-graphs (as sets of arcs) *)
Definition sub_arcs (g1 g2 : graph) : Prop :=
  forall a b, arc (dgraph g1) a b -> arc (dgraph g2) a b.

Lemma sub_arcs_refl g : sub_arcs g g.
Proof. intros a b H; exact H. Qed.

Lemma sub_arcs_trans g1 g2 g3 : sub_arcs g1 g2 -> sub_arcs g2 g3 -> sub_arcs g1 g3.
Proof. intros H1 H2 a b H; apply H2, H1, H. Qed.

Lemma incl_sub_arcs g1 g2 : incl (gsrc g1) (gsrc g2) -> sub_arcs g1 g2.
Proof.
  intros Hi a b Ha. apply arc_dgraph in Ha. destruct Ha as (e & Hin & H).
  apply arc_dgraph. exists e. split; [apply Hi, Hin|exact H].
Qed.

Lemma sub_arcs_acyclic g1 g2 : sub_arcs g1 g2 -> Acyclic g2 -> Acyclic g1.
Proof. intros Hs. unfold Acyclic. apply (subgraph_acyclic Hs). Qed.

Lemma gsrc_eq_acyclic g1 g2 : gsrc g1 = gsrc g2 -> Acyclic g2 -> Acyclic g1.
Proof.
  intros E. apply sub_arcs_acyclic, incl_sub_arcs. rewrite E. apply incl_refl.
Qed.

Lemma dgraph_wf parse k g : Inv parse k g -> wf (dgraph g).
Proof.
  intros HI. split; [exact (inv_nodup_nodes HI)|]. intros a b Hab. cbn [dgraph verts].
  apply arc_dgraph in Hab. destruct Hab as (e & Hin & _ & <- & <-).
  exact (inv_endpoints HI e Hin).
Qed.
Arguments dgraph_wf {parse k g} HI.

Lemma inb_of_node g x : In x (node_ids g) -> exists l, inb_of g x = Some l.
Proof.
  intros Hin. destruct (get_node_in _ _ Hin) as (n & Hn). exists (ninb n).
  unfold inb_of. rewrite Hn. reflexivity.
Qed.

(** What the cycle check needs of a state: sources of edges are nodes and every per-node
    inbound list is a permutation of the sources of the directed edges into the node.
    Implied by [Inv] ([inv_ccinv]); also holds of the intermediate state of [_set_edge]. *)
Definition CCInv (g : graph) : Prop :=
  (forall e, In e (gsrc g) -> In (esrc e) (node_ids g))
  /\ (forall x n, get_node g x = Some n -> Permutation (ninb n) (dir_into g x)).

Lemma inv_ccinv parse k g : Inv parse k g -> CCInv g.
Proof.
  intros HI. split.
  - intros e He. exact (proj1 (inv_endpoints HI e He)).
  - intros x n Hn. destruct (get_node_some _ _ _ Hn) as [Hin <-]. exact (inv_inb HI n Hin).
Qed.

Section CCFacts.
  Variable g : graph.
  Hypothesis HC : CCInv g.

  Lemma arc_src_node a b : arc (dgraph g) a b -> In a (node_ids g).
  Proof.
    intros Hab. apply arc_dgraph in Hab. destruct Hab as (e & Hin & _ & <- & _).
    exact (proj1 HC e Hin).
  Qed.

  Lemma inb_spec x l p : inb_of g x = Some l -> (In p l <-> arc (dgraph g) p x).
  Proof.
    unfold inb_of. destruct (get_node g x) as [n|] eqn:E; [|discriminate].
    intros [= <-]. rewrite <- dir_into_in. pose proof (proj2 HC x n E) as P. split; intros H.
    - eapply Permutation_in; [exact P|exact H].
    - eapply Permutation_in; [symmetry; exact P|exact H].
  Qed.

  Lemma inb_length x l :
    inb_of g x = Some l ->
    length l = length (filter (fun e => etype_eqb (ety e) Dir && name_eqb x (edst e)) (gsrc g)).
  Proof.
    unfold inb_of. destruct (get_node g x) as [n|] eqn:E; [|discriminate].
    intros [= <-]. rewrite <- dir_into_length. apply Permutation_length, (proj2 HC x n E).
  Qed.
End CCFacts.
Arguments arc_src_node {g} HC {a b} _.
Arguments inb_spec {g} HC {x l} p _.
Arguments inb_length {g} HC {x l} _.

(** * Part B: the cycle check *)

(** number of directed edges whose destination has not been expanded yet *)
Definition wt (es : list edge) (checked : list name) : nat :=
  length (filter (fun e => etype_eqb (ety e) Dir && negb (mem (edst e) checked)) es).

Lemma wt_step es cur checked :
  mem cur checked = false ->
  wt es (cur :: checked)
  + length (filter (fun e => etype_eqb (ety e) Dir && name_eqb cur (edst e)) es)
  = wt es checked.
Proof.
  intros Hm. unfold wt. induction es as [|e es IH]; [reflexivity|].
  cbn [filter]. unfold mem at 1. cbn [existsb]. fold (mem (edst e) checked).
  destruct (etype_eqb (ety e) Dir); cbn [andb]; [|exact IH].
  rewrite (name_eqb_sym (edst e) cur).
  destruct (name_eqb_spec cur (edst e)) as [E|Hn]; cbn [orb negb].
  - rewrite <- E, Hm. cbn [negb length]. rewrite <- IH. unfold mem. lia.
  - destruct (mem (edst e) checked) eqn:Em; cbn [negb length].
    + exact IH.
    + rewrite <- IH. unfold mem. lia.
Qed.

Lemma filter_length_le' {A} (p : A -> bool) l : length (filter p l) <= length l.
Proof. induction l as [|a l IH]; simpl; [lia|]. destruct (p a); simpl; lia. Qed.

Lemma wt_le es checked : wt es checked <= length es.
Proof. apply filter_length_le'. Qed.

Section CycleCheck.
  Variable g : graph.
  Hypothesis HI : CCInv g.
  Variable d : name.

  Notation G := (dgraph g).

  Lemma dep_loop_spec fuel : forall checked to_check,
    checked <> [] -> In d checked ->
    (forall x, In x to_check -> path G x d) ->
    (forall x p, In x checked -> arc G p x -> In p to_check \/ (In p checked /\ p <> d)) ->
    length to_check + wt (gsrc g) checked + 1 <= fuel ->
    exists b, dep_loop fuel g d checked to_check = Some b /\ (b = true <-> path G d d).
  Proof.
    induction fuel as [|f IH]; intros checked to_check Hne Hd Hto Hcl Hfuel; [lia|].
    assert (Hnb : negb (match checked with [] => true | _ :: _ => false end) = true).
    { destruct checked; [contradiction|reflexivity]. }
    destruct to_check as [|cur rest].
    - exists false. split; [reflexivity|]. split; [discriminate|]. intros Hp. exfalso.
      assert (Hall : forall x y, path G x y -> In y checked -> In x checked /\ x <> d).
      { intros x y Hxy. induction Hxy as [x y Harc|x y z _ IHa _ IHb]; intros Hy.
        - destruct (Hcl y x Hy Harc) as [[]|H]; exact H.
        - destruct (IHb Hy) as [Hy' _]. apply IHa, Hy'. }
      destruct (Hall d d Hp Hd) as [_ Hnd]. apply Hnd; reflexivity.
    - cbn [dep_loop]. rewrite Hnb, andb_true_r.
      destruct (name_eqb_spec cur d) as [->|Hcd].
      + exists true. split; [reflexivity|]. split; [intros _|reflexivity].
        apply Hto; left; reflexivity.
      + destruct (mem cur checked) eqn:Emem.
        * apply IH; try assumption.
          -- intros x Hx. apply Hto; right; exact Hx.
          -- intros x p Hx Hpx. destruct (Hcl x p Hx Hpx) as [[<-|Hin]|H].
             ++ right. split; [apply mem_in, Emem|exact Hcd].
             ++ left; exact Hin.
             ++ right; exact H.
          -- cbn [length] in Hfuel. lia.
        * assert (Hcurd : path G cur d) by (apply Hto; left; reflexivity).
          assert (Hnode : In cur (node_ids g)).
          { destruct (path_first Hcurd) as (z & Hcz & _). exact (arc_src_node HI Hcz). }
          destruct (inb_of_node g _ Hnode) as (ps & Hps). rewrite Hps.
          apply IH.
          -- discriminate.
          -- right; exact Hd.
          -- intros x Hx. apply in_app_or in Hx. destruct Hx as [Hx|Hx].
             ++ apply in_rev in Hx. apply (inb_spec HI x Hps) in Hx.
                eapply t_trans; [apply t_step, Hx|exact Hcurd].
             ++ apply Hto; right; exact Hx.
          -- intros x p Hx Hpx. destruct Hx as [<-|Hx].
             ++ left. apply in_or_app; left. apply in_rev. rewrite rev_involutive.
                apply (inb_spec HI p Hps), Hpx.
             ++ destruct (Hcl x p Hx Hpx) as [[<-|Hin]|[Hin Hpd]].
                ** right. split; [left; reflexivity|exact Hcd].
                ** left. apply in_or_app; right; exact Hin.
                ** right. split; [right; exact Hin|exact Hpd].
          -- rewrite app_length, rev_length, (inb_length HI Hps).
             pose proof (wt_step (gsrc g) cur checked Emem) as Hw.
             cbn [length] in Hfuel. lia.
  Qed.

  Lemma depends_on_itself_spec :
    In d (node_ids g) ->
    exists b, depends_on_itself g d = Some b /\ (b = true <-> path G d d).
  Proof.
    intros Hnode. unfold depends_on_itself.
    replace (length (gsrc g) + 2) with (S (length (gsrc g) + 1)) by lia.
    cbn [dep_loop]. rewrite andb_false_r. cbn [mem existsb].
    destruct (inb_of_node g _ Hnode) as (ps & Hps). rewrite Hps.
    apply dep_loop_spec.
    - discriminate.
    - left; reflexivity.
    - intros x Hx. rewrite app_nil_r in Hx. apply in_rev in Hx.
      apply t_step. apply (inb_spec HI x Hps), Hx.
    - intros x p [<-|[]] Hpx. left. rewrite app_nil_r. apply in_rev. rewrite rev_involutive.
      apply (inb_spec HI p Hps), Hpx.
    - rewrite app_nil_r, rev_length, (inb_length HI Hps).
      assert (Hm : mem d [] = false) by reflexivity.
      pose proof (wt_step (gsrc g) d [] Hm) as Hw.
      pose proof (wt_le (gsrc g) []) as Hle. lia.
  Qed.
End CycleCheck.

(** * Part C: the effect of the primitive mutators on the by-source edge index *)

Lemma idx_add_gsrc k g n g' : idx_add k g n = Ok g' -> gsrc g' = gsrc g.
Proof.
  unfold idx_add. destruct k; [intros [= <-]; reflexivity|].
  destruct (meta_lag (nmeta n)); [|discriminate].
  destruct (meta_var (nmeta n)); [|discriminate].
  intros [= <-]. reflexivity.
Qed.

Lemma idx_remove_gsrc k g n g' : idx_remove k g n = Ok g' -> gsrc g' = gsrc g.
Proof.
  unfold idx_remove. destruct k; [intros [= <-]; reflexivity|].
  destruct (meta_lag (nmeta n)); [|discriminate].
  destruct (meta_var (nmeta n)); [|discriminate].
  destruct (remove_first_pair Z.eqb _ _ _); [|discriminate].
  destruct (remove_first_pair name_eqb _ _ _); [|discriminate].
  intros [= <-]. reflexivity.
Qed.

Lemma add_node_obj_gsrc parse k g id vt m g' :
  add_node_obj parse k g id vt m = Ok g' -> gsrc g' = gsrc g.
Proof.
  unfold add_node_obj. destruct (node_exists g id); [discriminate|].
  destruct (mk_node parse k id vt m) as [n|x]; cbn [bind]; [|discriminate].
  intros H. apply idx_add_gsrc in H. exact H.
Qed.

Lemma add_node_id_gsrc parse k g id vt m g' :
  add_node_id parse k g id vt m = Ok g' -> gsrc g' = gsrc g.
Proof.
  unfold add_node_id. destruct k.
  - destruct (node_exists g id); [discriminate|].
    destruct (mk_node parse Plain id vt _) as [n|x]; cbn [bind]; [|discriminate].
    intros [= <-]. reflexivity.
  - destruct (mk_node parse TS id vt _) as [n|x]; cbn [bind]; [|discriminate].
    destruct (node_exists g id); [discriminate|].
    destruct (mk_node parse TS id vt (nmeta n)) as [n2|x]; cbn [bind]; [|discriminate].
    intros H. apply idx_add_gsrc in H. exact H.
Qed.

Lemma add_node_vl_gsrc parse fmt k g v l vt m g' :
  add_node_vl parse fmt k g v l vt m = Ok g' -> gsrc g' = gsrc g.
Proof.
  unfold add_node_vl. destruct k; [discriminate|].
  destruct (fmt v l) as [id|]; [|discriminate]. apply add_node_id_gsrc.
Qed.

Lemma add_endpoint_gsrc parse k g p g' :
  add_endpoint parse k g p = Ok g' -> gsrc g' = gsrc g.
Proof.
  unfold add_endpoint. destruct (node_exists g (fst p)); [intros [= <-]; reflexivity|].
  destruct (snd p) as [[vt m]|]; [apply add_node_obj_gsrc|apply add_node_id_gsrc].
Qed.

Lemma drop_edge_incl s d es : incl (drop_edge s d es) es.
Proof. intros e He. apply filter_In in He. exact (proj1 He). Qed.

Lemma delete_edge_gsrc g s d oty g' :
  delete_edge g s d oty = Ok g' -> gsrc g' = drop_edge s d (gsrc g).
Proof.
  unfold delete_edge. destruct (negb (node_exists g s)); [discriminate|].
  destruct (negb (node_exists g d)); [discriminate|].
  destruct (edge_at g s d) as [e|]; [|discriminate].
  destruct (match oty with Some t => negb (etype_eqb t (ety e)) | None => false end);
    [discriminate|].
  intros [= <-]. reflexivity.
Qed.

Lemma delete_edge_incl g s d oty g' :
  delete_edge g s d oty = Ok g' -> incl (gsrc g') (gsrc g).
Proof. intros H. rewrite (delete_edge_gsrc _ _ _ _ _ H). apply drop_edge_incl. Qed.

Lemma fold_delete_incl (l : list edge) : forall acc g2,
  fold_left (fun acc e => bind acc (fun g' => delete_edge g' (esrc e) (edst e) None)) l acc
    = Ok g2 ->
  exists g1, acc = Ok g1 /\ incl (gsrc g2) (gsrc g1).
Proof.
  induction l as [|e l IH]; intros acc g2; cbn [fold_left].
  - intros ->. exists g2. split; [reflexivity|apply incl_refl].
  - intros H. destruct (IH _ _ H) as (g1' & Hb & Hincl).
    destruct acc as [g1|x]; cbn [bind] in Hb; [|discriminate].
    exists g1. split; [reflexivity|].
    eapply incl_tran; [exact Hincl|]. eapply delete_edge_incl; exact Hb.
Qed.

Lemma delete_node_incl k g id g' : delete_node k g id = Ok g' -> incl (gsrc g') (gsrc g).
Proof.
  unfold delete_node. destruct (get_node g id) as [n|]; [|discriminate].
  destruct (idx_remove k g n) as [g1|x] eqn:E1; cbn [bind]; [|discriminate].
  match goal with |- bind ?F _ = _ -> _ => destruct F as [g2|x] eqn:E2 end;
    cbn [bind]; [|discriminate].
  intros [= <-]. cbn [gsrc].
  destruct (fold_delete_incl _ _ _ E2) as (g1' & [= <-] & Hincl).
  rewrite <- (idx_remove_gsrc _ _ _ _ E1). exact Hincl.
Qed.

(** [_set_edge] *)
Lemma set_edge_ok g s d ty m v g' :
  set_edge g s d ty m v = Ok g' ->
  g' = insert_edge g {| esrc := s; edst := d; ety := ty; emeta := m |}
  /\ (v = true -> depends_on_itself g' d = Some false).
Proof.
  unfold set_edge. destruct (edge_at g s d); [discriminate|].
  destruct (edge_at g d s); [discriminate|].
  destruct v.
  - destruct (depends_on_itself _ d) as [[|]|] eqn:E; [| |discriminate].
    + destruct (delete_edge _ s d None); cbn [bind]; discriminate.
    + intros [= <-]. split; [reflexivity|intros _; exact E].
  - intros [= <-]. split; [reflexivity|discriminate].
Qed.

Lemma orient_ok k g s d ty s' d' :
  orient k g s d ty = Ok (s', d') ->
  (s' = s /\ d' = d) \/ (ty <> Dir /\ s' = d /\ d' = s).
Proof.
  unfold orient. destruct k; [intros [= <- <-]; left; split; reflexivity|].
  destruct (node_lag g s) as [ls|]; [|discriminate].
  destruct (node_lag g d) as [ld|]; [|discriminate].
  destruct (ld <? ls)%Z.
  - destruct (etype_eqb_spec ty Dir) as [|Hn]; [discriminate|].
    intros [= <- <-]. right. repeat split; assumption.
  - intros [= <- <-]. left; split; reflexivity.
Qed.

(** the try block of add_edge: an error leaves the edge index alone, a success appends exactly
    one edge of the requested type (keeping the requested orientation if it is directed) that
    has passed the cycle check when validation is on *)
Definition added_edge (g g' : graph) (sp dp : endpoint) (ty : etype) (v : bool) : Prop :=
  exists e, gsrc g' = gsrc g ++ [e] /\ ety e = ty
            /\ (ty = Dir -> esrc e = fst sp /\ edst e = fst dp)
            /\ (v = true -> depends_on_itself g' (edst e) = Some false).

Lemma add_edge_try_shape parse k g sp dp ty m v r gl :
  add_edge_try parse k g sp dp ty m v = (r, gl) ->
  match r with
  | Err _ => gsrc gl = gsrc g
  | Ok g' => gl = g' /\ added_edge g g' sp dp ty v
  end.
Proof.
  unfold add_edge_try. destruct (name_eqb (fst sp) (fst dp)); [intros [= <- <-]; reflexivity|].
  destruct (add_endpoint parse k g sp) as [g1|x] eqn:E1; [|intros [= <- <-]; reflexivity].
  pose proof (add_endpoint_gsrc _ _ _ _ _ E1) as H1.
  destruct (add_endpoint parse k g1 dp) as [g2|x] eqn:E2; [|intros [= <- <-]; exact H1].
  pose proof (add_endpoint_gsrc _ _ _ _ _ E2) as H2.
  assert (H12 : gsrc g2 = gsrc g) by congruence.
  destruct (match edge_at g (fst sp) (fst dp) with Some _ => true | None => false end);
    [intros [= <- <-]; exact H12|].
  destruct (orient k g2 (fst sp) (fst dp) ty) as [[s' d']|x] eqn:Eo;
    [|intros [= <- <-]; exact H12].
  destruct (set_edge g2 s' d' ty _ v) as [g3|x] eqn:Es; [|intros [= <- <-]; exact H12].
  intros [= <- <-]. split; [reflexivity|].
  destruct (set_edge_ok _ _ _ _ _ _ _ Es) as [Hg3 Hdep].
  exists {| esrc := s'; edst := d'; ety := ty;
            emeta := match m with Some x => x | None => [] end |}.
  cbn [esrc edst ety]. split; [|split; [reflexivity|split; [|exact Hdep]]].
  - rewrite Hg3. cbn [insert_edge gsrc]. rewrite H12. reflexivity.
  - intros Hty. destruct (orient_ok _ _ _ _ _ _ _ Eo) as [[-> ->]|[Hn _]];
      [split; reflexivity|contradiction].
Qed.

Lemma cleanup_incl k (l : list name) : forall gl,
  incl (gsrc (fold_left (fun acc id =>
                 if node_exists acc id then
                   match delete_node k acc id with Ok a => a | Err _ => acc end
                 else acc) l gl)) (gsrc gl).
Proof.
  induction l as [|id l IH]; intros gl; cbn [fold_left]; [apply incl_refl|].
  eapply incl_tran; [apply IH|].
  destruct (node_exists gl id); [|apply incl_refl].
  destruct (delete_node k gl id) as [a|x] eqn:E; [|apply incl_refl].
  eapply delete_node_incl; exact E.
Qed.

Lemma add_edge_shape parse k g sp dp ty m v r gl :
  add_edge parse k g sp dp ty m v = (r, gl) ->
  match r with
  | Err _ => incl (gsrc gl) (gsrc g)
  | Ok g' => gl = g' /\ added_edge g g' sp dp ty v
  end.
Proof.
  unfold add_edge.
  destruct (add_edge_try parse k g sp dp ty m v) as [r0 gl0] eqn:Et.
  pose proof (add_edge_try_shape _ _ _ _ _ _ _ _ _ _ Et) as Hs.
  destruct r0 as [g'|x].
  - intros [= <- <-]. destruct Hs as [_ Hs]. split; [reflexivity|exact Hs].
  - intros [= <- <-]. eapply incl_tran; [apply cleanup_incl|]. rewrite Hs. apply incl_refl.
Qed.

Lemma arc_app g g' e :
  gsrc g' = gsrc g ++ [e] ->
  forall a b, arc (dgraph g') a b <->
              arc (dgraph g) a b \/ (ety e = Dir /\ esrc e = a /\ edst e = b).
Proof.
  intros Hg a b. rewrite !arc_dgraph, Hg. split.
  - intros (e0 & Hin & Hty & Hs & Hd). apply in_app_or in Hin. destruct Hin as [Hin|[<-|[]]].
    + left. exists e0. repeat split; assumption.
    + right. repeat split; assumption.
  - intros [(e0 & Hin & H)|(Hty & Hs & Hd)].
    + exists e0. split; [apply in_or_app; left; exact Hin|exact H].
    + exists e. split; [apply in_or_app; right; left; reflexivity|repeat split; assumption].
Qed.

(** a new cycle must pass through the end of the new arc *)
Lemma cycle_through_new_arc (G : digraph name) s d v :
  path (add_arc G s d) v v -> ~ path G v v -> path (add_arc G s d) d d.
Proof.
  intros Hp Hn. apply path_add_arc_inv in Hp. destruct Hp as [Hp|[Hvs Hdv]]; [contradiction|].
  apply path_add_arc_iff. right. split; [|left; reflexivity].
  destruct Hdv as [->|Hdv], Hvs as [->|Hvs].
  - left; reflexivity.
  - right; exact Hvs.
  - right; exact Hdv.
  - right. eapply t_trans; eassumption.
Qed.

Lemma path_ext (G1 G2 : digraph name) :
  (forall a b, arc G1 a b <-> arc G2 a b) -> forall x y, path G1 x y <-> path G2 x y.
Proof.
  intros H x y. split; apply path_mono; intros a b Hab; apply H, Hab.
Qed.

Arguments depends_on_itself_spec {g} HI d _.
Arguments dep_loop_spec {g} HI d fuel checked to_check _ _ _ _ _.

(** a validated, accepted add keeps the directed part acyclic *)
Lemma added_edge_acyclic parse k g g' sp dp ty :
  Inv parse k g' -> Acyclic g -> added_edge g g' sp dp ty true -> Acyclic g'.
Proof.
  intros HI' Hac (e & Hg & Hty & _ & Hdep). specialize (Hdep eq_refl).
  assert (Hd : In (edst e) (node_ids g')).
  { apply (inv_endpoints HI' e). rewrite Hg. apply in_or_app; right; left; reflexivity. }
  destruct (depends_on_itself_spec (inv_ccinv _ _ _ HI') (edst e) Hd) as (b & Hb & Hiff).
  rewrite Hdep in Hb. injection Hb as <-.
  assert (Hnp : ~ path (dgraph g') (edst e) (edst e)).
  { intros Hp. apply Hiff in Hp. discriminate. }
  intros v Hv.
  destruct (etype_eqb_spec (ety e) Dir) as [HD|HnD].
  - assert (Hext : forall a b, arc (dgraph g') a b
                               <-> arc (add_arc (dgraph g) (esrc e) (edst e)) a b).
    { intros a b. rewrite (arc_app g g' e Hg), add_arc_arc. split.
      - intros [H|(_ & <- & <-)]; [left; exact H|right; split; reflexivity].
      - intros [H|[-> ->]]; [left; exact H|right; repeat split; exact HD]. }
    apply (path_ext _ _ Hext) in Hv.
    apply Hnp. apply (path_ext _ _ Hext).
    eapply cycle_through_new_arc; [exact Hv|apply Hac].
  - apply (Hac v). revert Hv. apply path_mono. intros a b Hab.
    apply (arc_app g g' e Hg) in Hab. destruct Hab as [H|[H _]]; [exact H|contradiction].
Qed.

(** whatever the flag, an add_edge call changes the arcs by at most the requested one *)
Lemma add_edge_arcs parse k g sp dp ty m v r gl :
  add_edge parse k g sp dp ty m v = (r, gl) ->
  forall a b, arc (dgraph gl) a b ->
              arc (dgraph g) a b \/ (ty = Dir /\ a = fst sp /\ b = fst dp).
Proof.
  intros H a b Hab. pose proof (add_edge_shape _ _ _ _ _ _ _ _ _ _ H) as Hs.
  destruct r as [g'|x].
  - destruct Hs as [-> (e & Hg & Hty & Hdir & _)].
    apply (arc_app g g' e Hg) in Hab. destruct Hab as [Hab|(HD & <- & <-)]; [left; exact Hab|].
    right. assert (Hty' : ty = Dir) by congruence. destruct (Hdir Hty') as [-> ->].
    repeat split; assumption.
  - left. revert Hab. apply incl_sub_arcs, Hs.
Qed.

(** * Part D: a small self-contained invariant for the soundness of the "no cycle" answer

    [CInv]: every destination of a stored edge is a node, and the inbound list of a node lists
    (at least) the sources of all directed edges into it.  It is implied by [Inv], holds of the
    empty graph, is preserved by EVERY primitive of the model — so the acyclicity theorems below
    need no premise about the full invariant — and makes a [Some false] answer of the stack
    loop trustworthy. *)
Record CInv (g : graph) : Prop := {
  c_dst : forall e, In e (gsrc g) -> In (edst e) (node_ids g);
  c_inb : forall x n e, get_node g x = Some n -> In e (gsrc g) -> ety e = Dir -> edst e = x ->
                        In (esrc e) (ninb n)
}.
Arguments c_dst {g} _ e _.
Arguments c_inb {g} _ x n e _ _ _ _.

Lemma inv_cinv parse k g : Inv parse k g -> CInv g.
Proof.
  intros HI. constructor.
  - intros e He. exact (proj2 (inv_endpoints HI e He)).
  - intros x n e Hn He Hty Hd. destruct (get_node_some _ _ _ Hn) as [Hin Hid].
    eapply Permutation_in; [symmetry; exact (inv_inb HI n Hin)|].
    rewrite Hid. apply dir_into_in, arc_dgraph. exists e. repeat split; assumption.
Qed.

Lemma cinv_empty m : CInv (empty_graph m).
Proof. constructor; cbn; [intros e []|intros x n e _ []]. Qed.

Lemma closed_no_cycle (G : digraph name) d checked :
  In d checked ->
  (forall x p, In x checked -> arc G p x -> In p checked /\ p <> d) ->
  ~ path G d d.
Proof.
  intros Hd Hcl Hp.
  assert (Hall : forall x y, path G x y -> In y checked -> In x checked /\ x <> d).
  { intros x y Hxy. induction Hxy as [x y Harc|x y z _ IHa _ IHb]; intros Hy.
    - exact (Hcl y x Hy Harc).
    - destruct (IHb Hy) as [Hy' _]. apply IHa, Hy'. }
  destruct (Hall d d Hp Hd) as [_ Hnd]. apply Hnd; reflexivity.
Qed.

Section Sound.
  Variable g : graph.
  Hypothesis HC : CInv g.
  Variable d : name.
  Notation G := (dgraph g).

  Lemma cinv_parents x l p : inb_of g x = Some l -> arc G p x -> In p l.
  Proof.
    unfold inb_of. destruct (get_node g x) as [n|] eqn:E; [|discriminate].
    intros [= <-] Hp. apply arc_dgraph in Hp. destruct Hp as (e & Hin & Hty & <- & Hd).
    exact (c_inb HC _ _ _ E Hin Hty Hd).
  Qed.

  Lemma dep_loop_false fuel : forall checked to_check,
    checked <> [] -> In d checked ->
    (forall x p, In x checked -> arc G p x -> In p to_check \/ (In p checked /\ p <> d)) ->
    dep_loop fuel g d checked to_check = Some false -> ~ path G d d.
  Proof.
    induction fuel as [|f IH]; intros checked to_check Hne Hd Hcl; [discriminate|].
    assert (Hnb : negb (match checked with [] => true | _ :: _ => false end) = true).
    { destruct checked; [contradiction|reflexivity]. }
    destruct to_check as [|cur rest].
    - intros _. apply (closed_no_cycle G d checked Hd).
      intros x p Hx Hpx. destruct (Hcl x p Hx Hpx) as [[]|H]; exact H.
    - cbn [dep_loop]. rewrite Hnb, andb_true_r.
      destruct (name_eqb_spec cur d) as [->|Hcd]; [discriminate|].
      destruct (mem cur checked) eqn:Emem.
      + apply IH; try assumption.
        intros x p Hx Hpx. destruct (Hcl x p Hx Hpx) as [[<-|Hin]|H].
        * right. split; [apply mem_in, Emem|exact Hcd].
        * left; exact Hin.
        * right; exact H.
      + destruct (inb_of g cur) as [ps|] eqn:Hps; [|discriminate].
        apply IH.
        * discriminate.
        * right; exact Hd.
        * intros x p Hx Hpx. destruct Hx as [<-|Hx].
          -- left. apply in_or_app; left. apply in_rev. rewrite rev_involutive.
             exact (cinv_parents _ _ _ Hps Hpx).
          -- destruct (Hcl x p Hx Hpx) as [[<-|Hin]|[Hin Hpd]].
             ++ right. split; [left; reflexivity|exact Hcd].
             ++ left. apply in_or_app; right; exact Hin.
             ++ right. split; [right; exact Hin|exact Hpd].
  Qed.

  Lemma depends_false_sound : depends_on_itself g d = Some false -> ~ path G d d.
  Proof.
    unfold depends_on_itself.
    replace (length (gsrc g) + 2) with (S (length (gsrc g) + 1)) by lia.
    cbn [dep_loop]. rewrite andb_false_r. cbn [mem existsb].
    destruct (inb_of g d) as [ps|] eqn:Hps; [|discriminate].
    apply dep_loop_false.
    - discriminate.
    - left; reflexivity.
    - intros x p [<-|[]] Hpx. left. rewrite app_nil_r. apply in_rev. rewrite rev_involutive.
      exact (cinv_parents _ _ _ Hps Hpx).
  Qed.
End Sound.
Arguments depends_false_sound {g} HC d _.

(** a validated, accepted add keeps the directed part acyclic ([CInv] version) *)
Lemma added_edge_acyclic_c g g' sp dp ty :
  CInv g' -> Acyclic g -> added_edge g g' sp dp ty true -> Acyclic g'.
Proof.
  intros HC' Hac (e & Hg & Hty & _ & Hdep). specialize (Hdep eq_refl).
  pose proof (depends_false_sound HC' (edst e) Hdep) as Hnp.
  intros v Hv.
  destruct (etype_eqb_spec (ety e) Dir) as [HD|HnD].
  - assert (Hext : forall a b, arc (dgraph g') a b
                               <-> arc (add_arc (dgraph g) (esrc e) (edst e)) a b).
    { intros a b. rewrite (arc_app g g' e Hg), add_arc_arc. split.
      - intros [H|(_ & <- & <-)]; [left; exact H|right; split; reflexivity].
      - intros [H|[-> ->]]; [left; exact H|right; repeat split; exact HD]. }
    apply (path_ext _ _ Hext) in Hv.
    apply Hnp. apply (path_ext _ _ Hext).
    eapply cycle_through_new_arc; [exact Hv|apply Hac].
  - apply (Hac v). revert Hv. apply path_mono. intros a b Hab.
    apply (arc_app g g' e Hg) in Hab. destruct Hab as [H|[H _]]; [exact H|contradiction].
Qed.

(** ** node-list utilities *)

Lemma find_node_app x l1 l2 :
  find_node x (l1 ++ l2)
  = match find_node x l1 with Some n => Some n | None => find_node x l2 end.
Proof.
  induction l1 as [|a l1 IH]; cbn [app find_node]; [reflexivity|].
  destruct (name_eqb x (nid a)); [reflexivity|exact IH].
Qed.

Lemma find_node_update f id x ns :
  (forall n, name_eqb id (nid n) = true -> nid (f n) = nid n) ->
  find_node x (update_node f id ns)
  = match find_node x ns with
    | Some n => Some (if name_eqb id (nid n) then f n else n)
    | None => None
    end.
Proof.
  intros Hf. unfold update_node. induction ns as [|a ns IH]; cbn [map find_node]; [reflexivity|].
  assert (E : nid (if name_eqb id (nid a) then f a else a) = nid a).
  { destruct (name_eqb id (nid a)) eqn:Ea; [apply Hf, Ea|reflexivity]. }
  rewrite E. destruct (name_eqb x (nid a)); [reflexivity|exact IH].
Qed.

Lemma update_node_ids f id ns :
  (forall n, name_eqb id (nid n) = true -> nid (f n) = nid n) ->
  map nid (update_node f id ns) = map nid ns.
Proof.
  intros Hf. unfold update_node. rewrite map_map. apply map_ext. intros a.
  destruct (name_eqb id (nid a)) eqn:Ea; [apply Hf, Ea|reflexivity].
Qed.

Lemma find_node_update2 fo fi s d x ns n' :
  (forall n, nid (fo n) = nid n) -> (forall n, ninb (fo n) = ninb n) ->
  (forall n, nid (fi n) = nid n) ->
  find_node x (update_node fo s (update_node fi d ns)) = Some n' ->
  exists n, find_node x ns = Some n
            /\ ninb n' = if name_eqb d x then ninb (fi n) else ninb n.
Proof.
  intros Hfo Hfo' Hfi.
  rewrite (find_node_update fo s x _ (fun n _ => Hfo n)), (find_node_update fi d x _ (fun n _ => Hfi n)).
  destruct (find_node x ns) as [n|] eqn:E; [|discriminate].
  intros [= <-]. exists n. split; [reflexivity|].
  destruct (find_node_some _ _ _ E) as [_ Hid]. rewrite Hid.
  destruct (name_eqb d x).
  - rewrite Hfi, Hid. destruct (name_eqb s x); [apply Hfo'|reflexivity].
  - rewrite Hid. destruct (name_eqb s x); [apply Hfo'|reflexivity].
Qed.

Lemma find_node_filter id x ns :
  find_node x (filter (fun n' => negb (name_eqb id (nid n'))) ns)
  = if name_eqb id x then None else find_node x ns.
Proof.
  induction ns as [|a ns IH]; cbn [filter find_node]; [destruct (name_eqb id x); reflexivity|].
  destruct (name_eqb_spec id (nid a)) as [E|Hn]; cbn [negb].
  - rewrite IH. destruct (name_eqb_spec id x) as [E2|Hn2]; [reflexivity|].
    destruct (name_eqb_spec x (nid a)) as [E3|_]; [congruence|reflexivity].
  - cbn [find_node]. destruct (name_eqb_spec x (nid a)) as [E3|Hn3].
    + destruct (name_eqb_spec id x) as [E2|_]; [congruence|reflexivity].
    + exact IH.
Qed.

Lemma in_ids_filter id x ns :
  In x (map nid ns) -> x <> id ->
  In x (map nid (filter (fun n' => negb (name_eqb id (nid n'))) ns)).
Proof.
  intros Hin Hne. apply in_map_iff in Hin. destruct Hin as (n & Hid & Hin).
  apply in_map_iff. exists n. split; [exact Hid|]. apply filter_In. split; [exact Hin|].
  destruct (name_eqb_spec id (nid n)); [congruence|reflexivity].
Qed.

Lemma remove_first_in_neq s p l : In p l -> p <> s -> In p (remove_first s l).
Proof.
  induction l as [|y l IH]; cbn [remove_first]; [intros []|].
  intros [<-|Hin] Hne.
  - destruct (name_eqb_spec s y); [congruence|left; reflexivity].
  - destruct (name_eqb s y); [exact Hin|right; apply IH; assumption].
Qed.

(** ** preservation of [CInv] by the primitives *)

Lemma cinv_ext g g' : gnodes g' = gnodes g -> gsrc g' = gsrc g -> CInv g -> CInv g'.
Proof.
  intros En Es [H1 H2]. constructor; unfold get_node, node_ids in *; rewrite En, Es; assumption.
Qed.

Lemma idx_add_gnodes k g n g' : idx_add k g n = Ok g' -> gnodes g' = gnodes g.
Proof.
  unfold idx_add. destruct k; [intros [= <-]; reflexivity|].
  destruct (meta_lag (nmeta n)); [|discriminate].
  destruct (meta_var (nmeta n)); [|discriminate].
  intros [= <-]. reflexivity.
Qed.

Lemma idx_remove_gnodes k g n g' : idx_remove k g n = Ok g' -> gnodes g' = gnodes g.
Proof.
  unfold idx_remove. destruct k; [intros [= <-]; reflexivity|].
  destruct (meta_lag (nmeta n)); [|discriminate].
  destruct (meta_var (nmeta n)); [|discriminate].
  destruct (remove_first_pair Z.eqb _ _ _); [|discriminate].
  destruct (remove_first_pair name_eqb _ _ _); [|discriminate].
  intros [= <-]. reflexivity.
Qed.

Lemma mk_node_ok parse k id vt m n : mk_node parse k id vt m = Ok n -> nid n = id /\ ninb n = [].
Proof.
  unfold mk_node. destruct k; [intros [= <-]; split; reflexivity|].
  destruct (parse id) as [[v l]|]; [|discriminate]. intros [= <-]; split; reflexivity.
Qed.

Lemma cinv_push_node g n : CInv g -> ninb n = [] -> CInv (push_node g n).
Proof.
  intros HC Hn. constructor.
  - intros e He. cbn [push_node gsrc] in He. unfold node_ids, push_node; cbn [gnodes].
    rewrite map_app. apply in_or_app; left. exact (c_dst HC e He).
  - intros x n0 e Hg He Hty Hd. cbn [push_node gsrc] in He.
    unfold get_node, push_node in Hg; cbn [gnodes] in Hg. rewrite find_node_app in Hg.
    destruct (find_node x (gnodes g)) as [n1|] eqn:E.
    + injection Hg as <-. exact (c_inb HC x n1 e E He Hty Hd).
    + exfalso. apply (find_node_none _ _ E). rewrite <- Hd. exact (c_dst HC e He).
Qed.

Lemma push_node_ids g n : node_ids (push_node g n) = node_ids g ++ [nid n].
Proof. unfold node_ids, push_node; cbn [gnodes]. rewrite map_app. reflexivity. Qed.

Lemma add_node_obj_c parse k g id vt m g' :
  CInv g -> add_node_obj parse k g id vt m = Ok g' ->
  CInv g' /\ node_ids g' = node_ids g ++ [id].
Proof.
  intros HC. unfold add_node_obj. destruct (node_exists g id); [discriminate|].
  destruct (mk_node parse k id vt m) as [n|x] eqn:En; cbn [bind]; [|discriminate].
  destruct (mk_node_ok _ _ _ _ _ _ En) as [Hid Hinb]. intros H.
  pose proof (idx_add_gnodes _ _ _ _ H) as Hn. pose proof (idx_add_gsrc _ _ _ _ H) as Hs.
  split.
  - apply (cinv_ext _ _ Hn Hs). apply cinv_push_node; assumption.
  - unfold node_ids at 1. rewrite Hn. fold (node_ids (push_node g n)).
    rewrite push_node_ids, Hid. reflexivity.
Qed.

Lemma add_node_id_c parse k g id vt m g' :
  CInv g -> add_node_id parse k g id vt m = Ok g' ->
  CInv g' /\ node_ids g' = node_ids g ++ [id].
Proof.
  intros HC. unfold add_node_id. destruct k.
  - destruct (node_exists g id); [discriminate|].
    destruct (mk_node parse Plain id vt _) as [n|x] eqn:En; cbn [bind]; [|discriminate].
    destruct (mk_node_ok _ _ _ _ _ _ En) as [Hid Hinb]. intros [= <-]. split.
    + apply cinv_push_node; assumption.
    + rewrite push_node_ids, Hid. reflexivity.
  - destruct (mk_node parse TS id vt _) as [n|x]; cbn [bind]; [|discriminate].
    destruct (node_exists g id); [discriminate|].
    destruct (mk_node parse TS id vt (nmeta n)) as [n2|x] eqn:En; cbn [bind]; [|discriminate].
    destruct (mk_node_ok _ _ _ _ _ _ En) as [Hid Hinb]. intros H.
    pose proof (idx_add_gnodes _ _ _ _ H) as Hn. pose proof (idx_add_gsrc _ _ _ _ H) as Hs.
    split.
    + apply (cinv_ext _ _ Hn Hs). apply cinv_push_node; assumption.
    + unfold node_ids at 1. rewrite Hn. fold (node_ids (push_node g n2)).
      rewrite push_node_ids, Hid. reflexivity.
Qed.

Lemma add_endpoint_c parse k g p g' :
  CInv g -> add_endpoint parse k g p = Ok g' ->
  CInv g' /\ In (fst p) (node_ids g') /\ incl (node_ids g) (node_ids g').
Proof.
  intros HC. unfold add_endpoint. destruct (node_exists g (fst p)) eqn:Ex.
  - intros [= <-]. split; [exact HC|]. split; [apply node_exists_in, Ex|apply incl_refl].
  - destruct (snd p) as [[vt m]|]; intros H.
    + destruct (add_node_obj_c _ _ _ _ _ _ _ HC H) as [HC' Hids]. split; [exact HC'|].
      rewrite Hids. split; [apply in_or_app; right; left; reflexivity|apply incl_appl, incl_refl].
    + destruct (add_node_id_c _ _ _ _ _ _ _ HC H) as [HC' Hids]. split; [exact HC'|].
      rewrite Hids. split; [apply in_or_app; right; left; reflexivity|apply incl_appl, incl_refl].
Qed.

Lemma insert_edge_ids g e : node_ids (insert_edge g e) = node_ids g.
Proof.
  unfold node_ids, insert_edge; cbn [gnodes]. destruct (etype_eqb (ety e) Dir); [|reflexivity].
  rewrite !update_node_ids; intros; reflexivity.
Qed.

Lemma cinv_insert_edge g e : CInv g -> In (edst e) (node_ids g) -> CInv (insert_edge g e).
Proof.
  intros HC Hd. constructor.
  - intros e' He'. rewrite insert_edge_ids. cbn [insert_edge gsrc] in He'.
    apply in_app_or in He'. destruct He' as [He'|[<-|[]]]; [exact (c_dst HC e' He')|exact Hd].
  - intros x n' e' Hg He' Hty Hdx. cbn [insert_edge gsrc] in He'.
    unfold get_node, insert_edge in Hg; cbn [gnodes] in Hg.
    destruct (etype_eqb_spec (ety e) Dir) as [HD|HnD].
    + apply find_node_update2 in Hg; try reflexivity.
      destruct Hg as (n & Hn & Hinb). cbn [ninb] in Hinb.
      apply in_app_or in He'. destruct He' as [He'|[<-|[]]].
      * pose proof (c_inb HC x n e' Hn He' Hty Hdx) as Hin.
        rewrite Hinb. destruct (name_eqb (edst e) x); [apply in_or_app; left|]; exact Hin.
      * rewrite Hinb, Hdx, name_eqb_refl. apply in_or_app; right; left; reflexivity.
    + apply in_app_or in He'. destruct He' as [He'|[<-|[]]]; [|contradiction].
      exact (c_inb HC x n' e' Hg He' Hty Hdx).
Qed.

Lemma delete_edge_ids g s d oty g' : delete_edge g s d oty = Ok g' -> node_ids g' = node_ids g.
Proof.
  unfold delete_edge. destruct (negb (node_exists g s)); [discriminate|].
  destruct (negb (node_exists g d)); [discriminate|].
  destruct (edge_at g s d) as [e|]; [|discriminate].
  destruct (match oty with Some t => negb (etype_eqb t (ety e)) | None => false end);
    [discriminate|].
  intros [= <-]. unfold node_ids; cbn [gnodes].
  destruct (etype_eqb (ety e) Dir); [|reflexivity].
  rewrite !update_node_ids; intros; reflexivity.
Qed.

Lemma cinv_delete_edge g s d oty g' : CInv g -> delete_edge g s d oty = Ok g' -> CInv g'.
Proof.
  intros HC H. pose proof (delete_edge_ids _ _ _ _ _ H) as Hids.
  pose proof (delete_edge_gsrc _ _ _ _ _ H) as Hsrc.
  constructor.
  - intros e He. rewrite Hids. rewrite Hsrc in He. apply drop_edge_incl in He.
    exact (c_dst HC e He).
  - intros x n' e' Hg He' Hty Hdx. rewrite Hsrc in He'. apply filter_In in He'.
    destruct He' as [He' Hkeep].
    revert H Hg. unfold delete_edge. destruct (negb (node_exists g s)); [discriminate|].
    destruct (negb (node_exists g d)); [discriminate|].
    destruct (edge_at g s d) as [e|]; [|discriminate].
    destruct (match oty with Some t => negb (etype_eqb t (ety e)) | None => false end);
      [discriminate|].
    intros [= <-]. unfold get_node; cbn [gnodes].
    destruct (etype_eqb (ety e) Dir).
    + intros Hg. apply find_node_update2 in Hg; try reflexivity.
      destruct Hg as (n & Hn & Hinb). cbn [ninb] in Hinb.
      pose proof (c_inb HC x n e' Hn He' Hty Hdx) as Hin. rewrite Hinb.
      destruct (name_eqb_spec d x) as [Edx|_]; [|exact Hin].
      apply remove_first_in_neq; [exact Hin|]. intros Es.
      rewrite <- Es, Edx, <- Hdx, !name_eqb_refl in Hkeep. discriminate.
    + intros Hg. exact (c_inb HC x n' e' Hg He' Hty Hdx).
Qed.

Lemma fold_delete_cinv (l : list edge) : forall g1 g2, CInv g1 ->
  fold_left (fun acc e => bind acc (fun g' => delete_edge g' (esrc e) (edst e) None)) l (Ok g1)
    = Ok g2 ->
  CInv g2 /\ incl (gsrc g2) (gsrc g1) /\ node_ids g2 = node_ids g1
  /\ (forall e e', In e l -> In e' (gsrc g2) -> ~ (esrc e' = esrc e /\ edst e' = edst e)).
Proof.
  induction l as [|e l IH]; intros g1 g2 HC; cbn [fold_left].
  - intros [= <-]. split; [exact HC|]. split; [apply incl_refl|]. split; [reflexivity|].
    intros e e' [].
  - cbn [bind]. destruct (delete_edge g1 (esrc e) (edst e) None) as [g1'|x] eqn:Ed.
    + intros H. destruct (IH g1' g2 (cinv_delete_edge _ _ _ _ _ HC Ed) H)
        as (HC2 & Hincl & Hids & Hno).
      split; [exact HC2|]. split.
      { eapply incl_tran; [exact Hincl|]. eapply delete_edge_incl; exact Ed. }
      split; [rewrite Hids; eapply delete_edge_ids; exact Ed|].
      intros e0 e' [<-|Hin] He'; [|apply Hno; assumption].
      apply Hincl in He'. rewrite (delete_edge_gsrc _ _ _ _ _ Ed) in He'.
      apply filter_In in He'. destruct He' as [_ Hkeep]. intros [E1 E2].
      rewrite E1, E2, !name_eqb_refl in Hkeep. discriminate.
    + intros H. destruct (fold_delete_incl _ _ _ H) as (g0 & Hg0 & _). discriminate.
Qed.

Lemma cinv_delete_node k g id g' : CInv g -> delete_node k g id = Ok g' -> CInv g'.
Proof.
  intros HC. unfold delete_node. destruct (get_node g id) as [n|]; [|discriminate].
  destruct (idx_remove k g n) as [g1|x] eqn:E1; cbn [bind]; [|discriminate].
  assert (HC1 : CInv g1).
  { apply (cinv_ext g g1); [eapply idx_remove_gnodes; exact E1
                            |eapply idx_remove_gsrc; exact E1|exact HC]. }
  match goal with |- bind ?F _ = _ -> _ => destruct F as [g2|x] eqn:E2 end;
    cbn [bind]; [|discriminate].
  destruct (fold_delete_cinv _ _ _ HC1 E2) as (HC2 & Hincl & Hids & Hno).
  intros [= <-].
  assert (Hfree : forall e, In e (gsrc g2) -> esrc e <> id /\ edst e <> id).
  { intros e He.
    assert (Hni : ~ In e (filter (fun e => name_eqb id (esrc e) || name_eqb id (edst e))
                            (sorted_edges g1))).
    { intros Hi. apply (Hno e e Hi He). split; reflexivity. }
    assert (Hs : In e (sorted_edges g1)) by (apply isort_in, Hincl, He).
    split; intros E; apply Hni, filter_In; (split; [exact Hs|]);
      rewrite E, name_eqb_refl; [reflexivity|apply orb_true_r]. }
  constructor; cbn [gsrc].
  - intros e He. unfold node_ids; cbn [gnodes]. apply in_ids_filter.
    + exact (c_dst HC2 e He).
    + exact (proj2 (Hfree e He)).
  - intros x n' e Hg He Hty Hdx. unfold get_node in Hg; cbn [gnodes] in Hg.
    rewrite find_node_filter in Hg. destruct (name_eqb id x); [discriminate|].
    exact (c_inb HC2 x n' e Hg He Hty Hdx).
Qed.

Lemma cinv_cleanup k (l : list name) : forall gl, CInv gl ->
  CInv (fold_left (fun acc id =>
                 if node_exists acc id then
                   match delete_node k acc id with Ok a => a | Err _ => acc end
                 else acc) l gl).
Proof.
  induction l as [|id l IH]; intros gl HC; cbn [fold_left]; [exact HC|].
  apply IH. destruct (node_exists gl id); [|exact HC].
  destruct (delete_node k gl id) as [a|x] eqn:E; [|exact HC].
  eapply cinv_delete_node; eassumption.
Qed.

Lemma cinv_add_edge_try parse k g sp dp ty m v r gl :
  CInv g -> add_edge_try parse k g sp dp ty m v = (r, gl) -> CInv gl.
Proof.
  intros HC. unfold add_edge_try.
  destruct (name_eqb (fst sp) (fst dp)); [intros [= <- <-]; exact HC|].
  destruct (add_endpoint parse k g sp) as [g1|x] eqn:E1; [|intros [= <- <-]; exact HC].
  destruct (add_endpoint_c _ _ _ _ _ HC E1) as (HC1 & Hs1 & Hi1).
  destruct (add_endpoint parse k g1 dp) as [g2|x] eqn:E2; [|intros [= <- <-]; exact HC1].
  destruct (add_endpoint_c _ _ _ _ _ HC1 E2) as (HC2 & Hd2 & Hi2).
  destruct (match edge_at g (fst sp) (fst dp) with Some _ => true | None => false end);
    [intros [= <- <-]; exact HC2|].
  destruct (orient k g2 (fst sp) (fst dp) ty) as [[s' d']|x] eqn:Eo;
    [|intros [= <- <-]; exact HC2].
  destruct (set_edge g2 s' d' ty _ v) as [g3|x] eqn:Es; [|intros [= <- <-]; exact HC2].
  intros [= <- <-]. destruct (set_edge_ok _ _ _ _ _ _ _ Es) as [-> _].
  apply cinv_insert_edge; [exact HC2|]. cbn [edst].
  destruct (orient_ok _ _ _ _ _ _ _ Eo) as [[_ ->]|(_ & _ & ->)]; [exact Hd2|apply Hi2, Hs1].
Qed.

Lemma cinv_add_edge parse k g sp dp ty m v :
  CInv g -> CInv (snd (add_edge parse k g sp dp ty m v)).
Proof.
  intros HC. unfold add_edge.
  destruct (add_edge_try parse k g sp dp ty m v) as [r0 gl0] eqn:Et.
  pose proof (cinv_add_edge_try _ _ _ _ _ _ _ _ _ _ HC Et) as HC0.
  pose proof (add_edge_try_shape _ _ _ _ _ _ _ _ _ _ Et) as Hs.
  destruct r0 as [g'|x]; cbn [snd].
  - destruct Hs as [<- _]. exact HC0.
  - apply cinv_cleanup, HC0.
Qed.

(** * Part E: the intermediate state of [_set_edge] satisfies what the cycle check needs *)

Lemma dir_into_app g g' e x :
  gsrc g' = gsrc g ++ [e] ->
  dir_into g' x
  = dir_into g x ++ (if etype_eqb (ety e) Dir && name_eqb x (edst e) then [esrc e] else []).
Proof.
  intros Hg. unfold dir_into. rewrite Hg, filter_app, map_app. cbn [filter].
  destruct (etype_eqb (ety e) Dir && name_eqb x (edst e)); reflexivity.
Qed.

Lemma ccinv_insert_edge g e : CCInv g -> In (esrc e) (node_ids g) -> CCInv (insert_edge g e).
Proof.
  intros [Hsrc Hperm] Hs. split.
  - intros e' He'. rewrite insert_edge_ids. cbn [insert_edge gsrc] in He'.
    apply in_app_or in He'. destruct He' as [He'|[<-|[]]]; [exact (Hsrc e' He')|exact Hs].
  - intros x n' Hg. rewrite (dir_into_app g (insert_edge g e) e x eq_refl).
    unfold get_node, insert_edge in Hg; cbn [gnodes] in Hg.
    destruct (etype_eqb (ety e) Dir); cbn [andb].
    + apply find_node_update2 in Hg; try reflexivity.
      destruct Hg as (n & Hn & Hinb). cbn [ninb] in Hinb. rewrite Hinb.
      rewrite (name_eqb_sym (edst e) x). destruct (name_eqb x (edst e)).
      * apply Permutation_app_tail, Hperm, Hn.
      * rewrite app_nil_r. apply Hperm, Hn.
    + rewrite app_nil_r. apply Hperm, Hg.
Qed.

(** the in-place form of replace_node: the node object is rebuilt with the same identifier and
    the same directed lists *)
Lemma cinv_inplace g id n n' m' :
  CInv g -> get_node g id = Some n -> nid n' = nid n -> ninb n' = ninb n ->
  CInv {| gnodes := update_node (fun _ => n') id (gnodes g); gsrc := gsrc g; gdst := gdst g;
          gmeta := m'; glag := glag g; gvar := gvar g |}.
Proof.
  intros HC Hn Hid Hinb. destruct (get_node_some _ _ _ Hn) as [_ Hnid].
  assert (Hf : forall n0, name_eqb id (nid n0) = true -> nid n' = nid n0).
  { intros n0 E. apply name_eqb_eq in E. congruence. }
  constructor; cbn [gsrc].
  - intros e He. unfold node_ids; cbn [gnodes]. rewrite (update_node_ids _ _ _ Hf).
    exact (c_dst HC e He).
  - intros x n0' e Hg He Hty Hdx. unfold get_node in Hg; cbn [gnodes] in Hg.
    rewrite (find_node_update _ _ _ _ Hf) in Hg.
    destruct (find_node x (gnodes g)) as [n0|] eqn:E0; [|discriminate].
    injection Hg as <-. pose proof (c_inb HC x n0 e E0 He Hty Hdx) as Hin.
    destruct (name_eqb_spec id (nid n0)) as [E|_]; [|exact Hin].
    destruct (find_node_some _ _ _ E0) as [_ Hx]. rewrite Hinb.
    assert (n0 = n) by (unfold get_node in Hn; congruence). subst n0. exact Hin.
Qed.
