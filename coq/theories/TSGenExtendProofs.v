(** TSGenExtendProofs.v — the function GENERATED from [TimeSeriesCausalGraph.extend_graph] (TSGenExtend.v,
    written by /verif/tools/translate_ts_extend.py on every run) is equal to the hand-written model
    ([extend] of TSGraph.v) on EVERY input, and the C15 theorems of ExtendProofs.v hold of the generated code.
    Imports TSGenExtend.v only (not TSGenMinimal.v): the callee [self.get_minimal_graph()] is the table row
    [ts_get_minimal_graph] = [minimal].

    The proof does not mention the text of the generated function: it unfolds the rows of the table (PyRtTSb.v),
    replaces each loop, outermost first, by the model's fold ([ts_for_fold] / [ts_for_rfold]) and compares the loop
    bodies by case analysis on the tests that occur in them. *)
From CG Require Import Base Dec Digraph TSGraph TSGraphProofs MinimalProofs ExtendProofs PyRtTSb PyRtTSbLemmas TSGenExtend.
Local Open Scope Z_scope.

(** the rows of the table, unfolded *)
Ltac rt_unfold :=
  cbv beta zeta delta [ts_bind ts_top ts_in ts_new_graph ts_deepcopy ts_graph_meta ts_edge_copy
                       ts_node_set_time_lag_tag ts_ident_of_name ts_get_name_with_lag ts_new_node ts_new_edge
                       ts_get_lagged_node ts_edge_exists ts_node_exists ts_add_edge_obj ts_add_edge
                       ts_variables ts_is_empty ts_copy ts_max_backward_lag ts_graph_eq ts_get_nodes
                       ts_get_minimal_graph ts_list_empty ts_list_append];
  cbn [pe_src pe_dst pe_ty pe_meta fst snd andb orb negb].

Ltac split_ifs :=
  repeat (cbn [negb andb orb];
          match goal with
          | |- context [if ?c then _ else _] =>
              lazymatch c with
              | context [if _ then _ else _] => fail
              | _ => destruct c eqn:?
              end
          end).

Lemma if_same (X : Type) (c : bool) (a : X) : (if c then a else a) = a.
Proof. destruct c; reflexivity. Qed.

(** [if not x.node_exists(n.identifier): x.add_node(node=n)] is [ensure_node] *)
Lemma add_if_absent (R : Type) (x : tsg) (n : tnode) (k : tsg -> tsctl tsg R) :
  (if negb (node_exists x (nkey n))
   then match ts_add_node x n with Ok t => k t | Err e => TDone (Err e) end
   else k x) = k (ensure_node x n).
Proof. unfold ts_add_node, ensure_node; destruct (node_exists x (nkey n)); reflexivity. Qed.

(** one outer iteration of a node-creating loop: [for node in minimal_graph.get_nodes(): ..add if absent..] *)
Ltac nodes_body :=
  intros; erewrite ts_for_fold; [ | intros; rewrite add_if_absent; reflexivity ]; reflexivity.

(** one outer iteration of an edge-creating loop; the model's step function is read off the right-hand side *)
Ltac edges_body m HF body_tac :=
  intros;
  match goal with
  | |- _ = match rfold ?step _ _ with Ok _ => _ | Err _ => _ end =>
      erewrite (ts_for_rfold _ (edge_rel m) step); [ reflexivity | body_tac | exact HF ]
  end.

Ltac back_edge_body :=
  let Fs := fresh "Fs" in let Fd := fresh "Fd" in let Ty := fresh "Ty" in let Me := fresh "Me" in
  intros ? ? ? (Fs & Fd & Ty & Me); unfold back_edge_step; rewrite Fs, Fd, Ty, Me; cbv zeta;
  split_ifs; try reflexivity;
  try match goal with |- context [add_edge ?a ?b ?c ?d ?f] => destruct (add_edge a b c d f); reflexivity end.

Ltac fwd_edge_body :=
  let Fs := fresh "Fs" in let Fd := fresh "Fd" in let Ty := fresh "Ty" in let Me := fresh "Me" in
  intros ? ? ? (Fs & Fd & Ty & Me); unfold fwd_edge_step; rewrite Fs, Fd, Ty, Me; cbv zeta;
  rewrite !add_if_absent; unfold ts_get_node;
  repeat match goal with |- context [find_node ?g ?k] => destruct (find_node g k) end; try reflexivity;
  try match goal with |- context [add_edge ?a ?b ?c ?d ?f] => destruct (add_edge a b c d f); reflexivity end.

(** the forward phase: [if forward_steps is not None: ..] against [extend_fwd] (already unfolded) *)
Ltac fwd_phase m HF :=
  erewrite ts_for_fold; [ | nodes_body ];
  erewrite (ts_for_rfold_eq _ (fun x lag => rfold (fwd_edge_step m lag) (sorted_edges m) x));
  [ unfold fwd_edges, fwd_nodes, ensure_nodes_at;
    match goal with |- context [rfold ?f ?l ?x] => destruct (rfold f l x); reflexivity end
  | edges_body m HF fwd_edge_body ].

(** the backward phase up to the log message, against [back_edges m bs iap (back_nodes ..)] *)
Ltac back_phase m HF bs iap :=
  erewrite ts_for_fold; [ | nodes_body ];
  erewrite (ts_for_rfold_eq _ (fun x lag => rfold (back_edge_step m bs iap lag) (sorted_edges m) x));
  [ unfold back_edges, back_nodes, ensure_nodes_at;
    match goal with |- context [rfold ?f ?l ?x] => destruct (rfold f l x) as [xb|]; [|reflexivity] end;
    (* the loop that only builds the list of names of the warning *)
    erewrite ts_for_unobserved; [ | intros; split_ifs; eexists; reflexivity | intros; reflexivity ];
    rewrite if_same
  | edges_body m HF back_edge_body ].

Theorem gen_extend_equiv g b f iap : gen_extend_graph g b f iap = extend g b f iap.
Proof.
  unfold gen_extend_graph, extend.
  (* the four asserts on the arguments *)
  assert (Hle : forall z, (0 <=? z) = negb (z <? 0)) by (intros z; apply Z.leb_antisym).
  destruct b as [bs|]; destruct f as [fs|]; cbn [neg_opt orb]; rewrite ?Z.eqb_refl, ?Hle;
    repeat match goal with
           | |- context [?z <? 0] => destruct (z <? 0) eqn:?; cbn [negb orb]; try reflexivity
           end;
    (* get_minimal_graph, is_empty, copy *)
    rt_unfold; (destruct (minimal g) as [m|er] eqn:Em; [|reflexivity]);
    (destruct (is_empty m); [reflexivity|]);
    pose proof (minimal_closed g m Em) as Cm;
    destruct (ts_get_edges_closed m Cm) as (l & El & HF);
    rewrite ?El, ?ts_range_succ; unfold extend_back, extend_fwd.
  all: try (destruct (max_backward_lag m) as [ml|]; [|reflexivity]).
  - back_phase m HF bs iap. fwd_phase m HF.
  - back_phase m HF bs iap. reflexivity.
  - fwd_phase m HF.
  - reflexivity.
Qed.

(** the default values of the Python parameters (extend_graph(backward_steps=None, forward_steps=None,
    include_all_parents=True)); the generated function takes every argument explicitly, so a changed default would
    otherwise go unnoticed *)
Example gen_extend_defaults_pinned : gen_extend_graph_defaults = (None, None, true).
Proof. reflexivity. Qed.

(** * Transfer of the C15 theorems (ExtendProofs.v) to the generated code.
      [gen_stmt thm] is the statement of the model's theorem [thm] with every occurrence of [extend] replaced by
      [gen_extend_graph] (the [Check]s at the end print the statements in full). *)
Ltac gen_stmt thm :=
  let T := type of thm in
  match eval pattern extend in T with
  | ?F _ => let R := eval cbv beta in (F gen_extend_graph) in exact R
  end.
Ltac transfer thm := intros; rewrite ?gen_extend_equiv in *; eapply thm; eassumption.

Theorem gen_extend_neg : ltac:(gen_stmt extend_neg).
Proof. transfer extend_neg. Qed.
Theorem gen_extend_spec : ltac:(gen_stmt extend_spec).
Proof. transfer extend_spec. Qed.
Theorem gen_extend_ok : ltac:(gen_stmt extend_ok).
Proof. transfer extend_ok. Qed.
Theorem gen_extend_edges : ltac:(gen_stmt extend_edges).
Proof. transfer extend_edges. Qed.
Theorem gen_extend_nodes : ltac:(gen_stmt extend_nodes).
Proof. transfer extend_nodes. Qed.
Theorem gen_extend_check : ltac:(gen_stmt extend_check).
Proof. transfer extend_check. Qed.
Theorem gen_extend_same_parents : ltac:(gen_stmt extend_same_parents).
Proof. transfer extend_same_parents. Qed.
Theorem gen_extend_monotone : ltac:(gen_stmt extend_monotone).
Proof. intros g m b f b' f' iap x x'; rewrite !gen_extend_equiv; apply extend_monotone. Qed.
Theorem gen_extend_acyclic : ltac:(gen_stmt extend_acyclic).
Proof. intros g m b f iap x r; rewrite gen_extend_equiv; apply extend_acyclic. Qed.
Theorem gen_extend_acyclic_digraph : ltac:(gen_stmt extend_acyclic_digraph).
Proof. intros g m b f iap x r; rewrite gen_extend_equiv; apply extend_acyclic_digraph. Qed.
Theorem gen_minimal_of_extend : ltac:(gen_stmt minimal_of_extend).
Proof. intros g m b f iap x; rewrite gen_extend_equiv; apply minimal_of_extend. Qed.

(** * Non-vacuity / pinned values: the examples of ExtendProofs.v (obtained there from the real library), evaluated
      by the generated code *)
Example ex_g_gen_extend_neg : gen_extend_graph ex_g (Some (-1)) None true = Err EAssert.
Proof. vm_compute. reflexivity. Qed.
Example ex_empty_gen_extend : gen_extend_graph (empty_tsg []) (Some 2) (Some 2) true = Ok (empty_tsg []).
Proof. vm_compute. reflexivity. Qed.
Definition res_same (r1 r2 : res tsg) : bool :=
  match r1, r2 with
  | Ok a, Ok b => list_eqb _ tnode_eqb (tnodes a) (tnodes b) && list_eqb _ tedge_eqb (tedges a) (tedges b)
                  && meta_eqb (tgmeta a) (tgmeta b)
  | Err e1, Err e2 => N.eqb (err_code e1) (err_code e2)
  | _, _ => false
  end.
Example ex_g_gen_extend_agrees :
  forallb (fun q => let '(b, f, iap) := q in res_same (gen_extend_graph ex_g b f iap) (extend ex_g b f iap))
          [(Some 1, Some 1, true); (Some 1, None, false); (None, Some 2, true); (Some 3, Some 0, false); (None, None, true)]
  = true.
Proof. vm_compute. reflexivity. Qed.
Example ex_g_gen_c15_check :
  match gen_extend_graph ex_g (Some 2) (Some 1) false with Ok x => c15_check ex_g (Some 2) (Some 1) false x | Err _ => false end = true.
Proof. vm_compute. reflexivity. Qed.

Check gen_extend_neg.
Check gen_extend_spec.
Check gen_extend_ok.
Check gen_extend_edges.
Check gen_extend_nodes.
Check gen_extend_check.
Check gen_extend_same_parents.
Check gen_extend_monotone.
Check gen_extend_acyclic.
Check gen_extend_acyclic_digraph.
Check gen_minimal_of_extend.
Print Assumptions gen_extend_equiv.
Print Assumptions gen_extend_spec.
Print Assumptions gen_extend_edges.
Print Assumptions gen_extend_nodes.
Print Assumptions gen_extend_check.
Print Assumptions gen_extend_monotone.
Print Assumptions gen_extend_acyclic_digraph.
Print Assumptions gen_minimal_of_extend.
