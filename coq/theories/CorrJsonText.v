(** CorrJsonText.v — entry points of the JSON-text correspondence check (C05, text level).
    DEFINITIONS ONLY.

    The harness sends, for a model tree [t] (the [json] value it already builds for C05):
    - the text [json.dumps(d)] the implementation produced, as its list of code points
      ([ord] of every character of the [str]) or as [hash_tokens] of that list, and
    - what [json.loads] answered on a text, as a tree ([None] when it raised or when the value
      contains a float),
    and compares them with [json_print t] / [json_parse text] evaluated by [vm_compute].

    Floats occur nowhere in the modelled trees ([Base.json] has no float constructor; the
    harness never generates float metadata), so they are excluded: on a text whose value
    contains a float [json_parse] answers [None].  Integers of more than 4300 decimal digits
    make [json.dumps] / [json.loads] raise ValueError (CPython >= 3.11): [jc_domain] tells
    the harness whether a tree is inside that limit. *)
From CG Require Import Base Tok JsonText Graph GraphObs Serial.
From Coq Require Import Uint63.

Definition ojson_eqb (a b : option json) : bool :=
  match a, b with
  | None, None => true
  | Some x, Some y => json_eqb x y
  | _, _ => false
  end.

(** ** Function entry points *)

(** token form: the code points of [json.dumps(t)] *)
Definition corr_json_print (t : json) : list N := json_print t.
Definition corr_json_print_tokens (t : json) : list N := tk_name (json_print t).
Definition corr_json_print_hash (t : json) : int := hash_tokens (json_print t).

(** [json.loads(text)] *)
Definition corr_json_parse (text : list N) : option json := json_parse text.
Definition corr_json_parse_tokens (text : list N) : list N := tk_opt tk_json (json_parse text).
Definition corr_json_parse_hash (text : list N) : int := hash_tokens (corr_json_parse_tokens text).

(** [json.loads(json.dumps(t))] computed at the text level, and by the closed form *)
Definition corr_json_roundtrip (t : json) : option json := json_parse (json_print t).
Definition corr_json_roundtrip_tokens (t : json) : list N :=
  tk_opt tk_json (json_parse (json_print t)).
Definition corr_json_canon_tokens (t : json) : list N := tk_json (json_canon t).

(** ** Comparison entry points *)

(** does the text the implementation produced equal [json_print t]? *)
Definition corr_json_text_ok (t : json) (text : list N) : bool := name_eqb (json_print t) text.
Definition corr_json_text_hash_ok (t : json) (h : int) : bool :=
  Uint63.eqb (corr_json_print_hash t) h.
(** does [json_parse] of the implementation's text give the tree [t]? *)
Definition corr_json_back_ok (t : json) (text : list N) : bool :=
  ojson_eqb (json_parse text) (Some t).

(** ** Cases *)

(** a model tree, the text [json.dumps] produced for it, and what [json.loads] answered on
    that text *)
Record jcase := { jc_tree : json; jc_text : list N; jc_back : option json }.

(** bit 0: the printed text agrees; bit 1: parsing the implementation's text agrees with the
    implementation's [json.loads]; bit 2: the closed form [json_canon] agrees with it as well;
    bit 3: when the tree is well formed the implementation's round trip is the identity
    (15 = all good). *)
Definition jcase_ok (c : jcase) : N :=
  (if name_eqb (json_print (jc_tree c)) (jc_text c) then 1 else 0)
  + 2 * (if ojson_eqb (json_parse (jc_text c)) (jc_back c) then 1 else 0)
  + 4 * (if ojson_eqb (Some (json_canon (jc_tree c))) (jc_back c) then 1 else 0)
  + 8 * (if negb (json_wfb (jc_tree c)) || ojson_eqb (jc_back c) (Some (jc_tree c)) then 1 else 0).
Definition check_jcases (cs : list jcase) : list N := map jcase_ok cs.

Definition jc_domain (c : jcase) : bool := json_in_py_domain (jc_tree c).

(** the same with the text sent as a hash only (bits 0 and 3 only) *)
Record jhcase := { jh_tree : json; jh_hash : int; jh_back : option json }.
Definition jhcase_ok (c : jhcase) : N :=
  (if Uint63.eqb (corr_json_print_hash (jh_tree c)) (jh_hash c) then 1 else 0)
  + 2 * (if ojson_eqb (json_parse (json_print (jh_tree c))) (jh_back c) then 1 else 0)
  + 4 * (if ojson_eqb (Some (json_canon (jh_tree c))) (jh_back c) then 1 else 0)
  + 8 * (if negb (json_wfb (jh_tree c)) || ojson_eqb (jh_back c) (Some (jh_tree c)) then 1 else 0).
Definition check_jhcases (cs : list jhcase) : list N := map jhcase_ok cs.

(** an arbitrary text (not necessarily produced by [json.dumps]) with the answer of
    [json.loads] *)
Definition tcase := (list N * option json)%type.
Definition tcase_ok (c : tcase) : bool := ojson_eqb (json_parse (fst c)) (snd c).

Fixpoint idx_where {A} (f : A -> bool) (i : nat) (l : list A) : list nat :=
  match l with
  | [] => []
  | x :: l' => if f x then i :: idx_where f (S i) l' else idx_where f (S i) l'
  end.

(** indices of the cases that disagree *)
Definition jmismatches (cs : list jcase) : list nat :=
  idx_where (fun c => negb (N.eqb (jcase_ok c) 15)) 0 cs.
Definition tmismatches (cs : list tcase) : list nat :=
  idx_where (fun c => negb (tcase_ok c)) 0 cs.
Definition wf_cases (cs : list jcase) : list nat := idx_where (fun c => json_wfb (jc_tree c)) 0 cs.

(** ** The serialised graph through JSON text (C05)

    [graph_text_okb g]: every node identifier, every edge endpoint and every metadata
    dictionary of the state is well formed in the sense of [json_wfb] (code points at most
    U+10FFFF, no (high, low) surrogate pair written as two code points, pairwise distinct keys
    in every metadata dictionary).  [JsonTextProofs.to_dict_text_roundtrip]: for such a state
    with distinct node identifiers and distinct edge keys, [json.loads(json.dumps(g.to_dict()))]
    is [g.to_dict()] itself. *)
Definition meta_text_ok (m : meta) : bool := json_wfb (JObj m).
Definition graph_text_okb (g : graph) : bool :=
  forallb (fun n => str_wfb (nid n) && meta_text_ok (nmeta n)) (gnodes g)
  && forallb (fun e => str_wfb (esrc e) && str_wfb (edst e) && meta_text_ok (emeta e)) (gsrc g)
  && meta_text_ok (gmeta g).

(** the text [json.dumps(g.to_dict(include_meta))] (token and hash forms); [None] / [0] when
    [to_dict] raises *)
Definition corr_to_dict_text (k : kind) (g : graph) (im : bool) : option (list N) :=
  match to_dict k g im with Ok d => Some (json_print d) | Err _ => None end.
Definition corr_to_dict_text_tokens (k : kind) (g : graph) (im : bool) : list N :=
  tk_opt tk_name (corr_to_dict_text k g im).
Definition corr_to_dict_text_hash (k : kind) (g : graph) (im : bool) : int :=
  hash_tokens (corr_to_dict_text_tokens k g im).
(** [json.loads(json.dumps(g.to_dict(include_meta)))] computed at the text level *)
Definition corr_to_dict_through_text (k : kind) (g : graph) (im : bool) : option json :=
  match to_dict k g im with Ok d => json_parse (json_print d) | Err _ => None end.
(** [1] when the text round trip of the dictionary is the identity (or [to_dict] raises) *)
Definition corr_to_dict_text_stable (k : kind) (g : graph) (im : bool) : bool :=
  match to_dict k g im with
  | Ok d => ojson_eqb (json_parse (json_print d)) (Some d)
  | Err _ => true
  end.
