(** TSGenStationaryProofs.v — the functions GENERATED from [TimeSeriesCausalGraph.get_stationary_graph] and
    [is_stationary_graph] (TSGenStationary.v, tools/translate_ts_summary.py) equal the hand-written models
    [TSGraph.stationary] / [TSGraph.is_stationary_graph] for ALL inputs, without any premise, and the theorems
    of StationaryProofs.v / StationaryProofs2.v transfer to them.
    This file depends on TSGenStationary.v only (not on TSGenSummary.v).

    The callee methods [get_minimal_graph] / [extend_graph] are rows of the table (PyRtTSa.v) mapped to the
    model's [minimal] / [extend]; what comes from the Python text is which graph they are called on, the
    arguments ([-lags[0]], [lags[-1]], [include_all_parents=False]), the order of the calls, and, for
    [is_stationary_graph], the DAG test, the cache protocol and the orientation of the [==]. *)
From CG Require Import Base Dec Digraph DigraphProofs TSGraph TSGraphProofs MinimalProofs SummaryProofs StationaryProofs
  StationaryProofs2 PyRtTSa TSGenStationary.
Set Implicit Arguments.
Local Open Scope Z_scope.

(** * [sorted(lags)[0]] / [sorted(lags)[-1]] are the minimum / maximum *)
Lemma zleb_total x y : Z.leb x y = true \/ Z.leb y x = true.
Proof. destruct (Z.leb_spec x y); [left; reflexivity|right; apply Z.leb_le; lia]. Qed.
Lemma zleb_trans x y z : Z.leb x y = true -> Z.leb y z = true -> Z.leb x z = true.
Proof. rewrite !Z.leb_le; lia. Qed.

Lemma sorted_int_sorted l : StronglySorted (le Z.leb) (py_sorted_int l).
Proof. apply isort_sorted; [exact zleb_total|exact zleb_trans]. Qed.

Lemma sorted_last (A : Type) (R : A -> A -> Prop) s :
  StronglySorted R s -> forall y r, rev s = y :: r -> forall k, In k s -> R k y \/ k = y.
Proof.
  induction 1 as [|a s Hs IH Hall]; intros y r E k Hk; [destruct Hk|].
  cbn [rev] in E. destruct (rev s) as [|y' r'] eqn:Er.
  - assert (s = []) by (rewrite <- (rev_involutive s), Er; reflexivity); subst s.
    cbn in E; inversion E; subst. destruct Hk as [<-|[]]; right; reflexivity.
  - cbn in E; inversion E; subst y' r.
    assert (Hy : In y s) by (apply in_rev; rewrite Er; left; reflexivity).
    destruct Hk as [<-|Hk]; [left; rewrite Forall_forall in Hall; apply Hall, Hy|].
    exact (IH y r' eq_refl k Hk).
Qed.

Lemma first_sorted_min l l' :
  (forall k, In k l' <-> In k l) ->
  py_list_first (py_sorted_int l') = match min_lag l with Some lo => Ret lo | None => Exc EIndex end.
Proof.
  intros Hin. pose proof (sorted_int_sorted l') as Hs.
  assert (Hin' : forall k, In k (py_sorted_int l') <-> In k l)
    by (intros k; unfold py_sorted_int; rewrite isort_in; apply Hin).
  destruct (py_sorted_int l') as [|x s] eqn:E; cbn [py_list_first].
  - destruct l as [|k l]; [reflexivity|]. exfalso; apply (proj2 (Hin' k)); left; reflexivity.
  - rewrite (@min_lag_intro l x); [reflexivity|apply Hin'; left; reflexivity|].
    intros k Hk; apply Hin' in Hk; destruct Hk as [<-|Hk]; [lia|].
    inversion Hs as [|? ? _ Hall]; subst. rewrite Forall_forall in Hall. apply Z.leb_le, Hall, Hk.
Qed.

Lemma last_sorted_max l l' :
  (forall k, In k l' <-> In k l) ->
  py_list_last (py_sorted_int l') = match max_lag l with Some hi => Ret hi | None => Exc EIndex end.
Proof.
  intros Hin. pose proof (sorted_int_sorted l') as Hs.
  assert (Hin' : forall k, In k (py_sorted_int l') <-> In k l)
    by (intros k; unfold py_sorted_int; rewrite isort_in; apply Hin).
  unfold py_list_last. destruct (rev (py_sorted_int l')) as [|y r] eqn:E.
  - destruct l as [|k l]; [reflexivity|]. exfalso.
    assert (Hk : In k (py_sorted_int l')) by (apply Hin'; left; reflexivity).
    apply in_rev in Hk; rewrite E in Hk; destruct Hk.
  - assert (Hy : In y (py_sorted_int l')) by (apply in_rev; rewrite E; left; reflexivity).
    rewrite (@max_lag_intro l y); [reflexivity|apply Hin', Hy|].
    intros k Hk; apply Hin' in Hk.
    destruct (sorted_last Hs E k Hk) as [H| ->]; [apply Z.leb_le, H|lia].
Qed.

Lemma lags_in g k :
  In k (map (fun n => py_tsnode_time_lag n) (py_ts_get_nodes g)) <-> In k (map tl (tnodes g)).
Proof.
  unfold py_ts_get_nodes, py_tsnode_time_lag; rewrite !in_map_iff; split; intros (n & E & Hn); exists n; split; auto;
    apply sorted_nodes_in; exact Hn.
Qed.

(** * The main theorems *)
Theorem gen_stationary_equiv g : gen_get_stationary_graph g = res_out (stationary g).
Proof.
  unfold gen_get_stationary_graph, stationary, py_ts_get_minimal_graph.
  destruct (minimal g) as [m|e]; cbn [res_out py_bind py_top]; [|reflexivity].
  cbv zeta.
  rewrite (@first_sorted_min (map tl (tnodes g)) _ (lags_in g)).
  rewrite (@last_sorted_max (map tl (tnodes g)) _ (lags_in g)).
  destruct (min_lag (map tl (tnodes g))) as [lo|] eqn:Elo; cbn [py_bind]; [|reflexivity].
  destruct (max_lag (map tl (tnodes g))) as [hi|] eqn:Ehi; cbn [py_bind]; [|reflexivity].
  unfold py_ts_extend_graph. destruct (extend m (Some (- lo)) (Some hi) false); reflexivity.
Qed.

Corollary gen_stationary_equiv_res g : out_res (gen_get_stationary_graph g) = stationary g.
Proof. rewrite gen_stationary_equiv; destruct (stationary g); reflexivity. Qed.

(** encoding of the result of [is_stationary_graph]: the new value of the cache and the returned object
    (an Optional[bool]; [Some b] is the Python bool [b]) *)
Definition isstat_out (r : res bool) : pyout (option bool * option bool) :=
  match r with Ok b => Ret (Some b, Some b) | Err e => Exc e end.

(** on a graph whose cache is empty (every mutating call of the library resets it to None) *)
Theorem gen_is_stationary_equiv g :
  gen_is_stationary_graph g None =
    match is_stationary_graph g with
    | Ok b => Ret (if ts_is_dag g then Some b else None, Some b)
    | Err e => Exc e
    end.
Proof.
  unfold gen_is_stationary_graph, is_stationary_graph, is_stationary, py_ts_is_dag.
  destruct (ts_is_dag g); cbn [negb py_opt_is_None py_top]; [|reflexivity].
  rewrite gen_stationary_equiv. destruct (stationary g) as [s|e]; reflexivity.
Qed.

Corollary gen_is_stationary_result g :
  match gen_is_stationary_graph g None with
  | Ret (_, r) => exists b, r = Some b /\ is_stationary_graph g = Ok b
  | Exc e => is_stationary_graph g = Err e
  end.
Proof.
  rewrite gen_is_stationary_equiv. destruct (is_stationary_graph g) as [b|e]; [exists b; auto|reflexivity].
Qed.

(** a filled cache is returned as it is on a DAG (the library keeps it valid by resetting it in every
    mutating call); the DAG test is made first, and it does not touch the cache *)
Theorem gen_is_stationary_cached g c :
  gen_is_stationary_graph g (Some c) = Ret (Some c, Some (if ts_is_dag g then c else false)).
Proof.
  unfold gen_is_stationary_graph, py_ts_is_dag. destruct (ts_is_dag g); reflexivity.
Qed.

(** the second call returns what the first call returned *)
Theorem gen_is_stationary_twice g c1 r1 :
  gen_is_stationary_graph g None = Ret (c1, r1) ->
  exists c2, gen_is_stationary_graph g c1 = Ret (c2, r1).
Proof.
  rewrite gen_is_stationary_equiv. destruct (is_stationary_graph g) as [b|e] eqn:E; [|discriminate].
  intros [= <- <-]. destruct (ts_is_dag g) eqn:D.
  - rewrite gen_is_stationary_cached, D; eauto.
  - rewrite gen_is_stationary_equiv, E, D; eauto.
Qed.

(** * The theorems of StationaryProofs.v / StationaryProofs2.v, for the generated functions *)
Theorem gen_stationary_def g :
  gen_get_stationary_graph g =
    match minimal g with
    | Err e => Exc e
    | Ok m =>
        match min_lag (map tl (tnodes g)), max_lag (map tl (tnodes g)) with
        | Some lo, Some hi => res_out (extend m (Some (- lo)) (Some hi) false)
        | _, _ => Exc EIndex
        end
    end.
Proof.
  rewrite gen_stationary_equiv, stationary_def. destruct (minimal g); [|reflexivity].
  destruct (min_lag _); [|reflexivity]. destruct (max_lag _); reflexivity.
Qed.

Lemma gen_stationary_ret g s : gen_get_stationary_graph g = Ret s -> stationary g = Ok s.
Proof. intros E; rewrite <- gen_stationary_equiv_res, E; reflexivity. Qed.

(** the generated function's result passes the C16 oracle ([c16_check_spec]) *)
Theorem gen_stationary_check g m lo s :
  consistent g -> window0 g lo -> minimal g = Ok m -> gen_get_stationary_graph g = Ret s ->
  c16_check g s = true.
Proof. intros C HW E Es; exact (stationary_check g m lo s C HW E (gen_stationary_ret g Es)). Qed.

Theorem gen_stationary_c16_spec g m lo s :
  consistent g -> window0 g lo -> minimal g = Ok m -> gen_get_stationary_graph g = Ret s -> c16_spec g s.
Proof. intros C HW E Es; exact (stat_c16_spec g m lo s C HW E (gen_stationary_ret g Es)). Qed.

Theorem gen_is_stationary_graph_iff g :
  (exists c, gen_is_stationary_graph g None = Ret (c, Some true)) <->
  ts_is_dag g = true /\ exists s, gen_get_stationary_graph g = Ret s /\ ts_graph_eqb s g = true.
Proof.
  rewrite gen_is_stationary_equiv. split.
  - intros (c & E). destruct (is_stationary_graph g) as [b|e] eqn:Eb; [|discriminate].
    inversion E; subst b. apply is_stationary_graph_iff in Eb. destruct Eb as (D & s & Es & Q).
    split; [exact D|]. exists s; split; [|exact Q]. rewrite gen_stationary_equiv, Es; reflexivity.
  - intros (D & s & Es & Q).
    assert (Eb : is_stationary_graph g = Ok true).
    { apply is_stationary_graph_iff; split; [exact D|]. exists s; split; [exact (gen_stationary_ret g Es)|exact Q]. }
    rewrite Eb; eauto.
Qed.

Theorem gen_is_stationary_not_dag g c :
  ts_is_dag g = false -> gen_is_stationary_graph g c = Ret (c, Some false).
Proof. intros D; unfold gen_is_stationary_graph, py_ts_is_dag; rewrite D; reflexivity. Qed.

(** * Non-vacuity and pinned behaviour ([ex_g], [ex_s]: the stationary graph the real library returns for
    [ex_g], StationaryProofs.v) *)
Example gen_ex_g_stationary :
  match gen_get_stationary_graph ex_g with Ret s => res_exact (Ok s) (Ok ex_s) | Exc _ => false end = true.
Proof. vm_compute; reflexivity. Qed.
Example gen_ex_g_is_stationary : gen_is_stationary_graph ex_g None = Ret (Some false, Some false).
Proof. vm_compute; reflexivity. Qed.
Example gen_ex_s_is_stationary : gen_is_stationary_graph ex_s None = Ret (Some true, Some true).
Proof. vm_compute; reflexivity. Qed.
Example gen_ex_empty_stationary : gen_get_stationary_graph (empty_tsg []) = Exc EIndex.
Proof. vm_compute; reflexivity. Qed.
