(** GraphLemmas.v — helper lemmas about the lists making up the concrete graph state
    (generic list facts, node lists, edge lists, metadata tags, the time-series index lists).
    PROOFS ONLY; used by GraphInvProofs.v. *)
From CG Require Import Base Digraph Graph GraphObs GraphInv.

(** * Generic list facts *)

Section ListFacts.
  Context {A B : Type}.

  Lemma perm_filter (p : A -> bool) l l' :
    Permutation l l' -> Permutation (filter p l) (filter p l').
  Proof.
    induction 1 as [|x l l' HP IH|x y l|l l' l'' H1 IH1 H2 IH2]; simpl.
    - constructor.
    - destruct (p x); [constructor|]; exact IH.
    - destruct (p x), (p y); try reflexivity. apply perm_swap.
    - etransitivity; eassumption.
  Qed.

  Lemma filter_all (p : A -> bool) l : (forall x, In x l -> p x = true) -> filter p l = l.
  Proof.
    induction l as [|a l IH]; simpl; intros H; [reflexivity|].
    rewrite (H a (or_introl eq_refl)). f_equal. apply IH. intros x Hx. apply H. right; exact Hx.
  Qed.

  Lemma filter_none (p : A -> bool) l : (forall x, In x l -> p x = false) -> filter p l = [].
  Proof.
    induction l as [|a l IH]; simpl; intros H; [reflexivity|].
    rewrite (H a (or_introl eq_refl)). apply IH. intros x Hx. apply H. right; exact Hx.
  Qed.

  Lemma filter_ext_in' (p q : A -> bool) l :
    (forall x, In x l -> p x = q x) -> filter p l = filter q l.
  Proof.
    induction l as [|a l IH]; simpl; intros H; [reflexivity|].
    rewrite (H a (or_introl eq_refl)). rewrite IH; [reflexivity|].
    intros x Hx. apply H. right; exact Hx.
  Qed.

  Lemma map_filter_comm (f : A -> B) (p : B -> bool) l :
    map f (filter (fun x => p (f x)) l) = filter p (map f l).
  Proof.
    induction l as [|a l IH]; simpl; [reflexivity|].
    destruct (p (f a)); simpl; rewrite IH; reflexivity.
  Qed.

  Lemma nodup_map_filter (f : A -> B) (p : A -> bool) l :
    NoDup (map f l) -> NoDup (map f (filter p l)).
  Proof.
    induction l as [|a l IH]; simpl; intros H; [constructor|].
    inversion H as [|? ? Hnin Hnd]; subst.
    destruct (p a); simpl; [|apply IH; exact Hnd].
    constructor; [|apply IH; exact Hnd].
    intros Hin. apply Hnin. apply in_map_iff in Hin. destruct Hin as (x & Hfx & Hx).
    apply filter_In in Hx. apply in_map_iff. exists x. split; [exact Hfx|apply Hx].
  Qed.

  Lemma nodup_map_inj (f : A -> B) l x y :
    NoDup (map f l) -> In x l -> In y l -> f x = f y -> x = y.
  Proof.
    induction l as [|a l IH]; simpl; intros H Hx Hy E; [contradiction|].
    inversion H as [|? ? Hnin Hnd]; subst.
    destruct Hx as [Hx|Hx], Hy as [Hy|Hy].
    - congruence.
    - subst a. exfalso. apply Hnin. rewrite E. apply in_map. exact Hy.
    - subst a. exfalso. apply Hnin. rewrite <- E. apply in_map. exact Hx.
    - apply IH; assumption.
  Qed.

  Lemma nodup_snoc (l : list A) x : NoDup l -> ~ In x l -> NoDup (l ++ [x]).
  Proof.
    intros Hnd Hnin. apply (Permutation_NoDup (l := x :: l)).
    - apply Permutation_cons_append.
    - constructor; assumption.
  Qed.

  Lemma Forall2_in_l (R : A -> B -> Prop) l l' x :
    Forall2 R l l' -> In x l -> exists y, In y l' /\ R x y.
  Proof.
    induction 1 as [|a b l l' Hab HF IH]; simpl; intros Hx; [contradiction|].
    destruct Hx as [<-|Hx].
    - exists b. split; [left; reflexivity|exact Hab].
    - destruct (IH Hx) as (y & Hy & HR). exists y. split; [right; exact Hy|exact HR].
  Qed.

  Lemma Forall2_in_r (R : A -> B -> Prop) l l' y :
    Forall2 R l l' -> In y l' -> exists x, In x l /\ R x y.
  Proof.
    induction 1 as [|a b l l' Hab HF IH]; simpl; intros Hy; [contradiction|].
    destruct Hy as [<-|Hy].
    - exists a. split; [left; reflexivity|exact Hab].
    - destruct (IH Hy) as (x & Hx & HR). exists x. split; [right; exact Hx|exact HR].
  Qed.

  Lemma Forall2_impl_in (R R' : A -> B -> Prop) l l' :
    (forall x y, In x l -> In y l' -> R x y -> R' x y) -> Forall2 R l l' -> Forall2 R' l l'.
  Proof.
    intros H HF. induction HF as [|a b l l' Hab HF IH]; constructor.
    - apply H; [left; reflexivity|left; reflexivity|exact Hab].
    - apply IH. intros x y Hx Hy. apply H; right; assumption.
  Qed.

  Lemma Forall2_snoc (R : A -> B -> Prop) l l' x y :
    Forall2 R l l' -> R x y -> Forall2 R (l ++ [x]) (l' ++ [y]).
  Proof. intros HF HR. apply Forall2_app; [exact HF|]. constructor; [exact HR|constructor]. Qed.
End ListFacts.

Lemma Forall2_map_r {A B C} (R : A -> C -> Prop) (f : B -> C) l l' :
  Forall2 R l (map f l') <-> Forall2 (fun a b => R a (f b)) l l'.
Proof.
  split.
  - revert l. induction l' as [|b l' IH]; intros l H; simpl in H; inversion H; subst; constructor.
    + assumption.
    + apply IH. assumption.
  - induction 1; simpl; constructor; assumption.
Qed.

(** The keys of a list determine its sorted form when they are pairwise distinct. *)
Section SortOn.
  Context {A : Type}.
  Variable leb : A -> A -> bool.

  Lemma sorted_perm_eq_on (l1 l2 : list A) :
    (forall x y, In x l1 -> In y l1 -> leb x y = true -> leb y x = true -> x = y) ->
    StronglySorted (le leb) l1 -> StronglySorted (le leb) l2 -> Permutation l1 l2 -> l1 = l2.
  Proof.
    revert l2; induction l1 as [|x l1 IH]; intros l2 Hanti S1 S2 P.
    - apply Permutation_nil in P; subst; reflexivity.
    - destruct l2 as [|y l2]; [apply Permutation_sym, Permutation_nil in P; discriminate|].
      inversion S1 as [|? ? S1' H1]; inversion S2 as [|? ? S2' H2]; subst.
      rewrite Forall_forall in H1, H2.
      assert (Exy : x = y).
      { assert (Hx : In x (y :: l2)) by (eapply Permutation_in; [exact P|left; reflexivity]).
        assert (Hy : In y (x :: l1)) by
          (eapply Permutation_in; [symmetry; exact P|left; reflexivity]).
        destruct Hx as [->|Hx]; [reflexivity|]. destruct Hy as [<-|Hy]; [reflexivity|].
        apply Hanti; [left; reflexivity|right; exact Hy|apply H1, Hy|apply H2, Hx]. }
      subst y; f_equal; apply IH; try assumption.
      + intros a b Ha Hb. apply Hanti; right; assumption.
      + eapply Permutation_cons_inv; exact P.
  Qed.
End SortOn.

(** * [remove_first] *)

Lemma remove_first_perm x l : In x l -> Permutation l (x :: remove_first x l).
Proof.
  induction l as [|y l IH]; simpl; intros H; [contradiction|].
  destruct (name_eqb_spec x y) as [->|Hn]; [reflexivity|].
  destruct H as [H|H]; [congruence|].
  rewrite perm_swap. constructor. apply IH, H.
Qed.

Lemma perm_remove_first x l l' : Permutation l (x :: l') -> Permutation (remove_first x l) l'.
Proof.
  intros P. assert (Hin : In x l).
  { eapply Permutation_in; [symmetry; exact P|left; reflexivity]. }
  apply (Permutation_cons_inv (a := x)).
  rewrite <- (remove_first_perm x l Hin). exact P.
Qed.

Lemma dedup_nodup_id l : NoDup l -> dedup l = l.
Proof.
  induction l as [|x l IH]; simpl; intros H; [reflexivity|].
  inversion H as [|? ? Hnin Hnd]; subst. rewrite (IH Hnd). f_equal.
  apply filter_all. intros y Hy. destruct (name_eqb_spec x y) as [->|]; [contradiction|reflexivity].
Qed.

(** * Node lists *)

Definition tags (n : node) : name * meta := (nid n, nmeta n).

Lemma find_node_some id ns n : find_node id ns = Some n -> In n ns /\ nid n = id.
Proof.
  induction ns as [|a ns IH]; simpl; [discriminate|].
  destruct (name_eqb_spec id (nid a)) as [E|Hn].
  - intros [= <-]. split; [left; reflexivity|symmetry; exact E].
  - intros H. destruct (IH H) as [Hin Hid]. split; [right; exact Hin|exact Hid].
Qed.

Lemma find_node_none id ns : find_node id ns = None <-> ~ In id (map nid ns).
Proof.
  induction ns as [|a ns IH]; simpl; [tauto|].
  destruct (name_eqb_spec id (nid a)) as [E|Hn].
  - split; [discriminate|]. intros H; exfalso; apply H; left; symmetry; exact E.
  - rewrite IH. split; [intros H [E|E]; [congruence|contradiction]|tauto].
Qed.

Lemma find_node_in id ns : In id (map nid ns) -> exists n, find_node id ns = Some n.
Proof.
  intros H. destruct (find_node id ns) as [n|] eqn:E; [exists n; reflexivity|].
  apply find_node_none in E. contradiction.
Qed.

Lemma find_node_unique ns n :
  NoDup (map nid ns) -> In n ns -> find_node (nid n) ns = Some n.
Proof.
  intros Hnd Hin. destruct (find_node (nid n) ns) as [n'|] eqn:E.
  - apply find_node_some in E. destruct E as [Hin' Hid]. f_equal.
    eapply nodup_map_inj; eassumption.
  - apply find_node_none in E. exfalso. apply E. apply in_map. exact Hin.
Qed.

Lemma find_node_app_l id ns ms n :
  find_node id ns = Some n -> find_node id (ns ++ ms) = Some n.
Proof.
  induction ns as [|a ns IH]; simpl; [discriminate|].
  destruct (name_eqb id (nid a)); [trivial|exact IH].
Qed.

Lemma find_node_app_r id ns ms :
  find_node id ns = None -> find_node id (ns ++ ms) = find_node id ms.
Proof.
  induction ns as [|a ns IH]; simpl; [reflexivity|].
  destruct (name_eqb id (nid a)); [discriminate|exact IH].
Qed.

Lemma find_node_filter_neq id x ns :
  x <> id ->
  find_node x (filter (fun n => negb (name_eqb id (nid n))) ns) = find_node x ns.
Proof.
  intros Hn. induction ns as [|a ns IH]; simpl; [reflexivity|].
  destruct (name_eqb_spec id (nid a)) as [E|Hne]; simpl.
  - destruct (name_eqb_spec x (nid a)) as [E'|_]; [congruence|exact IH].
  - destruct (name_eqb x (nid a)); [reflexivity|exact IH].
Qed.

(** the tag of the node found under an identifier depends only on the (id, meta) list *)
Lemma find_node_tags id ns ns' :
  map tags ns = map tags ns' ->
  option_map nmeta (find_node id ns) = option_map nmeta (find_node id ns').
Proof.
  revert ns'. induction ns as [|a ns IH]; intros [|b ns'] H; simpl in *; try discriminate;
    [reflexivity|].
  unfold tags in H at 1 3. injection H as Hid Hm Hrest.
  rewrite Hid. destruct (name_eqb id (nid b)); simpl; [congruence|apply IH, Hrest].
Qed.

Lemma node_exists_in g n : node_exists g n = true <-> In n (node_ids g).
Proof.
  unfold node_exists, get_node, node_ids.
  destruct (find_node n (gnodes g)) as [x|] eqn:E.
  - split; [intros _|reflexivity]. apply find_node_some in E. destruct E as [Hin <-].
    apply in_map, Hin.
  - split; [discriminate|]. apply find_node_none in E. intros H; contradiction.
Qed.

Lemma node_exists_false g n : node_exists g n = false <-> ~ In n (node_ids g).
Proof. rewrite <- node_exists_in. destruct (node_exists g n); split; congruence. Qed.

Lemma update_node_ids f id ns :
  (forall n, nid (f n) = nid n) -> map nid (update_node f id ns) = map nid ns.
Proof.
  intros H. unfold update_node. rewrite map_map. apply map_ext.
  intros n. destruct (name_eqb id (nid n)); [apply H|reflexivity].
Qed.

Lemma update_node_tags f id ns :
  (forall n, tags (f n) = tags n) -> map tags (update_node f id ns) = map tags ns.
Proof.
  intros H. unfold update_node. rewrite map_map. apply map_ext.
  intros n. destruct (name_eqb id (nid n)); [apply H|reflexivity].
Qed.

(** the node lists produced by [delete_edge] / [insert_edge] for a directed edge *)
Definition set_inb (f : list name -> list name) (n : node) : node :=
  {| nid := nid n; nvt := nvt n; nmeta := nmeta n; ninb := f (ninb n); noutb := noutb n |}.
Definition set_outb (f : list name -> list name) (n : node) : node :=
  {| nid := nid n; nvt := nvt n; nmeta := nmeta n; ninb := ninb n; noutb := f (noutb n) |}.
Definition upd2 (fi fo : list name -> list name) (s d : name) (ns : list node) : list node :=
  update_node (set_outb fo) s (update_node (set_inb fi) d ns).

Lemma in_upd2 fi fo s d ns n' :
  In n' (upd2 fi fo s d ns) <->
  exists n, In n ns /\
    n' = {| nid := nid n; nvt := nvt n; nmeta := nmeta n;
            ninb := if name_eqb d (nid n) then fi (ninb n) else ninb n;
            noutb := if name_eqb s (nid n) then fo (noutb n) else noutb n |}.
Proof.
  unfold upd2, update_node. rewrite map_map, in_map_iff.
  split; intros (n & H1 & H2); exists n.
  - split; [exact H2|]. subst n'.
    destruct (name_eqb d (nid n)); simpl; destruct (name_eqb s (nid n)); destruct n; reflexivity.
  - split; [|exact H1]. subst n'.
    destruct (name_eqb d (nid n)); simpl; destruct (name_eqb s (nid n)); destruct n; reflexivity.
Qed.

Lemma upd2_ids fi fo s d ns : map nid (upd2 fi fo s d ns) = map nid ns.
Proof.
  unfold upd2. rewrite !update_node_ids; [reflexivity| |]; intros n; reflexivity.
Qed.

Lemma upd2_tags fi fo s d ns : map tags (upd2 fi fo s d ns) = map tags ns.
Proof.
  unfold upd2. rewrite !update_node_tags; [reflexivity| |]; intros n; reflexivity.
Qed.

(** * Edge lists *)

Definition key_is (s d : name) (e : edge) : bool := name_eqb s (esrc e) && name_eqb d (edst e).

Lemma key_is_true s d e : key_is s d e = true <-> edge_key e = (s, d).
Proof.
  unfold key_is, edge_key.
  destruct (name_eqb_spec s (esrc e)), (name_eqb_spec d (edst e)); simpl; split; congruence.
Qed.

Lemma key_is_false s d e : key_is s d e = false <-> edge_key e <> (s, d).
Proof. rewrite <- key_is_true. destruct (key_is s d e); split; congruence. Qed.

Lemma find_edge_some s d es e :
  find_edge s d es = Some e -> In e es /\ esrc e = s /\ edst e = d.
Proof.
  induction es as [|a es IH]; simpl; [discriminate|].
  destruct (name_eqb_spec s (esrc a)) as [Es|Hs]; simpl.
  - destruct (name_eqb_spec d (edst a)) as [Ed|Hd].
    + intros [= <-]. auto.
    + intros H. destruct (IH H) as (H1 & H2 & H3). auto.
  - intros H. destruct (IH H) as (H1 & H2 & H3). auto.
Qed.

Lemma find_edge_none s d es : find_edge s d es = None <-> ~ In (s, d) (map edge_key es).
Proof.
  induction es as [|a es IH]; simpl; [tauto|].
  fold (key_is s d a). destruct (key_is s d a) eqn:E.
  - apply key_is_true in E. split; [discriminate|]. intros H; exfalso; apply H; left; exact E.
  - apply key_is_false in E. rewrite IH. tauto.
Qed.

Lemma find_edge_in s d es :
  In (s, d) (map edge_key es) -> exists e, find_edge s d es = Some e.
Proof.
  intros H. destruct (find_edge s d es) as [e|] eqn:E; [exists e; reflexivity|].
  apply find_edge_none in E. contradiction.
Qed.

Lemma find_edge_unique es e :
  NoDup (map edge_key es) -> In e es -> find_edge (esrc e) (edst e) es = Some e.
Proof.
  intros Hnd Hin. destruct (find_edge (esrc e) (edst e) es) as [e'|] eqn:E.
  - apply find_edge_some in E. destruct E as (Hin' & Hs & Hd). f_equal.
    eapply nodup_map_inj; try eassumption. unfold edge_key. congruence.
  - apply find_edge_none in E. exfalso. apply E. apply (in_map edge_key) in Hin. exact Hin.
Qed.

Lemma edge_at_in g s d e :
  NoDup (edge_keys g) ->
  (edge_at g s d = Some e <-> In e (gsrc g) /\ esrc e = s /\ edst e = d).
Proof.
  intros Hnd. unfold edge_at. split.
  - apply find_edge_some.
  - intros (Hin & <- & <-). apply find_edge_unique; assumption.
Qed.

Lemma edge_at_none g s d : edge_at g s d = None <-> ~ In (s, d) (edge_keys g).
Proof. apply find_edge_none. Qed.

Lemma in_drop_edge s d es e :
  In e (drop_edge s d es) <-> In e es /\ edge_key e <> (s, d).
Proof.
  unfold drop_edge. rewrite filter_In. fold (key_is s d e).
  rewrite negb_true_iff, key_is_false. tauto.
Qed.

Lemma drop_edge_perm s d es e :
  NoDup (map edge_key es) -> In e es -> edge_key e = (s, d) ->
  Permutation es (e :: drop_edge s d es).
Proof.
  induction es as [|a es IH]; simpl; intros Hnd Hin Hk; [contradiction|].
  inversion Hnd as [|? ? Hnin Hnd']; subst. fold (key_is s d a).
  destruct Hin as [->|Hin].
  - apply key_is_true in Hk. rewrite Hk. simpl. constructor.
    fold (drop_edge s d es). unfold drop_edge. rewrite filter_all; [reflexivity|].
    intros x Hx. fold (key_is s d x). apply negb_true_iff, key_is_false.
    intros Hkx. apply Hnin. apply key_is_true in Hk. rewrite Hk, <- Hkx. apply in_map, Hx.
  - destruct (key_is s d a) eqn:Ea; simpl.
    + apply key_is_true in Ea. exfalso. apply Hnin. rewrite Ea, <- Hk. apply in_map, Hin.
    + rewrite perm_swap. constructor. apply IH; assumption.
Qed.

(** sources of directed edges into [n] / destinations of directed edges out of [n] *)
Definition dinto (es : list edge) (n : name) : list name :=
  map esrc (filter (fun e => etype_eqb (ety e) Dir && name_eqb n (edst e)) es).
Definition dfrom (es : list edge) (n : name) : list name :=
  map edst (filter (fun e => etype_eqb (ety e) Dir && name_eqb n (esrc e)) es).

Lemma dir_into_eq g n : dir_into g n = dinto (gsrc g) n.
Proof. reflexivity. Qed.
Lemma dir_from_eq g n : dir_from g n = dfrom (gsrc g) n.
Proof. reflexivity. Qed.

Lemma dinto_perm es es' n : Permutation es es' -> Permutation (dinto es n) (dinto es' n).
Proof. intros P. unfold dinto. apply Permutation_map, perm_filter, P. Qed.
Lemma dfrom_perm es es' n : Permutation es es' -> Permutation (dfrom es n) (dfrom es' n).
Proof. intros P. unfold dfrom. apply Permutation_map, perm_filter, P. Qed.

Lemma dinto_cons e es n :
  dinto (e :: es) n =
  (if etype_eqb (ety e) Dir && name_eqb n (edst e) then [esrc e] else []) ++ dinto es n.
Proof. unfold dinto. simpl. destruct (etype_eqb (ety e) Dir && name_eqb n (edst e)); reflexivity. Qed.
Lemma dfrom_cons e es n :
  dfrom (e :: es) n =
  (if etype_eqb (ety e) Dir && name_eqb n (esrc e) then [edst e] else []) ++ dfrom es n.
Proof. unfold dfrom. simpl. destruct (etype_eqb (ety e) Dir && name_eqb n (esrc e)); reflexivity. Qed.

Lemma dinto_snoc e es n :
  dinto (es ++ [e]) n =
  dinto es n ++ (if etype_eqb (ety e) Dir && name_eqb n (edst e) then [esrc e] else []).
Proof.
  unfold dinto. rewrite filter_app, map_app. simpl.
  destruct (etype_eqb (ety e) Dir && name_eqb n (edst e)); reflexivity.
Qed.
Lemma dfrom_snoc e es n :
  dfrom (es ++ [e]) n =
  dfrom es n ++ (if etype_eqb (ety e) Dir && name_eqb n (esrc e) then [edst e] else []).
Proof.
  unfold dfrom. rewrite filter_app, map_app. simpl.
  destruct (etype_eqb (ety e) Dir && name_eqb n (esrc e)); reflexivity.
Qed.

Lemma dinto_nil es n : (forall e, In e es -> edst e <> n) -> dinto es n = [].
Proof.
  intros H. unfold dinto. rewrite filter_none; [reflexivity|].
  intros e He. destruct (name_eqb_spec n (edst e)) as [E|_].
  - exfalso. apply (H e He). symmetry; exact E.
  - apply andb_false_r.
Qed.
Lemma dfrom_nil es n : (forall e, In e es -> esrc e <> n) -> dfrom es n = [].
Proof.
  intros H. unfold dfrom. rewrite filter_none; [reflexivity|].
  intros e He. destruct (name_eqb_spec n (esrc e)) as [E|_].
  - exfalso. apply (H e He). symmetry; exact E.
  - apply andb_false_r.
Qed.

Lemma dinto_nodup es n : NoDup (map edge_key es) -> NoDup (dinto es n).
Proof.
  intros Hnd. unfold dinto.
  set (p := fun e => etype_eqb (ety e) Dir && name_eqb n (edst e)).
  assert (Hk : NoDup (map edge_key (filter p es))) by (apply nodup_map_filter, Hnd).
  assert (Hd : forall e, In e (filter p es) -> edst e = n).
  { intros e He. apply filter_In in He. destruct He as [_ He]. unfold p in He.
    apply andb_true_iff in He. destruct He as [_ He]. apply name_eqb_eq in He. congruence. }
  induction (filter p es) as [|a l IH]; simpl; [constructor|].
  simpl in Hk. inversion Hk as [|? ? Hnin Hk']; subst.
  constructor; [|apply IH; [exact Hk'|intros e He; apply Hd; right; exact He]].
  intros Hin. apply in_map_iff in Hin. destruct Hin as (x & Hsx & Hx).
  apply Hnin. apply in_map_iff. exists x. split; [|exact Hx].
  unfold edge_key. rewrite Hsx, (Hd x (or_intror Hx)), (Hd a (or_introl eq_refl)). reflexivity.
Qed.
Lemma dfrom_nodup es n : NoDup (map edge_key es) -> NoDup (dfrom es n).
Proof.
  intros Hnd. unfold dfrom.
  set (p := fun e => etype_eqb (ety e) Dir && name_eqb n (esrc e)).
  assert (Hk : NoDup (map edge_key (filter p es))) by (apply nodup_map_filter, Hnd).
  assert (Hd : forall e, In e (filter p es) -> esrc e = n).
  { intros e He. apply filter_In in He. destruct He as [_ He]. unfold p in He.
    apply andb_true_iff in He. destruct He as [_ He]. apply name_eqb_eq in He. congruence. }
  induction (filter p es) as [|a l IH]; simpl; [constructor|].
  simpl in Hk. inversion Hk as [|? ? Hnin Hk']; subst.
  constructor; [|apply IH; [exact Hk'|intros e He; apply Hd; right; exact He]].
  intros Hin. apply in_map_iff in Hin. destruct Hin as (x & Hsx & Hx).
  apply Hnin. apply in_map_iff. exists x. split; [|exact Hx].
  unfold edge_key. rewrite Hsx, (Hd x (or_intror Hx)), (Hd a (or_introl eq_refl)). reflexivity.
Qed.

(** * Reserved tags *)

Lemma lookup_meta_set_eq k v (m : meta) : lookup k (meta_set k v m) = Some v.
Proof.
  induction m as [|[k' v'] m IH]; simpl; [rewrite name_eqb_refl; reflexivity|].
  destruct (name_eqb_spec k k') as [->|Hn]; simpl.
  - rewrite name_eqb_refl; reflexivity.
  - destruct (name_ltb k k'); simpl.
    + rewrite name_eqb_refl; reflexivity.
    + destruct (name_eqb_spec k k'); [contradiction|exact IH].
Qed.

Lemma lookup_meta_set_neq k1 k2 v (m : meta) :
  k1 <> k2 -> lookup k1 (meta_set k2 v m) = lookup k1 m.
Proof.
  intros Hn. induction m as [|[k' v'] m IH]; simpl.
  - destruct (name_eqb_spec k1 k2); [contradiction|reflexivity].
  - destruct (name_eqb_spec k2 k') as [->|Hn']; simpl.
    + destruct (name_eqb_spec k1 k'); [contradiction|reflexivity].
    + destruct (name_ltb k2 k'); simpl.
      * destruct (name_eqb_spec k1 k2); [contradiction|reflexivity].
      * destruct (name_eqb k1 k'); [reflexivity|exact IH].
Qed.

Lemma meta_lag_set_tags v l m : meta_lag (set_tags v l m) = Some l.
Proof.
  unfold meta_lag, set_tags, meta_get.
  rewrite lookup_meta_set_neq by (vm_compute; discriminate).
  rewrite lookup_meta_set_eq. reflexivity.
Qed.

Lemma meta_var_set_tags v l m : meta_var (set_tags v l m) = Some v.
Proof. unfold meta_var, set_tags, meta_get. rewrite lookup_meta_set_eq. reflexivity. Qed.

(** * The time-series index lists *)

Section Index.
  Context {K : Type}.
  Variable keq : K -> K -> bool.
  Hypothesis keq_spec : forall x y, reflect (x = y) (keq x y).
  Variable tag : node -> option K.

  Definition idx_rel (p : K * name) (n : node) : Prop := snd p = nid n /\ tag n = Some (fst p).

  Lemma idx_same_tags idx ns ns' :
    Forall2 (fun a b => nid a = nid b /\ tag a = tag b) ns ns' ->
    Forall2 idx_rel idx ns -> Forall2 idx_rel idx ns'.
  Proof.
    intros Hs. revert idx. induction Hs as [|a b ns ns' [Hid Ht] Hs IH]; intros idx HF;
      inversion HF as [|p ? idx' ? [Hp1 Hp2] HF']; subst; constructor.
    - split; congruence.
    - apply IH, HF'.
  Qed.

  Lemma idx_key_of idx ns id n key :
    Forall2 idx_rel idx ns -> NoDup (map nid ns) -> find_node id ns = Some n ->
    tag n = Some key -> forall p, In p idx -> snd p = id -> fst p = key.
  Proof.
    intros HF Hnd Hfind Htag p Hp Hid.
    destruct (Forall2_in_l _ _ _ _ HF Hp) as (n' & Hn' & Hs & Ht).
    apply find_node_some in Hfind. destruct Hfind as [Hin Hnid].
    assert (n' = n) by (eapply nodup_map_inj; try eassumption; congruence).
    subst n'. congruence.
  Qed.

  Lemma idx_remove_ok idx ns id key idx' :
    Forall2 idx_rel idx ns -> NoDup (map nid ns) ->
    (forall p, In p idx -> snd p = id -> fst p = key) ->
    remove_first_pair keq key id idx = Some idx' ->
    Forall2 idx_rel idx' (filter (fun n => negb (name_eqb id (nid n))) ns).
  Proof.
    intros HF. revert idx'.
    induction HF as [|[k' id'] n idx ns [Hid Ht] HF IH]; intros idx' Hnd Hkey Hrem.
    - discriminate.
    - simpl in Hid, Ht. subst id'. simpl in Hnd.
      inversion Hnd as [|? ? Hnin Hnd']; subst.
      cbn [remove_first_pair] in Hrem. cbn [filter].
      destruct (name_eqb_spec id (nid n)) as [E|Hne]; cbn [negb].
      + assert (Ek : k' = key).
        { apply (Hkey (k', nid n)); [left; reflexivity|symmetry; exact E]. }
        subst k'. destruct (keq_spec key key) as [_|Hc]; [|congruence]. cbn [andb] in Hrem.
        injection Hrem as <-.
        rewrite filter_all; [exact HF|]. intros x Hx.
        destruct (name_eqb_spec id (nid x)) as [Ex|_]; [|reflexivity].
        exfalso. apply Hnin. rewrite <- E, Ex. apply in_map, Hx.
      + rewrite andb_false_r in Hrem.
        destruct (remove_first_pair keq key id idx) as [r|] eqn:Er; [|discriminate].
        injection Hrem as <-. constructor; [split; [reflexivity|exact Ht]|].
        apply IH; [exact Hnd'| |reflexivity].
        intros p Hp. apply Hkey. right; exact Hp.
  Qed.

  (** the removal cannot fail when the node is listed *)
  Lemma idx_remove_some idx ns id n key :
    Forall2 idx_rel idx ns -> find_node id ns = Some n -> tag n = Some key ->
    exists idx', remove_first_pair keq key id idx = Some idx'.
  Proof.
    intros HF. induction HF as [|[k' id'] a idx ns [Hid Ht] HF IH]; simpl; intros Hfind Htag.
    - discriminate.
    - simpl in Hid. subst id'.
      destruct (name_eqb_spec id (nid a)) as [E|Hne].
      + injection Hfind as ->. simpl in Ht. rewrite Htag in Ht. injection Ht as ->.
        destruct (keq_spec k' k') as [_|Hc]; [|congruence]. simpl. eexists; reflexivity.
      + rewrite andb_false_r. destruct (IH Hfind Htag) as (r & ->). eexists; reflexivity.
  Qed.

  Lemma idx_scan idx ns (k : K) :
    Forall2 idx_rel idx ns ->
    map snd (filter (fun p => keq (fst p) k) idx)
    = map nid (filter (fun n => match tag n with Some k' => keq k' k | None => false end) ns).
  Proof.
    induction 1 as [|p n idx ns [Hid Ht] HF IH]; simpl; [reflexivity|].
    rewrite Ht. destruct (keq (fst p) k); simpl; rewrite IH; congruence.
  Qed.
End Index.

(** * Undoing an insertion *)

Lemma remove_first_snoc x l : ~ In x l -> remove_first x (l ++ [x]) = l.
Proof.
  induction l as [|a l IH]; simpl; intros H.
  - rewrite name_eqb_refl. reflexivity.
  - destruct (name_eqb_spec x a) as [E|_]; [exfalso; apply H; left; symmetry; exact E|].
    f_equal. apply IH. intros Hin. apply H. right; exact Hin.
Qed.

Lemma find_edge_app_r s d es es' :
  find_edge s d es = None -> find_edge s d (es ++ es') = find_edge s d es'.
Proof.
  induction es as [|a es IH]; simpl; [reflexivity|].
  destruct (name_eqb s (esrc a) && name_eqb d (edst a)); [discriminate|exact IH].
Qed.

Lemma find_edge_app_l s d es es' e :
  find_edge s d es = Some e -> find_edge s d (es ++ es') = Some e.
Proof.
  induction es as [|a es IH]; simpl; [discriminate|].
  destruct (name_eqb s (esrc a) && name_eqb d (edst a)); [trivial|exact IH].
Qed.

Lemma drop_edge_absent s d es : ~ In (s, d) (map edge_key es) -> drop_edge s d es = es.
Proof.
  intros H. unfold drop_edge. apply filter_all. intros x Hx. fold (key_is s d x).
  apply negb_true_iff, key_is_false. intros E. apply H. rewrite <- E. apply in_map, Hx.
Qed.

Lemma upd2_compose fi1 fo1 fi2 fo2 s d ns :
  upd2 fi2 fo2 s d (upd2 fi1 fo1 s d ns)
  = upd2 (fun l => fi2 (fi1 l)) (fun l => fo2 (fo1 l)) s d ns.
Proof.
  unfold upd2, update_node. rewrite !map_map. apply map_ext. intros n.
  destruct (name_eqb d (nid n)) eqn:Ed; destruct (name_eqb s (nid n)) eqn:Es;
    unfold set_inb, set_outb;
    repeat progress (cbn [nid ninb noutb nvt nmeta]; rewrite ?Ed, ?Es); reflexivity.
Qed.

Lemma upd2_id fi fo s d ns :
  (forall n, In n ns -> (nid n = d -> fi (ninb n) = ninb n)
                        /\ (nid n = s -> fo (noutb n) = noutb n)) ->
  upd2 fi fo s d ns = ns.
Proof.
  intros H. unfold upd2, update_node. rewrite map_map.
  rewrite <- (map_id ns) at 2. apply map_ext_in. intros n Hn. destruct (H n Hn) as [A B].
  destruct (name_eqb_spec d (nid n)) as [Ed|Ed]; unfold set_inb, set_outb;
    cbn [nid ninb noutb nvt nmeta];
    destruct (name_eqb_spec s (nid n)) as [Es|Es]; cbn [nid ninb noutb nvt nmeta];
    rewrite ?(A (eq_sym Ed)), ?(B (eq_sym Es)); destruct n; reflexivity.
Qed.

Lemma in_dinto es n x :
  In x (dinto es n) <-> exists e, In e es /\ ety e = Dir /\ esrc e = x /\ edst e = n.
Proof.
  unfold dinto. rewrite in_map_iff. split.
  - intros (e & Hx & He). apply filter_In in He. destruct He as [He Hp].
    apply andb_true_iff in Hp. destruct Hp as [Hd Hn].
    exists e. split; [exact He|]. split; [destruct (etype_eqb_spec (ety e) Dir); congruence|].
    split; [exact Hx|]. apply name_eqb_eq in Hn. congruence.
  - intros (e & He & Hd & Hx & Hn). exists e. split; [exact Hx|]. apply filter_In.
    split; [exact He|]. rewrite Hd, Hn, name_eqb_refl. reflexivity.
Qed.

Lemma in_dfrom es n x :
  In x (dfrom es n) <-> exists e, In e es /\ ety e = Dir /\ esrc e = n /\ edst e = x.
Proof.
  unfold dfrom. rewrite in_map_iff. split.
  - intros (e & Hx & He). apply filter_In in He. destruct He as [He Hp].
    apply andb_true_iff in Hp. destruct Hp as [Hd Hn].
    exists e. split; [exact He|]. split; [destruct (etype_eqb_spec (ety e) Dir); congruence|].
    split; [|exact Hx]. apply name_eqb_eq in Hn. congruence.
  - intros (e & He & Hd & Hn & Hx). exists e. split; [exact Hx|]. apply filter_In.
    split; [exact He|]. rewrite Hd, Hn, name_eqb_refl. reflexivity.
Qed.
