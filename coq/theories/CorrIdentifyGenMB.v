(** CorrIdentifyGenMB.v — harness entry points for [identify_markov_boundary] and
    [identify_colliders] (property C20): the functions GENERATED in IdentifyGenMB.v; conventions in
    CorrIdentifyGen.v (DEFINITIONS ONLY, plus pinned examples). *)
From CG Require Import Base Digraph Markov PyRt CorrIdentifyGen IdentifyGenMB.
Set Implicit Arguments.

(** [identify_markov_boundary(graph, x)] on a DAG over [0 .. n-1] *)
Definition cigo_markov_boundary (ord : pyorder) (n : nat) (arcs : list (nat * nat)) (x : nat)
  : pyout (list nat) :=
  cig_sorted (gen_identify_markov_boundary Nat.eqb (cig_none n) (cig_empty_str n) ord (cig_graph n arcs) x).
Definition cig_markov_boundary := cigo_markov_boundary pyorder_id.

(** [identify_colliders(graph, unshielded_only)] on a graph with arbitrary edge types: the nodes
    [0 .. n-1] and the edges [(source, destination, type)] in insertion order. *)
Definition cigo_colliders (ord : pyorder) (n : nat) (edges : list (nat * nat * etype))
           (unshielded_only : bool) : pyout (list nat) :=
  cig_sorted (gen_identify_colliders Nat.eqb (cig_none n) (cig_empty_str n) ord
                {| mnodes := seq 0 n; medges := edges |} unshielded_only).
Definition cig_colliders := cigo_colliders pyorder_id.

(** * Pinned examples (every right-hand side was obtained from the real library) *)

(** docstring of [identify_markov_boundary]: u v b c a d e w f x y g z = 0 .. 12 *)
Example cig_ex_markov :
  cig_markov_boundary 13 [(0, 2); (1, 3); (2, 4); (3, 4); (4, 5); (4, 6); (7, 8); (8, 5); (5, 9);
                          (5, 10); (11, 6); (11, 12)] 4 = Ret [2; 3; 5; 6; 8; 11] /\
  cig_markov_boundary 2 [(0, 1)] 5 = Exc PyNodeDoesNotExistError.
Proof. vm_compute. split; reflexivity. Qed.
(** a -> c <- b, c <> d, d -- e, a -> e (a b c d e = 0 .. 4): the real library returns ['c'] for
    both settings of unshielded_only (a, b, d point into c and are pairwise non-adjacent; d has a
    single arrowhead).  a -> c <- b with a -- b: c is a collider, but a shielded one. *)
Example cig_ex_colliders :
  cig_colliders 5 [(0, 2, Dir); (1, 2, Dir); (2, 3, Bi); (3, 4, Und); (0, 4, Dir)] false = Ret [2] /\
  cig_colliders 5 [(0, 2, Dir); (1, 2, Dir); (2, 3, Bi); (3, 4, Und); (0, 4, Dir)] true = Ret [2] /\
  cig_colliders 3 [(0, 2, Dir); (1, 2, Dir); (0, 1, Und)] false = Ret [2] /\
  cig_colliders 3 [(0, 2, Dir); (1, 2, Dir); (0, 1, Und)] true = Ret [].
Proof. vm_compute. repeat split; reflexivity. Qed.

(** the other concrete iteration order (reversed at the odd observation sites) *)
Example cig_ex_mb_other_order :
  cigo_markov_boundary pyorder_alt 4 [(0, 1); (1, 2); (3, 0); (3, 2); (0, 2)] 0 = Ret [1; 2; 3] /\
  cigo_colliders pyorder_alt 5 [(0, 2, Dir); (1, 2, Dir); (2, 3, Bi); (3, 4, Und); (0, 4, Dir)] true = Ret [2].
Proof. vm_compute. split; reflexivity. Qed.

(** the regression cases of CorrIdentifyGen.v, both iteration orders *)
Definition cig_check_dag_mb (ord : pyorder)
    (c : nat * list (nat * nat) * nat * nat * nat
         * (pyout (list nat) * pyout (list nat) * pyout (list nat)) * pyout (list nat)) : bool :=
  let '(n, arcs, x, y, mx, (ec, ei, em), emb) := c in
  cig_out_eqb (cigo_markov_boundary ord n arcs x) emb.
Definition cig_check_mixed (ord : pyorder)
    (c : nat * list (nat * nat * etype) * pyout (list nat) * pyout (list nat)) : bool :=
  let '(n, es, e1, e2) := c in
  cig_out_eqb (cigo_colliders ord n es false) e1 && cig_out_eqb (cigo_colliders ord n es true) e2.
Example cig_regression_mb_ok :
  forallb (cig_check_dag_mb pyorder_id) cig_regression_dags = true /\
  forallb (cig_check_dag_mb pyorder_alt) cig_regression_dags = true /\
  forallb (cig_check_mixed pyorder_id) cig_regression_mixed = true /\
  forallb (cig_check_mixed pyorder_alt) cig_regression_mixed = true.
Proof. vm_compute. repeat split; reflexivity. Qed.
