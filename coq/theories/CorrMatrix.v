(** CorrMatrix.v — entry points of the C08 / C09 correspondence checks (DEFINITIONS ONLY). *)
From CG Require Import Base Graph GraphObs Tok Names GraphTS Matrix Skeleton.
From Coq Require Import Uint63.

(** a graph state given by a history; expected hash of [obs_matrix] and of [obs_skeleton] *)
Record mcase := { mc_kind : kind; mc_ops : list op; mc_pool : list name; mc_hmat : int; mc_hsk : int }.

Definition mcase_ok (c : mcase) : N :=
  let g := g_run (mc_kind c) (mc_ops c) (empty_graph []) in
  (if Uint63.eqb (hash_tokens (obs_matrix g)) (mc_hmat c) then 1 else 0)
  + 2 * (if Uint63.eqb (hash_tokens (obs_skeleton parse (mc_kind c) g (mc_pool c))) (mc_hsk c) then 1 else 0).
Definition check_mcases (cs : list mcase) : list N := map mcase_ok cs.

(** from_adjacency_matrix on an explicit matrix: expected (error code, observation hash) *)
Record fcase := { fc_kind : kind; fc_matrix : list (list Z); fc_names : option (list name); fc_validate : bool;
                  fc_pool : list name; fc_code : N; fc_hash : int }.

Definition fcase_ok (c : fcase) : bool :=
  match from_matrix parse fmt (fc_kind c) (fc_matrix c) (fc_names c) (fc_validate c) with
  | Ok g => N.eqb (fc_code c) 0
            && Uint63.eqb (hash_tokens (g_observe (fc_kind c) g (fc_pool c) [] [])) (fc_hash c)
  | Err e => N.eqb (fc_code c) (err_code e)
  end.
Fixpoint fmism_from (i : nat) (cs : list fcase) : list nat :=
  match cs with
  | [] => []
  | c :: cs' => if fcase_ok c then fmism_from (S i) cs' else i :: fmism_from (S i) cs'
  end.
Definition fmismatches (cs : list fcase) : list nat := fmism_from 0 cs.
