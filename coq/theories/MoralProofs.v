(** MoralProofs.v — d-separation = separation in the moralised ancestral graph, and the
    correctness of the two networkx algorithms modelled in DSep.v, for ALL finite DAGs
    (no bound on the number of nodes; the <= 4 node sweeps of DSepProofs.v are superseded).

    Main results (every one for an arbitrary vertex type with a reflected boolean equality,
    every well-formed acyclic [g], [u <> v], [u], [v] not in [Z]):
      [moral_separation_iff_dsep]  Lauritzen, Dawid, Larsen & Leimer (1990) for two nodes:
                                   [dsep g [u] [v] Z <-> ~ mconn g D Z u v] for every [D] that
                                   is, as a set, the ancestral closure of [{u, v}] and [Z];
      [moral_sepb_correct]         the executable moral-graph test equals [dsepb];
      [moral_reach_spec], [bfs_marks_spec]  [grow] with fuel [length D] computes the region
                                   reachable in the moral graph minus the check set, and
                                   [bfs_marks] its marked boundary;
      [min_dsep_set_min_sep] / [min_dsep_set_correct : min_dsep_set_statement eqb]   (T1)
      [min_sep_char]               the separators from which no single node can be removed;
      [min_sep_iff_inclusion_minimal]  "no single node can be removed" = "no proper subset
                                   d-separates"; [min_dsep_set_inclusion_minimal];
      [nx_min_sepb_eq] / [nx_min_sepb_correct : nx_min_sepb_statement eqb]           (T2)

    Proof architecture.  Active walks ([wact], vertices may repeat, a collider is open when it
    is in [Z] or has a descendant in [Z]) sit between paths and the moral graph:
      active path -> moral walk        [active_path_mconn]   (every vertex of an active path is
                                        in the ancestral set: [out_walk])
      moral walk  -> active walk       [mconn_active_walk]   (a marriage whose common child is
                                        not an ancestor of [Z] is replaced by a directed path
                                        from the child to [u] or to [v]: [resolve])
      active walk -> active path       [walk_to_path]        (cut closed sub-walks:
                                        [shortcut_jok])
    and [~ blocked g Z p <-> wact g Z p] ([wact_iff_not_blocked]).

    Validation against the real library (scratch runs, networkx 3.2.1): [moral_sepb] =
    [dsepb] = CausalGraph.is_d_separated and [anc_set] = ancestors-or-self on 1800 random
    (DAG, u, v, Z) instances with 4-8 nodes; the 9-node example at the end of this file pins
    get_d_separation_set / is_d_separated / is_minimally_d_separated answers. *)
From Coq Require Import Relations.Relation_Operators Relations.Operators_Properties Arith.
From CG Require Import Base Digraph DSep Moral DigraphProofs DSepProofs.
Set Implicit Arguments.

Section MoralProofs.
  Variable A : Type.
  Variable eqb : A -> A -> bool.
  Hypothesis eqb_spec : forall x y, reflect (x = y) (eqb x y).

  Notation memb := (Digraph.memb eqb).
  Notation union := (Digraph.union eqb).
  Notation children := (Digraph.children eqb).
  Notation parents := (Digraph.parents eqb).
  Notation has_arc := (Digraph.has_arc eqb).
  Notation anc := (Digraph.anc eqb).
  Notation dchain := DigraphProofs.chain.
  Notation uchain := DSep.chain.
  Notation Xmemb_reflect := (@memb_reflect A eqb eqb_spec).
  Notation Xhas_arc_spec := (@has_arc_spec A eqb eqb_spec).
  Notation Xhas_arc_false := (@has_arc_false A eqb eqb_spec).
  Notation Xpath_dec := (@path_dec A eqb eqb_spec).
  Notation Xmemb_in := (@memb_in A eqb eqb_spec).
  Notation Xeqb_neq := (@eqb_neq A eqb eqb_spec).
  Notation Xchildren_in := (@children_in A eqb eqb_spec).

  (** * Layer 1: decidability, the moral adjacency test *)

  Lemma mo_in_dec (x : A) l : In x l \/ ~ In x l.
  Proof. destruct (Xmemb_reflect x l); [left|right]; assumption. Qed.

  Lemma mo_eq_dec (x y : A) : x = y \/ x <> y.
  Proof. destruct (eqb_spec x y); [left|right]; assumption. Qed.

  Lemma mo_arc_dec (g : digraph A) a b : arc g a b \/ ~ arc g a b.
  Proof.
    destruct (has_arc g a b) eqn:E.
    - left; apply Xhas_arc_spec; exact E.
    - right; apply Xhas_arc_false; exact E.
  Qed.

  Lemma mo_collider_dec (g : digraph A) a b c : collider_at g a b c \/ ~ collider_at g a b c.
  Proof.
    unfold collider_at.
    destruct (mo_arc_dec g a b) as [H1|H1], (mo_arc_dec g c b) as [H2|H2]; tauto.
  Qed.

  Lemma mo_desc_in_dec (g : digraph A) Z b : wf g ->
    (exists z, In z Z /\ path g b z) \/ ~ (exists z, In z Z /\ path g b z).
  Proof.
    intros Hwf; induction Z as [|a Z IH].
    - right; intros (z & [] & _).
    - destruct IH as [(z & Hz & Hp)|IH]; [left; exists z; split; [right; exact Hz|exact Hp]|].
      destruct (Xpath_dec b a Hwf) as [Hp|Hn].
      + left; exists a; split; [left; reflexivity|exact Hp].
      + right; intros (z & [<-|Hz] & Hp); [contradiction|]. apply IH; exists z; split; assumption.
  Qed.

  Lemma mo_anZ_dec (g : digraph A) Z b : wf g -> anZ g Z b \/ ~ anZ g Z b.
  Proof.
    intros Hwf; unfold anZ.
    destruct (mo_in_dec b Z) as [H|H]; [left; left; exact H|].
    destruct (mo_desc_in_dec Z b Hwf) as [H2|H2]; [left; right; exact H2|right; tauto].
  Qed.

  Lemma anZ_anc (g : digraph A) Z a b : arc g a b -> anZ g Z b -> anZ g Z a.
  Proof.
    intros Hab [Hb|(z & Hz & Hp)]; right.
    - exists b; split; [exact Hb|apply t_step; exact Hab].
    - exists z; split; [exact Hz|eapply t_trans; [apply t_step; exact Hab|exact Hp]].
  Qed.

  Lemma anZ_path (g : digraph A) Z a b : path g a b -> anZ g Z b -> anZ g Z a.
  Proof.
    intros Hp; apply clos_trans_t1n in Hp; induction Hp as [a b Hab|a b c Hab _ IH]; intros H.
    - eapply anZ_anc; eassumption.
    - eapply anZ_anc; [exact Hab|apply IH, H].
  Qed.

  Lemma mo_no2cycle (g : digraph A) a b : acyclic g -> arc g a b -> arc g b a -> False.
  Proof. intros Hac H1 H2; apply (Hac a); eapply t_trans; apply t_step; eassumption. Qed.

  Lemma mo_noloop (g : digraph A) a : acyclic g -> ~ arc g a a.
  Proof. intros Hac H; apply (Hac a), t_step, H. Qed.

  Lemma moral_adjb_spec (g : digraph A) D a b :
    moral_adjb eqb g D a b = true <-> madj g D a b.
  Proof.
    unfold moral_adjb, madj.
    rewrite !andb_true_iff, !orb_true_iff, negb_true_iff, !Xmemb_in,
      !Xhas_arc_spec, Xeqb_neq, existsb_exists.
    split.
    - intros [[[Ha Hb] Hn] H]; repeat split; try assumption.
      destruct H as [[H|H]|(c & Hc & Hm)]; [left; exact H|right; left; exact H|].
      right; right; exists c. apply andb_true_iff in Hm; destruct Hm as [Hm1 Hm2].
      apply Xmemb_in in Hm1. apply Xhas_arc_spec in Hm2.
      apply Xchildren_in in Hc. repeat split; assumption.
    - intros (Ha & Hb & Hn & H); repeat split; try assumption.
      destruct H as [H|[H|(c & Hc & Hac & Hbc)]]; [left; left; exact H|left; right; exact H|].
      right; exists c; split; [apply Xchildren_in; exact Hac|].
      apply andb_true_iff; split;
        [apply Xmemb_in; exact Hc|apply Xhas_arc_spec; exact Hbc].
  Qed.

  Lemma madj_sym (g : digraph A) D a b : madj g D a b -> madj g D b a.
  Proof.
    intros (Ha & Hb & Hn & H); repeat split; try assumption; [congruence|].
    destruct H as [H|[H|(c & Hc & H1 & H2)]]; [right; left; exact H|left; exact H|].
    right; right; exists c; repeat split; assumption.
  Qed.

  Lemma madj_mono (g : digraph A) D D' a b : incl D D' -> madj g D a b -> madj g D' a b.
  Proof.
    intros Hi (Ha & Hb & Hn & H); repeat split; try (apply Hi; assumption); [exact Hn|].
    destruct H as [H|[H|(c & Hc & H1 & H2)]]; [left; exact H|right; left; exact H|].
    right; right; exists c; repeat split; try assumption. apply Hi, Hc.
  Qed.

  (** * Layer 2: moral connectivity *)

  Lemma mstep_sym (g : digraph A) D Z a b : mstep g D Z a b -> mstep g D Z b a.
  Proof. intros (H & Ha & Hb); split; [apply madj_sym, H|split; assumption]. Qed.

  Lemma mconn_sym (g : digraph A) D Z a b : mconn g D Z a b -> mconn g D Z b a.
  Proof.
    intros H; induction H as [a b H| |a b c _ IH1 _ IH2].
    - apply rt_step, mstep_sym, H.
    - apply rt_refl.
    - eapply rt_trans; eassumption.
  Qed.

  Lemma mconn_step_r (g : digraph A) D Z a b c :
    mconn g D Z a b -> mstep g D Z b c -> mconn g D Z a c.
  Proof. intros H1 H2; eapply rt_trans; [exact H1|apply rt_step, H2]. Qed.

  Lemma mconn_step_l (g : digraph A) D Z a b c :
    mstep g D Z a b -> mconn g D Z b c -> mconn g D Z a c.
  Proof. intros H1 H2; eapply rt_trans; [apply rt_step, H1|exact H2]. Qed.

  (** Monotone in the avoided set and in the vertex set. *)
  Lemma mconn_mono (g : digraph A) D D' Z Z' a b :
    incl D D' -> incl Z' Z -> mconn g D Z a b -> mconn g D' Z' a b.
  Proof.
    intros HD HZ H; induction H as [a b (H & Ha & Hb)| |a b c _ IH1 _ IH2].
    - apply rt_step; split; [eapply madj_mono; eassumption|].
      split; intros Hin; [apply Ha|apply Hb]; apply HZ, Hin.
    - apply rt_refl.
    - eapply rt_trans; eassumption.
  Qed.

  (** The end of a non-trivial walk avoids [Z] and lies in [D]. *)
  Lemma mconn_end (g : digraph A) D Z a b :
    mconn g D Z a b -> a = b \/ (In b D /\ ~ In b Z /\ In a D /\ ~ In a Z).
  Proof.
    intros H; induction H as [a b ((Ha & Hb & _) & Hza & Hzb)| |a b c _ IH1 _ IH2].
    - right; tauto.
    - left; reflexivity.
    - destruct IH1 as [->|IH1]; [exact IH2|]. destruct IH2 as [<-|IH2]; [right; exact IH1|].
      right; tauto.
  Qed.
  (** * Layer 3: walks (vertex sequences with consecutive vertices adjacent) *)

  Lemma uchain_cons2 (g : digraph A) a b t :
    uchain g (a :: b :: t) <-> adj g a b /\ uchain g (b :: t).
  Proof. reflexivity. Qed.

  Lemma uchain_tail (g : digraph A) a t : uchain g (a :: t) -> uchain g t.
  Proof. destruct t as [|b t]; [intros _; exact I|intros H; exact (proj2 H)]. Qed.

  Lemma uchain_app_r (g : digraph A) l r : uchain g (l ++ r) -> uchain g r.
  Proof.
    induction l as [|a l IH]; [trivial|]. intros H; apply IH.
    rewrite <- app_comm_cons in H. eapply uchain_tail; exact H.
  Qed.

  Lemma uchain_app_l (g : digraph A) l r : uchain g (l ++ r) -> uchain g l.
  Proof.
    induction l as [|a l IH]; [intros _; exact I|].
    destruct l as [|b l]; [intros _; exact I|].
    intros H. change (adj g a b /\ uchain g ((b :: l) ++ r)) in H.
    apply uchain_cons2; split; [tauto|apply IH; tauto].
  Qed.

  Lemma uchain_join (g : digraph A) l x r :
    uchain g (l ++ [x]) -> uchain g (x :: r) -> uchain g (l ++ x :: r).
  Proof.
    induction l as [|a l IH]; [intros _ H; exact H|].
    destruct l as [|b l]; intros H1 H2.
    - change (adj g a x /\ uchain g (x :: r)).
      change (adj g a x /\ True) in H1. tauto.
    - change (adj g a b /\ uchain g ((b :: l) ++ x :: r)).
      change (adj g a b /\ uchain g ((b :: l) ++ [x])) in H1. split; [tauto|apply IH; tauto].
  Qed.

  Lemma wact2_app_l (g : digraph A) Z r1 r2 : forall a b,
    wact2 g Z a b (r1 ++ r2) -> wact2 g Z a b r1.
  Proof.
    induction r1 as [|c r1 IH]; intros a b H; [exact I|].
    destruct H as [H1 H2]; split; [exact H1|apply IH, H2].
  Qed.

  Lemma wact_tail (g : digraph A) Z a t : wact g Z (a :: t) -> wact g Z t.
  Proof.
    destruct t as [|b [|c r]]; try (intros _; exact I). intros [_ H]; exact H.
  Qed.

  Lemma wact_app_r (g : digraph A) Z l r : wact g Z (l ++ r) -> wact g Z r.
  Proof.
    induction l as [|a l IH]; [trivial|]. intros H; apply IH.
    rewrite <- app_comm_cons in H. eapply wact_tail; exact H.
  Qed.

  Lemma wact_app_l (g : digraph A) Z l r : wact g Z (l ++ r) -> wact g Z l.
  Proof.
    destruct l as [|a [|b l]]; try (intros _; exact I). apply wact2_app_l.
  Qed.

  Lemma wact2_join (g : digraph A) Z l a x b r : forall y y2,
    wact2 g Z y y2 (l ++ [a; x]) -> jok g Z a x b -> wact2 g Z x b r ->
    wact2 g Z y y2 (l ++ a :: x :: b :: r).
  Proof.
    induction l as [|y3 l IH]; intros y y2 H1 Hj H2.
    - destruct H1 as (Ha & Hb & _). split; [exact Ha|split; [exact Hb|split; [exact Hj|exact H2]]].
    - destruct H1 as [Ha Hb]. split; [exact Ha|apply IH; assumption].
  Qed.

  Lemma wact_join (g : digraph A) Z l a x b r :
    wact g Z (l ++ [a; x]) -> jok g Z a x b -> wact g Z (x :: b :: r) ->
    wact g Z (l ++ a :: x :: b :: r).
  Proof.
    destruct l as [|y [|y2 l]]; intros H1 Hj H2.
    - split; [exact Hj|exact H2].
    - destruct H1 as [Ha _]. split; [exact Ha|]. split; [exact Hj|exact H2].
    - apply (@wact2_join g Z l a x b r y y2); assumption.
  Qed.

  Lemma wact_mid (g : digraph A) Z l a x b r : wact g Z (l ++ a :: x :: b :: r) -> jok g Z a x b.
  Proof. intros H; apply wact_app_r in H. destruct H as [H _]; exact H. Qed.

  Lemma wact_cons (g : digraph A) Z y x t :
    wact g Z (x :: t) -> (forall c r, t = c :: r -> jok g Z y x c) -> wact g Z (y :: x :: t).
  Proof.
    destruct t as [|c r]; intros H1 H2; [exact I|].
    split; [apply (H2 c r); reflexivity|exact H1].
  Qed.

  Lemma jok_iff (g : digraph A) Z a b c : wf g -> (jok g Z a b c <-> ~ triple_blocks g Z a b c).
  Proof.
    intros Hwf; unfold jok, triple_blocks; split.
    - intros [H1 H2] [(Hc & Hb & Hd)|[Hc Hb]].
      + destruct (H1 Hc) as [H|(z & Hz & Hp)]; [contradiction|exact (Hd z Hz Hp)].
      + exact (H2 Hc Hb).
    - intros Hn; split.
      + intros Hc. destruct (mo_anZ_dec Z b Hwf) as [H|H]; [exact H|exfalso].
        apply Hn; left; split; [exact Hc|]. split.
        * intros Hb; apply H; left; exact Hb.
        * intros z Hz Hp; apply H; right; exists z; split; assumption.
      + intros Hc Hb; apply Hn; right; split; assumption.
  Qed.

  Lemma wact2_of_not_blocked (g : digraph A) Z : wf g -> forall r a b,
    ~ blocked g Z (a :: b :: r) -> wact2 g Z a b r.
  Proof.
    intros Hwf; induction r as [|c r IH]; intros a b Hn; [exact I|]. split.
    - apply jok_iff; [exact Hwf|]. intros Ht; apply Hn.
      exists [], a, b, c, r; split; [reflexivity|exact Ht].
    - apply IH. intros (l & a' & b' & c' & r' & E & Ht); apply Hn.
      exists (a :: l), a', b', c', r'; split; [simpl; rewrite E; reflexivity|exact Ht].
  Qed.

  Lemma wact_iff_not_blocked (g : digraph A) Z p : wf g -> (wact g Z p <-> ~ blocked g Z p).
  Proof.
    intros Hwf; split.
    - intros Hw (l & a & b & c & r & -> & Ht).
      apply wact_mid in Hw. apply (jok_iff Z a b c Hwf) in Hw. exact (Hw Ht).
    - intros Hn. destruct p as [|a [|b r]]; try exact I.
      apply wact2_of_not_blocked; assumption.
  Qed.

  Lemma wact_rev (g : digraph A) Z p : wf g -> wact g Z p -> wact g Z (rev p).
  Proof.
    intros Hwf H. apply wact_iff_not_blocked; [exact Hwf|]. intros Hb.
    apply ds_blocked_rev in Hb. rewrite rev_involutive in Hb.
    apply (wact_iff_not_blocked Z p Hwf) in H. exact (H Hb).
  Qed.

  (** A walk that leaves its first vertex along an arc either follows arcs all the way to its
      end or meets a collider, which is then an ancestor of [Z]. *)
  Lemma out_walk (g : digraph A) Z : forall r x0 x1 y,
    arc g x0 x1 -> uchain g (x0 :: x1 :: r) -> wact2 g Z x0 x1 r ->
    last_error (x0 :: x1 :: r) = Some y ->
    path g x0 y \/ exists z, In z Z /\ path g x0 z.
  Proof.
    induction r as [|x2 r IH]; intros x0 x1 y Ha Hc Hw Hl.
    - simpl in Hl. injection Hl as <-. left; apply t_step, Ha.
    - apply uchain_cons2 in Hc; destruct Hc as [_ Hc].
      destruct Hw as [Hj Hw]. rewrite ds_last_error_cons in Hl.
      destruct (mo_arc_dec g x2 x1) as [H21|H21].
      + right. destruct Hj as [Hj _]. destruct (Hj (conj Ha H21)) as [Hz|(z & Hz & Hp)].
        * exists x1; split; [exact Hz|apply t_step, Ha].
        * exists z; split; [exact Hz|eapply t_trans; [apply t_step, Ha|exact Hp]].
      + assert (H12 : arc g x1 x2).
        { apply uchain_cons2 in Hc. destruct Hc as [[H|H] _]; [exact H|contradiction]. }
        destruct (IH x1 x2 y H12 Hc Hw Hl) as [Hp|(z & Hz & Hp)].
        * left; eapply t_trans; [apply t_step, Ha|exact Hp].
        * right; exists z; split; [exact Hz|eapply t_trans; [apply t_step, Ha|exact Hp]].
  Qed.

  (** * Layer 4: an active path yields a walk in the moral graph avoiding [Z] *)

  Lemma closed_path (g : digraph A) D a b : anc_closed g D -> path g a b -> In b D -> In a D.
  Proof.
    intros Hcl Hp; apply clos_trans_t1n in Hp; induction Hp as [a b Hab|a b c Hab _ IH]; intros Hb.
    - eapply Hcl; eassumption.
    - eapply Hcl; [exact Hab|apply IH, Hb].
  Qed.

  Lemma closed_anZ (g : digraph A) D Z b : anc_closed g D -> incl Z D -> anZ g Z b -> In b D.
  Proof.
    intros Hcl Hi [Hb|(z & Hz & Hp)]; [apply Hi, Hb|].
    eapply closed_path; [exact Hcl|exact Hp|apply Hi, Hz].
  Qed.

  Lemma active_path_mconn (g : digraph A) D Z v : wf g -> acyclic g ->
    anc_closed g D -> incl Z D -> In v D -> ~ In v Z ->
    forall n p, length p <= n -> forall x0 x1 r, p = x0 :: x1 :: r ->
      NoDup p -> uchain g p -> wact g Z p -> In x0 D -> ~ In x0 Z ->
      last_error p = Some v -> mconn g D Z x0 v.
  Proof.
    intros Hwf Hac Hcl HZD HvD HvZ; induction n as [|n IH];
      intros p Hlen x0 x1 r -> Hnd Hc Hw Hx0D Hx0Z Hl; [simpl in Hlen; lia|].
    apply uchain_cons2 in Hc; destruct Hc as [Hadj Hc].
    assert (Hne01 : x0 <> x1).
    { inversion Hnd as [|? ? Hnin _]; subst. intros ->; apply Hnin; left; reflexivity. }
    destruct r as [|x2 r].
    - simpl in Hl; injection Hl as ->. apply rt_step. split; [|split; assumption].
      split; [exact Hx0D|]. split; [exact HvD|]. split; [exact Hne01|].
      destruct Hadj as [H|H]; [left; exact H|right; left; exact H].
    - destruct Hw as [Hj Hw]. rewrite ds_last_error_cons in Hl.
      assert (Hnd1 : NoDup (x1 :: x2 :: r)) by (inversion Hnd; assumption).
      apply uchain_cons2 in Hc as Hc'; destruct Hc' as [Hadj12 Hc2].
      destruct (mo_collider_dec g x0 x1 x2) as [Hcol|Hcol].
      + destruct Hcol as [H01 H21].
        assert (Hx1D : In x1 D).
        { eapply closed_anZ; [exact Hcl|exact HZD|]. apply (proj1 Hj). split; assumption. }
        assert (Hx2D : In x2 D) by (eapply Hcl; eassumption).
        assert (Hne02 : x0 <> x2).
        { inversion Hnd as [|? ? Hnin _]; subst. intros ->; apply Hnin; right; left; reflexivity. }
        assert (Hm : madj g D x0 x2).
        { split; [exact Hx0D|]. split; [exact Hx2D|]. split; [exact Hne02|].
          right; right; exists x1; repeat split; assumption. }
        destruct r as [|x3 r].
        * simpl in Hl; injection Hl as ->. apply rt_step; split; [exact Hm|split; assumption].
        * assert (Hx2Z : ~ In x2 Z).
          { pose proof Hw as [[_ Hj2] _]. apply Hj2. intros [H12 _].
            exact (@mo_no2cycle g x1 x2 Hac H12 H21). }
          eapply mconn_step_l; [split; [exact Hm|split; assumption]|].
          apply (IH (x2 :: x3 :: r)) with (x1 := x3) (r := r); try assumption; try reflexivity.
          -- simpl in Hlen |- *; lia.
          -- inversion Hnd1; assumption.
          -- destruct Hw as [_ Hw]; exact Hw.
      + assert (Hx1Z : ~ In x1 Z) by (apply (proj2 Hj), Hcol).
        assert (Hx1D : In x1 D).
        { destruct (mo_arc_dec g x1 x0) as [H10|H10]; [eapply Hcl; eassumption|].
          assert (H01 : arc g x0 x1) by (destruct Hadj as [H|H]; [exact H|contradiction]).
          assert (H12 : arc g x1 x2).
          { destruct Hadj12 as [H|H]; [exact H|]. exfalso; apply Hcol; split; assumption. }
          destruct (@out_walk g Z r x1 x2 v H12 Hc Hw Hl) as [Hp|(z & Hz & Hp)].
          - eapply closed_path; eassumption.
          - eapply closed_path; [exact Hcl|exact Hp|apply HZD, Hz]. }
        eapply mconn_step_l.
        * split; [|split; [exact Hx0Z|exact Hx1Z]].
          split; [exact Hx0D|]. split; [exact Hx1D|]. split; [exact Hne01|].
          destruct Hadj as [H|H]; [left; exact H|right; left; exact H].
        * apply (IH (x1 :: x2 :: r)) with (x1 := x2) (r := r); try assumption; try reflexivity.
          simpl in Hlen |- *; lia.
  Qed.

  (** * Layer 5: a walk in the moral graph avoiding [Z] yields an active walk

      Walks are built backwards: [gwalk g Z u x t] says that [x :: t] is an active walk from
      [x] to [u]; [ext g Z x t] says that it can be continued from [x] along an arc in either
      direction (its first step leaves [x] along an arc, or [x] is an ancestor of [Z]). *)

  Definition gwalk (g : digraph A) (Z : list A) (u x : A) (t : list A) : Prop :=
    uchain g (x :: t) /\ wact g Z (x :: t) /\ last_error (x :: t) = Some u.

  Definition ext (g : digraph A) (Z : list A) (x : A) (t : list A) : Prop :=
    match t with y :: _ => arc g x y \/ anZ g Z x | [] => True end.

  Lemma gwalk_cons (g : digraph A) Z u x t y :
    gwalk g Z u x t -> adj g y x -> (forall w t', t = w :: t' -> jok g Z y x w) ->
    gwalk g Z u y (x :: t).
  Proof.
    intros (Hc & Hw & Hl) Hadj Hj. split; [|split].
    - apply uchain_cons2; split; assumption.
    - apply wact_cons; assumption.
    - rewrite ds_last_error_cons; exact Hl.
  Qed.

  Lemma gwalk_cons_ext (g : digraph A) Z u x t y : acyclic g ->
    gwalk g Z u x t -> ~ In x Z -> adj g y x -> (arc g x y \/ ext g Z x t) ->
    gwalk g Z u y (x :: t).
  Proof.
    intros Hac Hg HxZ Hadj He. apply gwalk_cons; [exact Hg|exact Hadj|].
    intros w t' ->. split; [|intros _; exact HxZ].
    intros [Hyx Hwx]. destruct He as [Hxy|[Hxw|Hz]].
    - exfalso; exact (@mo_no2cycle g x y Hac Hxy Hyx).
    - exfalso; exact (@mo_no2cycle g x w Hac Hxw Hwx).
    - exact Hz.
  Qed.

  Lemma gwalk_cons_col (g : digraph A) Z u x w t y :
    gwalk g Z u x (w :: t) -> arc g w x -> arc g y x -> anZ g Z x ->
    gwalk g Z u y (x :: w :: t).
  Proof.
    intros Hg Hwx Hyx Hz. apply gwalk_cons; [exact Hg|left; exact Hyx|].
    intros w' t' E; injection E as <- <-. split; [intros _; exact Hz|].
    intros Hn; exfalso; apply Hn; split; assumption.
  Qed.

  (** Follow a directed path downwards from the head of a walk. *)
  Lemma dchain_down (g : digraph A) Z u : acyclic g -> forall l c t,
    gwalk g Z u c t -> ~ In c Z -> dchain g c l -> (forall y, In y l -> ~ In y Z) ->
    exists t', gwalk g Z u (last l c) t'.
  Proof.
    intros Hac; induction l as [|y l IH]; intros c t Hg HcZ Hd Hl; [exists t; exact Hg|].
    destruct Hd as [Hcy Hd]. rewrite last_cons.
    apply (IH y (c :: t)); [|apply Hl; left; reflexivity|exact Hd|intros z Hz; apply Hl; right; exact Hz].
    apply gwalk_cons_ext; [exact Hac|exact Hg|exact HcZ|right; exact Hcy|left; exact Hcy].
  Qed.

  (** A directed path to [u], read as a walk towards [u]. *)
  Lemma dchain_up (g : digraph A) Z u : acyclic g -> forall l c,
    dchain g c l -> last l c = u -> (forall y, In y l -> ~ In y Z) ->
    gwalk g Z u c l /\ ext g Z c l.
  Proof.
    intros Hac; induction l as [|y l IH]; intros c Hd Hl HZ.
    - simpl in Hl; subst c. split; [|exact I]. split; [exact I|split; [exact I|reflexivity]].
    - destruct Hd as [Hcy Hd]. rewrite last_cons in Hl.
      destruct (IH y Hd Hl) as [Hg He]; [intros z Hz; apply HZ; right; exact Hz|].
      split; [|left; exact Hcy].
      apply gwalk_cons_ext; [exact Hac|exact Hg|apply HZ; left; reflexivity|left; exact Hcy|right; exact He].
  Qed.

  Lemma not_anZ_dchain (g : digraph A) Z : forall l c,
    ~ anZ g Z c -> dchain g c l -> forall y, In y l -> ~ In y Z.
  Proof.
    induction l as [|a l IH]; intros c Hn Hd y Hy; [contradiction|].
    destruct Hd as [Hca Hd].
    assert (Hna : ~ anZ g Z a) by (intros H; apply Hn; eapply anZ_anc; eassumption).
    destruct Hy as [<-|Hy]; [intros H; apply Hna; left; exact H|].
    exact (IH a Hna Hd y Hy).
  Qed.

  (** A node of the ancestral set that is not an ancestor of [Z] and that is reached by an
      active walk either lets the walk run down to [v] or can be reached from [u] by a
      reversed directed path. *)
  Lemma resolve (g : digraph A) D Z u v c t : acyclic g ->
    (forall x, In x D -> in_anstar g u v Z x) ->
    gwalk g Z u c t -> In c D -> ~ anZ g Z c ->
    (exists t', gwalk g Z u v t') \/ (exists t', gwalk g Z u c t' /\ ext g Z c t').
  Proof.
    intros Hac HD Hg HcD Hn.
    assert (HcZ : ~ In c Z) by (intros H; apply Hn; left; exact H).
    assert (Hup : forall l, dchain g c l -> last l c = u ->
                   exists t', gwalk g Z u c t' /\ ext g Z c t').
    { intros l Hd Hl. exists l. apply dchain_up; [exact Hac|exact Hd|exact Hl|].
      eapply not_anZ_dchain; eassumption. }
    assert (Hdown : forall l, dchain g c l -> last l c = v -> exists t', gwalk g Z u v t').
    { intros l Hd Hl. rewrite <- Hl. apply (@dchain_down g Z u Hac l c t); try assumption.
      eapply not_anZ_dchain; eassumption. }
    destruct (HD c HcD) as [E|[E|[Hp|[Hp|Hz]]]].
    - right; apply (Hup []); [exact I|exact E].
    - left; apply (Hdown []); [exact I|exact E].
    - right. apply path_chain in Hp; destruct Hp as (l & _ & Hd & Hl). exact (Hup l Hd Hl).
    - left. apply path_chain in Hp; destruct Hp as (l & _ & Hd & Hl). exact (Hdown l Hd Hl).
    - contradiction.
  Qed.

  Lemma mconn_active_walk (g : digraph A) D Z u v : wf g -> acyclic g ->
    (forall x, In x D -> in_anstar g u v Z x) ->
    forall x, mconn g D Z u x ->
      (exists t, gwalk g Z u v t) \/ (exists t, gwalk g Z u x t /\ ext g Z x t).
  Proof.
    intros Hwf Hac HD x H. apply clos_rt_rtn1 in H.
    induction H as [|y z Hst _ IH].
    - right; exists []. split; [|exact I]. split; [exact I|split; [exact I|reflexivity]].
    - destruct IH as [IH|(t & Hg & He)]; [left; exact IH|].
      destruct Hst as ((HyD & HzD & Hne & Hm) & HyZ & HzZ).
      destruct Hm as [Hyz|[Hzy|(c & HcD & Hyc & Hzc)]].
      + assert (Hg' : gwalk g Z u z (y :: t)).
        { apply gwalk_cons_ext; [exact Hac|exact Hg|exact HyZ|right; exact Hyz|left; exact Hyz]. }
        destruct (mo_anZ_dec Z z Hwf) as [Hz|Hz].
        * right; exists (y :: t); split; [exact Hg'|right; exact Hz].
        * exact (@resolve g D Z u v z (y :: t) Hac HD Hg' HzD Hz).
      + right; exists (y :: t); split; [|left; exact Hzy].
        apply gwalk_cons_ext; [exact Hac|exact Hg|exact HyZ|left; exact Hzy|right; exact He].
      + assert (Hg1 : gwalk g Z u c (y :: t)).
        { apply gwalk_cons_ext; [exact Hac|exact Hg|exact HyZ|right; exact Hyc|left; exact Hyc]. }
        destruct (mo_anZ_dec Z c Hwf) as [Hz|Hz].
        * right; exists (c :: y :: t); split; [|left; exact Hzc].
          apply gwalk_cons_col; assumption.
        * destruct (@resolve g D Z u v c (y :: t) Hac HD Hg1 HcD Hz) as [Hl|(t' & Hg2 & He2)];
            [left; exact Hl|].
          right; exists (c :: t'); split; [|left; exact Hzc].
          apply gwalk_cons_ext; [exact Hac|exact Hg2| |left; exact Hzc|right; exact He2].
          intros H; apply Hz; left; exact H.
  Qed.

  (** * Layer 6: an active walk can be cut down to an active path (no repeated vertex) *)

  Lemma dup_split (l : list A) :
    NoDup l \/ exists x l1 l2 l3, l = l1 ++ x :: l2 ++ x :: l3.
  Proof.
    induction l as [|a l IH]; [left; constructor|].
    destruct (mo_in_dec a l) as [Hin|Hin].
    - right. apply in_split in Hin; destruct Hin as (l2 & l3 & ->).
      exists a, [], l2, l3; reflexivity.
    - destruct IH as [IH|(x & l1 & l2 & l3 & ->)]; [left; constructor; assumption|].
      right; exists x, (a :: l1), l2, l3; reflexivity.
  Qed.

  Lemma last_error_app_cons (l : list A) a r : last_error (l ++ a :: r) = last_error (a :: r).
  Proof.
    induction l as [|b l IH]; [reflexivity|].
    rewrite <- app_comm_cons. destruct (l ++ a :: r) eqn:E; [destruct l; discriminate|].
    rewrite ds_last_error_cons; exact IH.
  Qed.

  (** The junction created by cutting out the closed sub-walk [w :: l2 ++ [w]]. *)
  Lemma shortcut_jok (g : digraph A) Z a w b l2 : acyclic g ->
    uchain g (a :: w :: l2 ++ [w; b]) -> wact g Z (a :: w :: l2 ++ [w; b]) -> jok g Z a w b.
  Proof.
    intros Hac Hc Hw. destruct l2 as [|x' l2'].
    - exfalso. apply uchain_cons2 in Hc; destruct Hc as [_ Hc].
      apply uchain_cons2 in Hc; destruct Hc as [[H|H] _]; exact (@mo_noloop g w Hac H).
    - destruct (exists_last (l := x' :: l2')) as (l2'' & y' & E); [discriminate|].
      assert (Hj1 : jok g Z a w x') by (destruct Hw as [H _]; exact H).
      assert (Hj2 : jok g Z y' w b).
      { apply (@wact_mid g Z (a :: w :: l2'') y' w b []).
        rewrite E in Hw. rewrite <- app_assoc in Hw. exact Hw. }
      assert (Hseg : forall (Hwx : arc g w x'), anZ g Z w).
      { intros Hwx.
        assert (Hc1 : uchain g (w :: x' :: l2' ++ [w])).
        { apply uchain_tail in Hc. apply (@uchain_app_l g (w :: x' :: l2' ++ [w]) [b]).
          simpl. rewrite <- app_assoc. exact Hc. }
        assert (Hw1 : wact2 g Z w x' (l2' ++ [w])).
        { destruct Hw as [_ Hw]. apply (@wact2_app_l g Z (l2' ++ [w]) [b]).
          rewrite <- app_assoc. exact Hw. }
        assert (Hl1 : last_error (w :: x' :: l2' ++ [w]) = Some w).
        { change (w :: x' :: l2' ++ [w]) with ((w :: x' :: l2') ++ [w]). apply ds_last_error_app. }
        destruct (@out_walk g Z (l2' ++ [w]) w x' w Hwx Hc1 Hw1 Hl1) as [Hp|(z & Hz & Hp)].
        - exfalso; exact (Hac w Hp).
        - right; exists z; split; assumption. }
      split.
      + intros [Haw Hbw]. destruct (mo_arc_dec g x' w) as [Hxw|Hxw].
        * apply (proj1 Hj1); split; assumption.
        * apply Hseg. apply uchain_cons2 in Hc; destruct Hc as [_ Hc].
          apply uchain_cons2 in Hc; destruct Hc as [[H|H] _]; [exact H|contradiction].
      + intros Hn HwZ. apply Hn.
        destruct (mo_collider_dec g a w x') as [[Haw _]|Hc1]; [|exfalso; exact (proj2 Hj1 Hc1 HwZ)].
        destruct (mo_collider_dec g y' w b) as [[_ Hbw]|Hc2]; [|exfalso; exact (proj2 Hj2 Hc2 HwZ)].
        split; assumption.
  Qed.

  Lemma shortcut (g : digraph A) Z w l1 l2 l3 : acyclic g ->
    uchain g (l1 ++ w :: l2 ++ w :: l3) -> wact g Z (l1 ++ w :: l2 ++ w :: l3) ->
    uchain g (l1 ++ w :: l3) /\ wact g Z (l1 ++ w :: l3).
  Proof.
    intros Hac Hc Hw.
    assert (Hc3 : uchain g (w :: l3)).
    { apply (@uchain_app_r g (l1 ++ w :: l2)). rewrite <- app_assoc. exact Hc. }
    assert (Hw3 : wact g Z (w :: l3)).
    { apply (@wact_app_r g Z (l1 ++ w :: l2)). rewrite <- app_assoc. exact Hw. }
    assert (Hc1 : uchain g (l1 ++ [w])).
    { apply (@uchain_app_l g (l1 ++ [w]) (l2 ++ w :: l3)). rewrite <- app_assoc. exact Hc. }
    assert (Hw1 : wact g Z (l1 ++ [w])).
    { apply (@wact_app_l g Z (l1 ++ [w]) (l2 ++ w :: l3)). rewrite <- app_assoc. exact Hw. }
    split; [apply uchain_join; assumption|].
    destruct l1 as [|a0 l1'] using rev_ind; [exact Hw3|clear IHl1'].
    destruct l3 as [|b l3']; [rewrite <- app_assoc in Hw1 |- *; exact Hw1|].
    rewrite <- app_assoc in Hw1 |- *. simpl in Hw1 |- *.
    apply wact_join; [exact Hw1| |exact Hw3].
    assert (E : (l1' ++ [a0]) ++ w :: l2 ++ w :: b :: l3'
                = l1' ++ (a0 :: w :: l2 ++ [w; b]) ++ l3').
    { rewrite <- !app_assoc. simpl. rewrite <- !app_assoc. reflexivity. }
    rewrite E in Hc, Hw.
    apply uchain_app_r, uchain_app_l in Hc. apply wact_app_r, wact_app_l in Hw.
    eapply shortcut_jok; eassumption.
  Qed.

  Lemma walk_to_path (g : digraph A) Z : acyclic g -> forall n p x y,
    length p <= n -> uchain g p -> wact g Z p ->
    hd_error p = Some x -> last_error p = Some y ->
    exists q, NoDup q /\ uchain g q /\ wact g Z q /\ hd_error q = Some x /\ last_error q = Some y.
  Proof.
    intros Hac; induction n as [|n IH]; intros p x y Hlen Hc Hw Hh Hl.
    - destruct p; [discriminate|simpl in Hlen; lia].
    - destruct (dup_split p) as [Hnd|(w & l1 & l2 & l3 & ->)].
      + exists p; repeat split; assumption.
      + destruct (@shortcut g Z w l1 l2 l3 Hac Hc Hw) as [Hc' Hw'].
        apply (IH (l1 ++ w :: l3) x y); try assumption.
        * rewrite !app_length in Hlen |- *. simpl in Hlen |- *. rewrite app_length in Hlen.
          simpl in Hlen. lia.
        * destruct l1; simpl in Hh |- *; exact Hh.
        * rewrite last_error_app_cons in Hl |- *.
          change (w :: l2 ++ w :: l3) with ((w :: l2) ++ w :: l3) in Hl.
          rewrite last_error_app_cons in Hl. exact Hl.
  Qed.

  (** * Layer 7: d-separation = separation in the moralised ancestral graph *)

  Lemma anstar_closed (g : digraph A) u v Z D : is_anstar g u v Z D -> anc_closed g D.
  Proof.
    intros HD a b Hab Hb. apply HD in Hb. apply HD.
    destruct Hb as [->|[->|[Hp|[Hp|Hz]]]].
    - right; right; left; apply t_step, Hab.
    - right; right; right; left; apply t_step, Hab.
    - right; right; left; eapply t_trans; [apply t_step, Hab|exact Hp].
    - right; right; right; left; eapply t_trans; [apply t_step, Hab|exact Hp].
    - right; right; right; right; eapply anZ_anc; eassumption.
  Qed.

  Lemma blocked_dec (g : digraph A) Z p : wf g -> blocked g Z p \/ ~ blocked g Z p.
  Proof.
    intros Hwf. destruct (blockedb eqb g Z p) eqn:E.
    - left; apply (@blockedb_spec A eqb eqb_spec g Z p Hwf); exact E.
    - right; intros H; apply (@blockedb_spec A eqb eqb_spec g Z p Hwf) in H; congruence.
  Qed.

  (** Lauritzen, Dawid, Larsen & Leimer (1990), for two single nodes: in a DAG, [Z]
      d-separates [u] from [v] iff [Z] separates them in the moral graph of the sub-DAG
      induced by [u], [v], [Z] and all their ancestors. *)
  Theorem moral_separation_iff_dsep (g : digraph A) u v Z D :
    wf g -> acyclic g -> u <> v -> ~ In u Z -> ~ In v Z -> is_anstar g u v Z D ->
    (dsep g [u] [v] Z <-> ~ mconn g D Z u v).
  Proof.
    intros Hwf Hac Huv HuZ HvZ HD; split.
    - intros Hd Hm.
      assert (Hg : exists t, gwalk g Z u v t).
      { destruct (@mconn_active_walk g D Z u v Hwf Hac (fun x Hx => proj1 (HD x) Hx) v Hm)
          as [H|(t & H & _)]; [exact H|exists t; exact H]. }
      destruct Hg as (t & Hc & Hw & Hl).
      destruct (@walk_to_path g Z Hac (length (v :: t)) (v :: t) v u (le_n _) Hc Hw eq_refl Hl)
        as (q & Hnd & Hcq & Hwq & Hhq & Hlq).
      apply (@wact_iff_not_blocked g Z q Hwf) in Hwq. apply Hwq.
      apply (proj1 (dsep_sym g [u] [v] Z) Hd v u q); simpl; auto.
      repeat split; try assumption.
      destruct q as [|a [|b q]]; simpl; try lia; [discriminate|].
      simpl in Hhq, Hlq. congruence.
    - intros Hn x y p [<-|[]] [<-|[]] (Hnd & Hlen & Hc) Hh Hl.
      destruct (blocked_dec Z p Hwf) as [Hb|Hb]; [exact Hb|exfalso; apply Hn].
      apply (wact_iff_not_blocked Z p Hwf) in Hb.
      destruct p as [|x0 [|x1 r]]; simpl in Hlen; try lia. injection Hh as ->.
      apply (@active_path_mconn g D Z v Hwf Hac (anstar_closed HD)) with
        (n := length (u :: x1 :: r)) (p := u :: x1 :: r) (x1 := x1) (r := r);
        try assumption; try reflexivity.
      + intros z Hz; apply HD; right; right; right; right; left; exact Hz.
      + apply HD; right; left; reflexivity.
      + apply HD; left; reflexivity.
  Qed.

  (** * Layer 8: [grow] / [bfs_marks] compute the region reachable in the moral graph and
      its marked boundary *)

  Notation Xunion_in := (@union_in A eqb eqb_spec).
  Notation Xunion_nodup := (@union_nodup A eqb eqb_spec).

  Definition gstep (g : digraph A) (D check R : list A) : list A :=
    union (filter (fun x => negb (memb x check)) (flat_map (moral_nbrs eqb g D) R)) R.

  Definition gclosed (g : digraph A) (D check R : list A) : Prop :=
    forall r x, In r R -> madj g D r x -> ~ In x check -> In x R.

  Lemma grow_S n (g : digraph A) D check R :
    grow eqb (S n) g D check R = grow eqb n g D check (gstep g D check R).
  Proof. reflexivity. Qed.

  Lemma gstep_in (g : digraph A) D check R x :
    In x (gstep g D check R) <->
    In x R \/ exists r, In r R /\ madj g D r x /\ ~ In x check.
  Proof.
    unfold gstep. rewrite Xunion_in, filter_In, in_flat_map, negb_true_iff, (memb_false eqb eqb_spec).
    split.
    - intros [[(r & Hr & Hx) Hc]|H]; [right|left; exact H].
      unfold moral_nbrs in Hx; apply filter_In in Hx; destruct Hx as [_ Hx].
      apply moral_adjb_spec in Hx. exists r; split; [exact Hr|split; [exact Hx|exact Hc]].
    - intros [H|(r & Hr & Hm & Hc)]; [right; exact H|left].
      split; [|exact Hc]. exists r; split; [exact Hr|].
      unfold moral_nbrs; apply filter_In; split; [destruct Hm as (_ & H & _); exact H|].
      apply moral_adjb_spec; exact Hm.
  Qed.

  Lemma gclosed_ext (g : digraph A) D check R R' :
    (forall x, In x R <-> In x R') -> gclosed g D check R -> gclosed g D check R'.
  Proof. intros E H r x Hr Hm Hc. apply E. apply (H r x); [apply E; exact Hr|exact Hm|exact Hc]. Qed.

  Lemma gclosed_step (g : digraph A) D check R :
    gclosed g D check R -> forall x, In x (gstep g D check R) <-> In x R.
  Proof.
    intros Hcl x; rewrite gstep_in; split; [|tauto].
    intros [H|(r & Hr & Hm & Hc)]; [exact H|exact (Hcl r x Hr Hm Hc)].
  Qed.

  Lemma gclosed_grow (g : digraph A) D check : forall n R,
    gclosed g D check R -> gclosed g D check (grow eqb n g D check R).
  Proof.
    induction n as [|n IH]; intros R Hcl; [exact Hcl|].
    rewrite grow_S; apply IH. eapply gclosed_ext; [|exact Hcl].
    intros x; symmetry; apply gclosed_step, Hcl.
  Qed.

  Lemma grow_mono (g : digraph A) D check : forall n R, incl R (grow eqb n g D check R).
  Proof.
    induction n as [|n IH]; intros R x Hx; [exact Hx|].
    rewrite grow_S; apply IH, gstep_in; left; exact Hx.
  Qed.

  Lemma grow_closed (g : digraph A) D check : NoDup D -> forall n R,
    NoDup R -> incl R D -> length D - length R <= n -> gclosed g D check (grow eqb n g D check R).
  Proof.
    intros HD; induction n as [|n IH]; intros R HR Hi Hlen.
    - intros r x _ (_ & Hx & _) _. simpl.
      apply (@NoDup_length_incl A R D HR); [lia|exact Hi|exact Hx].
    - rewrite grow_S.
      assert (HR' : NoDup (gstep g D check R)) by (apply Xunion_nodup; exact HR).
      assert (Hi' : incl (gstep g D check R) D).
      { intros x Hx; apply gstep_in in Hx; destruct Hx as [Hx|(r & _ & (_ & Hx & _) & _)];
          [apply Hi, Hx|exact Hx]. }
      pose proof (ds_union_length eqb
        (filter (fun x => negb (memb x check)) (flat_map (moral_nbrs eqb g D) R)) R) as Hle.
      fold (gstep g D check R) in Hle.
      destruct (Nat.eq_dec (length (gstep g D check R)) (length R)) as [E|E].
      + apply (@ds_union_length_eq A eqb eqb_spec) in E.
        assert (Hcl : gclosed g D check R).
        { intros r x Hr Hm Hc. apply E, filter_In; split.
          - apply in_flat_map; exists r; split; [exact Hr|].
            unfold moral_nbrs; apply filter_In; split; [destruct Hm as (_ & H & _); exact H|].
            apply moral_adjb_spec; exact Hm.
          - apply negb_true_iff, (memb_false eqb eqb_spec); exact Hc. }
        apply gclosed_grow. eapply gclosed_ext; [|exact Hcl].
        intros x; symmetry; apply gclosed_step, Hcl.
      + apply IH; [exact HR'|exact Hi'|lia].
  Qed.

  Lemma grow_sound (g : digraph A) D check s : forall n R,
    (forall x, In x R -> mconn g D check s x /\ ~ In x check) ->
    forall x, In x (grow eqb n g D check R) -> mconn g D check s x /\ ~ In x check.
  Proof.
    induction n as [|n IH]; intros R HR x Hx; [apply HR, Hx|].
    rewrite grow_S in Hx. apply (IH (gstep g D check R)); [|exact Hx].
    intros y Hy; apply gstep_in in Hy; destruct Hy as [Hy|(r & Hr & Hm & Hc)]; [apply HR, Hy|].
    destruct (HR r Hr) as [Hsr Hrc]. split; [|exact Hc].
    eapply mconn_step_r; [exact Hsr|]. split; [exact Hm|split; assumption].
  Qed.

  Theorem moral_reach_spec (g : digraph A) D Z s x : NoDup D -> In s D -> ~ In s Z ->
    (In x (moral_reach eqb g D Z s) <-> mconn g D Z s x).
  Proof.
    intros HD Hs HsZ; unfold moral_reach; split.
    - intros Hx. apply (@grow_sound g D Z s (length D) [s]); [|exact Hx].
      intros y [<-|[]]; split; [apply rt_refl|exact HsZ].
    - intros Hm.
      assert (Hcl : gclosed g D Z (grow eqb (length D) g D Z [s])).
      { apply grow_closed; [exact HD|constructor; [intros []|constructor]| |simpl; lia].
        intros y [<-|[]]; exact Hs. }
      assert (Hs' : In s (grow eqb (length D) g D Z [s])) by (apply grow_mono; left; reflexivity).
      apply clos_rt_rtn1_iff in Hm. induction Hm as [|y z (Hadj & _ & HzZ) _ IH]; [exact Hs'|].
      exact (Hcl y z IH Hadj HzZ).
  Qed.

  Theorem bfs_marks_spec (g : digraph A) D s check z : NoDup D -> In s D -> ~ In s check ->
    (In z (bfs_marks eqb g D s check) <-> In z check /\ touches g D check s z).
  Proof.
    intros HD Hs Hsc. unfold bfs_marks, touches.
    change (grow eqb (length D) g D check [s]) with (moral_reach eqb g D check s).
    rewrite filter_In, existsb_exists. split.
    - intros [Hz (r & Hr & Hm)]. split; [exact Hz|]. exists r; split.
      + apply moral_reach_spec in Hr; assumption.
      + apply moral_adjb_spec; exact Hm.
    - intros [Hz (r & Hr & Hm)]. split; [exact Hz|]. exists r; split.
      + apply moral_reach_spec; assumption.
      + apply moral_adjb_spec; exact Hm.
  Qed.

  (** * Layer 9: the executable moral-graph test decides d-separation *)

  Notation Xanc_spec := (@anc_spec A eqb eqb_spec).

  Lemma anc_set_in (g : digraph A) xs x : wf g ->
    (In x (anc_set eqb g xs) <-> In x xs \/ exists y, In y xs /\ path g x y).
  Proof.
    intros Hwf; unfold anc_set. rewrite !Xunion_in, in_flat_map. split.
    - intros [(y & Hy & Hx)|[H|[]]]; [right|left; exact H].
      exists y; split; [exact Hy|apply (Xanc_spec y x Hwf); exact Hx].
    - intros [H|(y & Hy & Hp)]; [right; left; exact H|left].
      exists y; split; [exact Hy|apply (Xanc_spec y x Hwf); exact Hp].
  Qed.

  Lemma anc_set_nodup (g : digraph A) xs : NoDup (anc_set eqb g xs).
  Proof. unfold anc_set; apply Xunion_nodup, Xunion_nodup; constructor. Qed.

  Lemma anc_set_anstar (g : digraph A) u v Z : wf g ->
    is_anstar g u v Z (anc_set eqb g (u :: v :: Z)).
  Proof.
    intros Hwf x; rewrite (anc_set_in (u :: v :: Z) x Hwf); unfold in_anstar, anZ; simpl; split.
    - intros [[H|[H|H]]|(y & [<-|[<-|Hy]] & Hp)]; auto 6.
      right; right; right; right; right; exists y; split; assumption.
    - intros [->|[->|[H|[H|[H|(z & Hz & Hp)]]]]]; auto.
      + right; exists u; auto.
      + right; exists v; auto.
      + right; exists z; auto.
  Qed.

  Lemma mconn_dec (g : digraph A) D Z s x : NoDup D -> In s D -> ~ In s Z ->
    mconn g D Z s x \/ ~ mconn g D Z s x.
  Proof.
    intros HD Hs HsZ. destruct (mo_in_dec x (moral_reach eqb g D Z s)) as [H|H].
    - left; apply moral_reach_spec in H; assumption.
    - right; intros Hm; apply H; apply moral_reach_spec; assumption.
  Qed.

  (** The linear-time test (ancestral set, moralisation, reachability) agrees with the
      path-enumerating checker of DSep.v. *)
  Theorem moral_sepb_correct (g : digraph A) u v Z :
    wf g -> acyclic g -> u <> v -> ~ In u Z -> ~ In v Z ->
    moral_sepb eqb g u v Z = dsepb eqb g [u] [v] Z.
  Proof.
    intros Hwf Hac Huv HuZ HvZ. apply eq_true_iff_eq. unfold moral_sepb.
    rewrite negb_true_iff, (memb_false eqb eqb_spec), (@dsepb_correct A eqb eqb_spec g [u] [v] Z Hwf).
    pose proof (anc_set_anstar u v Z Hwf) as HD.
    rewrite (moral_separation_iff_dsep Hwf Hac Huv HuZ HvZ HD).
    rewrite moral_reach_spec; [tauto|apply anc_set_nodup| |exact HuZ].
    apply HD; left; reflexivity.
  Qed.

  (** * Layer 10: separators of an undirected graph *)

  Notation Xrem_in := (@ds_rem_in A eqb eqb_spec).

  Lemma mconn_start_notin (g : digraph A) D Z s x : ~ In s Z -> mconn g D Z s x -> ~ In x Z.
  Proof. intros Hs H; destruct (mconn_end H) as [<-|(_ & H' & _)]; assumption. Qed.

  (** A node of [Z] touching both components re-connects them when removed. *)
  Lemma touches_conn (g : digraph A) D Z u v z : ~ In u Z -> ~ In v Z ->
    touches g D Z u z -> touches g D Z v z -> mconn g D (rem eqb z Z) u v.
  Proof.
    intros Hu Hv (ru & Hru & Hmu) (rv & Hrv & Hmv).
    assert (Hi : incl (rem eqb z Z) Z) by (intros w Hw; apply Xrem_in in Hw; tauto).
    assert (Hz : ~ In z (rem eqb z Z)) by (intros H; apply Xrem_in in H; tauto).
    assert (Hru' : ~ In ru (rem eqb z Z)).
    { intros H; apply Hi in H; exact (mconn_start_notin Hu Hru H). }
    assert (Hrv' : ~ In rv (rem eqb z Z)).
    { intros H; apply Hi in H; exact (mconn_start_notin Hv Hrv H). }
    eapply rt_trans; [eapply mconn_mono; [apply incl_refl|exact Hi|exact Hru]|].
    eapply mconn_step_l; [split; [exact Hmu|split; assumption]|].
    eapply mconn_step_l; [split; [apply madj_sym; exact Hmv|split; assumption]|].
    apply mconn_sym. eapply mconn_mono; [apply incl_refl|exact Hi|exact Hrv].
  Qed.

  (** Conversely, a walk avoiding [Z] minus [z] either avoids [Z] or shows that [z] touches
      the component of its start. *)
  Lemma conn_rem_touches (g : digraph A) D Z u v z : ~ In u Z ->
    mconn g D (rem eqb z Z) u v -> mconn g D Z u v \/ touches g D Z u z.
  Proof.
    intros Hu H. apply clos_rt_rtn1_iff in H. induction H as [|x y (Hm & Hx & Hy) _ IH].
    - left; apply rt_refl.
    - destruct IH as [IH|IH]; [|right; exact IH].
      destruct (mo_eq_dec y z) as [->|Hyz]; [right; exists x; split; assumption|].
      left. eapply mconn_step_r; [exact IH|]. split; [exact Hm|]. split.
      + exact (mconn_start_notin Hu IH).
      + intros H; apply Hy, Xrem_in; split; assumption.
  Qed.

  (** One marking pass does not change the region reachable from its start. *)
  Lemma marks_reach_eq (g : digraph A) D S S' s :
    (forall z, In z S' <-> In z S /\ touches g D S s z) -> ~ In s S ->
    forall x, mconn g D S' s x <-> mconn g D S s x.
  Proof.
    intros HS' Hs x.
    assert (Hi : incl S' S) by (intros z Hz; apply HS' in Hz; tauto).
    split.
    - intros H. apply clos_rt_rtn1_iff in H. induction H as [|y z (Hm & Hy & Hz) _ IH].
      + apply rt_refl.
      + eapply mconn_step_r; [exact IH|]. split; [exact Hm|]. split.
        * exact (mconn_start_notin Hs IH).
        * intros HzS. apply Hz, HS'. split; [exact HzS|]. exists y; split; assumption.
    - apply mconn_mono; [apply incl_refl|exact Hi].
  Qed.

  (** In a DAG a non-empty finite set of vertices has a member with no directed path to
      any member. *)
  Lemma sink_exists (g : digraph A) (W : list A) : wf g -> acyclic g -> W <> [] ->
    exists x, In x W /\ forall y, In y W -> ~ path g x y.
  Proof.
    intros Hwf Hac; induction W as [|a W IH]; [congruence|intros _].
    destruct W as [|b W].
    - exists a; split; [left; reflexivity|]. intros y [<-|[]]; apply Hac.
    - destruct IH as (x & Hx & Hmin); [discriminate|].
      destruct (path_dec eqb eqb_spec x a Hwf) as [Hp|Hp].
      + exists a; split; [left; reflexivity|]. intros y [<-|Hy]; [apply Hac|].
        intros Hay. apply (Hmin y Hy). eapply t_trans; eassumption.
      + exists x; split; [right; exact Hx|]. intros y [<-|Hy]; [exact Hp|apply Hmin, Hy].
  Qed.

  (** * Layer 11: removing a node outside the ancestral set; the parents separate *)

  (** A node of [Z] that is not an ancestor of [u], [v] or of another node of [Z] can be
      dropped from a d-separating set. *)
  Lemma remove_sink (g : digraph A) u v Z z : wf g -> acyclic g -> u <> v ->
    ~ In u Z -> ~ In v Z -> z <> u -> z <> v -> ~ path g z u -> ~ path g z v ->
    (forall z', In z' Z -> ~ path g z z') ->
    dsep g [u] [v] Z -> dsep g [u] [v] (rem eqb z Z).
  Proof.
    intros Hwf Hac Huv HuZ HvZ Hzu Hzv Hpu Hpv Hsink Hd.
    assert (HuZ' : ~ In u (rem eqb z Z)) by (intros H; apply Xrem_in in H; tauto).
    assert (HvZ' : ~ In v (rem eqb z Z)) by (intros H; apply Xrem_in in H; tauto).
    pose proof (anc_set_anstar u v Z Hwf) as HD.
    pose proof (anc_set_anstar u v (rem eqb z Z) Hwf) as HD'.
    set (D := anc_set eqb g (u :: v :: Z)) in *.
    set (D' := anc_set eqb g (u :: v :: rem eqb z Z)) in *.
    apply (moral_separation_iff_dsep Hwf Hac Huv HuZ' HvZ' HD').
    apply (moral_separation_iff_dsep Hwf Hac Huv HuZ HvZ HD) in Hd.
    intros Hm; apply Hd; clear Hd.
    assert (HzD' : ~ In z D').
    { intros H; apply HD' in H. destruct H as [H|[H|[H|[H|[H|(z' & Hz' & Hp)]]]]]; try tauto.
      - apply Xrem_in in H; tauto.
      - apply Xrem_in in Hz'. apply (Hsink z'); tauto. }
    assert (Hi : incl D' D).
    { intros x Hx; apply HD' in Hx; apply HD.
      destruct Hx as [H|[H|[H|[H|[H|(z' & Hz' & Hp)]]]]]; unfold in_anstar; auto 6.
      - right; right; right; right; left. apply Xrem_in in H; tauto.
      - right; right; right; right; right. exists z'; split; [apply Xrem_in in Hz'; tauto|exact Hp]. }
    assert (Hnotin : forall x, In x D' -> ~ In x (rem eqb z Z) -> ~ In x Z).
    { intros x Hx Hn HxZ. apply Hn, Xrem_in; split; [exact HxZ|]. intros ->; contradiction. }
    assert (Hgen : forall a b, mconn g D' (rem eqb z Z) a b -> mconn g D Z a b).
    { intros a b H; induction H as [x y (Hxy & Hx & Hy)| |x y w _ IH1 _ IH2].
      - apply rt_step. split; [eapply madj_mono; eassumption|].
        destruct Hxy as (HxD & HyD & _). split; apply Hnotin; assumption.
      - apply rt_refl.
      - eapply rt_trans; eassumption. }
    apply Hgen, Hm.
  Qed.

  (** An active walk from [u] to [v] given a set that contains the parents of [u] and only
      parents of [u] or [v] runs along arcs from [u] down to [v]. *)
  Lemma parents_walk (g : digraph A) u v Z1 p : acyclic g ->
    (forall z, In z Z1 -> arc g z u \/ arc g z v) -> (forall z, arc g z u -> In z Z1) ->
    ~ arc g v u -> u <> v -> uchain g p -> wact g Z1 p ->
    hd_error p = Some u -> last_error p = Some v -> path g u v.
  Proof.
    intros Hac HZ1 Hpu Hvu Huv Hc Hw Hh Hl.
    destruct p as [|a [|x1 r]]; [discriminate|simpl in Hh, Hl; congruence|].
    simpl in Hh; injection Hh as ->.
    apply uchain_cons2 in Hc as Hc'; destruct Hc' as [Hadj Hc1].
    destruct (mo_arc_dec g x1 u) as [H1u|H1u].
    - exfalso. destruct r as [|x2 r].
      + simpl in Hl; injection Hl as ->. contradiction.
      + destruct Hw as [[_ Hj] _]. apply Hj; [|apply Hpu, H1u].
        intros [Hu1 _]. exact (@mo_no2cycle g u x1 Hac Hu1 H1u).
    - assert (Hu1 : arc g u x1) by (destruct Hadj as [H|H]; [exact H|contradiction]).
      destruct (@out_walk g Z1 r u x1 v Hu1 Hc Hw Hl) as [Hp|(z & Hz & Hp)]; [exact Hp|].
      destruct (HZ1 z Hz) as [H|H].
      + exfalso; apply (Hac u). eapply t_trans; [exact Hp|apply t_step, H].
      + eapply t_trans; [exact Hp|apply t_step, H].
  Qed.

  Lemma parents_dsep (g : digraph A) u v Z1 : wf g -> acyclic g -> u <> v ->
    ~ arc g u v -> ~ arc g v u -> (forall z, In z Z1 <-> arc g z u \/ arc g z v) ->
    dsep g [u] [v] Z1.
  Proof.
    intros Hwf Hac Huv Huv1 Hvu1 HZ1 x y p [<-|[]] [<-|[]] Hup Hh Hl.
    destruct (blocked_dec Z1 p Hwf) as [Hb|Hb]; [exact Hb|exfalso].
    apply (wact_iff_not_blocked Z1 p Hwf) in Hb. destruct Hup as (_ & _ & Hc).
    assert (P1 : path g u v).
    { apply (@parents_walk g u v Z1 p); try assumption.
      - intros z Hz; apply HZ1, Hz.
      - intros z Hz; apply HZ1; left; exact Hz. }
    assert (P2 : path g v u).
    { apply (@parents_walk g v u Z1 (rev p)); try assumption.
      - intros z Hz; apply HZ1 in Hz; tauto.
      - intros z Hz; apply HZ1; right; exact Hz.
      - intros E; apply Huv; symmetry; exact E.
      - apply ds_chain_rev; exact Hc.
      - apply wact_rev; assumption.
      - rewrite ds_hd_error_rev; exact Hl.
      - rewrite ds_last_error_rev; exact Hh. }
    apply (Hac u). eapply t_trans; eassumption.
  Qed.

  (** * Layer 12: the two networkx algorithms *)

  (** [Moral.anc2]: the vertex set used by both algorithms ([u], [v] and their ancestors). *)
  Notation anc2 := (Moral.anc2 eqb).

  Lemma anc2_in (g : digraph A) u v x : wf g ->
    (In x (anc2 g u v) <-> x = u \/ x = v \/ path g x u \/ path g x v).
  Proof.
    intros Hwf; unfold anc2. rewrite !Xunion_in, !(fun a b => Xanc_spec a b Hwf). simpl.
    split; [intros [H|[H|[[H|[H|[]]]|[]]]]; auto|].
    intros [H|[H|[H|H]]]; auto 6.
  Qed.

  Lemma anc2_nodup (g : digraph A) u v : NoDup (anc2 g u v).
  Proof. unfold anc2; apply Xunion_nodup, Xunion_nodup, Xunion_nodup; constructor. Qed.

  Lemma anc2_anstar (g : digraph A) u v Z : wf g ->
    (forall z, In z Z -> path g z u \/ path g z v) -> is_anstar g u v Z (anc2 g u v).
  Proof.
    intros Hwf HZ x; rewrite (anc2_in u v x Hwf); unfold in_anstar; split; [tauto|].
    intros [H|[H|[H|[H|Hz]]]]; [tauto|tauto|tauto|tauto|].
    destruct Hz as [H|(z & Hz & Hp)].
    - destruct (HZ x H); tauto.
    - destruct (HZ z Hz) as [H|H]; [right; right; left|right; right; right];
        eapply t_trans; eassumption.
  Qed.

  (** Lauritzen's theorem on the vertex set of the algorithms, for conditioning sets made
      of ancestors of [u] or [v]. *)
  Lemma anc2_dsep_iff (g : digraph A) u v Z : wf g -> acyclic g -> u <> v ->
    ~ In u Z -> ~ In v Z -> (forall z, In z Z -> path g z u \/ path g z v) ->
    (dsep g [u] [v] Z <-> ~ mconn g (anc2 g u v) Z u v).
  Proof.
    intros Hwf Hac Huv HuZ HvZ HZ.
    apply moral_separation_iff_dsep; try assumption. apply anc2_anstar; assumption.
  Qed.

  Notation Xparents_in := (@parents_in A eqb eqb_spec).

  (** (T1) [get_d_separation_set] = [networkx.minimal_d_separator]: on every finite DAG, for
      distinct non-adjacent nodes, the returned set d-separates them and no single node can
      be removed from it.  This is [DSepProofs.min_dsep_set_statement], now without any bound
      on the number of nodes. *)
  Theorem min_dsep_set_min_sep (g : digraph A) u v :
    wf g -> acyclic g -> u <> v -> ~ arc g u v -> ~ arc g v u ->
    min_sep eqb g u v (min_dsep_set eqb g u v).
  Proof.
    intros Hwf Hac Huv Huv1 Hvu1.
    set (D := anc2 g u v).
    set (Z1 := union (parents g u) (union (parents g v) [])).
    set (Z2 := bfs_marks eqb g D u Z1).
    set (Z3 := bfs_marks eqb g D v Z2).
    change (min_dsep_set eqb g u v) with Z3.
    assert (HZ1 : forall z, In z Z1 <-> arc g z u \/ arc g z v).
    { intros z; unfold Z1; rewrite !Xunion_in, !Xparents_in; simpl; tauto. }
    assert (HuZ1 : ~ In u Z1).
    { intros H; apply HZ1 in H; destruct H as [H|H]; [exact (@mo_noloop g u Hac H)|contradiction]. }
    assert (HvZ1 : ~ In v Z1).
    { intros H; apply HZ1 in H; destruct H as [H|H]; [contradiction|exact (@mo_noloop g v Hac H)]. }
    assert (HDnd : NoDup D) by apply anc2_nodup.
    assert (HuD : In u D) by (apply anc2_in; [exact Hwf|left; reflexivity]).
    assert (HvD : In v D) by (apply anc2_in; [exact Hwf|right; left; reflexivity]).
    assert (HZ2 : forall z, In z Z2 <-> In z Z1 /\ touches g D Z1 u z).
    { intros z; apply bfs_marks_spec; assumption. }
    assert (Hi21 : incl Z2 Z1) by (intros z Hz; apply HZ2 in Hz; tauto).
    assert (HuZ2 : ~ In u Z2) by (intros H; apply HuZ1, Hi21, H).
    assert (HvZ2 : ~ In v Z2) by (intros H; apply HvZ1, Hi21, H).
    assert (HZ3 : forall z, In z Z3 <-> In z Z2 /\ touches g D Z2 v z).
    { intros z; apply bfs_marks_spec; assumption. }
    assert (Hi32 : incl Z3 Z2) by (intros z Hz; apply HZ3 in Hz; tauto).
    assert (HuZ3 : ~ In u Z3) by (intros H; apply HuZ2, Hi32, H).
    assert (HvZ3 : ~ In v Z3) by (intros H; apply HvZ2, Hi32, H).
    assert (Hanc1 : forall z, In z Z1 -> path g z u \/ path g z v).
    { intros z Hz; apply HZ1 in Hz; destruct Hz as [H|H]; [left|right]; apply t_step, H. }
    (* the parents separate *)
    assert (Sep1 : ~ mconn g D Z1 u v).
    { apply (@anc2_dsep_iff g u v Z1 Hwf Hac Huv HuZ1 HvZ1 Hanc1). apply parents_dsep; assumption. }
    pose proof (@marks_reach_eq g D Z1 Z2 u HZ2 HuZ1) as R2.
    assert (Sep2 : ~ mconn g D Z2 u v) by (intros H; apply Sep1, R2, H).
    pose proof (@marks_reach_eq g D Z2 Z3 v HZ3 HvZ2) as R3.
    assert (Sep3 : ~ mconn g D Z3 u v).
    { intros H; apply Sep2. apply mconn_sym, R3, mconn_sym, H. }
    split.
    - apply (@anc2_dsep_iff g u v Z3 Hwf Hac Huv HuZ3 HvZ3); [|exact Sep3].
      intros z Hz; apply Hanc1, Hi21, Hi32, Hz.
    - intros z Hz Hd.
      assert (HuZ' : ~ In u (rem eqb z Z3)) by (intros H; apply Xrem_in in H; tauto).
      assert (HvZ' : ~ In v (rem eqb z Z3)) by (intros H; apply Xrem_in in H; tauto).
      apply (@anc2_dsep_iff g u v (rem eqb z Z3) Hwf Hac Huv HuZ' HvZ') in Hd.
      + apply Hd. apply touches_conn; try assumption.
        * apply HZ3 in Hz; destruct Hz as [Hz2 _]. apply HZ2 in Hz2.
          destruct Hz2 as (_ & r & Hr & Hm). exists r; split; [|exact Hm].
          apply R2 in Hr. eapply mconn_mono; [apply incl_refl|exact Hi32|exact Hr].
        * apply HZ3 in Hz; destruct Hz as (_ & r & Hr & Hm). exists r; split; [|exact Hm].
          apply R3, Hr.
      + intros w Hw; apply Xrem_in in Hw. apply Hanc1, Hi21, Hi32; tauto.
  Qed.

  Theorem min_dsep_set_correct : min_dsep_set_statement eqb.
  Proof. intros g u v Hwf Hac _ _ Huv H1 H2; apply min_dsep_set_min_sep; assumption. Qed.

  Corollary min_dsep_set_min_sepb (g : digraph A) u v :
    wf g -> acyclic g -> u <> v -> ~ arc g u v -> ~ arc g v u ->
    min_sepb eqb g u v (min_dsep_set eqb g u v) = true.
  Proof.
    intros Hwf Hac Huv H1 H2. apply (@min_sepb_spec A eqb eqb_spec g u v _ Hwf).
    apply min_dsep_set_min_sep; assumption.
  Qed.

  (** Characterisation of the separators from which no single node can be removed: all
      their nodes are ancestors of [u] or [v], and each touches the component of [u] and the
      component of [v] in the moral graph of the ancestors of [u] and [v] minus [Z]. *)
  Theorem min_sep_char (g : digraph A) u v Z : wf g -> acyclic g -> u <> v ->
    ~ In u Z -> ~ In v Z ->
    (min_sep eqb g u v Z <->
     dsep g [u] [v] Z /\ (forall z, In z Z -> path g z u \/ path g z v) /\
     (forall z, In z Z -> touches g (anc2 g u v) Z u z /\ touches g (anc2 g u v) Z v z)).
  Proof.
    intros Hwf Hac Huv HuZ HvZ. set (D := anc2 g u v).
    assert (HDnd : NoDup D) by apply anc2_nodup.
    assert (HuD : In u D) by (apply anc2_in; [exact Hwf|left; reflexivity]).
    assert (HvD : In v D) by (apply anc2_in; [exact Hwf|right; left; reflexivity]).
    assert (HuZ' : forall z, ~ In u (rem eqb z Z)) by (intros z H; apply Xrem_in in H; tauto).
    assert (HvZ' : forall z, ~ In v (rem eqb z Z)) by (intros z H; apply Xrem_in in H; tauto).
    unfold min_sep; split.
    - intros [Hd Hrem].
      (* every node of Z is an ancestor of u or v *)
      assert (Hanc : forall w, In w Z -> path g w u \/ path g w v).
      { remember (filter (fun z => negb (reachb eqb g z u || reachb eqb g z v)) Z) as W eqn:EW.
        assert (HW : forall z, In z W <-> In z Z /\ ~ path g z u /\ ~ path g z v).
        { intros z; rewrite EW, filter_In, negb_true_iff, orb_false_iff,
            !(fun a b => @reachb_false A eqb eqb_spec g a b Hwf). tauto. }
        clear EW. destruct W as [|a W'].
        - intros w Hw.
          destruct (path_dec eqb eqb_spec w u Hwf) as [H1|H1]; [left; exact H1|].
          destruct (path_dec eqb eqb_spec w v Hwf) as [H2|H2]; [right; exact H2|].
          exfalso. apply (proj2 (HW w)). exact (conj Hw (conj H1 H2)).
        - exfalso.
          destruct (@sink_exists g (a :: W') Hwf Hac) as (z & Hz & Hsink); [discriminate|].
          apply HW in Hz; destruct Hz as (Hz & Hzu & Hzv).
          apply (Hrem z Hz). apply remove_sink; try assumption.
          + intros ->; contradiction.
          + intros ->; contradiction.
          + intros z' Hz' Hp. apply (Hsink z'); [|exact Hp]. apply HW. split; [exact Hz'|].
            split; intros H; [apply Hzu|apply Hzv]; eapply t_trans; eassumption. }
      split; [exact Hd|]. split; [exact Hanc|].
      assert (Sep : ~ mconn g D Z u v)
        by (apply (@anc2_dsep_iff g u v Z Hwf Hac Huv HuZ HvZ Hanc), Hd).
      intros z Hz.
      assert (Hc : mconn g D (rem eqb z Z) u v).
      { destruct (@mconn_dec g D (rem eqb z Z) u v HDnd HuD (HuZ' z)) as [H|H]; [exact H|exfalso].
        apply (Hrem z Hz).
        apply (@anc2_dsep_iff g u v (rem eqb z Z) Hwf Hac Huv (HuZ' z) (HvZ' z)); [|exact H].
        intros w Hw; apply Xrem_in in Hw; apply Hanc; tauto. }
      split.
      + destruct (@conn_rem_touches g D Z u v z HuZ Hc) as [H|H]; [contradiction|exact H].
      + destruct (@conn_rem_touches g D Z v u z HvZ (mconn_sym Hc)) as [H|H]; [|exact H].
        exfalso; apply Sep, mconn_sym, H.
    - intros (Hd & Hanc & Htouch). split; [exact Hd|]. intros z Hz E.
      apply (@anc2_dsep_iff g u v (rem eqb z Z) Hwf Hac Huv (HuZ' z) (HvZ' z)) in E.
      + apply E. apply touches_conn; try assumption; apply Htouch, Hz.
      + intros w Hw; apply Xrem_in in Hw; apply Hanc; tauto.
  Qed.

  (** "No single node can be removed" and "no proper subset separates" are the same notion
      of minimality for d-separating sets of two nodes. *)
  Theorem min_sep_iff_inclusion_minimal (g : digraph A) u v Z : wf g -> acyclic g -> u <> v ->
    ~ In u Z -> ~ In v Z ->
    (min_sep eqb g u v Z <->
     dsep g [u] [v] Z /\ forall Z', incl Z' Z -> dsep g [u] [v] Z' -> incl Z Z').
  Proof.
    intros Hwf Hac Huv HuZ HvZ; split.
    - intros Hmin. pose proof (proj1 Hmin) as Hd.
      apply (@min_sep_char g u v Z Hwf Hac Huv HuZ HvZ) in Hmin. destruct Hmin as (_ & Hanc & Htouch).
      split; [exact Hd|]. intros Z' Hi Hd' z Hz.
      destruct (mo_in_dec z Z') as [H|H]; [exact H|exfalso].
      assert (HuZ' : ~ In u Z') by (intros H1; apply HuZ, Hi, H1).
      assert (HvZ' : ~ In v Z') by (intros H1; apply HvZ, Hi, H1).
      apply (@anc2_dsep_iff g u v Z' Hwf Hac Huv HuZ' HvZ') in Hd';
        [|intros w Hw; apply Hanc, Hi, Hw].
      apply Hd'. eapply mconn_mono; [apply incl_refl| |exact (touches_conn HuZ HvZ (proj1 (Htouch z Hz)) (proj2 (Htouch z Hz)))].
      intros w Hw. apply Xrem_in. split; [apply Hi, Hw|]. intros ->; contradiction.
    - intros [Hd Hmin]. split; [exact Hd|]. intros z Hz Hd'.
      assert (Hi : incl (rem eqb z Z) Z) by (intros w Hw; apply Xrem_in in Hw; tauto).
      specialize (Hmin _ Hi Hd' z Hz). apply Xrem_in in Hmin; tauto.
  Qed.

  (** The set returned by [get_d_separation_set] is also minimal for inclusion. *)
  Corollary min_dsep_set_inclusion_minimal (g : digraph A) u v :
    wf g -> acyclic g -> u <> v -> ~ arc g u v -> ~ arc g v u ->
    dsep g [u] [v] (min_dsep_set eqb g u v) /\
    forall Z', incl Z' (min_dsep_set eqb g u v) -> dsep g [u] [v] Z' ->
               incl (min_dsep_set eqb g u v) Z'.
  Proof.
    intros Hwf Hac Huv H1 H2.
    apply (@min_sep_iff_inclusion_minimal g u v (min_dsep_set eqb g u v) Hwf Hac Huv).
    - intros H; apply (@min_dsep_set_parents A eqb eqb_spec) in H.
      destruct H as [H|H]; [exact (@mo_noloop g u Hac H)|contradiction].
    - intros H; apply (@min_dsep_set_parents A eqb eqb_spec) in H.
      destruct H as [H|H]; [contradiction|exact (@mo_noloop g v Hac H)].
    - apply min_dsep_set_min_sep; assumption.
  Qed.

  (** (T2) [is_minimally_d_separated] = [networkx.is_minimal_d_separator] (and-ed with
      [is_d_separated]): on every finite DAG the algorithmic model answers exactly "Z
      d-separates u and v and no single node can be removed".  This is
      [DSepProofs.nx_min_sepb_statement], now without any bound on the number of nodes. *)
  Theorem nx_min_sepb_eq (g : digraph A) u v Z :
    wf g -> acyclic g -> u <> v -> ~ In u Z -> ~ In v Z ->
    nx_min_sepb eqb g u v Z = min_sepb eqb g u v Z.
  Proof.
    intros Hwf Hac Huv HuZ HvZ.
    set (D := anc2 g u v).
    set (XY := union (anc g u) (union (anc g v) [])).
    change (nx_min_sepb eqb g u v Z) with
      (dsepb eqb g [u] [v] Z && forallb (fun z => memb z XY) Z
       && forallb (fun z => memb z (bfs_marks eqb g D u Z)) Z
       && forallb (fun z => memb z (bfs_marks eqb g D v Z)) Z
       && dsepb eqb g [u] [v] Z).
    assert (HXY : forall z, In z XY <-> path g z u \/ path g z v).
    { intros z; unfold XY; rewrite !Xunion_in, !(fun a b => Xanc_spec a b Hwf); simpl; tauto. }
    assert (HDnd : NoDup D) by apply anc2_nodup.
    assert (HuD : In u D) by (apply anc2_in; [exact Hwf|left; reflexivity]).
    assert (HvD : In v D) by (apply anc2_in; [exact Hwf|right; left; reflexivity]).
    assert (Hmu : forall z, In z (bfs_marks eqb g D u Z) <-> In z Z /\ touches g D Z u z).
    { intros z; apply bfs_marks_spec; assumption. }
    assert (Hmv : forall z, In z (bfs_marks eqb g D v Z) <-> In z Z /\ touches g D Z v z).
    { intros z; apply bfs_marks_spec; assumption. }
    apply eq_true_iff_eq.
    rewrite (@min_sepb_spec A eqb eqb_spec g u v Z Hwf).
    change (dsep g [u] [v] Z /\ (forall z, In z Z -> ~ dsep g [u] [v] (rem eqb z Z)))
      with (min_sep eqb g u v Z).
    rewrite (@min_sep_char g u v Z Hwf Hac Huv HuZ HvZ). fold D.
    rewrite !andb_true_iff, !forallb_forall, (@dsepb_correct A eqb eqb_spec g [u] [v] Z Hwf).
    split.
    - intros [[[[Hd Ha] Hb] Hc] _]. split; [exact Hd|]. split.
      + intros z Hz. apply HXY, (memb_in eqb eqb_spec), Ha, Hz.
      + intros z Hz. split.
        * specialize (Hb z Hz). apply (memb_in eqb eqb_spec), Hmu in Hb. tauto.
        * specialize (Hc z Hz). apply (memb_in eqb eqb_spec), Hmv in Hc. tauto.
    - intros (Hd & Hanc & Htouch). split; [|exact Hd]. split; [split; [split; [exact Hd|]|]|].
      + intros z Hz. apply (memb_in eqb eqb_spec), HXY, Hanc, Hz.
      + intros z Hz. apply (memb_in eqb eqb_spec), Hmu. split; [exact Hz|apply Htouch, Hz].
      + intros z Hz. apply (memb_in eqb eqb_spec), Hmv. split; [exact Hz|apply Htouch, Hz].
  Qed.
  Theorem nx_min_sepb_correct : nx_min_sepb_statement eqb.
  Proof. intros g u v Z Hwf Hac _ _ _ Huv HuZ HvZ; apply nx_min_sepb_eq; assumption. Qed.

  (** The algorithmic model of [is_minimally_d_separated] decides the Prop-level notion. *)
  Corollary nx_min_sepb_spec (g : digraph A) u v Z :
    wf g -> acyclic g -> u <> v -> ~ In u Z -> ~ In v Z ->
    (nx_min_sepb eqb g u v Z = true <-> min_sep eqb g u v Z).
  Proof.
    intros Hwf Hac Huv HuZ HvZ. rewrite (@nx_min_sepb_eq g u v Z Hwf Hac Huv HuZ HvZ).
    apply (@min_sepb_spec A eqb eqb_spec g u v Z Hwf).
  Qed.

  (** Lauritzen's theorem with the executable ancestral set. *)
  Corollary moral_separation_iff_dsep_anc_set (g : digraph A) u v Z :
    wf g -> acyclic g -> u <> v -> ~ In u Z -> ~ In v Z ->
    (dsep g [u] [v] Z <-> ~ mconn g (anc_set eqb g (u :: v :: Z)) Z u v).
  Proof.
    intros Hwf Hac Huv HuZ HvZ. apply moral_separation_iff_dsep; try assumption.
    apply anc_set_anstar, Hwf.
  Qed.
End MoralProofs.

(** * Non-vacuity and behaviour pinned to the real library, beyond 4 nodes

    Node i is 'n<i>' on the Python side (PYTHONHASHSEED=0, networkx 3.2.1). *)
Definition mo_g : digraph nat :=
  ds_g 9 [(0,2);(1,2);(2,3);(2,4);(3,5);(4,5);(1,6);(6,5);(5,7);(0,8);(8,4)].

Example mo_g_wf : wf mo_g.
Proof. apply (wfb_spec Nat.eqb Nat.eqb_spec); vm_compute; reflexivity. Qed.

Example mo_g_acyclic : acyclic mo_g.
Proof. apply (acyclicb_spec Nat.eqb Nat.eqb_spec mo_g_wf); vm_compute; reflexivity. Qed.

(** Python: get_d_separation_set returns {'n3','n4','n6'} for ('n0','n5') and ('n1','n5'),
    set() for ('n0','n1'), {'n2'} for ('n3','n4') and ('n3','n6'), {'n5'} for ('n0','n7') and
    ('n2','n7'), {'n1'} for ('n6','n2'), {'n0'} for ('n8','n3'). *)
Example mo_sepset_run :
  map (fun p => min_dsep_set Nat.eqb mo_g (fst p) (snd p))
    [(0,5);(1,5);(0,1);(3,4);(0,7);(2,7);(6,2);(3,6);(8,3)]
  = [[3; 4; 6]; [3; 4; 6]; []; [2]; [5]; [5]; [1]; [2]; [0]].
Proof. vm_compute; reflexivity. Qed.

(** Python: (is_d_separated, is_minimally_d_separated) on the same queries, in this order:
    (F,F) (F,F) (T,T) (F,F) (F,F) (T,T) (T,F) (F,F) (F,F) (T,T) (F,F) (T,F) (T,T) (T,T) (T,F)
    (T,T) (T,F).  {'n6'} d-separates 'n0' and 'n1' but lies outside their ancestors: not
    minimal.  The four columns are [dsepb], [moral_sepb], [nx_min_sepb], [min_sepb]. *)
Definition mo_queries : list (nat * nat * list nat) :=
  [(0,5,[2;8]);(0,5,[3;4]);(0,5,[3;4;6]);(0,5,[2;8;7]);(0,5,[2;4]);(3,4,[2]);(3,4,[2;8]);
   (3,4,[2;5]);(3,4,[2;7]);(0,1,[]);(0,1,[7]);(0,1,[6]);(3,6,[1]);(3,6,[2]);(3,6,[1;2]);
   (0,7,[5]);(0,7,[5;3])].

Example mo_queries_run :
  map (fun q => match q with (u, v, Z) =>
         (dsepb Nat.eqb mo_g [u] [v] Z, moral_sepb Nat.eqb mo_g u v Z,
          nx_min_sepb Nat.eqb mo_g u v Z, min_sepb Nat.eqb mo_g u v Z) end) mo_queries
  = [(false,false,false,false); (false,false,false,false); (true,true,true,true);
     (false,false,false,false); (false,false,false,false); (true,true,true,true);
     (true,true,false,false); (false,false,false,false); (false,false,false,false);
     (true,true,true,true); (false,false,false,false); (true,true,false,false);
     (true,true,true,true); (true,true,true,true); (true,true,false,false);
     (true,true,true,true); (true,true,false,false)].
Proof. vm_compute; reflexivity. Qed.

(** networkx: ancestors(3) | ancestors(6) | {3, 6} = {0, 1, 2, 3, 6}; in the moral graph of
    the ancestral set of {3, 6, 2} minus {2} the component of 3 is {3}; in the moral graph of
    the ancestral set of {0, 5, 3, 4} minus {3, 4} the component of 0 is {0, 1, 2, 5, 6, 8}. *)
Example mo_anc_set_run :
  anc_set Nat.eqb mo_g [3; 6] = [0; 2; 1; 3; 6]
  /\ moral_reach Nat.eqb mo_g (anc_set Nat.eqb mo_g [3; 6; 2]) [2] 3 = [3]
  /\ moral_reach Nat.eqb mo_g (anc_set Nat.eqb mo_g [0; 5; 3; 4]) [3; 4] 0 = [5; 6; 1; 2; 8; 0].
Proof. vm_compute; auto. Qed.

Ltac mo_notin :=
  let HH := fresh "HH" in
  simpl; intros HH; repeat (destruct HH as [HH|HH]; [discriminate HH|]); exact HH.

(** The hypotheses of (T1) hold for a 9-node input and give a three-node separator. *)
Example mo_T1_instance :
  min_sep Nat.eqb mo_g 0 5 (min_dsep_set Nat.eqb mo_g 0 5)
  /\ min_dsep_set Nat.eqb mo_g 0 5 = [3; 4; 6].
Proof.
  split; [|vm_compute; reflexivity].
  apply (@min_dsep_set_min_sep nat Nat.eqb Nat.eqb_spec mo_g 0 5 mo_g_wf mo_g_acyclic).
  - discriminate.
  - intros H; apply (has_arc_spec Nat.eqb Nat.eqb_spec) in H; vm_compute in H; discriminate.
  - intros H; apply (has_arc_spec Nat.eqb Nat.eqb_spec) in H; vm_compute in H; discriminate.
Qed.

(** (T2) and Lauritzen's theorem on the same input: [{2; 8}] does not d-separate 3 and 4
    minimally although it d-separates them; the moral graph of the ancestral set connects 0
    and 5 around [{3; 4}]. *)
Example mo_T2_instance :
  nx_min_sepb Nat.eqb mo_g 3 4 [2; 8] = min_sepb Nat.eqb mo_g 3 4 [2; 8]
  /\ ~ min_sep Nat.eqb mo_g 3 4 [2; 8] /\ min_sep Nat.eqb mo_g 3 4 [2].
Proof.
  assert (H34 : 3 <> 4) by discriminate.
  split; [|split].
  - apply (@nx_min_sepb_eq nat Nat.eqb Nat.eqb_spec mo_g 3 4 [2; 8] mo_g_wf mo_g_acyclic H34);
      mo_notin.
  - intros H. apply (@nx_min_sepb_spec nat Nat.eqb Nat.eqb_spec mo_g 3 4 [2; 8] mo_g_wf mo_g_acyclic H34) in H;
      [vm_compute in H; discriminate| |]; mo_notin.
  - apply (@nx_min_sepb_spec nat Nat.eqb Nat.eqb_spec mo_g 3 4 [2] mo_g_wf mo_g_acyclic H34);
      [| |vm_compute; reflexivity]; mo_notin.
Qed.

Example mo_lauritzen_instance :
  mconn mo_g (anc_set Nat.eqb mo_g [0; 5; 3; 4]) [3; 4] 0 5 /\ ~ dsep mo_g [0] [5] [3; 4]
  /\ ~ mconn mo_g (anc_set Nat.eqb mo_g [0; 5; 3; 4; 6]) [3; 4; 6] 0 5.
Proof.
  assert (H05 : 0 <> 5) by discriminate.
  assert (Hn : ~ dsep mo_g [0] [5] [3; 4]).
  { intros H. apply (dsepb_correct Nat.eqb Nat.eqb_spec [0] [5] [3; 4] mo_g_wf) in H.
    vm_compute in H; discriminate. }
  split; [|split; [exact Hn|]].
  - apply (@moral_reach_spec nat Nat.eqb Nat.eqb_spec mo_g _ [3; 4] 0 5).
    + apply anc_set_nodup, Nat.eqb_spec.
    + vm_compute; auto 10.
    + mo_notin.
    + vm_compute; auto 10.
  - apply (@moral_separation_iff_dsep_anc_set nat Nat.eqb Nat.eqb_spec mo_g 0 5 [3; 4; 6]
             mo_g_wf mo_g_acyclic H05); [mo_notin|mo_notin|].
    apply (dsepb_correct Nat.eqb Nat.eqb_spec [0] [5] [3; 4; 6] mo_g_wf). vm_compute; reflexivity.
Qed.

Print Assumptions moral_separation_iff_dsep.
Print Assumptions moral_sepb_correct.
Print Assumptions bfs_marks_spec.
Print Assumptions min_dsep_set_correct.
Print Assumptions min_sep_char.
Print Assumptions min_sep_iff_inclusion_minimal.
Print Assumptions min_dsep_set_inclusion_minimal.
Print Assumptions nx_min_sepb_correct.
