(** CorrMutGenAdd.v -- entry points of the correspondence harness for the functions GENERATED from
    [CausalGraph._set_edge / _prepare_nodes / add_edge] (MutGenAdd.v).  DEFINITIONS and pinned [Example]s only.

    Case format: exactly [GraphTS.hcase] (what harness/graph_hist.py [cq_case] / [write_case_file] write for
    harness/histprops.py): class, history of operations from the empty graph, query pools, and what the
    implementation showed after every step (outcome code, hash of its observation).

      [gen_mismatches cases]   same result type and meaning as [GraphTS.mismatches cases] (list of (case index, first
                               diverging step)), but EVERY [OAddEdge] step (identifier form, Node-object form, mixed
                               forms, any edge type / metadata / validate flag) is executed by the GENERATED add_edge
                               (its outcome and the state it leaves behind feed the rest of the history); other steps
                               by the hand model; in a [Plain] history every [OAddNode] / [OAddNodeObj] step runs
                               through the GENERATED add_node as well.
      [gen_mismatches_eo cases]  the same, but an [OAddEdge] step whose two end points are Node objects and whose
                               metadata is given runs through the EDGE-OBJECT form add_edge(edge=Edge(..)) of the
                               generated code (the history format records that form as exactly such a step).
      [gen_last_agrees c]      last operation run by both the generated function and the hand model on the state the
                               hand model reaches before it; true iff same outcome code and same observation tokens.
    To evaluate existing harness rows on the generated code: replace [mismatches] by [gen_mismatches] in the file
    written by [graph_hist.write_case_file] and import CorrMutGenAdd (harness/addgencorr.py does that).
    The base-class methods are what runs in a TimeSeriesCausalGraph too (add_edge / _set_edge / _prepare_nodes are not
    overridden; _NodeCls / _EdgeCls / add_node are -- those are rows taking the class [k]). *)
From CG Require Import Base Graph GraphObs Tok Names GraphTS PyRtMut PyRtAdd MutGenAdd.
From Coq Require Import Uint63.
Local Open Scope N_scope.

Definition gen_add_edge_k (k : kind) (g : graph) (sp dp : endpoint) (ty : etype) (m : option meta) (v : bool)
  : res graph * graph :=
  mut_res (gen_add_edge parse k g (Some sp) (Some dp) ty m None v).

Definition gen_add_edge_eo (k : kind) (g : graph) (sp dp : endpoint) (ty : etype) (m : option meta) (v : bool)
  : res graph * graph :=
  match snd sp, snd dp, m with
  | Some _, Some _, Some mm =>
      mut_res (gen_add_edge parse k g None None Dir None
                 (Some {| eo_source := sp; eo_destination := dp; eo_type := ty; eo_meta := mm |}) v)
  | _, _, _ => gen_add_edge_k k g sp dp ty m v
  end.

Definition gen_run_op_with (f : kind -> graph -> endpoint -> endpoint -> etype -> option meta -> bool -> res graph * graph)
  (k : kind) (g : graph) (o : op) : res graph * graph :=
  match o, k with
  | OAddEdge sp dp ty m v, _ => f k g sp dp ty m v
  (* add_node of the BASE class (the time-series class overrides add_node: hand model there) *)
  | OAddNode id vt m, Plain => mut_res (gen_add_node parse Plain g (Some (str_ep id)) vt m None)
  | OAddNodeObj id vt m, Plain => mut_res (gen_add_node parse Plain g None VUnspec None (Some (id, Some (vt, m))))
  | _, _ => g_run_op k g o
  end.
Definition gen_run_op := gen_run_op_with gen_add_edge_k.

Fixpoint gen_run_hist_with f (k : kind) (g : graph) (ops : list op) (pool : list name) (lags : list Z)
  (vars : list name) : list (N * int) :=
  match ops with
  | [] => []
  | o :: ops' =>
      let r := gen_run_op_with f k g o in
      let g' := snd r in
      (match fst r with Ok _ => 0 | Err x => err_code x end,
       hash_tokens (g_observe k g' pool lags vars))
        :: gen_run_hist_with f k g' ops' pool lags vars
  end.
Definition gen_run_hist := gen_run_hist_with gen_add_edge_k.

Definition gen_check_case_with f (c : hcase) : option nat :=
  first_diff 0 (gen_run_hist_with f (hc_kind c) (empty_graph []) (hc_ops c) (hc_pool c) (hc_lags c) (hc_vars c))
    (hc_expected c).

Fixpoint gen_mismatches_from f (i : nat) (cs : list hcase) : list (nat * nat) :=
  match cs with
  | [] => []
  | c :: cs' =>
      match gen_check_case_with f c with
      | Some j => (i, j) :: gen_mismatches_from f (S i) cs'
      | None => gen_mismatches_from f (S i) cs'
      end
  end.
Definition gen_mismatches (cs : list hcase) : list (nat * nat) := gen_mismatches_from gen_add_edge_k 0 cs.
Definition gen_mismatches_eo (cs : list hcase) : list (nat * nat) := gen_mismatches_from gen_add_edge_eo 0 cs.

Definition code_of (r : res graph * graph) : N :=
  match fst r with Ok _ => 0 | Err x => err_code x end.

Fixpoint list_N_eqb (a b : list N) : bool :=
  match a, b with
  | [], [] => true
  | x :: a', y :: b' => N.eqb x y && list_N_eqb a' b'
  | _, _ => false
  end.

Definition gen_last_agrees (c : hcase) : bool :=
  match rev (hc_ops c) with
  | [] => true
  | o :: before =>
      let k := hc_kind c in
      let g := g_run k (rev before) (empty_graph []) in
      let a := gen_run_op k g o in
      let b := g_run_op k g o in
      N.eqb (code_of a) (code_of b)
      && list_N_eqb (g_observe k (snd a) (hc_pool c) (hc_lags c) (hc_vars c))
                    (g_observe k (snd b) (hc_pool c) (hc_lags c) (hc_vars c))
  end.

(** * Pinned behaviour: the expected (outcome code, observation hash) lists inside [pinned] were produced by the
    REAL library WITH THE REPAIR of _prepare_nodes applied (harness/histprops.run_history with PYTHONPATH=/tmp/fixtry,
    script /tmp/pa14/work/pin.py); only case 7 differs from what the unrepaired /repo shows.
      0  a->b, b->c, then the validated c->a closing a directed cycle: CyclicConnectionError (4), state restored
      1  time series: x -> x lag(n=1) against time, both nodes new: ValueError (8), the two implicitly created nodes
         are removed again
      2  reverse edge exists (3); duplicate edge, other type (2); c--d; d<>c reverse (3)
      3  edges given as Edge OBJECTS (end points Node objects with variable type / metadata, edge metadata)
      4  validate=False accepting the cycle-closing c->a (0)
      5  Node-object / identifier forms mixed, implicit creation copying type and metadata, then a cycle (4)
      6  self loops: ids (4), Node objects (4); an unvalidated self loop c--c (4, decided before _set_edge)
      7  the mixed self loops add_edge(Node('a'), 'a') and add_edge('b', Node('b'), validate=False) on the REPAIRED
         library (_prepare_nodes compares identifier_from(source) == identifier_from(destination)):
         CyclicConnectionError (4), nothing created, state unchanged -- as in the hand model.  (Before the repair the
         library raised NodeDuplicatedError (1) here.)
      8  time series: non-directed edge re-oriented by TimeSeriesEdge, ValueError against time with one new node
         removed, reverse edge (3) *)
Definition pinned : list hcase := [
  {| hc_kind := Plain; hc_ops := [(OAddEdge ([97], None) ([98], None) Dir None true); (OAddEdge ([98], None) ([99], None) Dir None true); (OAddEdge ([99], None) ([97], None) Dir None true)]; hc_pool := [[97]; [98]; [99]; [100]]; hc_lags := []; hc_vars := []; hc_expected := [(0, 6004088014956565041%uint63); (0, 4554890803027251308%uint63); (4, 4554890803027251308%uint63)] |};
  {| hc_kind := TS; hc_ops := [(OAddEdge ([120], None) ([120; 32; 108; 97; 103; 40; 110; 61; 49; 41], None) Dir None true)]; hc_pool := [[120]; [120; 32; 108; 97; 103; 40; 110; 61; 49; 41]; [121]]; hc_lags := [(-2)%Z; (-1)%Z; (0)%Z; (1)%Z]; hc_vars := [[120]; [121]]; hc_expected := [(8, 68260143788819150%uint63)] |};
  {| hc_kind := Plain; hc_ops := [(OAddEdge ([97], None) ([98], None) Dir None true); (OAddEdge ([98], None) ([97], None) Dir None true); (OAddEdge ([97], None) ([98], None) Und None true); (OAddEdge ([99], None) ([100], None) Und None true); (OAddEdge ([100], None) ([99], None) Bi None true)]; hc_pool := [[97]; [98]; [99]; [100]]; hc_lags := []; hc_vars := []; hc_expected := [(0, 6004088014956565041%uint63); (3, 6004088014956565041%uint63); (2, 6004088014956565041%uint63); (0, 8340793546589887436%uint63); (3, 8340793546589887436%uint63)] |};
  {| hc_kind := Plain; hc_ops := [(OAddEdge ([97], Some (VBin, [([107], (JInt (1)%Z))])) ([98], Some (VUnspec, [])) Dir (Some [([119], (JInt (2)%Z))]) true); (OAddEdge ([98], Some (VUnspec, [])) ([99], Some (VCont, [])) Und (Some []) true); (OAddEdge ([99], Some (VUnspec, [])) ([97], Some (VUnspec, [])) Dir (Some []) true)]; hc_pool := [[97]; [98]; [99]]; hc_lags := []; hc_vars := []; hc_expected := [(0, 5808506281263915847%uint63); (0, 7470362570462993538%uint63); (0, 7004089389911870480%uint63)] |};
  {| hc_kind := Plain; hc_ops := [(OAddEdge ([97], None) ([98], None) Dir None true); (OAddEdge ([98], None) ([99], None) Dir None true); (OAddEdge ([99], None) ([97], None) Dir None false)]; hc_pool := [[97]; [98]; [99]]; hc_lags := []; hc_vars := []; hc_expected := [(0, 8338531853457353735%uint63); (0, 6749506727783743020%uint63); (0, 4875556274284834972%uint63)] |};
  {| hc_kind := Plain; hc_ops := [(OAddEdge ([97], Some (VOrd, [([113], (JStr [122]))])) ([98], None) Dir (Some [([109], (JInt (1)%Z))]) true); (OAddEdge ([98], None) ([99], Some (VBin, [])) Dir None true); (OAddEdge ([99], Some (VUnspec, [])) ([97], Some (VUnspec, [])) Dir None true)]; hc_pool := [[97]; [98]; [99]]; hc_lags := []; hc_vars := []; hc_expected := [(0, 4355973545850967196%uint63); (0, 7681324984776268811%uint63); (4, 7681324984776268811%uint63)] |};
  {| hc_kind := Plain; hc_ops := [(OAddEdge ([97], None) ([97], None) Dir None true); (OAddEdge ([97], Some (VUnspec, [])) ([97], Some (VUnspec, [])) Dir None true); (OAddEdge ([98], None) ([99], None) Dir None true); (OAddEdge ([99], None) ([99], None) Und None false)]; hc_pool := [[97]; [98]; [99]]; hc_lags := []; hc_vars := []; hc_expected := [(4, 6495541286839668189%uint63); (4, 6495541286839668189%uint63); (0, 2537377459258523393%uint63); (4, 2537377459258523393%uint63)] |};
  {| hc_kind := Plain; hc_ops := [(OAddEdge ([97], Some (VUnspec, [])) ([97], None) Dir None true); (OAddEdge ([98], None) ([98], Some (VUnspec, [])) Dir None false)]; hc_pool := [[97]; [98]]; hc_lags := []; hc_vars := []; hc_expected := [(4, 8012509248448338593%uint63); (4, 8012509248448338593%uint63)] |};
  {| hc_kind := TS; hc_ops := [(OAddEdge ([120; 32; 108; 97; 103; 40; 110; 61; 49; 41], None) ([120], None) Dir None true); (OAddEdge ([121], None) ([120; 32; 108; 97; 103; 40; 110; 61; 49; 41], None) Und None true); (OAddEdge ([120], None) ([121; 32; 108; 97; 103; 40; 110; 61; 50; 41], None) Dir None true); (OAddEdge ([121], None) ([120], None) Dir None true); (OAddEdge ([120], None) ([121], None) Dir None true)]; hc_pool := [[120]; [120; 32; 108; 97; 103; 40; 110; 61; 49; 41]; [121]; [121; 32; 108; 97; 103; 40; 110; 61; 50; 41]]; hc_lags := [(-2)%Z; (-1)%Z; (0)%Z; (1)%Z]; hc_vars := [[120]; [121]]; hc_expected := [(0, 8415212850136175648%uint63); (0, 6331318121429073087%uint63); (8, 6331318121429073087%uint63); (0, 6185556641988912616%uint63); (3, 6185556641988912616%uint63)] |}
].

Example gen_pinned_outcomes :
  map (fun c => map fst (gen_run_hist (hc_kind c) (empty_graph []) (hc_ops c) (hc_pool c) (hc_lags c) (hc_vars c)))
      pinned
  = [ [0; 0; 4]; [8]; [0; 3; 2; 0; 3]; [0; 0; 0]; [0; 0; 0]; [0; 0; 4]; [4; 4; 0; 4]; [4; 4]; [0; 0; 8; 0; 3] ].
Proof. vm_compute. reflexivity. Qed.

(** generated code against the implementation: outcome code and observation hash after every step *)
Example gen_pinned_matches_library : gen_mismatches pinned = [].
Proof. vm_compute. reflexivity. Qed.
Example gen_pinned_matches_library_edgeobj : gen_mismatches_eo pinned = [].
Proof. vm_compute. reflexivity. Qed.

(** same verdict as the hand-model entry point on every case: with the repair the library, the generated code and the
    hand model agree on the mixed self loops of case 7 too *)
Example gen_pinned_vs_model : mismatches pinned = [].
Proof. vm_compute. reflexivity. Qed.

Definition hc_dflt : hcase :=
  {| hc_kind := Plain; hc_ops := []; hc_pool := []; hc_lags := []; hc_vars := []; hc_expected := [] |}.

Example gen_pinned_last_agrees :
  map gen_last_agrees pinned = [true; true; true; true; true; true; true; true; true].
Proof. vm_compute. reflexivity. Qed.

(** the rejected calls leave the observation of the previous step (hash unchanged); for a first step: the
    observation of the empty graph *)
Example gen_pinned_failures_restore :
  map (fun c => match rev (gen_run_hist (hc_kind c) (empty_graph []) (hc_ops c) (hc_pool c) (hc_lags c) (hc_vars c)) with
                | (c1, h1) :: (_, h0) :: _ => (c1, Uint63.eqb h1 h0)
                | [(c1, h1)] => (c1, Uint63.eqb h1 (hash_tokens (g_observe (hc_kind c) (empty_graph []) (hc_pool c)
                                                                   (hc_lags c) (hc_vars c))))
                | _ => (99, false)
                end) (map (fun i => nth i pinned hc_dflt) [0; 1; 2; 5; 7]%nat)
  = [(4, true); (8, true); (3, true); (4, true); (4, true)].
Proof. vm_compute. reflexivity. Qed.

(** case 7: the rejected mixed self loops create nothing (no node at all in the state left behind) *)
Example gen_mixed_self_loop_creates_nothing :
  let g := snd (fold_left (fun (acc : res graph * graph) o => gen_run_op Plain (snd acc) o)
                  (hc_ops (nth 7 pinned hc_dflt)) (Ok (empty_graph []), empty_graph [])) in
  (map nid (gnodes g), gsrc g) = ([], []).
Proof. vm_compute. reflexivity. Qed.

(** the cycle of case 4 is really in the state the generated code leaves (validate=False) *)
Example gen_unvalidated_cycle_kept :
  let g := snd (fold_left (fun (acc : res graph * graph) o => gen_run_op Plain (snd acc) o)
                  (hc_ops (nth 4 pinned hc_dflt)) (Ok (empty_graph []), empty_graph [])) in
  (map (fun e => (esrc e, edst e)) (gsrc g), depends_on_itself g [97])
  = ([([97], [98]); ([98], [99]); ([99], [97])], Some true).
Proof. vm_compute. reflexivity. Qed.

(** add_node (real library): add_node('a', binary, {'k': 1}); add_node('a') -> NodeDuplicatedError (1);
    add_node(node=Node('b', ordinal, {'q': 'z'})); add_node(node=Node('a')) -> 1; a->b; add_node('c', continuous) *)
Definition pinned_nodes : list hcase := [
  {| hc_kind := Plain; hc_ops := [(OAddNode [97] VBin (Some [([107], (JInt (1)%Z))])); (OAddNode [97] VUnspec None); (OAddNodeObj [98] VOrd [([113], (JStr [122]))]); (OAddNodeObj [97] VUnspec []); (OAddEdge ([97], None) ([98], None) Dir None true); (OAddNode [99] VCont None)]; hc_pool := [[97]; [98]; [99]]; hc_lags := []; hc_vars := []; hc_expected := [(0, 4231248213725562854%uint63); (1, 4231248213725562854%uint63); (0, 5461112770911969107%uint63); (1, 5461112770911969107%uint63); (0, 4524179483888149674%uint63); (0, 2568300207925919505%uint63)] |}
].
Example gen_pinned_nodes_outcomes :
  map (fun c => map fst (gen_run_hist (hc_kind c) (empty_graph []) (hc_ops c) (hc_pool c) (hc_lags c) (hc_vars c)))
      pinned_nodes = [ [0; 1; 0; 1; 0; 0] ].
Proof. vm_compute. reflexivity. Qed.
Example gen_pinned_nodes_match_library : (gen_mismatches pinned_nodes, mismatches pinned_nodes) = ([], []).
Proof. vm_compute. reflexivity. Qed.

(** * Rows of the table of PyRtAdd.v, pinned against the real interpreter (PYTHONPATH=/repo /venv/bin/python;
    graph a->b built by g.add_edge('a','b')) *)
Definition g_rows : graph := g_run Plain [OAddEdge ([97], None) ([98], None) Dir None true] (empty_graph []).
Definition node_a : endpoint := ([97], Some (VUnspec, [])).
Definition node_a_meta : endpoint := ([97], Some (VUnspec, [([120], JInt 1%Z)])).
(** Node('a') == 'a' is False; 'a' == Node('a') is False; Node('a') == Node('a', meta={'x': 1}) is True *)
Example row_nl_eq :
  (py_nl_eq node_a ([97], None), py_nl_eq ([97], None) node_a, py_nl_eq node_a node_a_meta, py_nl_eq ([97], None) ([97], None))
  = (false, false, true, true).
Proof. vm_compute. reflexivity. Qed.
(** isinstance('a', HasMetadata) is False; isinstance(Node('a'), HasMetadata) is True;
    Node.identifier_from(Node('q')) == 'q' == Node.identifier_from('q') *)
Example row_isinstance :
  (py_isinstance_hasmeta ([97], None), py_isinstance_hasmeta node_a, py_isinstance_node ([97], None),
   py_nl_identifier node_a, py_nl_identifier ([97], None))
  = (false, true, false, [97], [97]).
Proof. vm_compute. reflexivity. Qed.
(** g._edges_by_source['a'].get('b') is not None; g._edges_by_source['zz'].get('b') is None (defaultdict);
    g._edges_by_destination['b'].get('a') is not None *)
Example row_index_get :
  (py_opt_is_None (py_src_get g_rows [97] [98]), py_opt_is_None (py_src_get g_rows [122; 122] [98]),
   py_opt_is_None (py_dst_get g_rows [98] [97]))
  = (false, true, false).
Proof. vm_compute. reflexivity. Qed.
(** [n.identifier for n in g.get_nodes(Node('a'))] == ['a']; g.get_nodes('zz') == []; g.get_edges('a', Node('b')) is the
    one edge; g.get_edges('b','a') == []; g.node_exists(Node('a')) is True; g.node_exists('zz') is False *)
Example row_get :
  (map nid (py_get_nodes_nl g_rows node_a), py_get_nodes_nl g_rows ([122; 122], None),
   map py_edge_pair (py_get_edges_nl g_rows ([97], None) ([98], Some (VUnspec, [])) None),
   py_get_edges_nl g_rows ([98], None) ([97], None) None,
   py_node_exists_nl g_rows node_a, py_node_exists_nl g_rows ([122; 122], None))
  = ([[97]], [], [([97], [98])], [], true, false).
Proof. vm_compute. reflexivity. Qed.
(** Edge(Node('a'), Node('b'), edge_type='--').meta == {}; g._nodes_by_identifier['zz']._add_inbound_edge(e) raises
    KeyError *)
Example row_mk_edge_inbound :
  (match get_node g_rows [97], get_node g_rows [98] with
   | Some a, Some b => match py_mk_edge Plain g_rows a b Und with
                       | Ret e => Some (fst (py_eo_source e), fst (py_eo_destination e), py_eo_type e, py_eo_meta e)
                       | Exc _ => None end
   | _, _ => None end,
   fst (py_add_inbound g_rows [122; 122]
          {| eo_source := node_a; eo_destination := ([98], None); eo_type := Dir; eo_meta := [] |}))
  = (Some ([97], [98], Und, []), Exc EKey).
Proof. vm_compute. reflexivity. Qed.

(** argument checks, real library: e = Edge(Node('a'), Node('b')); g.add_edge(edge=e, edge_type='--'),
    g.add_edge(edge=e, meta={}), g.add_edge(edge=e, source='a'), g.add_edge(source='a'), g.add_edge(destination='b'),
    g.add_edge() all raise AssertionError and leave the empty graph without nodes *)
Definition eo_ab : edge_obj :=
  {| eo_source := ([97], Some (VUnspec, [])); eo_destination := ([98], Some (VUnspec, [])); eo_type := Dir; eo_meta := [] |}.
Example row_add_edge_asserts :
  map (fun o : pymut unit => (fst o, map nid (gnodes (snd o))))
    [gen_add_edge parse Plain (empty_graph []) None None Und None (Some eo_ab) true;
     gen_add_edge parse Plain (empty_graph []) None None Dir (Some []) (Some eo_ab) true;
     gen_add_edge parse Plain (empty_graph []) (Some ([97], None)) None Dir None (Some eo_ab) true;
     gen_add_edge parse Plain (empty_graph []) (Some ([97], None)) None Dir None None true;
     gen_add_edge parse Plain (empty_graph []) None (Some ([98], None)) Dir None None true;
     gen_add_edge parse Plain (empty_graph []) None None Dir None None true]
  = [(Exc EAssert, []); (Exc EAssert, []); (Exc EAssert, []); (Exc EAssert, []); (Exc EAssert, []); (Exc EAssert, [])].
Proof. vm_compute. reflexivity. Qed.

(** rows used by add_node: g._check_node_exists('a') raises NodeDuplicatedError, g._check_node_exists('zz') == 'zz' ==
    g._check_node_exists(Node('zz')); Node('q', meta=None, variable_type=BINARY).meta == {}, .variable_type == binary,
    Node('q').variable_type == unspecified *)
Example row_add_node_rows :
  (py_check_node_exists g_rows ([97], None), py_check_node_exists g_rows ([122; 122], None),
   py_check_node_exists g_rows ([122; 122], Some (VUnspec, [])),
   match py_mk_node parse Plain [113] None VBin with Ret n => Some (nid n, nvt n, nmeta n) | Exc _ => None end,
   py_nl_vtype ([113], Some (VBin, [])), py_nl_vtype ([113], None))
  = (Exc ENodeDup, Ret [122; 122], Ret [122; 122], Some ([113], VBin, []), VBin, VUnspec).
Proof. vm_compute. reflexivity. Qed.
