(** StationaryProofs2.v — property C16, continued: the two statements StationaryProofs.v left
    open.

    1. [extend] depends only on the node keys, edge keys and edge types of the minimal graph
       ([c15_same_keys], [extend_congr]); hence the stationary graph is a fixed point of
       get_stationary_graph up to [CausalGraph.__eq__] ([stat_idem], which closes
       [stat_idem_statement]).
       is_stationary_graph of the stationary graph [s] is [Ok (ts_is_dag s)], and [s] is a DAG
       exactly when the MINIMAL graph of the input is one ([stat_dag_iff], [stat_is_stationary]).
       It is NOT enough that the input is a DAG: [stat_dag_input_refuted].
    2. the boolean oracle [c16_check] decides [c16_spec] ([c16_check_spec], which closes
       [c16_check_statement]). *)
From CG Require Import Base Dec Digraph DigraphProofs.
From CG Require Import TSGraph TSGraphProofs MinimalProofs ExtendProofs StationaryProofs.
Local Open Scope Z_scope.

(** * Graphs with the same node keys, edge keys and edge types

    This is what [CausalGraph.__eq__] compares; node attributes and edge metadata are ignored. *)

Definition ekt (e : tedge) : (key * key) * etype := (ekey e, ety e).

Definition same_keys (a b : tsg) : Prop :=
  (forall k, In k (map nkey (tnodes a)) <-> In k (map nkey (tnodes b)))
  /\ (forall kt, In kt (map ekt (tedges a)) <-> In kt (map ekt (tedges b))).

Lemma same_keys_refl a : same_keys a a.
Proof. split; intros; tauto. Qed.

Lemma same_keys_sym a b : same_keys a b -> same_keys b a.
Proof.
  intros [H1 H2]; split.
  - intros k; rewrite (H1 k); tauto.
  - intros kt; rewrite (H2 kt); tauto.
Qed.

Lemma same_keys_trans a b c : same_keys a b -> same_keys b c -> same_keys a c.
Proof.
  intros [H1 H2] [H3 H4]; split.
  - intros k; rewrite (H1 k), (H3 k); tauto.
  - intros kt; rewrite (H2 kt), (H4 kt); tauto.
Qed.

Lemma same_graph_keys a b : same_graph a b -> same_keys a b.
Proof.
  intros (Hn & He & _); split.
  - intros k; split; intros H; apply in_map_iff in H; destruct H as (n & <- & Hn');
      apply in_map, Hn, Hn'.
  - intros kt; split; intros H; apply in_map_iff in H; destruct H as (e & <- & He');
      apply in_map, He, He'.
Qed.

Lemma ekt_in_ekey l k t : In (k, t) (map ekt l) -> In k (map ekey l).
Proof.
  intros H; apply in_map_iff in H; destruct H as (e & K & He).
  unfold ekt in K; inversion K; subst; apply in_map, He.
Qed.

Lemma NoDup_ekt l : NoDup (map ekey l) -> NoDup (map ekt l).
Proof.
  induction l as [|x l IH]; simpl; intros ND; [constructor|].
  inversion ND as [|? ? Hx ND']; subst; constructor; [|auto].
  intros Hin; apply Hx. apply (ekt_in_ekey l (ekey x) (ety x)); exact Hin.
Qed.

Lemma same_keys_edge a b e :
  same_keys a b -> In e (tedges a) ->
  exists e', In e' (tedges b) /\ ekey e' = ekey e /\ ety e' = ety e.
Proof.
  intros [_ H2] He.
  assert (K : In (ekt e) (map ekt (tedges b))) by (apply H2, in_map, He).
  apply in_map_iff in K; destruct K as (e' & K & He').
  exists e'; split; [exact He'|]. split; [exact (f_equal fst K)|exact (f_equal snd K)].
Qed.

Lemma same_keys_ekey a b k :
  same_keys a b -> In k (map ekey (tedges a)) -> In k (map ekey (tedges b)).
Proof.
  intros SK Hk; apply in_map_iff in Hk; destruct Hk as (e & <- & He).
  destruct (same_keys_edge a b e SK He) as (e' & He' & K & _); rewrite <- K; apply in_map, He'.
Qed.

Lemma same_keys_node a b n :
  same_keys a b -> In n (tnodes a) -> exists n', In n' (tnodes b) /\ nkey n' = nkey n.
Proof.
  intros [H1 _] Hn.
  assert (K : In (nkey n) (map nkey (tnodes b))) by (apply H1, in_map, Hn).
  apply in_map_iff in K; destruct K as (n' & K & Hn'); eauto.
Qed.

Lemma same_keys_var a b v :
  same_keys a b -> In v (map tv (tnodes a)) -> In v (map tv (tnodes b)).
Proof.
  intros SK Hv; apply in_map_iff in Hv; destruct Hv as (n & <- & Hn).
  destruct (same_keys_node a b n SK Hn) as (n' & Hn' & K).
  pose proof (f_equal fst K) as K1; simpl in K1; rewrite <- K1; apply in_map, Hn'.
Qed.

(** From key sets and a type agreement (the shape of [stat_minimal] / [minimal_of_extend]). *)
Lemma keys_types_same_keys a b :
  (forall k, In k (map nkey (tnodes a)) <-> In k (map nkey (tnodes b))) ->
  (forall k, In k (map ekey (tedges a)) <-> In k (map ekey (tedges b))) ->
  (forall e1 e2, In e1 (tedges a) -> In e2 (tedges b) -> ekey e1 = ekey e2 -> ety e1 = ety e2) ->
  same_keys a b.
Proof.
  intros Hn Hk Ht; split; [exact Hn|].
  intros kt; split; intros H; apply in_map_iff in H; destruct H as (e & <- & He).
  - assert (K : In (ekey e) (map ekey (tedges b))) by (apply Hk, in_map, He).
    apply in_map_iff in K; destruct K as (e' & K & He'). apply in_map_iff; exists e'.
    split; [|exact He']. unfold ekt; rewrite K, (Ht e e' He He' (eq_sym K)); reflexivity.
  - assert (K : In (ekey e) (map ekey (tedges a))) by (apply Hk, in_map, He).
    apply in_map_iff in K; destruct K as (e' & K & He'). apply in_map_iff; exists e'.
    split; [|exact He']. unfold ekt; rewrite K, (Ht e' e He' He K); reflexivity.
Qed.

(** Two well-formed graphs with the same keys and edge types are equal for
    [CausalGraph.__eq__] (the key-level strengthening of [same_graph_eqb]). *)
Lemma same_keys_eqb a b : wf a -> wf b -> same_keys a b -> ts_graph_eqb a b = true.
Proof.
  intros Wa Wb SK; pose proof (same_keys_sym a b SK) as SK'. unfold ts_graph_eqb.
  assert (Ln : length (tnodes a) = length (tnodes b)).
  { rewrite <- (map_length nkey (tnodes a)), <- (map_length nkey (tnodes b)).
    apply Permutation_length, NoDup_Permutation;
      [apply (wf_nodes a Wa)|apply (wf_nodes b Wb)|apply (proj1 SK)]. }
  assert (Le : length (tedges a) = length (tedges b)).
  { rewrite <- (map_length ekt (tedges a)), <- (map_length ekt (tedges b)).
    apply Permutation_length, NoDup_Permutation;
      [apply NoDup_ekt, (wf_edges a Wa)|apply NoDup_ekt, (wf_edges b Wb)|apply (proj2 SK)]. }
  rewrite Ln, Le, !Nat.eqb_refl; simpl.
  repeat (apply andb_true_iff; split); apply forallb_forall.
  - intros n H; apply node_exists_in, (proj1 SK), in_map, H.
  - intros n H; apply node_exists_in, (proj1 SK), in_map, H.
  - intros e H; destruct (same_keys_edge a b e SK H) as (e' & He' & K & _).
    apply existsb_exists; exists e'; split; [exact He'|rewrite K; apply upair_eqb_refl].
  - intros e H; destruct (same_keys_edge b a e SK' H) as (e' & He' & K & _).
    apply existsb_exists; exists e'; split; [exact He'|rewrite K; apply upair_eqb_refl].
  - intros e H; destruct (same_keys_edge a b e SK H) as (e' & He' & K & T). unfold edge_match.
    destruct (find_edge b (esrc e) (edst e)) as [e2|] eqn:F.
    + apply find_edge_some in F; destruct F as [H2 K2].
      assert (e2 = e').
      { apply (NoDup_map_inj ekey (tedges b)); auto; [apply (wf_edges b Wb)|].
        rewrite K, K2; reflexivity. }
      subst e2; rewrite T; apply etype_eqb_eq; reflexivity.
    + exfalso; apply (find_edge_none _ _ _ F). change (esrc e, edst e) with (ekey e).
      rewrite <- K; apply in_map, He'.
Qed.

Lemma is_empty_same_keys a b : same_keys a b -> is_empty a = is_empty b.
Proof.
  intros SK; pose proof (same_keys_sym a b SK) as SK'; unfold is_empty.
  destruct (tnodes a) as [|n la] eqn:Ea; destruct (tnodes b) as [|n' lb] eqn:Eb.
  - destruct (tedges a) as [|e ea] eqn:Fa; destruct (tedges b) as [|e' eb] eqn:Fb.
    + reflexivity.
    + destruct (same_keys_edge b a e' SK') as (x & Hx & _); [rewrite Fb; left; reflexivity|].
      rewrite Fa in Hx; destruct Hx.
    + destruct (same_keys_edge a b e SK) as (x & Hx & _); [rewrite Fa; left; reflexivity|].
      rewrite Fb in Hx; destruct Hx.
    + reflexivity.
  - destruct (same_keys_node b a n' SK') as (x & Hx & _); [rewrite Eb; left; reflexivity|].
    rewrite Ea in Hx; destruct Hx.
  - destruct (same_keys_node a b n SK) as (x & Hx & _); [rewrite Ea; left; reflexivity|].
    rewrite Eb in Hx; destruct Hx.
  - reflexivity.
Qed.

(** * [extend] only depends on the keys and edge types of the minimal graph *)

Lemma kept_ends b f iap e t : kept b f iap (t - delta e) t = true -> In t (ends b f).
Proof.
  intros Hk; destruct (kept_cases b f iap e t Hk) as [-> |[(bs & -> & Ht & _)|(fs & -> & Ht)]];
    unfold ends.
  - left; reflexivity.
  - right; apply in_or_app; left; apply zrange_in; lia.
  - right; apply in_or_app; right; apply zrange_in; lia.
Qed.

Lemma ekey_parts e1 e2 :
  ekey e1 = ekey e2 ->
  es e1 = es e2 /\ esl e1 = esl e2 /\ ed e1 = ed e2 /\ edl e1 = edl e2 /\ delta e1 = delta e2.
Proof.
  intros K; unfold ekey, esrc, edst in K; inversion K as [[K1 K2 K3 K4]].
  unfold delta; rewrite K2, K4; auto.
Qed.

Lemma copy_shiftk e e' :
  is_copyP e e' -> ekey e' = shiftk e (edl e') /\ esl e' = edl e' - delta e.
Proof.
  intros (C1 & C2 & C3 & _); unfold delta in C3. split; [|unfold delta; lia].
  unfold ekey, shiftk, esrc, edst; rewrite C1, C2; repeat f_equal; unfold delta; lia.
Qed.

Lemma shiftk_ekey e1 e2 t : ekey e1 = ekey e2 -> shiftk e1 t = shiftk e2 t.
Proof.
  intros K; destruct (ekey_parts e1 e2 K) as (K1 & _ & K3 & _ & K5).
  unfold shiftk; rewrite K1, K3, K5; reflexivity.
Qed.

Lemma shiftk_0 m e : mwf m -> In e (tedges m) -> shiftk e 0 = ekey e.
Proof.
  intros Hm He; destruct (mwf_delta m e Hm He) as [_ L]; pose proof (proj2 Hm e He) as Z0.
  unfold shiftk, ekey, esrc, edst; rewrite Z0, L; repeat f_equal; lia.
Qed.

Lemma c15_keys_incl m1 m2 b f iap x1 x2 :
  mwf m1 -> mwf m2 -> same_keys m1 m2 ->
  c15_spec m1 b f iap x1 -> c15_spec m2 b f iap x2 ->
  (forall e', In e' (tedges x1) ->
     exists e'', In e'' (tedges x2) /\ ekey e'' = ekey e' /\ ety e'' = ety e')
  /\ (forall k, In k (map nkey (tnodes x1)) -> In k (map nkey (tnodes x2))).
Proof.
  intros Hm1 Hm2 SK S1 S2.
  assert (HE : forall e', In e' (tedges x1) ->
            exists e'', In e'' (tedges x2) /\ ekey e'' = ekey e' /\ ety e'' = ety e').
  { intros e' He'. destruct (c15_es _ _ _ _ _ S1 e' He') as [(e & He & Cp) Hk].
    destruct (copy_shiftk e e' Cp) as [K Sl]. rewrite Sl in Hk.
    destruct (same_keys_edge m1 m2 e SK He) as (e2 & He2 & K2 & T2).
    destruct (ekey_parts e2 e K2) as (_ & _ & _ & _ & D2). rewrite <- D2 in Hk.
    pose proof (c15_ec _ _ _ _ _ S2 e2 (edl e') He2 (kept_ends _ _ _ _ _ Hk) Hk) as Q.
    apply in_map_iff in Q; destruct Q as (e'' & K'' & He'').
    exists e''; split; [exact He''|]. split.
    - rewrite K'', K; apply shiftk_ekey; exact K2.
    - destruct (c15_es _ _ _ _ _ S2 e'' He'') as [(e3 & He3 & Cp3) _].
      destruct (copy_shiftk e3 e'' Cp3) as [K3 _].
      assert (E3 : e3 = e2).
      { destruct (shiftk_inj m2 e3 e2 (edl e'') (edl e') Hm2 He3 He2) as [_ Q]; [|exact Q].
        rewrite <- K3, K''; reflexivity. }
      subst e3. destruct Cp3 as (_ & _ & _ & T3 & _); destruct Cp as (_ & _ & _ & T & _).
      congruence. }
  split; [exact HE|].
  intros k Hk; apply in_map_iff in Hk; destruct Hk as (n' & <- & Hn').
  destruct (c15_ns _ _ _ _ _ S1 n' Hn') as [[A|[[A1 A2]|(e' & He' & A)]] _].
  - apply (proj1 SK) in A. apply in_map_iff in A; destruct A as (n2 & K & Hn2).
    rewrite <- K; exact (proj1 (c15_nc1 _ _ _ _ _ S2 n2 Hn2)).
  - apply (same_keys_var m1 m2 _ SK) in A1. apply in_map_iff in A1; destruct A1 as (n2 & Tv & Hn2).
    unfold nkey; rewrite <- Tv. apply (proj2 (c15_nc1 _ _ _ _ _ S2 n2 Hn2)).
    apply windows_N, in_window_N; exact A2.
  - destruct (HE e' He') as (e'' & He'' & K & _).
    destruct (c15_nc2 _ _ _ _ _ S2 e'' He'') as [Q1 Q2].
    pose proof (f_equal fst K) as K1; pose proof (f_equal snd K) as K2; simpl in K1, K2.
    destruct A as [A|A]; rewrite <- A; [rewrite <- K1|rewrite <- K2]; assumption.
Qed.

(** The missing lemma: two minimal graphs with the same node keys, edge keys and edge types
    have extensions with the same node keys, edge keys and edge types. *)
Theorem c15_same_keys m1 m2 b f iap x1 x2 :
  mwf m1 -> mwf m2 -> same_keys m1 m2 ->
  c15_spec m1 b f iap x1 -> c15_spec m2 b f iap x2 -> same_keys x1 x2.
Proof.
  intros Hm1 Hm2 SK S1 S2.
  destruct (c15_keys_incl m1 m2 b f iap x1 x2 Hm1 Hm2 SK S1 S2) as [E12 N12].
  destruct (c15_keys_incl m2 m1 b f iap x2 x1 Hm2 Hm1 (same_keys_sym _ _ SK) S2 S1) as [E21 N21].
  split.
  - intros k; split; auto.
  - intros kt; split; intros H; apply in_map_iff in H; destruct H as (e & <- & He).
    + destruct (E12 e He) as (e' & He' & K & T). apply in_map_iff; exists e'.
      split; [unfold ekt; congruence|exact He'].
    + destruct (E21 e He) as (e' & He' & K & T). apply in_map_iff; exists e'.
      split; [unfold ekt; congruence|exact He'].
Qed.

(** The same for [extend] itself, on any two consistent graphs whose minimal graphs agree on
    keys and edge types. *)
Theorem extend_congr g1 g2 m1 m2 b f iap x1 x2 :
  consistent g1 -> consistent g2 -> minimal g1 = Ok m1 -> minimal g2 = Ok m2 ->
  same_keys m1 m2 ->
  extend g1 b f iap = Ok x1 -> extend g2 b f iap = Ok x2 -> same_keys x1 x2.
Proof.
  intros C1 C2 E1 E2 SK X1 X2.
  destruct (neg_opt b || neg_opt f) eqn:Hn; [rewrite extend_neg in X1; [discriminate|exact Hn]|].
  apply orb_false_iff in Hn; destruct Hn as [Hb Hf].
  destruct (extend_spec g1 m1 b f iap C1 E1 Hb Hf) as (y1 & Y1 & S1).
  destruct (extend_spec g2 m2 b f iap C2 E2 Hb Hf) as (y2 & Y2 & S2).
  assert (y1 = x1) by congruence; assert (y2 = x2) by congruence; subst y1 y2.
  rewrite <- (is_empty_same_keys m1 m2 SK) in S2.
  destruct (is_empty m1).
  - subst x1 x2; exact SK.
  - destruct S1 as [S1 _], S2 as [S2 _].
    apply (c15_same_keys m1 m2 b f iap x1 x2); auto.
    + exact (proj1 (minimal_mwf g1 m1 C1 E1)).
    + exact (proj1 (minimal_mwf g2 m2 C2 E2)).
Qed.

(** In the words of the note in StationaryProofs.v: for two MINIMAL graphs [m1], [m2] with the
    same keys and types, [extend m1 b f iap] and [extend m2 b f iap] have the same keys and types. *)
Corollary extend_congr_minimal g1 g2 m1 m2 b f iap x1 x2 :
  consistent g1 -> consistent g2 -> minimal g1 = Ok m1 -> minimal g2 = Ok m2 ->
  same_keys m1 m2 ->
  extend m1 b f iap = Ok x1 -> extend m2 b f iap = Ok x2 -> same_keys x1 x2.
Proof.
  intros C1 C2 E1 E2 SK X1 X2.
  destruct (minimal_idem g1 m1 C1 E1) as (m1' & E1' & SG1 & _).
  destruct (minimal_idem g2 m2 C2 E2) as (m2' & E2' & SG2 & _).
  apply (extend_congr m1 m2 m1' m2' b f iap x1 x2); auto.
  - exact (minimal_consistent g1 m1 C1 E1).
  - exact (minimal_consistent g2 m2 C2 E2).
  - apply (same_keys_trans m1' m1 m2'); [apply same_keys_sym, same_graph_keys, SG1|].
    apply (same_keys_trans m1 m2 m2'); [exact SK|apply same_graph_keys, SG2].
Qed.

(** * The stationary graph is a fixed point of get_stationary_graph *)

Lemma min_lag_intro l lo : In lo l -> (forall k, In k l -> lo <= k) -> min_lag l = Some lo.
Proof.
  intros Hin Hle. destruct (min_lag l) as [x|] eqn:E.
  - destruct (min_lag_spec l x E) as [I L]. f_equal.
    pose proof (Hle x I); pose proof (L lo Hin); lia.
  - destruct l; [destruct Hin|simpl in E; discriminate].
Qed.

Lemma max_lag_intro l hi : In hi l -> (forall k, In k l -> k <= hi) -> max_lag l = Some hi.
Proof.
  intros Hin Hle. destruct (max_lag l) as [x|] eqn:E.
  - destruct (max_lag_spec l x E) as [I L]. f_equal.
    pose proof (Hle x I); pose proof (L hi Hin); lia.
  - destruct l; [destruct Hin|simpl in E; discriminate].
Qed.

Lemma c15_xinv m b f iap x : c15_spec m b f iap x -> wf x -> xinv m x.
Proof.
  intros S W; constructor.
  - exact W.
  - intros e' He'; exact (proj1 (c15_es _ _ _ _ _ S e' He')).
  - intros n' Hn'; exact (proj2 (c15_ns _ _ _ _ _ S n' Hn')).
  - exact (c15_meta _ _ _ _ _ S).
Qed.

(** The stationary graph of a consistent graph with latest lag 0 spans the same window. *)
Lemma stat_window0 g m lo s :
  consistent g -> window0 g lo -> minimal g = Ok m -> stationary g = Ok s -> window0 s lo.
Proof.
  intros C HW E Es. destruct (stat_window g m lo s C HW E Es) as (B1 & B2 & _).
  destruct (window0_bounds g lo HW) as [Hlo _].
  assert (Hg : exists n0, In n0 (tnodes g)).
  { destruct HW as [H1 _]; apply min_lag_spec in H1; destruct H1 as [H1 _].
    apply in_map_iff in H1; destruct H1 as (n0 & _ & H); eauto. }
  destruct Hg as (n0 & Hn0).
  assert (Hin : forall k, lo <= k <= 0 -> In k (map tl (tnodes s))).
  { intros k Hk. pose proof (B1 n0 k Hn0 Hk) as K. apply in_map_iff in K.
    destruct K as (n' & K & Hn'). pose proof (f_equal snd K) as K2; simpl in K2.
    rewrite <- K2; apply in_map, Hn'. }
  split.
  - apply min_lag_intro; [apply Hin; lia|].
    intros k Hk; apply in_map_iff in Hk; destruct Hk as (n' & <- & Hn').
    exact (proj1 (proj1 (B2 n' Hn'))).
  - apply max_lag_intro; [apply Hin; lia|].
    intros k Hk; apply in_map_iff in Hk; destruct Hk as (n' & <- & Hn').
    exact (proj2 (proj1 (B2 n' Hn'))).
Qed.

(** Everything that is known about [s' = stationary s]. *)
Theorem stat_idem_full g m lo s :
  consistent g -> window0 g lo -> minimal g = Ok m -> stationary g = Ok s ->
  exists s', stationary s = Ok s' /\ wf s /\ wf s' /\ same_keys s' s
             /\ ts_graph_eqb s' s = true /\ ts_graph_eqb s s' = true.
Proof.
  intros C HW E Es.
  destruct (stat_spec g m lo C HW E) as (s0 & Es0 & S & Ws).
  assert (s0 = s) by congruence; subst s0.
  destruct (minimal_mwf g m C E) as [Hm _].
  pose proof (c15_xinv _ _ _ _ _ S Ws) as X.
  pose proof (xinv_consistent m s Hm X) as Cs.
  destruct (stat_minimal g m lo s C HW E Es) as (ms & Ems & K1 & K2 & K3).
  assert (SKm : same_keys ms m).
  { apply keys_types_same_keys; auto. intros e1 e2 H1 H2 K; exact (proj1 (K2 e1 e2 H1 H2 K)). }
  pose proof (minimal_consistent s ms Cs Ems) as Cms.
  destruct (minimal_mwf s ms Cs Ems) as [Hms _].
  destruct (minimal_idem s ms Cs Ems) as (ms' & Ems' & SGs & _).
  pose proof (stat_window0 g m lo s C HW E Es) as HWs.
  destruct (window0_bounds g lo HW) as [Hlo _].
  assert (Hb : neg_opt (Some (- lo)) = false) by (simpl; apply Z.ltb_ge; lia).
  assert (Hf : neg_opt (Some 0) = false) by reflexivity.
  destruct (extend_spec ms ms' (Some (- lo)) (Some 0) false Cms Ems' Hb Hf) as (s' & Es' & S').
  (* the minimal graph of [s] is not empty *)
  assert (Hne : is_empty ms' = false).
  { assert (Hs : exists n', In n' (tnodes s)).
    { destruct HWs as [H1 _]; apply min_lag_spec in H1; destruct H1 as [H1 _].
      apply in_map_iff in H1; destruct H1 as (n' & _ & H); eauto. }
    destruct Hs as (n' & Hn'). destruct (proj2 (c15_ns _ _ _ _ _ S n' Hn')) as (n & Hn & _).
    destruct (same_keys_node m ms n (same_keys_sym _ _ SKm) Hn) as (n1 & Hn1 & _).
    apply (proj1 SGs) in Hn1. unfold is_empty; destruct (tnodes ms'); [destruct Hn1|reflexivity]. }
  rewrite Hne in S'; destruct S' as [S' X'].
  exists s'. split.
  { rewrite stationary_def, Ems. destruct HWs as [-> ->]. exact Es'. }
  pose proof (xi_wf ms' s' X') as Ws'.
  assert (SK : same_keys s' s).
  { apply (c15_same_keys ms m (Some (- lo)) (Some 0) false s' s); auto.
    apply (c15_spec_same ms ms'); assumption. }
  split; [exact Ws|]. split; [exact Ws'|]. split; [exact SK|].
  split; apply same_keys_eqb; auto. apply same_keys_sym; exact SK.
Qed.

(** C16, "the stationary graph is itself stationary": applying get_stationary_graph to the
    stationary graph of a consistent graph with latest lag 0 gives a graph that is equal to it
    for [CausalGraph.__eq__] (same node identifiers, same edges with the same types). *)
Theorem stat_idem :
  forall g m lo s, consistent g -> window0 g lo -> minimal g = Ok m -> stationary g = Ok s ->
    exists s', stationary s = Ok s' /\ ts_graph_eqb s' s = true.
Proof.
  intros g m lo s C HW E Es.
  destruct (stat_idem_full g m lo s C HW E Es) as (s' & Es' & _ & _ & _ & Q & _). eauto.
Qed.

(** [stat_idem] is exactly the statement StationaryProofs.v left open. *)
Theorem stat_idem_closes : stat_idem_statement.
Proof. exact stat_idem. Qed.

(** * is_stationary_graph of the stationary graph *)

Lemma ts_digraph_wf g : wf g -> Digraph.wf (ts_digraph g).
Proof.
  intros W; split; simpl.
  - exact (wf_nodes g W).
  - intros a b H; unfold arc in H; simpl in H. apply in_map_iff in H; destruct H as (e & K & He).
    unfold ekey in K; inversion K; subst. exact (wf_ends g W e He).
Qed.

Lemma ts_is_dag_spec g :
  wf g ->
  (ts_is_dag g = true <->
   (forall e, In e (tedges g) -> ety e = Dir) /\ acyclic (ts_digraph g)).
Proof.
  intros W; unfold ts_is_dag; rewrite andb_true_iff, forallb_forall.
  rewrite (acyclicb_spec key_eqb key_eqb_spec (ts_digraph_wf g W)).
  split; intros [H1 H2]; (split; [|exact H2]); intros e He; apply etype_eqb_eq, H1, He.
Qed.

(** The stationary graph is a DAG exactly when the minimal graph of the input is a DAG. *)
Theorem stat_dag_iff g m lo s :
  consistent g -> window0 g lo -> minimal g = Ok m -> stationary g = Ok s ->
  ts_is_dag s = ts_is_dag m.
Proof.
  intros C HW E Es.
  destruct (stat_spec g m lo C HW E) as (s0 & Es0 & S & Ws).
  assert (s0 = s) by congruence; subst s0.
  destruct (minimal_mwf g m C E) as [Hm _]. pose proof Hm as [Wm Z0].
  (* every minimal edge is an edge of [s], with its type *)
  assert (MS : forall e, In e (tedges m) ->
            exists e', In e' (tedges s) /\ ekey e' = ekey e /\ ety e' = ety e).
  { intros e He. assert (K : In (shiftk e 0) (map ekey (tedges s))).
    { apply (c15_ec _ _ _ _ _ S e 0 He); [left; reflexivity|reflexivity]. }
    apply in_map_iff in K; destruct K as (e' & K & He'). exists e'; split; [exact He'|].
    rewrite (shiftk_0 m e Hm He) in K. split; [exact K|].
    destruct (c15_es _ _ _ _ _ S e' He') as [(e3 & He3 & Cp3) _].
    destruct (copy_shiftk e3 e' Cp3) as [K3 _].
    assert (E3 : e3 = e).
    { destruct (shiftk_inj m e3 e (edl e') 0 Hm He3 He) as [_ Q]; [|exact Q].
      rewrite <- K3, K; symmetry; apply (shiftk_0 m e Hm He). }
    subst e3. destruct Cp3 as (_ & _ & _ & T3 & _); exact T3. }
  apply Bool.eq_iff_eq_true. rewrite (ts_is_dag_spec s Ws), (ts_is_dag_spec m Wm). split.
  - intros [T A]; split.
    + intros e He; destruct (MS e He) as (e' & He' & _ & Ty); rewrite <- Ty; exact (T e' He').
    + apply (subgraph_acyclic (g1 := ts_digraph m) (g2 := ts_digraph s)); [|exact A].
      intros a b H; unfold arc in *; simpl in *. apply in_map_iff in H; destruct H as (e & K & He).
      destruct (MS e He) as (e' & He' & K' & _). rewrite <- K, <- K'; apply in_map, He'.
  - intros [T A]; split.
    + intros e' He'; destruct (c15_es _ _ _ _ _ S e' He') as [(e & He & Cp) _].
      destruct Cp as (_ & _ & _ & Ty & _); rewrite Ty; exact (T e He).
    + destruct (acyclic_rank key_eqb key_eqb_spec (ts_digraph_wf m Wm) A) as (rank & Hr).
      pose (rk := fun k : key => (snd k, Z.of_nat (rank (fst k, 0)))).
      assert (L : forall a b, In (a, b) (map ekey (tedges s)) -> lex_lt (rk a) (rk b)).
      { intros a b H; apply in_map_iff in H; destruct H as (e' & K & He').
        unfold ekey in K; inversion K; subst a b.
        destruct (c15_es _ _ _ _ _ S e' He') as [(e & He & C1 & C2 & C3 & _) _].
        destruct (mwf_delta m e Hm He) as [Dp Dl]. pose proof (Z0 e He) as Ze.
        unfold lex_lt, rk, esrc, edst; simpl.
        destruct (Z.eq_dec (delta e) 0) as [D0|Dn].
        - right; split; [unfold delta in *; lia|]. rewrite C1, C2.
          assert (Ha : arc (ts_digraph m) (es e, 0) (ed e, 0)).
          { unfold arc; simpl. apply in_map_iff; exists e; split; [|exact He].
            unfold ekey, esrc, edst; rewrite Ze; repeat f_equal; lia. }
          pose proof (Hr _ _ Ha); lia.
        - left; unfold delta in *; lia. }
      intros v Hp. exact (lex_rank_acyclic key (map ekey (tedges s)) rk L v Hp).
Qed.

(** is_stationary_graph applied to the stationary graph answers whether that graph is a DAG,
    i.e. whether the minimal graph of the input is a DAG. *)
Theorem stat_is_stationary g m lo s :
  consistent g -> window0 g lo -> minimal g = Ok m -> stationary g = Ok s ->
  is_stationary_graph s = Ok (ts_is_dag m).
Proof.
  intros C HW E Es.
  destruct (stat_idem g m lo s C HW E Es) as (s' & Es' & Q).
  unfold is_stationary_graph, is_stationary.
  rewrite (stat_dag_iff g m lo s C HW E Es). destruct (ts_is_dag m); simpl; [|reflexivity].
  rewrite Es', Q; reflexivity.
Qed.

(** C16 for an input whose minimal graph is a DAG: the stationary graph is stationary. *)
Corollary stat_stationary g m lo s :
  consistent g -> window0 g lo -> minimal g = Ok m -> stationary g = Ok s ->
  ts_is_dag m = true -> is_stationary_graph s = Ok true.
Proof.
  intros C HW E Es D; rewrite (stat_is_stationary g m lo s C HW E Es), D; reflexivity.
Qed.

(** That the INPUT is a DAG is not enough.  X lag1 -> Y lag1, Y -> Z, Z lag2 -> X lag2 is a
    consistent DAG with latest lag 0, but its three templates X -> Y -> Z -> X form a cycle at
    time difference 0: the minimal graph and the stationary graph are cyclic, and
    is_stationary_graph of the stationary graph is False (observed on the Python code:
    get_stationary_graph().is_stationary_graph() logs 'The graph is not a DAG' and returns
    False, although get_stationary_graph() of it is == to it). *)
Definition ex_cyc : tsg :=
  Gr [Nd [88]%N (-1) VUnspec []; Nd [89]%N (-1) VUnspec []; Nd [89]%N 0 VUnspec [];
      Nd [90]%N 0 VUnspec []; Nd [90]%N (-2) VUnspec []; Nd [88]%N (-2) VUnspec []]
     [Ed [88]%N (-1) [89]%N (-1) Dir []; Ed [89]%N 0 [90]%N 0 Dir [];
      Ed [90]%N (-2) [88]%N (-2) Dir []] [].

Theorem stat_dag_input_refuted :
  exists g, ~ (consistent g -> ts_is_dag g = true -> window0 g (-2) ->
               forall s, stationary g = Ok s -> is_stationary_graph s = Ok true).
Proof.
  exists ex_cyc; intros H.
  assert (C : consistent ex_cyc) by (apply consistent_b_spec; vm_compute; reflexivity).
  assert (D : ts_is_dag ex_cyc = true) by (vm_compute; reflexivity).
  assert (W : window0 ex_cyc (-2)) by (split; vm_compute; reflexivity).
  destruct (stationary ex_cyc) as [s|er] eqn:Es; [|vm_compute in Es; discriminate].
  specialize (H C D W s eq_refl). revert H.
  assert (Q : match stationary ex_cyc with Ok s => is_stationary_graph s | Err e => Err e end
              = Ok false) by (vm_compute; reflexivity).
  rewrite Es in Q; rewrite Q; discriminate.
Qed.

(** * The oracle [c16_check] decides [c16_spec] *)

Theorem c16_check_spec g s :
  max_lag (map tl (tnodes g)) = Some 0 -> (c16_check g s = true <-> c16_spec g s).
Proof.
  intros Hmax; unfold c16_check, c16_spec.
  destruct (minimal g) as [m|er] eqn:E.
  2:{ split; [discriminate|intros (m & lo & Em & _); discriminate]. }
  destruct (min_lag (map tl (tnodes g))) as [lo|] eqn:El.
  2:{ split; [discriminate|intros (m' & lo & _ & El' & _); discriminate]. }
  rewrite Hmax.
  rewrite !andb_true_iff, !forallb_forall.
  rewrite (nodup_by_spec ekey_eqb ekey_eqb_spec), (nodup_by_spec key_eqb key_eqb_spec).
  split.
  - intros [[[[[[[H1 H2] H3] H4] H5] H6] H7] H8]. exists m, lo.
    split; [reflexivity|]. split; [reflexivity|]. split; [reflexivity|].
    split; [|split; [|split; [|split; [|split; [|split; [|split; assumption]]]]]].
    + intros n Hn; apply node_exists_in, H1, Hn.
    + intros e He; specialize (H2 e He); apply existsb_exists in H2.
      destruct H2 as (e' & He' & Q); apply andb_true_iff in Q; destruct Q as [Q1 Q2].
      destruct (ekey_eqb_spec (ekey e) (ekey e')) as [K|]; [|discriminate].
      apply etype_eqb_eq in Q2. exists e'; auto.
    + intros n k Hn Hk; specialize (H3 n Hn); rewrite forallb_forall in H3.
      apply node_exists_in, H3, zrange_in; exact Hk.
    + intros n' Hn'; specialize (H4 n' Hn').
      rewrite !andb_true_iff, !Z.leb_le, has_var_in in H4; tauto.
    + intros e' He'; specialize (H5 e' He').
      rewrite !andb_true_iff, !Z.leb_le, existsb_exists in H5.
      destruct H5 as [[(e & He & Cp) L1] L2]. split; [|auto].
      exists e; split; [exact He|apply is_copy_spec; exact Cp].
    + intros e t He T1 T2; specialize (H6 e He); rewrite forallb_forall in H6.
      assert (Ht : In t (zrange lo 0)) by (apply zrange_in; exact T2).
      specialize (H6 t Ht). apply orb_true_iff in H6; destruct H6 as [H6|H6].
      * apply Z.ltb_lt in H6; lia.
      * apply edge_exists_in in H6; exact H6.
  - intros (m' & lo' & Em & El' & _ & S1 & S2 & S3 & S4 & S5 & S6 & S7 & S8).
    assert (m' = m) by congruence; assert (lo' = lo) by congruence; subst m' lo'.
    repeat split; auto.
    + intros n Hn; apply node_exists_in, S1, Hn.
    + intros e He; destruct (S2 e He) as (e' & He' & K & T). apply existsb_exists; exists e'.
      split; [exact He'|]. apply andb_true_iff; split.
      * rewrite K; destruct (ekey_eqb_spec (ekey e) (ekey e)); congruence.
      * apply etype_eqb_eq; congruence.
    + intros n Hn; apply forallb_forall; intros k Hk; apply zrange_in in Hk.
      apply node_exists_in, S3; assumption.
    + intros n' Hn'; destruct (S4 n' Hn') as [V L].
      rewrite !andb_true_iff, !Z.leb_le, has_var_in; tauto.
    + intros e' He'; destruct (S5 e' He') as [(e & He & Cp) L].
      rewrite !andb_true_iff, !Z.leb_le, existsb_exists. split; [split|]; try tauto.
      exists e; split; [exact He|apply is_copy_spec; exact Cp].
    + intros e He; apply forallb_forall; intros t Ht; apply zrange_in in Ht.
      apply orb_true_iff. destruct (Z.ltb_spec (t - delta e) lo) as [L|L]; [left; reflexivity|right].
      apply edge_exists_in. exact (S6 e t He L Ht).
Qed.

(** [c16_check_spec] is exactly the statement StationaryProofs.v left open. *)
Theorem c16_check_closes : c16_check_statement.
Proof. exact c16_check_spec. Qed.

(** The model's stationary graph passes its own oracle. *)
Corollary stationary_check g m lo s :
  consistent g -> window0 g lo -> minimal g = Ok m -> stationary g = Ok s ->
  c16_check g s = true.
Proof.
  intros C HW E Es; apply c16_check_spec; [exact (proj2 HW)|].
  exact (stat_c16_spec g m lo s C HW E Es).
Qed.

(** * Examples: the theorems instantiated on [ex_g] (TSGraphProofs.v) and [ex_s], the
      stationary graph Python returns for it (StationaryProofs.v) *)

(** the hypotheses of [stat_idem] hold of a non-trivial input *)
Example ex_g_stat_idem_hyps :
  consistent ex_g /\ window0 ex_g (-2)
  /\ (exists m, minimal ex_g = Ok m) /\ (exists s, stationary ex_g = Ok s).
Proof.
  split; [exact ex_g_consistent|]. split; [exact ex_g_window0|]. split.
  - destruct (minimal ex_g) as [m|er] eqn:E; [eauto|vm_compute in E; discriminate].
  - destruct (stationary ex_g) as [s|er] eqn:E; [eauto|vm_compute in E; discriminate].
Qed.

(** Python: ex_g.get_stationary_graph().get_stationary_graph() == ex_g.get_stationary_graph(),
    and .is_stationary_graph() of it is True. *)
Example ex_g_stat_idem :
  match stationary ex_g with
  | Ok s => match stationary s with
            | Ok s' => ts_graph_eqb s' s && ts_is_dag s
            | Err _ => false
            end
  | Err _ => false
  end = true.
Proof. vm_compute; reflexivity. Qed.

Example ex_s_stationary_idem : res_exact (stationary ex_s) (Ok ex_s) = true.
Proof. vm_compute; reflexivity. Qed.

Example ex_g_minimal_dag :
  match minimal ex_g with Ok m => ts_is_dag m | Err _ => false end = true.
Proof. vm_compute; reflexivity. Qed.

(** the counterexample: a consistent DAG whose stationary graph is not a DAG *)
Example ex_cyc_values :
  consistent_b ex_cyc = true /\ ts_is_dag ex_cyc = true
  /\ match minimal ex_cyc with Ok m => ts_is_dag m | Err _ => true end = false
  /\ match stationary ex_cyc with
     | Ok s => match stationary s with
               | Ok s' => (ts_graph_eqb s' s, ts_is_dag s, is_stationary_graph s)
               | Err _ => (false, true, Err EAssert)
               end
     | Err _ => (false, true, Err EAssert)
     end = (true, false, Ok false).
Proof. repeat split; vm_compute; reflexivity. Qed.

(** [c16_check] on a wrong output: [ex_g] itself lacks template copies, so both sides are false *)
Example ex_g_c16_check_neg : c16_check ex_g ex_g = false.
Proof. vm_compute; reflexivity. Qed.
Example ex_g_c16_spec : c16_spec ex_g ex_s /\ ~ c16_spec ex_g ex_g.
Proof.
  split.
  - apply c16_check_spec; vm_compute; reflexivity.
  - intros H; apply c16_check_spec in H; [|vm_compute; reflexivity].
    vm_compute in H; discriminate.
Qed.

(** [stat_idem] and [stat_stationary] applied to [ex_g] *)
Example ex_g_stat_idem_inst :
  exists s s', stationary ex_g = Ok s /\ stationary s = Ok s' /\ ts_graph_eqb s' s = true
               /\ is_stationary_graph s = Ok true.
Proof.
  destruct ex_g_stat_idem_hyps as (C & W & (m & E) & (s & Es)).
  destruct (stat_idem ex_g m (-2) s C W E Es) as (s' & Es' & Q).
  exists s, s'. split; [exact Es|]. split; [exact Es'|]. split; [exact Q|].
  apply (stat_stationary ex_g m (-2) s C W E Es).
  pose proof ex_g_minimal_dag as D; rewrite E in D; exact D.
Qed.

(** Only the KEYS and the edge types are preserved ([same_keys]), not the node attributes: with
    lags >= 10 the order of get_edges() ('A lag(n=10)' < 'A lag(n=2)' as strings) makes
    get_minimal_graph of the stationary graph take the attributes of 'A lag(n=2)' from another
    node of variable A.  Python:
      add_node('A lag(n=2)', meta={'x': 1}); add_node('A', meta={'x': 2});
      add_node('A lag(n=10)'); add_edge('A lag(n=2)', 'B'); add_edge('A', 'C');
      s = g.get_stationary_graph(); s2 = s.get_stationary_graph()
    gives s2 == s, but s.get_node('A lag(n=2)').meta['x'] == 1 and
    s2.get_node('A lag(n=2)').meta['x'] == 2.  (A=65, B=66, C=67, x=120.) *)
Definition ex_attr : tsg :=
  Gr [Nd [65]%N (-2) VUnspec [([120]%N, JInt 1)]; Nd [65]%N 0 VUnspec [([120]%N, JInt 2)];
      Nd [65]%N (-10) VUnspec []; Nd [66]%N 0 VUnspec []; Nd [67]%N 0 VUnspec []]
     [Ed [65]%N (-2) [66]%N 0 Dir []; Ed [65]%N 0 [67]%N 0 Dir []] [].
Example ex_attr_differ :
  consistent_b ex_attr = true
  /\ match stationary ex_attr with
     | Ok s =>
         match stationary s with
         | Ok s' => Some (ts_graph_eqb s' s, same_graph_b s' s,
                          option_map tm (find_node s ([65]%N, -2)),
                          option_map tm (find_node s' ([65]%N, -2)))
         | Err _ => None
         end
     | Err _ => None
     end = Some (true, false, Some [([120]%N, JInt 1)], Some [([120]%N, JInt 2)]).
Proof. split; vm_compute; reflexivity. Qed.
