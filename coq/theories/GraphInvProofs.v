(** GraphInvProofs.v — every reachable state of the concrete graph model satisfies [Inv]
    (C01/C02/C03 backbone), and the first consequences: at most one edge per pair, the read
    views agree, the time-series lookups equal a scan.  PROOFS ONLY. *)
From CG Require Import Base Digraph Graph GraphObs GraphInv.
From CG Require Export GraphLemmas.

(** * The structural part of the invariant (fields 1-8), independent of the codec *)

Record SInv (g : graph) : Prop := {
  s_nodup_nodes : NoDup (node_ids g);
  s_mirror : Permutation (gdst g) (gsrc g);
  s_nodup_keys : NoDup (edge_keys g);
  s_endpoints : forall e, In e (gsrc g) -> In (esrc e) (node_ids g) /\ In (edst e) (node_ids g);
  s_noloop : forall e, In e (gsrc g) -> esrc e <> edst e;
  s_noreverse : forall e, In e (gsrc g) -> ~ In (edst e, esrc e) (edge_keys g);
  s_inb : forall n, In n (gnodes g) -> Permutation (ninb n) (dinto (gsrc g) (nid n));
  s_outb : forall n, In n (gnodes g) -> Permutation (noutb n) (dfrom (gsrc g) (nid n))
}.

Lemma sinv_ext g g' :
  SInv g -> gnodes g' = gnodes g -> gsrc g' = gsrc g -> gdst g' = gdst g -> SInv g'.
Proof.
  intros [H1 H2 H3 H4 H5 H6 H7 H8] En Es Ed.
  constructor; unfold node_ids, edge_keys in *; rewrite ?En, ?Es, ?Ed; assumption.
Qed.

(** ** delete_edge *)

Lemma delete_edge_ok g s d oty g' :
  delete_edge g s d oty = Ok g' ->
  exists e, node_exists g s = true /\ node_exists g d = true /\ edge_at g s d = Some e /\
    g' = {| gnodes := if etype_eqb (ety e) Dir
                      then upd2 (remove_first s) (remove_first d) s d (gnodes g)
                      else gnodes g;
            gsrc := drop_edge s d (gsrc g); gdst := drop_edge s d (gdst g);
            gmeta := gmeta g; glag := glag g; gvar := gvar g |}.
Proof.
  unfold delete_edge.
  destruct (node_exists g s); cbn [negb]; [|discriminate].
  destruct (node_exists g d); cbn [negb]; [|discriminate].
  destruct (edge_at g s d) as [e|]; [|discriminate].
  destruct (match oty with Some t => negb (etype_eqb t (ety e)) | None => false end);
    [discriminate|].
  intros [= <-]. exists e. repeat split; reflexivity.
Qed.

Lemma inb_after_delete ns es e s d :
  NoDup (map edge_key es) -> In e es -> esrc e = s -> edst e = d ->
  (forall n, In n ns -> Permutation (ninb n) (dinto es (nid n))) ->
  forall n', In n' (if etype_eqb (ety e) Dir
                    then upd2 (remove_first s) (remove_first d) s d ns else ns) ->
    Permutation (ninb n') (dinto (drop_edge s d es) (nid n')).
Proof.
  intros Hnd Hin Hs Hd Hinb n' Hn'.
  assert (P : forall x, Permutation (dinto es x)
            ((if etype_eqb (ety e) Dir && name_eqb x d then [s] else [])
             ++ dinto (drop_edge s d es) x)).
  { intros x. rewrite (dinto_perm _ _ x (drop_edge_perm s d es e Hnd Hin
                                          ltac:(unfold edge_key; congruence))).
    rewrite dinto_cons, Hs, Hd. reflexivity. }
  destruct (etype_eqb (ety e) Dir) eqn:Edir.
  - apply in_upd2 in Hn'. destruct Hn' as (n & Hn & ->). cbn [ninb nid].
    specialize (P (nid n)). rewrite (name_eqb_sym (nid n) d) in P.
    destruct (name_eqb d (nid n)); cbn [andb app] in P.
    + apply perm_remove_first. rewrite <- P. apply Hinb, Hn.
    + rewrite <- P. apply Hinb, Hn.
  - specialize (P (nid n')). cbn [andb app] in P. rewrite <- P. apply Hinb, Hn'.
Qed.

Lemma outb_after_delete ns es e s d :
  NoDup (map edge_key es) -> In e es -> esrc e = s -> edst e = d ->
  (forall n, In n ns -> Permutation (noutb n) (dfrom es (nid n))) ->
  forall n', In n' (if etype_eqb (ety e) Dir
                    then upd2 (remove_first s) (remove_first d) s d ns else ns) ->
    Permutation (noutb n') (dfrom (drop_edge s d es) (nid n')).
Proof.
  intros Hnd Hin Hs Hd Houtb n' Hn'.
  assert (P : forall x, Permutation (dfrom es x)
            ((if etype_eqb (ety e) Dir && name_eqb x s then [d] else [])
             ++ dfrom (drop_edge s d es) x)).
  { intros x. rewrite (dfrom_perm _ _ x (drop_edge_perm s d es e Hnd Hin
                                          ltac:(unfold edge_key; congruence))).
    rewrite dfrom_cons, Hs, Hd. reflexivity. }
  destruct (etype_eqb (ety e) Dir) eqn:Edir.
  - apply in_upd2 in Hn'. destruct Hn' as (n & Hn & ->). cbn [noutb nid].
    specialize (P (nid n)). rewrite (name_eqb_sym (nid n) s) in P.
    destruct (name_eqb s (nid n)); cbn [andb app] in P.
    + apply perm_remove_first. rewrite <- P. apply Houtb, Hn.
    + rewrite <- P. apply Houtb, Hn.
  - specialize (P (nid n')). cbn [andb app] in P. rewrite <- P. apply Houtb, Hn'.
Qed.

Lemma ids_if_upd2 (b : bool) fi fo s d ns :
  map nid (if b then upd2 fi fo s d ns else ns) = map nid ns.
Proof. destruct b; [apply upd2_ids|reflexivity]. Qed.

Lemma tags_if_upd2 (b : bool) fi fo s d ns :
  map tags (if b then upd2 fi fo s d ns else ns) = map tags ns.
Proof. destruct b; [apply upd2_tags|reflexivity]. Qed.

Lemma sinv_delete_edge g s d oty g' : SInv g -> delete_edge g s d oty = Ok g' -> SInv g'.
Proof.
  intros [H1 H2 H3 H4 H5 H6 H7 H8] Hdel.
  destruct (delete_edge_ok _ _ _ _ _ Hdel) as (e & _ & _ & He & ->).
  apply find_edge_some in He. destruct He as (Hin & Hs & Hd).
  assert (Hsub : forall x, In x (drop_edge s d (gsrc g)) -> In x (gsrc g)).
  { intros x Hx. apply in_drop_edge in Hx. apply Hx. }
  constructor; unfold node_ids, edge_keys in *; cbn [gnodes gsrc gdst]; rewrite ?ids_if_upd2.
  - exact H1.
  - apply perm_filter, H2.
  - apply nodup_map_filter, H3.
  - intros x Hx. apply H4, Hsub, Hx.
  - intros x Hx. apply H5, Hsub, Hx.
  - intros x Hx Hrev. apply (H6 x (Hsub x Hx)).
    apply in_map_iff in Hrev. destruct Hrev as (y & Hy & Hyin).
    apply in_map_iff. exists y. split; [exact Hy|apply Hsub, Hyin].
  - apply inb_after_delete; assumption.
  - apply outb_after_delete; assumption.
Qed.

(** what [delete_edge] leaves untouched *)
Lemma delete_edge_frame g s d oty g' :
  delete_edge g s d oty = Ok g' ->
  map tags (gnodes g') = map tags (gnodes g) /\ glag g' = glag g /\ gvar g' = gvar g
  /\ gmeta g' = gmeta g
  /\ (forall x, In x (gsrc g') <-> In x (gsrc g) /\ edge_key x <> (s, d)).
Proof.
  intros Hdel. destruct (delete_edge_ok _ _ _ _ _ Hdel) as (e & _ & _ & _ & ->).
  cbn [gnodes gsrc glag gvar gmeta]. rewrite tags_if_upd2.
  do 4 (split; [reflexivity|]). intros x. apply in_drop_edge.
Qed.

(** ** insert_edge *)

Lemma insert_edge_eq g e :
  insert_edge g e =
  {| gnodes := if etype_eqb (ety e) Dir
               then upd2 (fun l => l ++ [esrc e]) (fun l => l ++ [edst e]) (esrc e) (edst e)
                      (gnodes g)
               else gnodes g;
     gsrc := gsrc g ++ [e]; gdst := gdst g ++ [e];
     gmeta := gmeta g; glag := glag g; gvar := gvar g |}.
Proof. reflexivity. Qed.

Lemma inb_after_insert ns es e :
  (forall n, In n ns -> Permutation (ninb n) (dinto es (nid n))) ->
  forall n', In n' (if etype_eqb (ety e) Dir
                    then upd2 (fun l => l ++ [esrc e]) (fun l => l ++ [edst e]) (esrc e) (edst e) ns
                    else ns) ->
    Permutation (ninb n') (dinto (es ++ [e]) (nid n')).
Proof.
  intros Hinb n' Hn'. rewrite dinto_snoc.
  destruct (etype_eqb (ety e) Dir) eqn:Edir; cbn [andb].
  - apply in_upd2 in Hn'. destruct Hn' as (n & Hn & ->). cbn [ninb nid].
    rewrite (name_eqb_sym (nid n) (edst e)).
    destruct (name_eqb (edst e) (nid n)).
    + apply Permutation_app_tail, Hinb, Hn.
    + rewrite app_nil_r. apply Hinb, Hn.
  - rewrite app_nil_r. apply Hinb, Hn'.
Qed.

Lemma outb_after_insert ns es e :
  (forall n, In n ns -> Permutation (noutb n) (dfrom es (nid n))) ->
  forall n', In n' (if etype_eqb (ety e) Dir
                    then upd2 (fun l => l ++ [esrc e]) (fun l => l ++ [edst e]) (esrc e) (edst e) ns
                    else ns) ->
    Permutation (noutb n') (dfrom (es ++ [e]) (nid n')).
Proof.
  intros Houtb n' Hn'. rewrite dfrom_snoc.
  destruct (etype_eqb (ety e) Dir) eqn:Edir; cbn [andb].
  - apply in_upd2 in Hn'. destruct Hn' as (n & Hn & ->). cbn [noutb nid].
    rewrite (name_eqb_sym (nid n) (esrc e)).
    destruct (name_eqb (esrc e) (nid n)).
    + apply Permutation_app_tail, Houtb, Hn.
    + rewrite app_nil_r. apply Houtb, Hn.
  - rewrite app_nil_r. apply Houtb, Hn'.
Qed.

Lemma sinv_insert_edge g e :
  SInv g -> esrc e <> edst e ->
  In (esrc e) (node_ids g) -> In (edst e) (node_ids g) ->
  ~ In (esrc e, edst e) (edge_keys g) -> ~ In (edst e, esrc e) (edge_keys g) ->
  SInv (insert_edge g e).
Proof.
  intros [H1 H2 H3 H4 H5 H6 H7 H8] Hne Hs Hd Hk Hr. rewrite insert_edge_eq.
  constructor; unfold node_ids, edge_keys in *; cbn [gnodes gsrc gdst]; rewrite ?ids_if_upd2.
  - exact H1.
  - apply Permutation_app_tail, H2.
  - rewrite map_app. cbn [map]. apply nodup_snoc; assumption.
  - intros x Hx. apply in_app_iff in Hx. destruct Hx as [Hx|[<-|[]]]; [apply H4, Hx|auto].
  - intros x Hx. apply in_app_iff in Hx. destruct Hx as [Hx|[<-|[]]]; [apply H5, Hx|exact Hne].
  - intros x Hx Hrev. rewrite map_app in Hrev. cbn [map] in Hrev.
    apply in_app_iff in Hx. apply in_app_iff in Hrev.
    destruct Hx as [Hx|[<-|[]]]; destruct Hrev as [Hrev|[Hrev|[]]].
    + apply (H6 x Hx), Hrev.
    + unfold edge_key in Hrev. injection Hrev as E1 E2. apply Hr.
      apply in_map_iff. exists x. split; [unfold edge_key; congruence|exact Hx].
    + apply Hr, Hrev.
    + unfold edge_key in Hrev. injection Hrev as E1 E2. apply Hne. exact E1.
  - apply inb_after_insert; assumption.
  - apply outb_after_insert; assumption.
Qed.

Lemma set_edge_ok g s d ty m v g' :
  set_edge g s d ty m v = Ok g' ->
  edge_at g s d = None /\ edge_at g d s = None
  /\ g' = insert_edge g {| esrc := s; edst := d; ety := ty; emeta := m |}.
Proof.
  unfold set_edge.
  destruct (edge_at g s d); [discriminate|]. destruct (edge_at g d s); [discriminate|].
  destruct v.
  - destruct (depends_on_itself _ d) as [[|]|]; try discriminate.
    + destruct (delete_edge _ s d None); discriminate.
    + intros [= <-]. auto.
  - intros [= <-]. auto.
Qed.

Lemma sinv_set_edge g s d ty m v g' :
  SInv g -> s <> d -> In s (node_ids g) -> In d (node_ids g) ->
  set_edge g s d ty m v = Ok g' -> SInv g'.
Proof.
  intros HS Hne Hs Hd Hset. destruct (set_edge_ok _ _ _ _ _ _ _ Hset) as (E1 & E2 & ->).
  apply edge_at_none in E1, E2. apply sinv_insert_edge; cbn [esrc edst]; assumption.
Qed.

(** ** pushing a fresh node *)

Lemma sinv_push g g' n :
  SInv g -> ~ In (nid n) (node_ids g) -> ninb n = [] -> noutb n = [] ->
  gnodes g' = gnodes g ++ [n] -> gsrc g' = gsrc g -> gdst g' = gdst g -> SInv g'.
Proof.
  intros [H1 H2 H3 H4 H5 H6 H7 H8] Hfresh Hi Ho En Es Ed.
  constructor; unfold node_ids, edge_keys in *; rewrite ?En, ?Es, ?Ed; try assumption.
  - rewrite map_app. cbn [map]. apply nodup_snoc; assumption.
  - intros e He. rewrite map_app. destruct (H4 e He).
    split; apply in_app_iff; left; assumption.
  - intros x Hx. apply in_app_iff in Hx. destruct Hx as [Hx|[<-|[]]]; [apply H7, Hx|].
    rewrite Hi, dinto_nil; [constructor|].
    intros e He E. apply Hfresh. rewrite <- E. apply H4, He.
  - intros x Hx. apply in_app_iff in Hx. destruct Hx as [Hx|[<-|[]]]; [apply H8, Hx|].
    rewrite Ho, dfrom_nil; [constructor|].
    intros e He E. apply Hfresh. rewrite <- E. apply H4, He.
Qed.

(** ** delete_node: the structural part *)

Definition del_edges (es : list edge) (r : res graph) : res graph :=
  fold_left (fun acc e => bind acc (fun g' => delete_edge g' (esrc e) (edst e) None)) es r.

Lemma del_edges_err es x : del_edges es (Err x) = Err x.
Proof. unfold del_edges. induction es as [|e es IH]; simpl; [reflexivity|exact IH]. Qed.

Lemma del_edges_ok es : forall g1 g2,
  SInv g1 -> del_edges es (Ok g1) = Ok g2 ->
  SInv g2 /\ map tags (gnodes g2) = map tags (gnodes g1)
  /\ glag g2 = glag g1 /\ gvar g2 = gvar g1 /\ gmeta g2 = gmeta g1
  /\ (forall x, In x (gsrc g2) -> In x (gsrc g1) /\ ~ In (edge_key x) (map edge_key es)).
Proof.
  induction es as [|e es IH]; intros g1 g2 HS Hfold.
  - injection Hfold as <-. split; [exact HS|]. do 4 (split; [reflexivity|]).
    intros x Hx. split; [exact Hx|intros []].
  - unfold del_edges in Hfold. cbn [fold_left bind] in Hfold.
    destruct (delete_edge g1 (esrc e) (edst e) None) as [g1'|x] eqn:Edel.
    + destruct (IH g1' g2 (sinv_delete_edge _ _ _ _ _ HS Edel) Hfold)
        as (HS2 & Ht & Hl & Hv & Hm & Hin).
      destruct (delete_edge_frame _ _ _ _ _ Edel) as (Ft & Fl & Fv & Fm & Fin).
      split; [exact HS2|]. split; [congruence|]. split; [congruence|].
      split; [congruence|]. split; [congruence|].
      intros x Hx. destruct (Hin x Hx) as [Hx1 Hx2]. apply Fin in Hx1.
      destruct Hx1 as [Hx1 Hk]. split; [exact Hx1|].
      cbn [map]. intros [E|E]; [apply Hk; symmetry; exact E|contradiction].
    + fold (del_edges es (Err x)) in Hfold. rewrite del_edges_err in Hfold. discriminate.
Qed.

Lemma idx_remove_graph k g n g1 :
  idx_remove k g n = Ok g1 ->
  gnodes g1 = gnodes g /\ gsrc g1 = gsrc g /\ gdst g1 = gdst g /\ gmeta g1 = gmeta g
  /\ match k with
     | Plain => glag g1 = glag g /\ gvar g1 = gvar g
     | TS => exists l v, meta_lag (nmeta n) = Some l /\ meta_var (nmeta n) = Some v
               /\ remove_first_pair Z.eqb l (nid n) (glag g) = Some (glag g1)
               /\ remove_first_pair name_eqb v (nid n) (gvar g) = Some (gvar g1)
     end.
Proof.
  unfold idx_remove. destruct k.
  - intros [= <-]. repeat split; reflexivity.
  - destruct (meta_lag (nmeta n)) as [l|]; [|discriminate].
    destruct (meta_var (nmeta n)) as [v|]; [|discriminate].
    destruct (remove_first_pair Z.eqb l (nid n) (glag g)) as [gl|] eqn:El; [|discriminate].
    destruct (remove_first_pair name_eqb v (nid n) (gvar g)) as [gv|] eqn:Ev; [|discriminate].
    intros [= <-]. cbn [gnodes gsrc gdst gmeta glag gvar].
    do 4 (split; [reflexivity|]). exists l, v. repeat split; assumption.
Qed.

Definition not_id (id : name) (n : node) : bool := negb (name_eqb id (nid n)).

(** everything the proofs need to know about a successful [delete_node] *)
Lemma delete_node_facts k g id g' :
  SInv g -> delete_node k g id = Ok g' ->
  exists n g1 g2,
    get_node g id = Some n /\ idx_remove k g n = Ok g1
    /\ SInv g2 /\ map tags (gnodes g2) = map tags (gnodes g)
    /\ (forall x, In x (gsrc g2) -> In x (gsrc g) /\ esrc x <> id /\ edst x <> id)
    /\ gnodes g' = filter (not_id id) (gnodes g2)
    /\ gsrc g' = gsrc g2 /\ gdst g' = gdst g2 /\ gmeta g' = gmeta g
    /\ glag g' = glag g1 /\ gvar g' = gvar g1.
Proof.
  intros HS. unfold delete_node.
  destruct (get_node g id) as [n|] eqn:En; [|discriminate].
  destruct (idx_remove k g n) as [g1|] eqn:E1; cbn [bind]; [|discriminate].
  match goal with |- bind ?X _ = _ -> _ => destruct X as [g2|] eqn:E2 end;
    cbn [bind]; [|discriminate].
  intros [= <-]. exists n, g1, g2.
  destruct (idx_remove_graph _ _ _ _ E1) as (Gn & Gs & Gd & Gm & _).
  assert (HS1 : SInv g1) by (eapply sinv_ext; eassumption).
  destruct (del_edges_ok _ _ _ HS1 E2) as (HS2 & Ht & Hl & Hv & Hm & Hin).
  cbn [gnodes gsrc gdst gmeta glag gvar].
  split; [reflexivity|]. split; [exact E1|]. split; [exact HS2|].
  split; [rewrite Ht, Gn; reflexivity|].
  split; [|repeat split; congruence].
  intros x Hx. destruct (Hin x Hx) as [Hx1 Hx2]. rewrite Gs in Hx1. split; [exact Hx1|].
  assert (Hnot : name_eqb id (esrc x) || name_eqb id (edst x) = false).
  { destruct (name_eqb id (esrc x) || name_eqb id (edst x)) eqn:Einc; [|reflexivity].
    exfalso. apply Hx2. apply in_map. apply filter_In. split; [|exact Einc].
    unfold sorted_edges. apply isort_in. rewrite Gs. exact Hx1. }
  apply orb_false_iff in Hnot. destruct Hnot as [N1 N2].
  apply name_eqb_neq in N1, N2. split; congruence.
Qed.

Lemma in_ids_filter id x ns :
  In x (map nid ns) -> x <> id -> In x (map nid (filter (not_id id) ns)).
Proof.
  intros Hin Hne. apply in_map_iff in Hin. destruct Hin as (n & <- & Hn).
  apply in_map. apply filter_In. split; [exact Hn|].
  unfold not_id. apply negb_true_iff, name_eqb_neq. congruence.
Qed.

Lemma sinv_delete_node k g id g' : SInv g -> delete_node k g id = Ok g' -> SInv g'.
Proof.
  intros HS Hdel.
  destruct (delete_node_facts _ _ _ _ HS Hdel)
    as (n & g1 & g2 & _ & _ & [H1 H2 H3 H4 H5 H6 H7 H8] & _ & Hcl & En & Es & Ed & _).
  constructor; unfold node_ids, edge_keys in *; rewrite ?En, ?Es, ?Ed; try assumption.
  - apply nodup_map_filter, H1.
  - intros e He. destruct (H4 e He) as [A B]. destruct (Hcl e He) as (_ & C & D).
    split; apply in_ids_filter; assumption.
  - intros x Hx. apply filter_In in Hx. apply H7, Hx.
  - intros x Hx. apply filter_In in Hx. apply H8, Hx.
Qed.

(** * The index / time-series part *)

Definition lagof (ns : list node) (x : name) : option Z :=
  match find_node x ns with Some n => meta_lag (nmeta n) | None => None end.

Lemma node_lag_eq g x : node_lag g x = lagof (gnodes g) x.
Proof. reflexivity. Qed.

Definition TimeOK (g : graph) (e : edge) : Prop :=
  exists ls ld, node_lag g (esrc e) = Some ls /\ node_lag g (edst e) = Some ld /\ (ls <= ld)%Z.

Definition same_tags (ns ns' : list node) : Prop :=
  Forall2 (fun a b => nid a = nid b /\ meta_lag (nmeta a) = meta_lag (nmeta b)
                      /\ meta_var (nmeta a) = meta_var (nmeta b)) ns ns'.

Lemma same_tags_refl ns : same_tags ns ns.
Proof. induction ns; constructor; auto. Qed.

Lemma same_tags_of_map ns ns' : map tags ns = map tags ns' -> same_tags ns ns'.
Proof.
  revert ns'. induction ns as [|a ns IH]; intros [|b ns'] H; try discriminate; [constructor|].
  cbn [map] in H. unfold tags in H at 1 3. injection H as Hid Hm Hrest.
  constructor; [rewrite Hid, Hm; auto|apply IH, Hrest].
Qed.

Lemma same_tags_lagof ns ns' x : same_tags ns ns' -> lagof ns x = lagof ns' x.
Proof.
  unfold lagof. induction 1 as [|a b ns ns' (Hid & Hl & _) HF IH]; [reflexivity|].
  cbn [find_node]. rewrite Hid. destruct (name_eqb x (nid b)); [exact Hl|exact IH].
Qed.

Lemma lagof_filter_neq id x ns : x <> id -> lagof (filter (not_id id) ns) x = lagof ns x.
Proof. intros Hne. unfold lagof, not_id. rewrite find_node_filter_neq; [reflexivity|exact Hne]. Qed.

Lemma lagof_app_l ns ms x : In x (map nid ns) -> lagof (ns ++ ms) x = lagof ns x.
Proof.
  intros Hin. unfold lagof. destruct (find_node_in _ _ Hin) as (n & E).
  rewrite (find_node_app_l _ _ ms _ E), E. reflexivity.
Qed.

Section InvProofs.
  Variable parse : name -> option (name * Z).
  Variable fmt : name -> Z -> option name.

  Definition NodeOK (n : node) : Prop :=
    exists v l, parse (nid n) = Some (v, l)
                /\ meta_var (nmeta n) = Some v /\ meta_lag (nmeta n) = Some l.

  Definition XInv (k : kind) (g : graph) : Prop :=
    (k = Plain -> glag g = [] /\ gvar g = []) /\ (k = TS -> TSInv parse g).

  Lemma inv_split k g : Inv parse k g <-> SInv g /\ XInv k g.
  Proof.
    split.
    - intros [H1 H2 H3 H4 H5 H6 H7 H8 H9 H10]. split; [constructor; assumption|split; assumption].
    - intros [[H1 H2 H3 H4 H5 H6 H7 H8] [H9 H10]]. constructor; assumption.
  Qed.

  Lemma same_tags_nodeok ns ns' :
    same_tags ns ns' -> (forall n, In n ns -> NodeOK n) -> forall n, In n ns' -> NodeOK n.
  Proof.
    intros HT Hok n' Hn'. destruct (Forall2_in_r _ _ _ _ HT Hn') as (n & Hn & Hid & Hl & Hv).
    destruct (Hok n Hn) as (v & l & Hp & Hv' & Hl'). exists v, l.
    repeat split; congruence.
  Qed.

  Lemma tsinv_frame g g' :
    TSInv parse g -> same_tags (gnodes g) (gnodes g') -> glag g' = glag g -> gvar g' = gvar g ->
    (forall e, In e (gsrc g') -> In e (gsrc g) \/ TimeOK g e) -> TSInv parse g'.
  Proof.
    intros [T1 T2 T3 T4] HT El Ev He. constructor.
    - apply (same_tags_nodeok _ _ HT). exact T1.
    - rewrite El. apply (idx_same_tags (fun n => meta_lag (nmeta n)) (glag g) (gnodes g)).
      + eapply Forall2_impl_in; [|exact HT]. cbn beta. intros a b _ _ (Hid & Hl & Hv). auto.
      + exact T2.
    - rewrite Ev. apply (idx_same_tags (fun n => meta_var (nmeta n)) (gvar g) (gnodes g)).
      + eapply Forall2_impl_in; [|exact HT]. cbn beta. intros a b _ _ (Hid & Hl & Hv). auto.
      + exact T3.
    - intros e Hin.
      assert (HTe : TimeOK g e) by (destruct (He e Hin) as [Hg|Hg]; [apply T4, Hg|exact Hg]).
      destruct HTe as (ls & ld & Hs & Hd & Hle). exists ls, ld.
      rewrite !node_lag_eq in *. rewrite <- !(same_tags_lagof _ _ _ HT). auto.
  Qed.

  Lemma xinv_frame k g g' :
    XInv k g -> same_tags (gnodes g) (gnodes g') -> glag g' = glag g -> gvar g' = gvar g ->
    (forall e, In e (gsrc g') -> In e (gsrc g) \/ (k = TS -> TimeOK g e)) -> XInv k g'.
  Proof.
    intros [HP HT] Hst El Ev He. split.
    - intros Ek. rewrite El, Ev. apply HP, Ek.
    - intros Ek. apply (tsinv_frame g); auto.
      intros e Hin. destruct (He e Hin) as [Hg|Hg]; [left; exact Hg|right; apply Hg, Ek].
  Qed.

  (** ** delete_edge / insert_edge / set_edge *)

  Theorem inv_delete_edge k g s d oty g' :
    Inv parse k g -> delete_edge g s d oty = Ok g' -> Inv parse k g'.
  Proof.
    intros HI Hdel. apply inv_split in HI. destruct HI as [HS HX]. apply inv_split. split.
    - eapply sinv_delete_edge; eassumption.
    - destruct (delete_edge_frame _ _ _ _ _ Hdel) as (Ft & Fl & Fv & Fm & Fin).
      apply (xinv_frame k g); auto.
      + apply same_tags_of_map. symmetry; exact Ft.
      + intros e He. left. apply Fin in He. apply He.
  Qed.

  Lemma inv_insert_edge k g e :
    Inv parse k g -> esrc e <> edst e ->
    In (esrc e) (node_ids g) -> In (edst e) (node_ids g) ->
    ~ In (esrc e, edst e) (edge_keys g) -> ~ In (edst e, esrc e) (edge_keys g) ->
    (k = TS -> TimeOK g e) ->
    Inv parse k (insert_edge g e).
  Proof.
    intros HI Hne Hs Hd Hk Hr Ht. apply inv_split in HI. destruct HI as [HS HX].
    apply inv_split. split.
    - apply sinv_insert_edge; assumption.
    - rewrite insert_edge_eq. apply (xinv_frame k g); cbn [gnodes gsrc glag gvar]; auto.
      + apply same_tags_of_map. symmetry. apply tags_if_upd2.
      + intros x Hx. apply in_app_iff in Hx. destruct Hx as [Hx|[<-|[]]]; [left|right]; assumption.
  Qed.

  Lemma inv_set_edge k g s d ty m v g' :
    Inv parse k g -> s <> d -> In s (node_ids g) -> In d (node_ids g) ->
    (k = TS -> exists ls ld, node_lag g s = Some ls /\ node_lag g d = Some ld /\ (ls <= ld)%Z) ->
    set_edge g s d ty m v = Ok g' -> Inv parse k g'.
  Proof.
    intros HI Hne Hs Hd Ht Hset. destruct (set_edge_ok _ _ _ _ _ _ _ Hset) as (E1 & E2 & ->).
    apply edge_at_none in E1, E2. apply inv_insert_edge; cbn [esrc edst]; assumption.
  Qed.

  (** ** add_node *)

  Lemma mk_node_ok k id vt m n :
    mk_node parse k id vt m = Ok n ->
    nid n = id /\ ninb n = [] /\ noutb n = [] /\ (k = TS -> NodeOK n).
  Proof.
    unfold mk_node. destruct k.
    - intros [= <-]. cbn [nid ninb noutb]. do 3 (split; [reflexivity|]). discriminate.
    - destruct (parse id) as [[v l]|] eqn:Ep; [|discriminate]. intros [= <-].
      cbn [nid ninb noutb]. do 3 (split; [reflexivity|]). intros _. exists v, l.
      cbn [nid nmeta]. rewrite meta_var_set_tags, meta_lag_set_tags.
      split; [exact Ep|split; reflexivity].
  Qed.

  Lemma idx_add_push_facts k g n g' :
    idx_add k (push_node g n) n = Ok g' ->
    gnodes g' = gnodes g ++ [n] /\ gsrc g' = gsrc g /\ gdst g' = gdst g /\ gmeta g' = gmeta g.
  Proof.
    unfold idx_add. destruct k.
    - intros [= <-]. repeat split; reflexivity.
    - destruct (meta_lag (nmeta n)); [|discriminate]. destruct (meta_var (nmeta n)); [|discriminate].
      intros [= <-]. repeat split; reflexivity.
  Qed.

  Lemma tsinv_push g n v l :
    SInv g -> TSInv parse g -> parse (nid n) = Some (v, l) ->
    meta_var (nmeta n) = Some v -> meta_lag (nmeta n) = Some l ->
    TSInv parse {| gnodes := gnodes g ++ [n]; gsrc := gsrc g; gdst := gdst g; gmeta := gmeta g;
                   glag := glag g ++ [(l, nid n)]; gvar := gvar g ++ [(v, nid n)] |}.
  Proof.
    intros HS [T1 T2 T3 T4] Hp Hv Hl. constructor; cbn [gnodes gsrc glag gvar].
    - intros x Hx. apply in_app_iff in Hx. destruct Hx as [Hx|[<-|[]]]; [apply T1, Hx|].
      exists v, l. auto.
    - apply Forall2_snoc; [exact T2|]. split; [reflexivity|exact Hl].
    - apply Forall2_snoc; [exact T3|]. split; [reflexivity|exact Hv].
    - intros e He. destruct (T4 e He) as (ls & ld & Hs & Hd & Hle). exists ls, ld.
      rewrite !node_lag_eq in *. cbn [gnodes].
      destruct (s_endpoints g HS e He) as [Is Id].
      rewrite !lagof_app_l by assumption. auto.
  Qed.

  Lemma inv_add_fresh k g n g' :
    Inv parse k g -> ~ In (nid n) (node_ids g) -> ninb n = [] -> noutb n = [] ->
    (k = TS -> NodeOK n) -> idx_add k (push_node g n) n = Ok g' -> Inv parse k g'.
  Proof.
    intros HI Hfresh Hi Ho Hok Hadd. apply inv_split in HI. destruct HI as [HS [HP HT]].
    apply inv_split. split.
    - destruct (idx_add_push_facts _ _ _ _ Hadd) as (En & Es & Ed & _).
      eapply sinv_push; eassumption.
    - unfold idx_add in Hadd. destruct k.
      + injection Hadd as <-. split; [intros _; apply HP; reflexivity|discriminate].
      + destruct (Hok eq_refl) as (v & l & Hp & Hv & Hl). rewrite Hl, Hv in Hadd.
        injection Hadd as <-. split; [discriminate|]. intros _.
        apply tsinv_push; auto.
  Qed.

  Lemma add_node_id_facts k g id vt m g' :
    add_node_id parse k g id vt m = Ok g' ->
    node_exists g id = false
    /\ exists n, nid n = id /\ ninb n = [] /\ noutb n = [] /\ (k = TS -> NodeOK n)
         /\ idx_add k (push_node g n) n = Ok g'.
  Proof.
    unfold add_node_id. destruct k.
    - destruct (node_exists g id); [discriminate|].
      destruct (mk_node parse Plain id vt _) as [n|] eqn:Emk; cbn [bind]; [|discriminate].
      intros [= <-]. split; [reflexivity|]. exists n.
      destruct (mk_node_ok _ _ _ _ _ Emk) as (A & B & C & D). auto.
    - destruct (mk_node parse TS id vt _) as [n|] eqn:Emk; cbn [bind]; [|discriminate].
      destruct (node_exists g id); [discriminate|].
      destruct (mk_node parse TS id vt (nmeta n)) as [n2|] eqn:Emk2; cbn [bind]; [|discriminate].
      intros Hadd. split; [reflexivity|]. exists n2.
      destruct (mk_node_ok _ _ _ _ _ Emk2) as (A & B & C & D). auto.
  Qed.

  Lemma add_node_obj_facts k g id vt m g' :
    add_node_obj parse k g id vt m = Ok g' ->
    node_exists g id = false
    /\ exists n, nid n = id /\ ninb n = [] /\ noutb n = [] /\ (k = TS -> NodeOK n)
         /\ idx_add k (push_node g n) n = Ok g'.
  Proof.
    unfold add_node_obj. destruct (node_exists g id); [discriminate|].
    destruct (mk_node parse k id vt m) as [n|] eqn:Emk; cbn [bind]; [|discriminate].
    intros Hadd. split; [reflexivity|]. exists n.
    destruct (mk_node_ok _ _ _ _ _ Emk) as (A & B & C & D). auto.
  Qed.

  Theorem inv_add_node_id k g id vt m g' :
    Inv parse k g -> add_node_id parse k g id vt m = Ok g' -> Inv parse k g'.
  Proof.
    intros HI Hadd.
    destruct (add_node_id_facts _ _ _ _ _ _ Hadd) as (Hex & n & Hid & Hi & Ho & Hok & Hpush).
    apply (inv_add_fresh k g n); auto. rewrite Hid. apply node_exists_false, Hex.
  Qed.

  Theorem inv_add_node_obj k g id vt m g' :
    Inv parse k g -> add_node_obj parse k g id vt m = Ok g' -> Inv parse k g'.
  Proof.
    intros HI Hadd.
    destruct (add_node_obj_facts _ _ _ _ _ _ Hadd) as (Hex & n & Hid & Hi & Ho & Hok & Hpush).
    apply (inv_add_fresh k g n); auto. rewrite Hid. apply node_exists_false, Hex.
  Qed.

  Theorem inv_add_node_vl k g v l vt m g' :
    Inv parse k g -> add_node_vl parse fmt k g v l vt m = Ok g' -> Inv parse k g'.
  Proof.
    unfold add_node_vl. intros HI. destruct k; [discriminate|].
    destruct (fmt v l) as [id|]; [|discriminate]. apply inv_add_node_id, HI.
  Qed.

  (** ** delete_node *)

  Theorem inv_delete_node k g id g' :
    Inv parse k g -> delete_node k g id = Ok g' -> Inv parse k g'.
  Proof.
    intros HI Hdel. apply inv_split in HI. destruct HI as [HS [HP HT]].
    apply inv_split. split; [eapply sinv_delete_node; eassumption|].
    destruct (delete_node_facts _ _ _ _ HS Hdel)
      as (n & g1 & g2 & Hget & E1 & HS2 & Htags & Hcl & En & Es & Ed & Em & El & Ev).
    destruct (idx_remove_graph _ _ _ _ E1) as (_ & _ & _ & _ & Hidx).
    split; intros Ek; subst k.
    - destruct Hidx as [A B]. destruct (HP eq_refl) as [C D]. split; congruence.
    - destruct (HT eq_refl) as [T1 T2 T3 T4].
      destruct Hidx as (l & v & Hl & Hv & Rl & Rv).
      assert (Hst : same_tags (gnodes g) (gnodes g2)).
      { apply same_tags_of_map. symmetry; exact Htags. }
      pose proof (find_node_some _ _ _ Hget) as [Hnin Hnid].
      rewrite Hnid in Rl, Rv.
      constructor.
      + intros x Hx. rewrite En in Hx. apply filter_In in Hx.
        apply (same_tags_nodeok _ _ Hst T1), Hx.
      + rewrite En, El.
        apply (idx_remove_ok Z.eqb Z.eqb_spec (fun n => meta_lag (nmeta n)) (glag g) (gnodes g2) id l).
        * apply (idx_same_tags _ (glag g) (gnodes g)); [|exact T2].
          eapply Forall2_impl_in; [|exact Hst]. cbn beta. intros a b _ _ (A & B & C). auto.
        * apply (s_nodup_nodes g2 HS2).
        * apply (idx_key_of (fun n => meta_lag (nmeta n)) (glag g) (gnodes g) id n l);
            auto. apply (s_nodup_nodes g HS).
        * exact Rl.
      + rewrite En, Ev.
        apply (idx_remove_ok name_eqb name_eqb_spec (fun n => meta_var (nmeta n))
                 (gvar g) (gnodes g2) id v).
        * apply (idx_same_tags _ (gvar g) (gnodes g)); [|exact T3].
          eapply Forall2_impl_in; [|exact Hst]. cbn beta. intros a b _ _ (A & B & C). auto.
        * apply (s_nodup_nodes g2 HS2).
        * apply (idx_key_of (fun n => meta_var (nmeta n)) (gvar g) (gnodes g) id n v);
            auto. apply (s_nodup_nodes g HS).
        * exact Rv.
      + intros e He. rewrite Es in He. destruct (Hcl e He) as (Hin & Ns & Nd).
        destruct (T4 e Hin) as (ls & ld & Hs & Hd & Hle). exists ls, ld.
        rewrite !node_lag_eq in *. rewrite En.
        rewrite !lagof_filter_neq by assumption.
        rewrite <- !(same_tags_lagof _ _ _ Hst). auto.
  Qed.

  (** * Operations returning (outcome, state left behind) *)

  Definition Good (k : kind) (r : res graph * graph) : Prop :=
    Inv parse k (snd r) /\ forall g, fst r = Ok g -> Inv parse k g.

  Lemma good_ok k g : Inv parse k g -> Good k (Ok g, g).
  Proof. intros H. split; cbn [fst snd]; [exact H|]. intros g' [= <-]. exact H. Qed.

  Lemma good_err k x g : Inv parse k g -> Good k (Err x, g).
  Proof. intros H. split; cbn [fst snd]; [exact H|discriminate]. Qed.

  Lemma good_lift k g r :
    Inv parse k g -> (forall g', r = Ok g' -> Inv parse k g') -> Good k (lift g r).
  Proof.
    intros H Hr. destruct r as [g'|x]; cbn [lift].
    - apply good_ok, Hr. reflexivity.
    - apply good_err, H.
  Qed.

  (** ** add_edge *)

  Lemma add_endpoint_ok k g p g' :
    Inv parse k g -> add_endpoint parse k g p = Ok g' ->
    Inv parse k g' /\ In (fst p) (node_ids g') /\ incl (node_ids g) (node_ids g').
  Proof.
    intros HI. unfold add_endpoint. destruct (node_exists g (fst p)) eqn:Ex.
    - intros [= <-]. split; [exact HI|]. split; [apply node_exists_in, Ex|apply incl_refl].
    - assert (Hpush : forall n, nid n = fst p -> idx_add k (push_node g n) n = Ok g' ->
                In (fst p) (node_ids g') /\ incl (node_ids g) (node_ids g')).
      { intros n Hid Hadd. destruct (idx_add_push_facts _ _ _ _ Hadd) as (En & _).
        unfold node_ids. rewrite En, map_app. cbn [map]. rewrite Hid. split.
        - apply in_app_iff. right. left. reflexivity.
        - intros x Hx. apply in_app_iff. left. exact Hx. }
      destruct (snd p) as [[vt m]|]; intros Hadd.
      + split; [eapply inv_add_node_obj; eassumption|].
        destruct (add_node_obj_facts _ _ _ _ _ _ Hadd) as (_ & n & Hid & _ & _ & _ & Hp).
        apply (Hpush n); assumption.
      + split; [eapply inv_add_node_id; eassumption|].
        destruct (add_node_id_facts _ _ _ _ _ _ Hadd) as (_ & n & Hid & _ & _ & _ & Hp).
        apply (Hpush n); assumption.
  Qed.

  Lemma orient_ok k g s d ty s' d' :
    orient k g s d ty = Ok (s', d') ->
    ((s' = s /\ d' = d) \/ (s' = d /\ d' = s))
    /\ (k = TS -> exists ls ld,
          node_lag g s' = Some ls /\ node_lag g d' = Some ld /\ (ls <= ld)%Z).
  Proof.
    unfold orient. destruct k.
    - intros [= <- <-]. split; [left; auto|discriminate].
    - destruct (node_lag g s) as [ls|] eqn:Es; [|discriminate].
      destruct (node_lag g d) as [ld|] eqn:Ed; [|discriminate].
      destruct (ld <? ls)%Z eqn:Elt.
      + destruct (etype_eqb ty Dir); [discriminate|]. intros [= <- <-].
        split; [right; auto|]. intros _. exists ld, ls. apply Z.ltb_lt in Elt.
        split; [exact Ed|]. split; [exact Es|]. lia.
      + intros [= <- <-]. split; [left; auto|]. intros _. exists ls, ld.
        apply Z.ltb_ge in Elt. auto.
  Qed.

  Lemma good_add_edge_try k g sp dp ty m v :
    Inv parse k g -> Good k (add_edge_try parse k g sp dp ty m v).
  Proof.
    intros HI. unfold add_edge_try. cbv zeta.
    destruct (name_eqb_spec (fst sp) (fst dp)) as [E|Hne]; [apply good_err, HI|].
    destruct (add_endpoint parse k g sp) as [g1|x] eqn:E1; [|apply good_err, HI].
    destruct (add_endpoint_ok _ _ _ _ HI E1) as (HI1 & Hs1 & Hinc1).
    destruct (add_endpoint parse k g1 dp) as [g2|x] eqn:E2; [|apply good_err, HI1].
    destruct (add_endpoint_ok _ _ _ _ HI1 E2) as (HI2 & Hd2 & Hinc2).
    assert (Hs2 : In (fst sp) (node_ids g2)) by (apply Hinc2, Hs1).
    destruct (match edge_at g (fst sp) (fst dp) with Some _ => true | None => false end);
      [apply good_err, HI2|].
    destruct (orient k g2 (fst sp) (fst dp) ty) as [[s' d']|x] eqn:Eo; [|apply good_err, HI2].
    destruct (set_edge g2 s' d' ty _ v) as [g3|x] eqn:Es; [|apply good_err, HI2].
    apply good_ok. destruct (orient_ok _ _ _ _ _ _ _ Eo) as (Hor & Ht).
    destruct Hor as [[-> ->]|[-> ->]].
    - apply (inv_set_edge k g2 _ _ ty _ v g3 HI2 Hne Hs2 Hd2 Ht Es).
    - apply (inv_set_edge k g2 _ _ ty _ v g3 HI2 (not_eq_sym Hne) Hd2 Hs2 Ht Es).
  Qed.

  Lemma cleanup_inv k l : forall gl,
    Inv parse k gl ->
    Inv parse k (fold_left (fun acc id =>
                   if node_exists acc id then
                     match delete_node k acc id with Ok a => a | Err _ => acc end
                   else acc) l gl).
  Proof.
    induction l as [|id l IH]; intros gl HI; cbn [fold_left]; [exact HI|].
    apply IH. destruct (node_exists gl id); [|exact HI].
    destruct (delete_node k gl id) as [a|x] eqn:Ed; [|exact HI].
    eapply inv_delete_node; eassumption.
  Qed.

  Theorem good_add_edge k g sp dp ty m v :
    Inv parse k g -> Good k (add_edge parse k g sp dp ty m v).
  Proof.
    intros HI. unfold add_edge. cbv zeta.
    destruct (good_add_edge_try k g sp dp ty m v HI) as [G1 G2].
    destruct (add_edge_try parse k g sp dp ty m v) as [[g'|x] gl]; cbn [fst snd] in *.
    - apply good_ok, G2. reflexivity.
    - apply good_err, cleanup_inv, G1.
  Qed.

  Theorem inv_add_edge k g sp dp ty m v :
    Inv parse k g -> Inv parse k (snd (add_edge parse k g sp dp ty m v)).
  Proof. intros HI. exact (proj1 (good_add_edge k g sp dp ty m v HI)). Qed.

  Theorem inv_add_edge_ok k g sp dp ty m v g' :
    Inv parse k g -> fst (add_edge parse k g sp dp ty m v) = Ok g' -> Inv parse k g'.
  Proof. intros HI. exact (proj2 (good_add_edge k g sp dp ty m v HI) g'). Qed.

  (** ** change_edge_type / replace_edge *)

  (** the common tail: try the new edge, on failure put the old one back unvalidated *)
  Lemma good_add_or_restore k g1 sp dp ty m sp0 dp0 ty0 m0 :
    Inv parse k g1 ->
    Good k (match add_edge parse k g1 sp dp ty m true with
            | (Ok g2, _) => (Ok g2, g2)
            | (Err x, g2) =>
                match add_edge parse k g2 sp0 dp0 ty0 m0 false with
                | (Ok g3, _) => (Err x, g3)
                | (Err y, g3) => (Err y, g3)
                end
            end).
  Proof.
    intros HI1. destruct (good_add_edge k g1 sp dp ty m true HI1) as [A B].
    destruct (add_edge parse k g1 sp dp ty m true) as [[g2|x] g2']; cbn [fst snd] in *.
    - apply good_ok, B. reflexivity.
    - destruct (good_add_edge k g2' sp0 dp0 ty0 m0 false A) as [C D].
      destruct (add_edge parse k g2' sp0 dp0 ty0 m0 false) as [[g3|y] g3']; cbn [fst snd] in *.
      + apply good_err, D. reflexivity.
      + apply good_err, C.
  Qed.

  Theorem good_change_edge_type k g s d ty :
    Inv parse k g -> Good k (change_edge_type parse k g s d ty).
  Proof.
    intros HI. unfold change_edge_type.
    destruct (edge_at g s d) as [e|]; [|apply good_err, HI].
    destruct (etype_eqb (ety e) ty); [apply good_ok, HI|].
    destruct (delete_edge g s d (Some (ety e))) as [g1|x] eqn:Ed; [|apply good_err, HI].
    apply good_add_or_restore. eapply inv_delete_edge; eassumption.
  Qed.

  Theorem good_replace_edge k g s d s' d' oty om :
    Inv parse k g -> Good k (replace_edge parse k g s d s' d' oty om).
  Proof.
    intros HI. unfold replace_edge.
    destruct (edge_at g s d) as [e|]; [|apply good_err, HI].
    destruct (edge_at g s' d'); [apply good_err, HI|]. cbv zeta.
    destruct (delete_edge g s d None) as [g1|x] eqn:Ed; [|apply good_err, HI].
    apply good_add_or_restore. eapply inv_delete_edge; eassumption.
  Qed.

  (** ** Folding an Inv-preserving step (the bulk adders and [seq_edges]) *)

  Definition okstep {X} (F : graph -> X -> res graph * graph) (acc : res graph * graph) (x : X)
    : res graph * graph :=
    match acc with
    | (Ok g', _) => F g' x
    | (Err e, gl) => (Err e, gl)
    end.

  Lemma good_fold {X} k (F : graph -> X -> res graph * graph) :
    (forall g x, Inv parse k g -> Good k (F g x)) ->
    forall xs acc, Good k acc -> Good k (fold_left (okstep F) xs acc).
  Proof.
    intros HF. induction xs as [|x xs IH]; intros acc HG; cbn [fold_left]; [exact HG|].
    apply IH. destruct acc as [[g'|e] gl]; cbn [okstep].
    - apply HF. apply (proj2 HG). reflexivity.
    - exact HG.
  Qed.

  Theorem good_seq_edges k g calls : Inv parse k g -> Good k (seq_edges parse k g calls).
  Proof.
    intros HI. unfold seq_edges.
    apply (good_fold k (fun g' (c : endpoint * endpoint * etype * meta) =>
                          let '(sp, dp, ty, m) := c in add_edge parse k g' sp dp ty (Some m) true)).
    - intros g' [[[sp dp] ty] m] HI'. apply good_add_edge, HI'.
    - apply good_ok, HI.
  Qed.

  Theorem good_add_nodes_from k g ids : Inv parse k g -> Good k (add_nodes_from parse k g ids).
  Proof.
    intros HI. unfold add_nodes_from.
    apply (good_fold k (fun g' id => lift g' (add_node_id parse k g' id VUnspec None))).
    - intros g' id HI'. apply good_lift; [exact HI'|].
      intros g'' Hadd. eapply inv_add_node_id; eassumption.
    - apply good_ok, HI.
  Qed.

  Theorem good_add_edges_from k g pairs v :
    Inv parse k g -> Good k (add_edges_from parse k g pairs v).
  Proof.
    intros HI. unfold add_edges_from.
    apply (good_fold k (fun g' (p : name * name) =>
                          add_edge parse k g' (str_ep (fst p)) (str_ep (snd p)) Dir None v)).
    - intros g' p HI'. apply good_add_edge, HI'.
    - apply good_ok, HI.
  Qed.

  Theorem good_add_fully_connected k g ins outs :
    Inv parse k g -> Good k (add_fully_connected parse k g ins outs).
  Proof. intros HI. unfold add_fully_connected. apply good_add_edges_from, HI. Qed.

  Theorem good_add_path k g path v : Inv parse k g -> Good k (add_path parse k g path v).
  Proof.
    intros HI. unfold add_path. destruct path as [|a path]; [apply good_err, HI|].
    apply (good_fold k (fun g' (p : name * name) =>
                          match edge_at g' (fst p) (snd p) with
                          | Some _ => (Ok g', g')
                          | None => add_edge parse k g' (str_ep (fst p)) (str_ep (snd p)) Dir None v
                          end)).
    - intros g' p HI'. destruct (edge_at g' (fst p) (snd p)); [apply good_ok, HI'|].
      apply good_add_edge, HI'.
    - apply good_ok, HI.
  Qed.

  Theorem good_add_paths k g paths : Inv parse k g -> Good k (add_paths parse k g paths).
  Proof.
    intros HI. unfold add_paths. destruct paths as [|a paths]; [apply good_err, HI|].
    apply (good_fold k (fun g' p => add_path parse k g' p true)).
    - intros g' p HI'. apply good_add_path, HI'.
    - apply good_ok, HI.
  Qed.

  Theorem good_add_time_edge k g sv st dv dt m v :
    Inv parse k g -> Good k (add_time_edge parse fmt k g sv st dv dt m v).
  Proof.
    intros HI. unfold add_time_edge. destruct k; [apply good_err, HI|].
    destruct (fmt sv st); [|apply good_err, HI]. destruct (fmt dv dt); [|apply good_err, HI].
    apply good_add_edge, HI.
  Qed.

  (** ** replace_node *)

  Lemma Forall2_map_self {A B} (R : A -> B -> Prop) (f : A -> B) l :
    (forall x, In x l -> R x (f x)) -> Forall2 R l (map f l).
  Proof.
    induction l as [|a l IH]; intros H; cbn [map]; constructor.
    - apply H. left; reflexivity.
    - apply IH. intros x Hx. apply H. right; exact Hx.
  Qed.

  (** in-place form: the node keeps its identifier and its directed lists *)
  Lemma inv_update_meta k g id n vt' m' :
    Inv parse k g -> get_node g id = Some n ->
    (k = TS -> exists v l, parse id = Some (v, l) /\ meta_var m' = Some v /\ meta_lag m' = Some l) ->
    Inv parse k
      {| gnodes := update_node (fun _ => {| nid := nid n; nvt := vt'; nmeta := m';
                                            ninb := ninb n; noutb := noutb n |}) id (gnodes g);
         gsrc := gsrc g; gdst := gdst g; gmeta := gmeta g; glag := glag g; gvar := gvar g |}.
  Proof.
    intros HI Hget Htag. apply inv_split in HI. destruct HI as [HS [HP HT]].
    set (n' := {| nid := nid n; nvt := vt'; nmeta := m'; ninb := ninb n; noutb := noutb n |}).
    set (f := fun x : node => if name_eqb id (nid x) then n' else x).
    apply find_node_some in Hget. destruct Hget as [Hnin Hnid].
    assert (Hf : forall x, In x (gnodes g) ->
                 nid (f x) = nid x /\ ninb (f x) = ninb x /\ noutb (f x) = noutb x).
    { intros x Hx. unfold f. destruct (name_eqb_spec id (nid x)) as [E|_]; [|auto].
      assert (x = n).
      { apply (nodup_map_inj nid (gnodes g)); auto; [apply (s_nodup_nodes g HS)|congruence]. }
      subst x. auto. }
    assert (Hids : map nid (update_node (fun _ => n') id (gnodes g)) = map nid (gnodes g)).
    { unfold update_node. rewrite map_map. apply map_ext_in. intros x Hx. apply (Hf x Hx). }
    assert (Hin : forall x', In x' (update_node (fun _ => n') id (gnodes g)) ->
                  exists x, In x (gnodes g) /\ x' = f x).
    { intros x' Hx'. unfold update_node in Hx'. apply in_map_iff in Hx'.
      destruct Hx' as (x & E & Hx). exists x. split; [exact Hx|symmetry; exact E]. }
    apply inv_split. split.
    - destruct HS as [H1 H2 H3 H4 H5 H6 H7 H8].
      constructor; unfold node_ids, edge_keys in *; cbn [gnodes gsrc gdst]; rewrite ?Hids;
        try assumption.
      + intros x' Hx'. destruct (Hin x' Hx') as (x & Hx & ->).
        destruct (Hf x Hx) as (A & B & C). rewrite A, B. apply H7, Hx.
      + intros x' Hx'. destruct (Hin x' Hx') as (x & Hx & ->).
        destruct (Hf x Hx) as (A & B & C). rewrite A, C. apply H8, Hx.
    - split; intros Ek; [apply HP, Ek|].
      apply (tsinv_frame g); cbn [gnodes gsrc glag gvar]; auto.
      unfold same_tags, update_node. apply Forall2_map_self. intros x Hx. fold (f x).
      destruct (Hf x Hx) as (A & _). split; [symmetry; exact A|].
      unfold f. destruct (name_eqb_spec id (nid x)) as [E|_]; [|auto].
      assert (x = n).
      { apply (nodup_map_inj nid (gnodes g)); auto; [apply (s_nodup_nodes g HS)|congruence]. }
      subst x. cbn [nmeta n'].
      destruct (Htag Ek) as (v & l & Hp & Hv & Hl).
      destruct (ts_nodeok (HT Ek) n Hnin) as (v0 & l0 & Hp0 & Hv0 & Hl0).
      rewrite Hnid, Hp in Hp0. injection Hp0 as <- <-. split; congruence.
  Qed.

  Theorem good_replace_node_base k g id new_id vt m :
    Inv parse k g ->
    (k = TS -> new_id = None -> forall mm, m = Some mm ->
       exists v l, parse id = Some (v, l) /\ meta_var mm = Some v /\ meta_lag mm = Some l) ->
    Good k (replace_node_base parse k g id new_id vt m).
  Proof.
    intros HI Hm. unfold replace_node_base.
    destruct (get_node g id) as [n|] eqn:En; [|apply good_err, HI].
    destruct new_id as [id'|].
    - destruct (node_exists g id'); [apply good_err, HI|]. cbv zeta.
      destruct (add_node_id parse k g id' _ _) as [g1|x] eqn:E1; [|apply good_err, HI].
      assert (HI1 : Inv parse k g1) by (eapply inv_add_node_id; eassumption).
      match goal with |- Good _ (match seq_edges parse k g1 ?c with _ => _ end) =>
        destruct (good_seq_edges k g1 c HI1) as [A B];
        destruct (seq_edges parse k g1 c) as [[g2|x] g2'] end; cbn [fst snd] in *.
      + assert (HI2 : Inv parse k g2) by (apply B; reflexivity).
        destruct (delete_node k g2 id) as [g3|x] eqn:Ed; [|apply good_err, HI2].
        apply good_ok. eapply inv_delete_node; eassumption.
      + destruct (delete_node k g2' id') as [g3|y] eqn:Ed; [|apply good_err, A].
        apply good_err. eapply inv_delete_node; eassumption.
    - cbv zeta. apply good_ok. apply inv_update_meta; [exact HI|exact En|].
      intros Ek. destruct m as [mm|].
      + apply (Hm Ek eq_refl mm eq_refl).
      + apply inv_split in HI. destruct HI as [_ [_ HT]].
        apply find_node_some in En. destruct En as [Hnin Hnid].
        destruct (ts_nodeok (HT Ek) n Hnin) as (v & l & Hp & Hv & Hl).
        exists v, l. rewrite <- Hnid. auto.
  Qed.

  Theorem good_replace_node k g id new_id lag var vt m :
    Inv parse k g -> Good k (replace_node parse fmt k g id new_id lag var vt m).
  Proof.
    intros HI. unfold replace_node. destruct k.
    - destruct lag, var; try (apply good_err, HI).
      apply good_replace_node_base; [exact HI|discriminate].
    - cbv zeta.
      match goal with |- Good _ (match ?X with Ok _ => _ | Err _ => _ end) =>
        destruct X as [nid'|x] eqn:Enid end; [|apply good_err, HI].
      match goal with |- Good _ (match ?X with Ok _ => _ | Err _ => _ end) =>
        destruct X as [m'|x] eqn:Em end; [|apply good_err, HI].
      apply good_replace_node_base; [exact HI|].
      intros _ -> mm ->. destruct m as [mm0|]; [|discriminate].
      destruct (parse id) as [[cv cl]|]; [|discriminate].
      injection Em as <-. exists cv, cl.
      rewrite meta_var_set_tags, meta_lag_set_tags. auto.
  Qed.

  (** * The history theorems *)

  Theorem inv_init : inv_init_statement parse.
  Proof.
    intros k m. constructor; cbn.
    - constructor.
    - constructor.
    - constructor.
    - intros e [].
    - intros e [].
    - intros e [].
    - intros n [].
    - intros n [].
    - auto.
    - intros _. constructor; cbn; try constructor; intros x [].
  Qed.

  Theorem good_run_op k g o : Inv parse k g -> Good k (run_op parse fmt k g o).
  Proof.
    intros HI. destruct o; cbn [run_op].
    - apply good_lift; [exact HI|]. intros g' H. eapply inv_add_node_id; eassumption.
    - apply good_lift; [exact HI|]. intros g' H. eapply inv_add_node_obj; eassumption.
    - apply good_lift; [exact HI|]. intros g' H. eapply inv_add_node_vl; eassumption.
    - apply good_add_nodes_from, HI.
    - apply good_add_fully_connected, HI.
    - apply good_lift; [exact HI|]. intros g' H. eapply inv_delete_node; eassumption.
    - apply good_replace_node, HI.
    - apply good_add_edge, HI.
    - apply good_add_edges_from, HI.
    - apply good_add_path, HI.
    - apply good_add_paths, HI.
    - apply good_add_time_edge, HI.
    - apply good_lift; [exact HI|]. intros g' H. eapply inv_delete_edge; eassumption.
    - apply good_change_edge_type, HI.
    - apply good_replace_edge, HI.
  Qed.

  Theorem inv_step : inv_step_statement parse fmt.
  Proof. intros k g o HI. unfold step. exact (proj1 (good_run_op k g o HI)). Qed.

  (** a successful operation returns the state it leaves behind, which satisfies Inv *)
  Theorem inv_run_op_ok k g o g' :
    Inv parse k g -> fst (run_op parse fmt k g o) = Ok g' -> Inv parse k g'.
  Proof. intros HI. exact (proj2 (good_run_op k g o HI) g'). Qed.

  Theorem inv_run_from k ops : forall g, Inv parse k g -> Inv parse k (run parse fmt k ops g).
  Proof.
    unfold run. induction ops as [|o ops IH]; intros g HI; cbn [fold_left]; [exact HI|].
    apply IH, inv_step, HI.
  Qed.

  Theorem inv_run : inv_run_statement parse fmt.
  Proof. intros k ops m. apply inv_run_from, inv_init. Qed.

  (** * Consequences of the invariant *)

  Lemma one_edge_list a b (es : list edge) :
    NoDup (map edge_key es) ->
    (forall e, In e es -> ~ In (edst e, esrc e) (map edge_key es)) ->
    length (filter (fun e => (name_eqb a (esrc e) && name_eqb b (edst e))
                             || (name_eqb b (esrc e) && name_eqb a (edst e))) es) <= 1.
  Proof.
    set (p := fun e => (name_eqb a (esrc e) && name_eqb b (edst e))
                       || (name_eqb b (esrc e) && name_eqb a (edst e))).
    assert (Hp : forall e, p e = true -> edge_key e = (a, b) \/ edge_key e = (b, a)).
    { intros e He. unfold p in He. apply orb_true_iff in He.
      fold (key_is a b e) in He. fold (key_is b a e) in He.
      rewrite !key_is_true in He. exact He. }
    induction es as [|e es IH]; intros Hnd Hrev; cbn [filter length]; [lia|].
    cbn [map] in Hnd. inversion Hnd as [|? ? Hnin Hnd']; subst.
    assert (IH' : length (filter p es) <= 1).
    { apply IH; [exact Hnd'|]. intros x Hx Hin. apply (Hrev x (or_intror Hx)). right. exact Hin. }
    destruct (p e) eqn:Epe; [|exact IH'].
    rewrite (filter_none p es); [cbn [length]; lia|].
    intros x Hx. destruct (p x) eqn:Epx; [|reflexivity]. exfalso.
    assert (Hkx : In (edge_key x) (map edge_key es)) by (apply in_map, Hx).
    assert (Hrx : ~ In (edst e, esrc e) (map edge_key es)).
    { intros Hin. apply (Hrev e (or_introl eq_refl)). right. exact Hin. }
    destruct (Hp e Epe) as [Ke|Ke], (Hp x Epx) as [Kx|Kx].
    - apply Hnin. rewrite Ke, <- Kx. exact Hkx.
    - apply Hrx. unfold edge_key in Ke. injection Ke as -> ->. rewrite <- Kx. exact Hkx.
    - apply Hrx. unfold edge_key in Ke. injection Ke as -> ->. rewrite <- Kx. exact Hkx.
    - apply Hnin. rewrite Ke, <- Kx. exact Hkx.
  Qed.

  Theorem one_edge_per_pair : one_edge_per_pair_statement parse.
  Proof.
    intros k g a b HI. apply one_edge_list.
    - apply (inv_nodup_keys HI).
    - apply (inv_noreverse HI).
  Qed.

  Lemma pair_leb_e_total x y : pair_leb_e x y = true \/ pair_leb_e y x = true.
  Proof. apply pair_leb_total. Qed.
  Lemma pair_leb_e_trans x y z :
    pair_leb_e x y = true -> pair_leb_e y z = true -> pair_leb_e x z = true.
  Proof. apply pair_leb_trans. Qed.

  (** sorting by key is insensitive to the order of a list with distinct keys *)
  Lemma isort_edges_perm (l1 l2 : list edge) :
    NoDup (map edge_key l1) -> Permutation l1 l2 ->
    isort pair_leb_e l1 = isort pair_leb_e l2.
  Proof.
    intros Hnd P. apply (sorted_perm_eq_on pair_leb_e).
    - intros x y Hx Hy L1 L2. apply isort_in in Hx, Hy.
      apply (nodup_map_inj edge_key l1); auto.
      apply pair_leb_antisym; assumption.
    - apply isort_sorted; [apply pair_leb_e_total|apply pair_leb_e_trans].
    - apply isort_sorted; [apply pair_leb_e_total|apply pair_leb_e_trans].
    - rewrite <- (isort_perm pair_leb_e l1), <- (isort_perm pair_leb_e l2). exact P.
  Qed.

  Theorem views_agree : views_agree_statement parse.
  Proof.
    intros k g n HI. split; [|split].
    - unfold v_edges_into, edges_into. apply isort_edges_perm.
      + apply nodup_map_filter.
        apply (Permutation_NoDup (l := edge_keys g)); [|apply (inv_nodup_keys HI)].
        unfold edge_keys. apply Permutation_map. symmetry. apply (inv_mirror HI).
      + apply perm_filter, (inv_mirror HI).
    - intros Hn. destruct (find_node_in _ _ Hn) as (x & Hx).
      unfold v_parents, v_children, get_node. rewrite Hx.
      apply find_node_some in Hx. destruct Hx as [Hin Hid].
      pose proof (inv_inb HI x Hin) as Pi. pose proof (inv_outb HI x Hin) as Po.
      rewrite Hid in Pi, Po. split; f_equal.
      + rewrite dedup_nodup_id; [apply sort_names_perm_eq, Pi|].
        apply (Permutation_NoDup (l := dir_into g n)); [symmetry; exact Pi|].
        apply dinto_nodup, (inv_nodup_keys HI).
      + rewrite dedup_nodup_id; [apply sort_names_perm_eq, Po|].
        apply (Permutation_NoDup (l := dir_from g n)); [symmetry; exact Po|].
        apply dfrom_nodup, (inv_nodup_keys HI).
    - intros s d. unfold v_edge_exists. destruct (edge_at g s d) as [e|] eqn:E.
      + split; [intros _|reflexivity]. apply find_edge_some in E. destruct E as (Hin & <- & <-).
        apply (in_map edge_key) in Hin. exact Hin.
      + split; [discriminate|]. apply edge_at_none in E. intros H; contradiction.
  Qed.

  Theorem lookups_eq_scan : lookups_eq_scan_statement parse.
  Proof.
    intros g l v HI. destruct (inv_ts HI eq_refl) as [_ T2 T3 _]. split.
    - unfold v_nodes_at_lag.
      apply (idx_scan Z.eqb (fun n => meta_lag (nmeta n)) (glag g) (gnodes g) l T2).
    - unfold v_nodes_for_var.
      apply (idx_scan name_eqb (fun n => meta_var (nmeta n)) (gvar g) (gnodes g) v T3).
  Qed.
End InvProofs.

(** * Further facts for the other history proofs *)

Lemma delete_edge_eq g s d oty e :
  node_exists g s = true -> node_exists g d = true -> edge_at g s d = Some e ->
  match oty with Some t => negb (etype_eqb t (ety e)) | None => false end = false ->
  delete_edge g s d oty
  = Ok {| gnodes := if etype_eqb (ety e) Dir
                    then upd2 (remove_first s) (remove_first d) s d (gnodes g)
                    else gnodes g;
          gsrc := drop_edge s d (gsrc g); gdst := drop_edge s d (gdst g);
          gmeta := gmeta g; glag := glag g; gvar := gvar g |}.
Proof. intros A B C D. unfold delete_edge. rewrite A, B, C, D. reflexivity. Qed.

(** ** The cycle-rollback of [_set_edge] (insert, then delete_edge) restores the state exactly;
    this is why [add_edge_try] may report the state before the insertion. *)
Theorem rollback_exact g e :
  SInv g -> In (esrc e) (node_ids g) -> In (edst e) (node_ids g) ->
  ~ In (esrc e, edst e) (edge_keys g) ->
  delete_edge (insert_edge g e) (esrc e) (edst e) None = Ok g.
Proof.
  intros HS Hs Hd Hk.
  assert (Hkd : ~ In (esrc e, edst e) (map edge_key (gdst g))).
  { intros Hin. apply Hk. unfold edge_keys. eapply Permutation_in; [|exact Hin].
    apply Permutation_map, (s_mirror g HS). }
  assert (Hids : node_ids (insert_edge g e) = node_ids g).
  { unfold node_ids. rewrite insert_edge_eq. cbn [gnodes]. apply ids_if_upd2. }
  rewrite (delete_edge_eq _ _ _ None e).
  - rewrite insert_edge_eq. cbn [gnodes gsrc gdst gmeta glag gvar].
    assert (Hdrop : forall es, ~ In (esrc e, edst e) (map edge_key es) ->
                    drop_edge (esrc e) (edst e) (es ++ [e]) = es).
    { intros es Hes. unfold drop_edge. rewrite filter_app.
      fold (drop_edge (esrc e) (edst e) es). rewrite (drop_edge_absent _ _ _ Hes).
      cbn [filter]. rewrite !name_eqb_refl. cbn [andb negb]. apply app_nil_r. }
    rewrite (Hdrop _ Hk), (Hdrop _ Hkd).
    assert (Hns : (if etype_eqb (ety e) Dir
                   then upd2 (remove_first (esrc e)) (remove_first (edst e)) (esrc e) (edst e)
                          (if etype_eqb (ety e) Dir
                           then upd2 (fun l => l ++ [esrc e]) (fun l => l ++ [edst e])
                                  (esrc e) (edst e) (gnodes g)
                           else gnodes g)
                   else (if etype_eqb (ety e) Dir
                         then upd2 (fun l => l ++ [esrc e]) (fun l => l ++ [edst e])
                                (esrc e) (edst e) (gnodes g)
                         else gnodes g)) = gnodes g).
    { destruct (etype_eqb (ety e) Dir); [|reflexivity].
      rewrite upd2_compose. apply upd2_id. intros n Hn. split; intros Hid.
      - apply remove_first_snoc. intros Hin. apply Hk.
        apply (Permutation_in _ (s_inb g HS n Hn)) in Hin. apply in_dinto in Hin.
        destruct Hin as (x & Hx & _ & Hxs & Hxd). unfold edge_keys.
        apply in_map_iff. exists x. split; [unfold edge_key; congruence|exact Hx].
      - apply remove_first_snoc. intros Hin. apply Hk.
        apply (Permutation_in _ (s_outb g HS n Hn)) in Hin. apply in_dfrom in Hin.
        destruct Hin as (x & Hx & _ & Hxs & Hxd). unfold edge_keys.
        apply in_map_iff. exists x. split; [unfold edge_key; congruence|exact Hx]. }
    rewrite Hns. destruct g; reflexivity.
  - apply node_exists_in. rewrite Hids. exact Hs.
  - apply node_exists_in. rewrite Hids. exact Hd.
  - unfold edge_at. rewrite insert_edge_eq. cbn [gsrc].
    rewrite find_edge_app_r by (apply find_edge_none, Hk).
    cbn [find_edge]. rewrite !name_eqb_refl. reflexivity.
  - reflexivity.
Qed.

(** hence a validated [_set_edge] that detects a cycle fails with exactly ECyclic *)
Corollary set_edge_cyclic_outcome g s d ty m :
  SInv g -> In s (node_ids g) -> In d (node_ids g) ->
  edge_at g s d = None -> edge_at g d s = None ->
  depends_on_itself (insert_edge g {| esrc := s; edst := d; ety := ty; emeta := m |}) d
    = Some true ->
  set_edge g s d ty m true = Err ECyclic.
Proof.
  intros HS Hs Hd E1 E2 Hc. unfold set_edge. rewrite E1, E2, Hc.
  pose proof (rollback_exact g {| esrc := s; edst := d; ety := ty; emeta := m |} HS Hs Hd) as R.
  cbn [esrc edst] in R. rewrite R; [reflexivity|]. apply edge_at_none, E1.
Qed.

(** ** Deleting an existing edge / node cannot fail *)

Lemma delete_edge_succeeds g e :
  SInv g -> In e (gsrc g) -> exists g', delete_edge g (esrc e) (edst e) None = Ok g'.
Proof.
  intros HS He. destruct (s_endpoints g HS e He) as [Is Id].
  eexists. apply (delete_edge_eq g (esrc e) (edst e) None e).
  - apply node_exists_in, Is.
  - apply node_exists_in, Id.
  - apply find_edge_unique; [apply (s_nodup_keys g HS)|exact He].
  - reflexivity.
Qed.

Lemma del_edges_succeeds es : forall g1,
  SInv g1 -> NoDup (map edge_key es) -> incl es (gsrc g1) ->
  exists g2, del_edges es (Ok g1) = Ok g2.
Proof.
  induction es as [|e es IH]; intros g1 HS Hnd Hinc.
  - exists g1. reflexivity.
  - cbn [map] in Hnd. inversion Hnd as [|? ? Hnin Hnd']; subst.
    destruct (delete_edge_succeeds g1 e HS (Hinc e (or_introl eq_refl))) as (g1' & Edel).
    unfold del_edges. cbn [fold_left bind]. rewrite Edel. apply IH.
    + eapply sinv_delete_edge; eassumption.
    + exact Hnd'.
    + intros x Hx. destruct (delete_edge_frame _ _ _ _ _ Edel) as (_ & _ & _ & _ & Fin).
      apply Fin. split; [apply Hinc; right; exact Hx|].
      intros E. apply Hnin. change (esrc e, edst e) with (edge_key e) in E. rewrite <- E.
      apply in_map, Hx.
Qed.

Section Extras.
  Variable parse : name -> option (name * Z).
  Variable fmt : name -> Z -> option name.

  Theorem delete_node_succeeds k g id :
    Inv parse k g -> In id (node_ids g) -> exists g', delete_node k g id = Ok g'.
  Proof.
    intros HI Hid. apply inv_split in HI. destruct HI as [HS [HP HT]].
    destruct (find_node_in _ _ Hid) as (n & Hget).
    assert (Hrem : exists g1, idx_remove k g n = Ok g1).
    { unfold idx_remove. destruct k; [eexists; reflexivity|].
      destruct (HT eq_refl) as [T1 T2 T3 _].
      pose proof (find_node_some _ _ _ Hget) as [Hnin Hnid].
      destruct (T1 n Hnin) as (v & l & _ & Hv & Hl). rewrite Hl, Hv.
      destruct (idx_remove_some Z.eqb Z.eqb_spec (fun n => meta_lag (nmeta n))
                  (glag g) (gnodes g) id n l T2 Hget Hl) as (gl & El).
      destruct (idx_remove_some name_eqb name_eqb_spec (fun n => meta_var (nmeta n))
                  (gvar g) (gnodes g) id n v T3 Hget Hv) as (gv & Ev).
      rewrite Hnid, El, Ev. eexists; reflexivity. }
    destruct Hrem as (g1 & E1).
    destruct (idx_remove_graph _ _ _ _ E1) as (Gn & Gs & Gd & _).
    assert (HS1 : SInv g1) by (eapply sinv_ext; eassumption).
    destruct (del_edges_succeeds
                (filter (fun e => name_eqb id (esrc e) || name_eqb id (edst e)) (sorted_edges g1))
                g1 HS1) as (g2 & E2).
    - apply nodup_map_filter. unfold sorted_edges.
      apply (Permutation_NoDup (l := edge_keys g1)); [|apply (s_nodup_keys g1 HS1)].
      unfold edge_keys. apply Permutation_map, isort_perm.
    - intros x Hx. apply filter_In in Hx. destruct Hx as [Hx _].
      unfold sorted_edges in Hx. apply isort_in in Hx. exact Hx.
    - unfold delete_node, get_node. rewrite Hget, E1. cbn [bind].
      unfold del_edges in E2. rewrite E2. cbn [bind]. eexists; reflexivity.
  Qed.

  (** ** On success the reported state is the returned state *)

  Definition Coh (r : res graph * graph) : Prop := forall g, fst r = Ok g -> snd r = g.

  Lemma coh_ok g : Coh (Ok g, g).
  Proof. intros g' [= <-]. reflexivity. Qed.
  Lemma coh_err x g : Coh (Err x, g).
  Proof. intros g' H. discriminate. Qed.
  Lemma coh_lift g r : Coh (lift g r).
  Proof. destruct r; [apply coh_ok|apply coh_err]. Qed.

  Lemma coh_fold {X} (F : graph -> X -> res graph * graph) :
    (forall g x, Coh (F g x)) -> forall xs acc, Coh acc -> Coh (fold_left (okstep F) xs acc).
  Proof.
    intros HF. induction xs as [|x xs IH]; intros acc HC; cbn [fold_left]; [exact HC|].
    apply IH. destruct acc as [[g'|e] gl]; cbn [okstep]; [apply HF|apply coh_err].
  Qed.

  Lemma coh_add_edge k g sp dp ty m v : Coh (add_edge parse k g sp dp ty m v).
  Proof.
    unfold add_edge. cbv zeta.
    destruct (add_edge_try parse k g sp dp ty m v) as [[g'|x] gl]; [apply coh_ok|apply coh_err].
  Qed.

  Lemma coh_add_or_restore k g1 sp dp ty m sp0 dp0 ty0 m0 :
    Coh (match add_edge parse k g1 sp dp ty m true with
         | (Ok g2, _) => (Ok g2, g2)
         | (Err x, g2) =>
             match add_edge parse k g2 sp0 dp0 ty0 m0 false with
             | (Ok g3, _) => (Err x, g3)
             | (Err y, g3) => (Err y, g3)
             end
         end).
  Proof.
    destruct (add_edge parse k g1 sp dp ty m true) as [[g2|x] g2']; [apply coh_ok|].
    destruct (add_edge parse k g2' sp0 dp0 ty0 m0 false) as [[g3|y] g3']; apply coh_err.
  Qed.

  Lemma coh_add_path k g path v : Coh (add_path parse k g path v).
  Proof.
    unfold add_path. destruct path as [|a path]; [apply coh_err|].
    apply (coh_fold (fun g' (p : name * name) =>
                       match edge_at g' (fst p) (snd p) with
                       | Some _ => (Ok g', g')
                       | None => add_edge parse k g' (str_ep (fst p)) (str_ep (snd p)) Dir None v
                       end)).
    - intros g' p. destruct (edge_at g' (fst p) (snd p)); [apply coh_ok|apply coh_add_edge].
    - apply coh_ok.
  Qed.

  Lemma coh_replace_node_base k g id new_id vt m :
    Coh (replace_node_base parse k g id new_id vt m).
  Proof.
    unfold replace_node_base. destruct (get_node g id) as [n|]; [|apply coh_err].
    destruct new_id as [id'|]; [|apply coh_ok].
    destruct (node_exists g id'); [apply coh_err|]. cbv zeta.
    destruct (add_node_id parse k g id' _ _) as [g1|x]; [|apply coh_err].
    destruct (seq_edges parse k g1 _) as [[g2|x] g2'].
    - destruct (delete_node k g2 id); [apply coh_ok|apply coh_err].
    - destruct (delete_node k g2' id'); apply coh_err.
  Qed.

  Theorem run_op_coh k g o : Coh (run_op parse fmt k g o).
  Proof.
    destruct o; cbn [run_op]; try apply coh_lift; try apply coh_add_edge.
    - unfold add_nodes_from.
      apply (coh_fold (fun g' id => lift g' (add_node_id parse k g' id VUnspec None)));
        [intros; apply coh_lift|apply coh_ok].
    - unfold add_fully_connected, add_edges_from.
      apply (coh_fold (fun g' (p : name * name) =>
                         add_edge parse k g' (str_ep (fst p)) (str_ep (snd p)) Dir None true));
        [intros; apply coh_add_edge|apply coh_ok].
    - unfold replace_node. destruct k.
      + destruct lag, var; try apply coh_err. apply coh_replace_node_base.
      + cbv zeta.
        match goal with |- Coh (match ?X with Ok _ => _ | Err _ => _ end) =>
          destruct X as [nid'|x] end; [|apply coh_err].
        match goal with |- Coh (match ?X with Ok _ => _ | Err _ => _ end) =>
          destruct X as [m'|x] end; [|apply coh_err].
        apply coh_replace_node_base.
    - unfold add_edges_from.
      apply (coh_fold (fun g' (p : name * name) =>
                         add_edge parse k g' (str_ep (fst p)) (str_ep (snd p)) Dir None validate));
        [intros; apply coh_add_edge|apply coh_ok].
    - apply coh_add_path.
    - unfold add_paths. destruct paths as [|a paths]; [apply coh_err|].
      apply (coh_fold (fun g' p => add_path parse k g' p true));
        [intros; apply coh_add_path|apply coh_ok].
    - unfold add_time_edge. destruct k; [apply coh_err|].
      destruct (fmt sv st); [|apply coh_err]. destruct (fmt dv dt); [|apply coh_err].
      apply coh_add_edge.
    - unfold change_edge_type. destruct (edge_at g s d) as [e|]; [|apply coh_err].
      destruct (etype_eqb (ety e) ty); [apply coh_ok|].
      destruct (delete_edge g s d (Some (ety e))); [|apply coh_err]. apply coh_add_or_restore.
    - unfold replace_edge. destruct (edge_at g s d) as [e|]; [|apply coh_err].
      destruct (edge_at g s' d'); [apply coh_err|]. cbv zeta.
      destruct (delete_edge g s d None); [|apply coh_err]. apply coh_add_or_restore.
  Qed.

  Corollary step_of_ok k g o g' :
    fst (run_op parse fmt k g o) = Ok g' -> step parse fmt k g o = g'.
  Proof. apply run_op_coh. Qed.
End Extras.

(** * The directed part as a [Digraph.digraph]: how the primitives act on [dgraph] *)

Lemma arc_dgraph g a b :
  arc (dgraph g) a b <-> exists e, In e (gsrc g) /\ ety e = Dir /\ esrc e = a /\ edst e = b.
Proof.
  unfold arc, dgraph. cbn [arcs]. rewrite in_map_iff. split.
  - intros (e & Hk & He). apply filter_In in He. destruct He as [He Hd].
    unfold edge_key in Hk. injection Hk as Hs Hdst. exists e.
    split; [exact He|]. split; [destruct (etype_eqb_spec (ety e) Dir); congruence|auto].
  - intros (e & He & Hd & Hs & Hdst). exists e. split; [unfold edge_key; congruence|].
    apply filter_In. split; [exact He|]. rewrite Hd. reflexivity.
Qed.

Lemma dgraph_wf g : SInv g -> wf (dgraph g).
Proof.
  intros HS. split; [exact (s_nodup_nodes g HS)|].
  intros a b Hab. apply arc_dgraph in Hab. destruct Hab as (e & He & _ & <- & <-).
  exact (s_endpoints g HS e He).
Qed.

(** the per-node directed lists are the parents / children in [dgraph] *)
Lemma inb_arc g d n p :
  SInv g -> get_node g d = Some n -> (In p (ninb n) <-> arc (dgraph g) p d).
Proof.
  intros HS Hget. apply find_node_some in Hget. destruct Hget as [Hin Hid].
  pose proof (s_inb g HS n Hin) as P. rewrite Hid in P.
  rewrite arc_dgraph, <- in_dinto. split; apply Permutation_in; [exact P|symmetry; exact P].
Qed.

Lemma outb_arc g s n c :
  SInv g -> get_node g s = Some n -> (In c (noutb n) <-> arc (dgraph g) s c).
Proof.
  intros HS Hget. apply find_node_some in Hget. destruct Hget as [Hin Hid].
  pose proof (s_outb g HS n Hin) as P. rewrite Hid in P.
  rewrite arc_dgraph, <- in_dfrom. split; apply Permutation_in; [exact P|symmetry; exact P].
Qed.

Lemma node_ids_insert_edge g e : node_ids (insert_edge g e) = node_ids g.
Proof. unfold node_ids. rewrite insert_edge_eq. cbn [gnodes]. apply ids_if_upd2. Qed.

Lemma dgraph_insert_dir g e :
  ety e = Dir -> dgraph (insert_edge g e) = add_arc (dgraph g) (esrc e) (edst e).
Proof.
  intros Hd. unfold dgraph, add_arc. cbn [verts arcs]. rewrite node_ids_insert_edge. f_equal.
  rewrite insert_edge_eq. cbn [gsrc]. rewrite filter_app, map_app. cbn [filter].
  rewrite Hd. reflexivity.
Qed.

Lemma dgraph_insert_nondir g e : ety e <> Dir -> dgraph (insert_edge g e) = dgraph g.
Proof.
  intros Hd. unfold dgraph. rewrite node_ids_insert_edge. f_equal.
  rewrite insert_edge_eq. cbn [gsrc]. rewrite filter_app, map_app. cbn [filter].
  destruct (etype_eqb_spec (ety e) Dir); [contradiction|]. apply app_nil_r.
Qed.

Lemma dgraph_delete_edge g s d oty g' :
  delete_edge g s d oty = Ok g' ->
  verts (dgraph g') = verts (dgraph g)
  /\ (forall a b, arc (dgraph g') a b <-> arc (dgraph g) a b /\ (a, b) <> (s, d)).
Proof.
  intros Hdel. destruct (delete_edge_frame _ _ _ _ _ Hdel) as (_ & _ & _ & _ & Fin).
  destruct (delete_edge_ok _ _ _ _ _ Hdel) as (e & _ & _ & _ & Eg). split.
  - subst g'. unfold dgraph, node_ids. cbn [verts gnodes]. apply ids_if_upd2.
  - intros a b. rewrite !arc_dgraph. split.
    + intros (x & Hx & Hd & <- & <-). apply Fin in Hx. destruct Hx as [Hx Hk].
      split; [exists x; auto|exact Hk].
    + intros [(x & Hx & Hd & <- & <-) Hk]. exists x. split; [apply Fin; auto|auto].
Qed.

Lemma dgraph_delete_node k g id g' :
  SInv g -> delete_node k g id = Ok g' ->
  (forall x, In x (verts (dgraph g')) <-> In x (verts (dgraph g)) /\ x <> id)
  /\ (forall a b, arc (dgraph g') a b -> arc (dgraph g) a b /\ a <> id /\ b <> id).
Proof.
  intros HS Hdel.
  destruct (delete_node_facts _ _ _ _ HS Hdel)
    as (n & g1 & g2 & _ & _ & _ & Htags & Hcl & En & Es & _).
  split.
  - intros x. unfold dgraph, node_ids. cbn [verts]. rewrite En.
    assert (Hids : map nid (gnodes g2) = map nid (gnodes g)).
    { transitivity (map fst (map tags (gnodes g2))); [rewrite map_map; reflexivity|].
      rewrite Htags, map_map. reflexivity. }
    rewrite <- Hids, !in_map_iff. split.
    + intros (y & <- & Hy). apply filter_In in Hy. destruct Hy as [Hy Hne].
      unfold not_id in Hne. apply negb_true_iff, name_eqb_neq in Hne.
      split; [exists y; auto|congruence].
    + intros [(y & <- & Hy) Hne]. exists y. split; [reflexivity|]. apply filter_In.
      split; [exact Hy|]. unfold not_id. apply negb_true_iff, name_eqb_neq. congruence.
  - intros a b Hab. apply arc_dgraph in Hab. destruct Hab as (e & He & Hd & <- & <-).
    rewrite Es in He. destruct (Hcl e He) as (Hin & Ns & Nd).
    split; [apply arc_dgraph; exists e; auto|auto].
Qed.

(** adding a node leaves the arcs alone *)
Lemma dgraph_idx_add_push k g n g' :
  idx_add k (push_node g n) n = Ok g' ->
  verts (dgraph g') = verts (dgraph g) ++ [nid n] /\ arcs (dgraph g') = arcs (dgraph g).
Proof.
  intros Hadd. unfold idx_add in Hadd. destruct k.
  - injection Hadd as <-. unfold dgraph, node_ids. cbn [verts arcs gnodes gsrc push_node].
    rewrite map_app. split; reflexivity.
  - destruct (meta_lag (nmeta n)); [|discriminate]. destruct (meta_var (nmeta n)); [|discriminate].
    injection Hadd as <-. unfold dgraph, node_ids. cbn [verts arcs gnodes gsrc push_node].
    rewrite map_app. split; reflexivity.
Qed.

(** * Non-vacuity: a mixed 4-node time-series state reached from the empty graph

    The same history was run on the real [TimeSeriesCausalGraph]: identical outcomes
    (None, None, None, None, EdgeDuplicatedError, ValueError, None, None,
    ReverseEdgeExistsError, None), node order and edge list. *)
From CG Require Names.

Definition ex_X : name := [88%N].
Definition ex_Y : name := [89%N].
Definition ex_X1 : name := Eval vm_compute in Names.render ex_X (-1).   (* "X lag(n=1)" *)
Definition ex_Y1 : name := Eval vm_compute in Names.render ex_Y (-1).   (* "Y lag(n=1)" *)

Definition ex_ops : list op :=
  [ OAddNodeVL ex_X (-1) VCont None;
    OAddTimeEdge ex_X (-1) ex_X 0 None true;
    OAddEdge (str_ep ex_Y) (str_ep ex_X) Und None true;
    OAddTimeEdge ex_Y (-1) ex_Y 0 (Some [(ex_X, JInt 3)]) true;
    OAddEdge (str_ep ex_Y) (str_ep ex_Y1) Bi None true;       (* duplicate after the swap *)
    OAddEdge (str_ep ex_X) (str_ep ex_X1) Dir None true;      (* backwards in time *)
    OAddEdge (str_ep ex_Y1) (str_ep ex_X) Dir None true;
    OChangeEdgeType ex_Y1 ex_X UnkDir;
    OAddEdge (str_ep ex_X) (str_ep ex_Y) Dir None true;       (* reverse exists *)
    OReplaceNode ex_Y None None None (Some VBin) (Some [(ex_Y, JBool true)]) ].

Definition ex_state : graph :=
  Eval vm_compute in run Names.parse Names.fmt TS ex_ops (empty_graph []).

Fixpoint ex_outcomes (g : graph) (ops : list op) : list (option err) :=
  match ops with
  | [] => []
  | o :: r => outcome Names.parse Names.fmt TS g o
              :: ex_outcomes (step Names.parse Names.fmt TS g o) r
  end.

Example ex_history_outcomes :
  ex_outcomes (empty_graph []) ex_ops
  = [None; None; None; None; Some EEdgeDup; Some EValue; None; None; Some EReverse; None].
Proof. vm_compute. reflexivity. Qed.

Example ex_state_shape :
  node_ids ex_state = [ex_X1; ex_X; ex_Y; ex_Y1]
  /\ map (fun e => (esrc e, edst e, ety e)) (gsrc ex_state)
     = [(ex_X1, ex_X, Dir); (ex_Y, ex_X, Und); (ex_Y1, ex_Y, Dir); (ex_Y1, ex_X, UnkDir)]
  /\ glag ex_state = [((-1)%Z, ex_X1); (0%Z, ex_X); (0%Z, ex_Y); ((-1)%Z, ex_Y1)]
  /\ gvar ex_state = [(ex_X, ex_X1); (ex_X, ex_X); (ex_Y, ex_Y); (ex_Y, ex_Y1)]
  /\ option_map nvt (get_node ex_state ex_Y) = Some VBin
  /\ option_map (fun n => meta_get ex_Y (nmeta n)) (get_node ex_state ex_Y)
     = Some (Some (JBool true)).
Proof. vm_compute. repeat split; reflexivity. Qed.

Example ex_state_inv : Inv Names.parse TS ex_state.
Proof.
  assert (E : ex_state = run Names.parse Names.fmt TS ex_ops (empty_graph []))
    by (vm_compute; reflexivity).
  rewrite E. apply inv_run.
Qed.

(** the same history on the plain class (the time-series operations are refused) *)
Example ex_plain_inv :
  let g := run Names.parse Names.fmt Plain ex_ops (empty_graph []) in
  Inv Names.parse Plain g /\ node_ids g = [ex_Y; ex_X; ex_Y1; ex_X1] /\ length (gsrc g) = 4.
Proof.
  cbv zeta. split; [apply inv_run|]. vm_compute. split; reflexivity.
Qed.

(** the consequences, instantiated on the example state *)
Example ex_views :
  v_parents ex_state ex_X = Ok [ex_X1] /\ v_children ex_state ex_Y1 = Ok [ex_Y]
  /\ v_nodes_at_lag ex_state (-1) = [ex_X1; ex_Y1].
Proof. vm_compute. repeat split; reflexivity. Qed.

(** the primitive lemmas are not vacuous either: deletions succeed on the example state *)
Example ex_delete_edge_ok :
  exists g', delete_edge ex_state ex_X1 ex_X None = Ok g' /\ length (gsrc g') = 3.
Proof. eexists. split; vm_compute; reflexivity. Qed.

Example ex_delete_node_ok :
  exists g', delete_node TS ex_state ex_X = Ok g'
             /\ node_ids g' = [ex_X1; ex_Y; ex_Y1] /\ length (gsrc g') = 1
             /\ glag g' = [((-1)%Z, ex_X1); (0%Z, ex_Y); ((-1)%Z, ex_Y1)].
Proof. eexists. split; [vm_compute; reflexivity|]. vm_compute. repeat split; reflexivity. Qed.

(** [replace_node_base] ALONE does not preserve the time-series invariant: called in place with a
    metadata dictionary lacking the reserved tags it drops them (the named hypothesis of
    [good_replace_node_base] is necessary).  The public time-series [replace_node] re-derives
    the tags first ([good_replace_node] needs no hypothesis). *)
Example replace_node_base_ts_untagged_refuted :
  exists g id m, Inv Names.parse TS g
    /\ ~ Inv Names.parse TS (snd (replace_node_base Names.parse TS g id None None (Some m))).
Proof.
  exists ex_state, ex_X, []. split; [exact ex_state_inv|]. intros HI.
  pose proof (ts_nodeok (inv_ts HI eq_refl)
                {| nid := ex_X; nvt := VUnspec; nmeta := []; ninb := [ex_X1]; noutb := [] |})
    as Hok.
  destruct Hok as (v & l & _ & Hv & _).
  - vm_compute. right. left. reflexivity.
  - vm_compute in Hv. discriminate.
Qed.

Example replace_node_ts_retags :
  option_map (fun n => (meta_var (nmeta n), meta_lag (nmeta n)))
    (get_node (snd (replace_node Names.parse Names.fmt TS ex_state ex_X None None None None
                      (Some []))) ex_X)
  = Some (Some ex_X, Some 0%Z).
Proof. vm_compute. reflexivity. Qed.
