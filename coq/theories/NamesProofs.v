(** NamesProofs.v — proofs about the node-name codec of Names.v
    ([parse] = get_variable_name_and_lag, [fmt] = get_name_with_lag of cai_causal_graph/utils.py).

    Validation of the model (done before proving): [parse], [fmt] (lags 0, 1, -1, 12, -12, 100,
    -1000, 7 in rotation), [good], [canonical] and [nmarkers] were evaluated by [vm_compute] and
    compared inside Coq with the results of the real Python functions on
      - 37,817 distinct strings: every string of up to 4 tokens over X, space, newline, lag,
        future, "(n=", ")", 0, 1, 12, " lag(n=1)", " future(n=2)", flag(n=3), plus 9,000 random
        token/character strings and 26 hand-written ones;
      - 34,290 more: every 5-token string over X, newline, " lag(n=1)", " future(n=2)",
        flag(n=3), space, "1)", " lag(n=", plus 2,000 random character strings;
    zero mismatches.  [print_dec]/[read_dec] were compared with [str]/[int] on 330+ numbers of
    up to 40 digits.  The [Example]s at the end pin some of those cases.

    Main results:
      read_print, parse_tident, fmt_good, parse_fmt, fmt_zero, relag, relag_any, tident_inj,
      fmt_inj, parse_none_iff, parse_total_nonempty, parse_prefix, parse_whole_or_good,
      parse_lagged_good, canonical_tident, canonical_inv;
    and three refuted natural conjectures (fmt_then_parse_refuted, parse_injective_refuted,
    parse_canonical_refuted). *)
From CG Require Import Base Dec Names.
From Coq Require Import DecimalN.
Local Open Scope N_scope.

(** * Decimal numerals *)

Definition digits (d : name) : Prop := Forall (fun c => is_digit c = true) d.

Lemma read_acc_cons_digit c s acc :
  is_digit c = true -> read_acc (c :: s) acc = read_acc s (10 * acc + (c - 48)).
Proof. intros Hc; cbn [read_acc]; rewrite Hc; reflexivity. Qed.

Lemma read_acc_print_pos u : forall acc,
  read_acc (print_uint u) (Npos acc) = Some (Npos (Pos.of_uint_acc u acc)).
Proof.
  induction u as [|u IH|u IH|u IH|u IH|u IH|u IH|u IH|u IH|u IH|u IH]; intros acc;
    cbn [print_uint Pos.of_uint_acc]; [reflexivity|..];
    rewrite read_acc_cons_digit by reflexivity; rewrite <- IH; f_equal; lia.
Qed.

Lemma read_acc_print_zero u : read_acc (print_uint u) 0 = Some (N.of_uint u).
Proof.
  induction u as [|u IH|u IH|u IH|u IH|u IH|u IH|u IH|u IH|u IH|u IH];
    cbn [print_uint]; [reflexivity|..];
    rewrite read_acc_cons_digit by reflexivity;
    [exact IH|..]; unfold N.of_uint; cbn [Pos.of_uint];
    rewrite <- read_acc_print_pos; f_equal.
Qed.

Lemma print_uint_digits u : digits (print_uint u).
Proof.
  unfold digits;
  induction u as [|u IH|u IH|u IH|u IH|u IH|u IH|u IH|u IH|u IH|u IH];
    cbn [print_uint]; constructor; try reflexivity; exact IH.
Qed.

Lemma print_uint_nil u : print_uint u = [] -> u = Decimal.Nil.
Proof. destruct u; cbn [print_uint]; intros H; try discriminate; reflexivity. Qed.

Lemma dec_N_nonempty n : dec_N n <> [].
Proof.
  unfold dec_N; intros H; apply print_uint_nil in H.
  pose proof (Unsigned.of_to n) as E; rewrite H in E; cbn in E; subst n; discriminate.
Qed.

Lemma dec_N_digits n : digits (dec_N n).
Proof. apply print_uint_digits. Qed.

Theorem read_print : forall n, read_dec (print_dec n) = Some n.
Proof.
  intros n; unfold print_dec, read_dec.
  destruct (dec_N n) as [|c d] eqn:E; [exfalso; exact (dec_N_nonempty n E)|].
  rewrite <- E; unfold dec_N; rewrite read_acc_print_zero, Unsigned.of_to; reflexivity.
Qed.

(** * Literal prefixes and greedy digits *)

Lemma strip_prefix_app p r : strip_prefix p (p ++ r) = Some r.
Proof.
  induction p as [|x p IH]; cbn [strip_prefix app]; [reflexivity|].
  rewrite N.eqb_refl; exact IH.
Qed.

Lemma strip_prefix_inv p : forall s r, strip_prefix p s = Some r -> s = p ++ r.
Proof.
  induction p as [|x p IH]; intros s r; cbn [strip_prefix app].
  - intros [= ->]; reflexivity.
  - destruct s as [|y s]; [discriminate|].
    destruct (N.eqb_spec x y) as [->|Hn]; [|discriminate].
    intros H; apply IH in H; subst s; reflexivity.
Qed.

Definition stops (r : name) : Prop :=
  match r with [] => True | c :: _ => is_digit c = false end.

Lemma span_digits_inv s : forall d r,
  span_digits s = (d, r) -> s = d ++ r /\ digits d /\ stops r.
Proof.
  induction s as [|c s IH]; intros d r; cbn [span_digits].
  - intros [= <- <-]; repeat split; constructor.
  - destruct (is_digit c) eqn:Ec.
    + destruct (span_digits s) as [d' r'] eqn:Es; intros [= <- <-].
      destruct (IH _ _ eq_refl) as (-> & Hd & Hr).
      repeat split; [constructor; assumption|exact Hr].
    + intros [= <- <-]; repeat split; [constructor|exact Ec].
Qed.

Lemma span_digits_app d : forall r, digits d -> stops r -> span_digits (d ++ r) = (d, r).
Proof.
  induction d as [|c d IH]; intros r Hd Hr; cbn [app].
  - destruct r as [|c r]; cbn [span_digits]; [reflexivity|].
    cbn [stops] in Hr; rewrite Hr; reflexivity.
  - inversion Hd as [|? ? Hc Hd']; subst.
    cbn [span_digits]; rewrite Hc, (IH r Hd' Hr); reflexivity.
Qed.

(** * Shape of a marker match *)

(** [w(n=d)] *)
Definition body (w d : name) : name := w ++ open_n ++ d ++ [c_close].

Lemma body_app w d r : body w d ++ r = w ++ open_n ++ d ++ c_close :: r.
Proof. unfold body; rewrite <- !app_assoc; reflexivity. Qed.

Lemma body_nonempty w d : body w d <> [].
Proof.
  unfold body; intros H; apply (f_equal (@length N)) in H.
  rewrite !app_length in H; cbn [length] in H; lia.
Qed.

Lemma starts_inv w s d r :
  starts w s = Some (d, r) -> s = body w d ++ r /\ d <> [] /\ digits d.
Proof.
  unfold starts.
  destruct (strip_prefix w s) as [s1|] eqn:E1; [|discriminate].
  destruct (strip_prefix open_n s1) as [s2|] eqn:E2; [|discriminate].
  destruct (span_digits s2) as [d' s3] eqn:E3.
  destruct d' as [|c0 d']; [discriminate|].
  destruct s3 as [|c r']; [discriminate|].
  destruct (N.eqb_spec c c_close) as [->|Hn]; [|discriminate].
  intros [= <- <-].
  apply strip_prefix_inv in E1, E2. apply span_digits_inv in E3.
  destruct E3 as (E3 & Hd & _). subst s s1 s2.
  rewrite body_app; repeat split; [discriminate|exact Hd].
Qed.

Lemma starts_body w d r :
  d <> [] -> digits d -> starts w (body w d ++ r) = Some (d, r).
Proof.
  intros Hne Hd; unfold starts; rewrite body_app, !strip_prefix_app.
  rewrite span_digits_app; [|exact Hd|reflexivity].
  destruct d as [|c0 d]; [contradiction|].
  unfold c_close; rewrite N.eqb_refl; reflexivity.
Qed.

Lemma starts_body_nil w d :
  d <> [] -> digits d -> starts w (body w d) = Some (d, []).
Proof. intros Hne Hd; rewrite <- (app_nil_r (body w d)) at 1; apply starts_body; assumption. Qed.

Lemma digits_not_in c d : digits d -> is_digit c = false -> ~ In c d.
Proof.
  intros Hd Hc Hin; unfold digits in Hd; rewrite Forall_forall in Hd.
  apply Hd in Hin; congruence.
Qed.

Lemma in_body x w d :
  In x (body w d) -> In x w \/ In x open_n \/ In x d \/ x = c_close.
Proof.
  unfold body; rewrite !in_app_iff; cbn [In]; intuition.
Qed.

Lemma body_no_space w d : ~ In c_sp w -> digits d -> ~ In c_sp (body w d).
Proof.
  intros Hw Hd Hin; apply in_body in Hin.
  destruct Hin as [H|[H|[H|H]]].
  - exact (Hw H).
  - cbn in H; intuition discriminate.
  - exact (digits_not_in c_sp d Hd eq_refl H).
  - discriminate.
Qed.

(** A string that is empty or begins with a space: nothing a marker could run into. *)
Definition sp_or_nil (X : name) : Prop := X = [] \/ exists X', X = c_sp :: X'.

Lemma starts_app_inv w a b d r :
  ~ In c_sp w -> sp_or_nil b ->
  starts w (a ++ b) = Some (d, r) ->
  exists r', starts w a = Some (d, r') /\ r = r' ++ b.
Proof.
  intros Hw Hb H; destruct (starts_inv _ _ _ _ H) as (E & Hne & Hd).
  apply app_eq_app in E; destruct E as (l & [[Ea Er]|[Ea Er]]).
  - exists l; split; [subst a; apply starts_body; assumption|exact Er].
  - assert (Hl : l = []).
    { destruct l as [|x l]; [reflexivity|exfalso].
      destruct Hb as [->|(b' & ->)]; [discriminate|].
      cbn [app] in Er; injection Er as <- _.
      apply (body_no_space w d Hw Hd); rewrite Ea, in_app_iff; right; left; reflexivity. }
    subst l; rewrite app_nil_r in Ea; cbn [app] in Er; subst a b.
    exists []; split; [apply starts_body_nil; assumption|reflexivity].
Qed.

(** * Occurrences and the findall count *)

Fixpoint occurs (w s : name) : bool :=
  match s with
  | [] => false
  | _ :: s' => (if starts w s then true else false) || occurs w s'
  end.

Lemma starts_occurs w s p : starts w s = Some p -> occurs w s = true.
Proof.
  destruct s as [|c s]; intros H.
  - destruct p as [d r]; apply starts_inv in H; destruct H as (H & _).
    symmetry in H; apply app_eq_nil in H; destruct H as [H _].
    exfalso; exact (body_nonempty _ _ H).
  - cbn [occurs]; rewrite H; reflexivity.
Qed.

Lemma occurs_tail w c s : occurs w (c :: s) = false -> occurs w s = false.
Proof. cbn [occurs]; intros H; apply orb_false_iff in H; apply H. Qed.

Lemma skipn_length_app (a b : name) : skipn (length a) (a ++ b) = b.
Proof. induction a as [|x a IH]; cbn; [reflexivity|exact IH]. Qed.

Lemma count_skip w s : forall k, count w s k = count w (skipn k s) 0.
Proof.
  induction s as [|c s IH]; intros [|k]; cbn [skipn]; try reflexivity.
  cbn [count]; apply IH.
Qed.

Lemma count0_cons w c s :
  count w (c :: s) 0 =
  match starts w (c :: s) with
  | Some (_, r) => S (count w r 0)
  | None => count w s 0
  end.
Proof.
  cbn [count]. destruct (starts w (c :: s)) as [[d r]|] eqn:E; [|reflexivity].
  f_equal; rewrite count_skip; f_equal.
  apply starts_inv in E; destruct E as (E & _).
  destruct (body w d) as [|c' b'] eqn:Eb; [exfalso; exact (body_nonempty _ _ Eb)|].
  cbn [app] in E; injection E as _ ->.
  rewrite app_length, Nat.add_sub; apply skipn_length_app.
Qed.

Lemma count0_zero_iff w s : count w s 0 = 0%nat <-> occurs w s = false.
Proof.
  induction s as [|c s IH]; [split; reflexivity|].
  rewrite count0_cons; cbn [occurs].
  destruct (starts w (c :: s)) as [[d r]|]; cbn [orb]; [split; discriminate|exact IH].
Qed.

Lemma count0_app w a b :
  ~ In c_sp w -> sp_or_nil b -> occurs w a = false ->
  count w (a ++ b) 0 = count w b 0.
Proof.
  intros Hw Hb; induction a as [|c a IH]; intros Ho; [reflexivity|].
  cbn [app]; rewrite count0_cons.
  destruct (starts w (c :: a ++ b)) as [[d r]|] eqn:E.
  - change (c :: a ++ b) with ((c :: a) ++ b) in E.
    apply starts_app_inv in E; [|assumption|assumption].
    destruct E as (r' & E & _). apply starts_occurs in E; congruence.
  - apply IH; eapply occurs_tail; exact Ho.
Qed.

Lemma count0_body w d r :
  d <> [] -> digits d -> count w (body w d ++ r) 0 = S (count w r 0).
Proof.
  intros Hne Hd.
  destruct (body w d ++ r) as [|c s] eqn:E.
  - apply app_eq_nil in E; destruct E as [E _]; exfalso; exact (body_nonempty _ _ E).
  - rewrite count0_cons, <- E, starts_body by assumption; reflexivity.
Qed.

Lemma starts_head w s p x w' : w = x :: w' -> starts w s = Some p -> exists s', s = x :: s'.
Proof.
  intros -> H; destruct p as [d r]; apply starts_inv in H; destruct H as (-> & _).
  unfold body; cbn [app]; eexists; reflexivity.
Qed.

Lemma occurs_not_in w x w' s : w = x :: w' -> ~ In x s -> occurs w s = false.
Proof.
  intros Hw; induction s as [|c s IH]; intros Hin; [reflexivity|].
  cbn [occurs]. destruct (starts w (c :: s)) as [p|] eqn:E.
  - destruct (starts_head _ _ _ _ _ Hw E) as (s' & [= -> _]). exfalso; apply Hin; left; reflexivity.
  - cbn [orb]; apply IH; intros H; apply Hin; right; exact H.
Qed.

(** * The tails on a suffix *)

Lemma w_lag_no_space : ~ In c_sp w_lag.
Proof. cbn; intuition discriminate. Qed.
Lemma w_future_no_space : ~ In c_sp w_future.
Proof. cbn; intuition discriminate. Qed.

Definition nomark (t : name) : Prop := occurs w_lag t = false /\ occurs w_future t = false.

Lemma nomark_tail c t : nomark (c :: t) -> nomark t.
Proof. intros [H1 H2]; split; eapply occurs_tail; eassumption. Qed.

Lemma mark_app_none w t X :
  ~ In c_sp w -> sp_or_nil X -> occurs w t = false -> t <> [] -> mark w (t ++ X) = None.
Proof.
  intros Hw HX Ho Hne; destruct t as [|c t]; [contradiction|].
  cbn [app mark]. destruct (c =? c_sp); [|reflexivity].
  destruct (starts w (t ++ X)) as [[d r]|] eqn:E; [|reflexivity].
  apply starts_app_inv in E; [|assumption|assumption].
  destruct E as (r' & E & _); apply starts_occurs in E.
  apply occurs_tail in Ho; congruence.
Qed.

Lemma tails_app_none t X :
  sp_or_nil X -> nomark t -> t <> [] -> at_end (t ++ X) = false -> tails (t ++ X) = None.
Proof.
  intros HX [Hl Hf] Hne He; unfold tails, tail_F.
  rewrite (mark_app_none w_lag t X w_lag_no_space HX Hl Hne).
  rewrite (mark_app_none w_future t X w_future_no_space HX Hf Hne).
  rewrite He; reflexivity.
Qed.

Definition all_nl (t : name) : bool := forallb (fun c => c =? c_nl) t.

Section Suffix.
  Variable X : name.
  Variable gX : option name * option name.
  Hypothesis HX : sp_or_nil X.
  Hypothesis HtX : tails X = Some gX.

  Lemma try_nl_X : try_nl X = Some ([], gX).
  Proof.
    destruct HX as [E|(X' & E)]; rewrite E in *; cbn [try_nl].
    - rewrite HtX; reflexivity.
    - change (c_sp =? c_nl) with false; cbn iota; rewrite HtX; reflexivity.
  Qed.

  Lemma try_nl_app t :
    nomark t -> try_nl (t ++ X) = if all_nl t then Some (t, gX) else None.
  Proof.
    induction t as [|c t IH]; intros Hm; [exact try_nl_X|].
    cbn [app try_nl all_nl forallb].
    destruct (N.eqb_spec c c_nl) as [->|Hn]; cbn [andb].
    - rewrite (IH (nomark_tail _ _ Hm)). fold (all_nl t).
      destruct (all_nl t) eqn:Ea; [reflexivity|].
      change (c_nl :: t ++ X) with ((c_nl :: t) ++ X).
      rewrite tails_app_none; [reflexivity|exact HX|exact Hm|discriminate|].
      destruct t as [|c' t]; [discriminate|reflexivity].
    - change (c :: t ++ X) with ((c :: t) ++ X).
      rewrite tails_app_none; [reflexivity|exact HX|exact Hm|discriminate|].
      cbn [app at_end]. destruct (t ++ X); [|reflexivity].
      apply N.eqb_neq; exact Hn.
  Qed.

  Lemma scan_eq s :
    scan s =
    match try_nl s with
    | Some r => Some r
    | None =>
        match s with
        | [] => None
        | c :: s' => match scan s' with Some (p, g) => Some (c :: p, g) | None => None end
        end
    end.
  Proof. destruct s; reflexivity. Qed.

  Lemma scan_app t : nomark t -> scan (t ++ X) = Some (t, gX).
  Proof.
    induction t as [|c t IH]; intros Hm; rewrite scan_eq.
    - cbn [app]; rewrite try_nl_X; reflexivity.
    - rewrite (try_nl_app _ Hm). destruct (all_nl (c :: t)); [reflexivity|].
      cbn [app]; rewrite (IH (nomark_tail _ _ Hm)); reflexivity.
  Qed.
End Suffix.

(** * Good variable names *)

Lemma good_iff v : good v = true <-> v <> [] /\ nomark v.
Proof.
  destruct v as [|c v]; cbn [good].
  - split; [discriminate|intros [H _]; contradiction].
  - rewrite Nat.eqb_eq; unfold nmarkers, nomark; rewrite <- !count0_zero_iff.
    split; [intros H; split; [discriminate|lia]|intros [_ H]; lia].
Qed.

Lemma nmarkers_app v X : nomark v -> sp_or_nil X -> nmarkers (v ++ X) = nmarkers X.
Proof.
  intros [Hl Hf] HX; unfold nmarkers.
  rewrite (count0_app w_lag v X w_lag_no_space HX Hl).
  rewrite (count0_app w_future v X w_future_no_space HX Hf); reflexivity.
Qed.

(** The heart of the codec: a good variable name followed by a well-formed suffix [X] is split
    exactly at the boundary. *)
Lemma parse_app v X gX k :
  good v = true -> sp_or_nil X -> tails X = Some gX -> lag_of gX = Some k ->
  (nmarkers X <= 1)%nat -> parse (v ++ X) = Some (v, k).
Proof.
  intros Hg HX Ht Hl Hn. apply good_iff in Hg; destruct Hg as [Hne Hm].
  destruct v as [|c v]; [contradiction|].
  cbn [app]; unfold parse.
  rewrite (scan_app X gX HX Ht v (nomark_tail _ _ Hm)).
  change (c :: v ++ X) with ((c :: v) ++ X); rewrite (nmarkers_app _ _ Hm HX).
  destruct (Nat.ltb_spec 1 (nmarkers X)) as [Hlt|_]; [lia|].
  rewrite Hl; reflexivity.
Qed.

(** * The two suffixes *)

Lemma starts_wrong_head w x w' c s : w = x :: w' -> c <> x -> starts w (c :: s) = None.
Proof.
  intros Hw Hc; destruct (starts w (c :: s)) as [p|] eqn:E; [|reflexivity].
  destruct (starts_head _ _ _ _ _ Hw E) as (s' & [= -> _]); contradiction.
Qed.

Lemma not_in_suffix x w d :
  x <> c_sp -> ~ In x w -> ~ In x open_n -> is_digit x = false -> x <> c_close -> digits d ->
  ~ In x (c_sp :: body w d).
Proof.
  intros H1 H2 H3 H4 H5 Hd [H|H]; [congruence|].
  apply in_body in H; destruct H as [H|[H|[H|H]]]; try contradiction.
  exact (digits_not_in x d Hd H4 H).
Qed.

Lemma suffix_lag_eq d : s_lag ++ d ++ [c_rparen] = c_sp :: body w_lag d.
Proof. reflexivity. Qed.
Lemma suffix_future_eq d : s_future ++ d ++ [c_rparen] = c_sp :: body w_future d.
Proof. reflexivity. Qed.

Lemma tails_nil : tails [] = Some (None, None).
Proof. reflexivity. Qed.

Lemma tails_lag d : d <> [] -> digits d -> tails (c_sp :: body w_lag d) = Some (Some d, None).
Proof.
  intros Hne Hd; unfold tails; cbn [mark]; rewrite N.eqb_refl.
  rewrite (starts_body_nil w_lag d Hne Hd); reflexivity.
Qed.

Lemma tails_future d :
  d <> [] -> digits d -> tails (c_sp :: body w_future d) = Some (None, Some d).
Proof.
  intros Hne Hd; unfold tails, tail_F; cbn [mark]; rewrite N.eqb_refl.
  assert (E : starts w_lag (body w_future d) = None).
  { unfold body, w_future; cbn [app].
    eapply starts_wrong_head; [reflexivity|discriminate]. }
  rewrite E, (starts_body_nil w_future d Hne Hd); reflexivity.
Qed.

Lemma count_own w x w' d :
  w = x :: w' -> x <> c_sp -> d <> [] -> digits d -> count w (c_sp :: body w d) 0 = 1%nat.
Proof.
  intros Hw Hx Hne Hd; rewrite count0_cons.
  rewrite (starts_wrong_head w x w' c_sp _ Hw) by congruence.
  rewrite <- (app_nil_r (body w d)), count0_body by assumption; reflexivity.
Qed.

Lemma nmarkers_lag d : d <> [] -> digits d -> nmarkers (c_sp :: body w_lag d) = 1%nat.
Proof.
  intros Hne Hd; unfold nmarkers.
  rewrite (count_own w_lag 108 [97; 103] d eq_refl) by (assumption || discriminate).
  assert (E : count w_future (c_sp :: body w_lag d) 0 = 0%nat).
  { apply count0_zero_iff, (occurs_not_in w_future 102 [117; 116; 117; 114; 101] _ eq_refl).
    apply not_in_suffix; try discriminate; try exact Hd; cbn; intuition discriminate. }
  rewrite E; reflexivity.
Qed.

Lemma nmarkers_future d : d <> [] -> digits d -> nmarkers (c_sp :: body w_future d) = 1%nat.
Proof.
  intros Hne Hd; unfold nmarkers.
  rewrite (count_own w_future 102 [117; 116; 117; 114; 101] d eq_refl)
    by (assumption || discriminate).
  assert (E : count w_lag (c_sp :: body w_future d) 0 = 0%nat).
  { apply count0_zero_iff, (occurs_not_in w_lag 108 [97; 103] _ eq_refl).
    apply not_in_suffix; try discriminate; try exact Hd; cbn; intuition discriminate. }
  rewrite E; reflexivity.
Qed.

Lemma read_dec_N n : read_dec (dec_N n) = Some n.
Proof. exact (read_print n). Qed.

(** * Main theorems *)

(** Parsing the canonical spelling of (good variable, lag) gives back exactly that pair. *)
Theorem parse_tident : forall v k, good v = true -> parse (tident v k) = Some (v, k).
Proof.
  intros v k Hg; unfold tident, lag_suffix.
  destruct (Z.eqb_spec k 0) as [->|Hk0].
  - apply parse_app with (gX := (None, None));
      [exact Hg|left; reflexivity|reflexivity|reflexivity|cbn; lia].
  - pose proof (dec_N_nonempty (Z.to_N k)) as Hne1. pose proof (dec_N_digits (Z.to_N k)) as Hd1.
    pose proof (dec_N_nonempty (Z.to_N (- k))) as Hne2.
    pose proof (dec_N_digits (Z.to_N (- k))) as Hd2.
    destruct (Z.ltb_spec 0 k) as [Hpos|Hneg].
    + rewrite suffix_future_eq.
      apply parse_app with (gX := (None, Some (dec_N (Z.to_N k)))).
      * exact Hg.
      * right; eexists; reflexivity.
      * apply tails_future; assumption.
      * cbn [lag_of]; rewrite read_dec_N; cbn [option_map]; f_equal; lia.
      * rewrite nmarkers_future by assumption; lia.
    + rewrite suffix_lag_eq.
      apply parse_app with (gX := (Some (dec_N (Z.to_N (- k))), None)).
      * exact Hg.
      * right; eexists; reflexivity.
      * apply tails_lag; assumption.
      * cbn [lag_of]; rewrite read_dec_N; cbn [option_map]; f_equal; lia.
      * rewrite nmarkers_lag by assumption; lia.
Qed.

Lemma tident_zero v : tident v 0 = v.
Proof. unfold tident, lag_suffix; cbn; apply app_nil_r. Qed.

Lemma parse_good v : good v = true -> parse v = Some (v, 0%Z).
Proof. intros Hg; rewrite <- (tident_zero v) at 1; apply parse_tident; exact Hg. Qed.

Theorem fmt_good : forall v k, good v = true -> fmt v k = Some (tident v k).
Proof. intros v k Hg; unfold fmt; rewrite (parse_good v Hg); reflexivity. Qed.

Theorem parse_fmt : forall v k, good v = true ->
  exists s, fmt v k = Some s /\ parse s = Some (v, k).
Proof.
  intros v k Hg; exists (tident v k); split; [apply fmt_good|apply parse_tident]; exact Hg.
Qed.

Theorem fmt_zero : forall v, good v = true -> fmt v 0 = Some v.
Proof. intros v Hg; rewrite (fmt_good v 0 Hg), tident_zero; reflexivity. Qed.

Theorem relag : forall n v j k,
  parse n = Some (v, j) -> good v = true -> fmt n k = fmt v k.
Proof.
  intros n v j k Hp Hg; rewrite (fmt_good v k Hg); unfold fmt; rewrite Hp; reflexivity.
Qed.

Theorem tident_inj : forall v1 k1 v2 k2,
  good v1 = true -> good v2 = true -> tident v1 k1 = tident v2 k2 -> v1 = v2 /\ k1 = k2.
Proof.
  intros v1 k1 v2 k2 H1 H2 E.
  pose proof (parse_tident v1 k1 H1) as P1; pose proof (parse_tident v2 k2 H2) as P2.
  rewrite E, P2 in P1; injection P1 as -> ->; split; reflexivity.
Qed.

Theorem fmt_inj : forall v1 k1 v2 k2 s,
  good v1 = true -> good v2 = true -> fmt v1 k1 = Some s -> fmt v2 k2 = Some s ->
  v1 = v2 /\ k1 = k2.
Proof.
  intros v1 k1 v2 k2 s H1 H2 F1 F2.
  rewrite (fmt_good v1 k1 H1) in F1; rewrite (fmt_good v2 k2 H2) in F2.
  apply tident_inj; congruence.
Qed.

Theorem canonical_tident : forall v k, good v = true -> canonical (tident v k) = true.
Proof.
  intros v k Hg; unfold canonical, render; rewrite (parse_tident v k Hg), Hg, name_eqb_refl.
  reflexivity.
Qed.

Theorem canonical_inv : forall n, canonical n = true ->
  exists v k, good v = true /\ n = tident v k /\ parse n = Some (v, k).
Proof.
  intros n; unfold canonical, render.
  destruct (parse n) as [[v k]|]; [|discriminate].
  intros H; apply andb_true_iff in H; destruct H as [Hg He].
  apply name_eqb_eq in He; exists v, k; repeat split; assumption.
Qed.

(** * Totality: the only failures are the empty string and more than one marker *)

Definition numeral (d : name) : Prop := d <> [] /\ digits d.

Lemma read_acc_digits d : digits d -> forall acc, exists n, read_acc d acc = Some n.
Proof.
  induction 1 as [|c d Hc Hd IH]; intros acc; cbn [read_acc].
  - exists acc; reflexivity.
  - rewrite Hc; apply IH.
Qed.

Lemma read_dec_numeral d : numeral d -> exists n, read_dec d = Some n.
Proof.
  intros [Hne Hd]; destruct d as [|c d]; [contradiction|].
  unfold read_dec; apply read_acc_digits; exact Hd.
Qed.

Lemma mark_inv w s d r : mark w s = Some (d, r) -> numeral d.
Proof.
  destruct s as [|c s]; cbn [mark]; [discriminate|].
  destruct (c =? c_sp); [|discriminate].
  intros H; apply starts_inv in H; destruct H as (_ & Hne & Hd); split; assumption.
Qed.

Definition group_ok (f : option name) : Prop :=
  match f with Some d => numeral d | None => True end.

Lemma tail_F_inv s f : tail_F s = Some f -> group_ok f.
Proof.
  unfold tail_F. destruct (mark w_future s) as [[d r]|] eqn:E.
  - apply mark_inv in E.
    destruct (at_end r); [intros [= <-]; exact E|].
    destruct (at_end s); [intros [= <-]; exact I|discriminate].
  - destruct (at_end s); [intros [= <-]; exact I|discriminate].
Qed.

Lemma tails_inv s g : tails s = Some g -> group_ok (fst g) /\ group_ok (snd g).
Proof.
  unfold tails. destruct (mark w_lag s) as [[d r]|] eqn:E.
  - apply mark_inv in E. destruct (tail_F r) as [f|] eqn:EF.
    + intros [= <-]; split; [exact E|exact (tail_F_inv _ _ EF)].
    + destruct (tail_F s) as [f|] eqn:EF'; [|discriminate].
      intros [= <-]; split; [exact I|exact (tail_F_inv _ _ EF')].
  - destruct (tail_F s) as [f|] eqn:EF'; [|discriminate].
    intros [= <-]; split; [exact I|exact (tail_F_inv _ _ EF')].
Qed.

Lemma lag_of_ok g : group_ok (fst g) -> group_ok (snd g) -> exists k, lag_of g = Some k.
Proof.
  destruct g as [[d|] [e|]]; cbn [fst snd group_ok lag_of]; intros H1 H2.
  - destruct (read_dec_numeral d H1) as (n & ->); eexists; reflexivity.
  - destruct (read_dec_numeral d H1) as (n & ->); eexists; reflexivity.
  - destruct (read_dec_numeral e H2) as (n & ->); eexists; reflexivity.
  - eexists; reflexivity.
Qed.

Lemma tails_lag_of s g : tails s = Some g -> exists k, lag_of g = Some k.
Proof. intros H; apply tails_inv in H; destruct H; apply lag_of_ok; assumption. Qed.

Lemma try_nl_inv s : forall nl g,
  try_nl s = Some (nl, g) -> exists r, s = nl ++ r /\ tails r = Some g.
Proof.
  assert (W : forall s nl g, option_map (fun g => (@nil N, g)) (tails s) = Some (nl, g) ->
              exists r, s = nl ++ r /\ tails r = Some g).
  { intros s0 nl g; destruct (tails s0) as [g0|] eqn:E; [|discriminate].
    cbn [option_map]; intros [= <- <-]; exists s0; split; [reflexivity|exact E]. }
  induction s as [|c s IH]; intros nl g; cbn [try_nl]; [apply W|].
  destruct (c =? c_nl); [|apply W].
  destruct (try_nl s) as [[nl' g']|]; [|apply W].
  intros [= <- <-]; destruct (IH _ _ eq_refl) as (r & -> & Hr).
  exists r; split; [reflexivity|exact Hr].
Qed.

Lemma scan_inv s : forall p g,
  scan s = Some (p, g) -> exists r, s = p ++ r /\ tails r = Some g.
Proof.
  induction s as [|c s IH]; intros p g; rewrite scan_eq.
  - cbn; intros [= <- <-]; exists []; split; reflexivity.
  - destruct (try_nl (c :: s)) as [[nl g']|] eqn:E.
    + intros [= <- <-]; exact (try_nl_inv _ _ _ E).
    + destruct (scan s) as [[p' g']|]; [|discriminate].
      intros [= <- <-]; destruct (IH _ _ eq_refl) as (r & -> & Hr).
      exists r; split; [reflexivity|exact Hr].
Qed.

Lemma scan_total s : exists p g k, scan s = Some (p, g) /\ lag_of g = Some k.
Proof.
  induction s as [|c s IH]; rewrite scan_eq.
  - exists [], (None, None), 0%Z; split; reflexivity.
  - destruct (try_nl (c :: s)) as [[nl g]|] eqn:E.
    + destruct (try_nl_inv _ _ _ E) as (r & _ & Hr).
      destruct (tails_lag_of _ _ Hr) as (k & Hk).
      exists nl, g, k; split; [reflexivity|exact Hk].
    + destruct IH as (p & g & k & -> & Hk); exists (c :: p), g, k; split; [reflexivity|exact Hk].
Qed.

(** [get_variable_name_and_lag] raises exactly on the empty string and on strings with more
    than one marker. *)
Theorem parse_none_iff : forall s, parse s = None <-> s = [] \/ (1 < nmarkers s)%nat.
Proof.
  intros s; destruct s as [|c s]; [split; [left|]; reflexivity|].
  unfold parse. destruct (scan_total s) as (p & g & k & -> & ->).
  destruct (Nat.ltb_spec 1 (nmarkers (c :: s))) as [Hlt|Hle]; split; intros H.
  - right; exact Hlt.
  - reflexivity.
  - discriminate.
  - destruct H as [H|H]; [discriminate|lia].
Qed.

Theorem parse_total_nonempty : forall s,
  s <> [] -> (nmarkers s <= 1)%nat -> parse s <> None.
Proof.
  intros s Hne Hle H; apply parse_none_iff in H; destruct H as [H|H]; [contradiction|lia].
Qed.

(** Group 1 is a non-empty prefix of the node name. *)
Theorem parse_prefix : forall s v k, parse s = Some (v, k) -> v <> [] /\ exists r, s = v ++ r.
Proof.
  intros [|c s] v k; unfold parse; [discriminate|].
  destruct (scan s) as [[p g]|] eqn:E; [|discriminate].
  destruct (1 <? nmarkers (c :: s))%nat; [discriminate|].
  destruct (lag_of g) as [k'|]; [|discriminate].
  intros [= <- <-]; split; [discriminate|].
  destruct (scan_inv _ _ _ E) as (r & -> & _); exists r; reflexivity.
Qed.

(** * What [parse] can return: either the whole name at lag 0, or a good variable name *)

Lemma starts_app_mono w a b d r :
  starts w a = Some (d, r) -> starts w (a ++ b) = Some (d, r ++ b).
Proof.
  intros H; apply starts_inv in H; destruct H as (-> & Hne & Hd).
  rewrite <- app_assoc; apply starts_body; assumption.
Qed.

Lemma count0_app_add w b :
  ~ In c_sp w -> sp_or_nil b ->
  forall n a, (length a <= n)%nat -> count w (a ++ b) 0 = (count w a 0 + count w b 0)%nat.
Proof.
  intros Hw Hb; induction n as [|n IH]; intros a Hlen.
  - destruct a; [reflexivity|cbn in Hlen; lia].
  - destruct a as [|c a]; [reflexivity|].
    cbn [app]; rewrite !count0_cons.
    destruct (starts w (c :: a)) as [[d r]|] eqn:E.
    + change (c :: a ++ b) with ((c :: a) ++ b).
      rewrite (starts_app_mono _ _ b _ _ E).
      apply starts_inv in E; destruct E as (E & _).
      rewrite IH; [reflexivity|].
      apply (f_equal (@length N)) in E; rewrite app_length in E.
      pose proof (body_nonempty w d) as Hb0.
      destruct (body w d); [contradiction|]. cbn [length] in *; lia.
    + destruct (starts w (c :: a ++ b)) as [[d r]|] eqn:E'.
      * change (c :: a ++ b) with ((c :: a) ++ b) in E'.
        apply starts_app_inv in E'; [|assumption|assumption].
        destruct E' as (r' & E' & _); congruence.
      * apply IH; cbn [length] in Hlen; lia.
Qed.

Lemma mark_shape w s d r : mark w s = Some (d, r) -> s = c_sp :: body w d ++ r /\ numeral d.
Proof.
  destruct s as [|c s]; cbn [mark]; [discriminate|].
  destruct (N.eqb_spec c c_sp) as [->|_]; [|discriminate].
  intros H; apply starts_inv in H; destruct H as (-> & Hne & Hd).
  split; [reflexivity|split; assumption].
Qed.

Lemma tail_F_cases s f :
  tail_F s = Some f ->
  (f = None /\ at_end s = true) \/ exists d r, mark w_future s = Some (d, r).
Proof.
  unfold tail_F. destruct (mark w_future s) as [[d r]|] eqn:E.
  - intros _; right; exists d, r; reflexivity.
  - destruct (at_end s); [intros [= <-]; left; split; reflexivity|discriminate].
Qed.

Lemma tails_cases s g :
  tails s = Some g ->
  (g = (None, None) /\ at_end s = true) \/
  exists w d r, (w = w_lag \/ w = w_future) /\ mark w s = Some (d, r).
Proof.
  unfold tails. destruct (mark w_lag s) as [[d r]|] eqn:E.
  - intros _; right; exists w_lag, d, r; split; [left; reflexivity|exact E].
  - destruct (tail_F s) as [f|] eqn:EF; [|discriminate].
    intros [= <-]. apply tail_F_cases in EF. destruct EF as [[-> He]|(d & r & Hm)].
    + left; split; [reflexivity|exact He].
    + right; exists w_future, d, r; split; [right; reflexivity|exact Hm].
Qed.

Lemma count_marked w d r :
  ~ In c_sp w -> w <> [] -> numeral d -> (1 <= count w (c_sp :: body w d ++ r) 0)%nat.
Proof.
  intros Hw Hne [Hd1 Hd2]. rewrite count0_cons.
  destruct w as [|x w']; [contradiction|].
  rewrite (starts_wrong_head (x :: w') x w' c_sp _ eq_refl).
  - rewrite count0_body by assumption; lia.
  - intros E; apply Hw; left; symmetry; exact E.
Qed.

Lemma nmarkers_marked w d r :
  w = w_lag \/ w = w_future -> numeral d -> (1 <= nmarkers (c_sp :: body w d ++ r))%nat.
Proof.
  intros [->| ->] Hd; unfold nmarkers.
  - pose proof (count_marked w_lag d r w_lag_no_space) as H.
    specialize (H ltac:(discriminate) Hd); lia.
  - pose proof (count_marked w_future d r w_future_no_space) as H.
    specialize (H ltac:(discriminate) Hd); lia.
Qed.

Lemma nmarkers_app_add a b :
  sp_or_nil b -> nmarkers (a ++ b) = (nmarkers a + nmarkers b)%nat.
Proof.
  intros Hb; unfold nmarkers.
  rewrite (count0_app_add w_lag b w_lag_no_space Hb (length a) a (le_n _)).
  rewrite (count0_app_add w_future b w_future_no_space Hb (length a) a (le_n _)). lia.
Qed.

Lemma tail_F_none s : tail_F s = Some None -> at_end s = true.
Proof.
  unfold tail_F. destruct (mark w_future s) as [[d r]|].
  - destruct (at_end r); [discriminate|]. destruct (at_end s); [reflexivity|discriminate].
  - destruct (at_end s); [reflexivity|discriminate].
Qed.

Lemma tails_none_none s : tails s = Some (None, None) -> at_end s = true.
Proof.
  unfold tails. destruct (mark w_lag s) as [[d r]|].
  - destruct (tail_F r) as [f|]; [discriminate|].
    destruct (tail_F s) as [f|] eqn:EF; [|discriminate].
    intros [= ->]; exact (tail_F_none _ EF).
  - destruct (tail_F s) as [f|] eqn:EF; [|discriminate].
    intros [= ->]; exact (tail_F_none _ EF).
Qed.

Lemma try_nl_whole s : forall nl, try_nl s = Some (nl, (None, None)) -> nl = s.
Proof.
  assert (W : forall s nl, option_map (fun g => (@nil N, g)) (tails s) = Some (nl, (None, None)) ->
              nl = [] /\ at_end s = true).
  { intros s0 nl; destruct (tails s0) as [g0|] eqn:E; [|discriminate].
    cbn [option_map]; intros [= <- ->]; split; [reflexivity|exact (tails_none_none _ E)]. }
  induction s as [|c s IH]; intros nl; cbn [try_nl].
  - intros H; apply W in H; apply H.
  - destruct (N.eqb_spec c c_nl) as [->|Hn].
    + destruct (try_nl s) as [[nl' g']|] eqn:E.
      * intros [= <- ->]; f_equal; apply IH; reflexivity.
      * intros H; apply W in H; destruct H as [_ H]; exfalso.
        destruct s as [|c' s]; [discriminate E|discriminate H].
    + intros H; apply W in H; destruct H as [_ H]; exfalso.
      destruct s as [|c' s]; [|discriminate H].
      cbn [at_end] in H; apply N.eqb_eq in H; contradiction.
Qed.

Lemma scan_whole s : forall p, scan s = Some (p, (None, None)) -> p = s.
Proof.
  induction s as [|c s IH]; intros p; rewrite scan_eq.
  - cbn; intros [= <-]; reflexivity.
  - destruct (try_nl (c :: s)) as [[nl g']|] eqn:E.
    + intros [= <- ->]; exact (try_nl_whole _ _ E).
    + destruct (scan s) as [[p' g']|]; [|discriminate].
      intros [= <- ->]; f_equal; apply IH; reflexivity.
Qed.

(** Whatever [parse] returns is either the whole node name at lag 0 (no suffix was recognised)
    or a good variable name (a suffix was recognised and it was the only marker). *)
Theorem parse_whole_or_good : forall n v k,
  parse n = Some (v, k) -> (v = n /\ k = 0%Z) \/ good v = true.
Proof.
  intros [|c s] v k; unfold parse; [discriminate|].
  destruct (scan s) as [[p g]|] eqn:E; [|discriminate].
  destruct (Nat.ltb_spec 1 (nmarkers (c :: s))) as [|Hle]; [discriminate|].
  destruct (lag_of g) as [k'|] eqn:El; [|discriminate].
  intros [= <- <-].
  destruct (scan_inv _ _ _ E) as (r & Hs & Ht).
  destruct (tails_cases _ _ Ht) as [[-> He]|(w & d & r' & Hw & Hm)].
  - left; split; [f_equal; exact (scan_whole _ _ E)|cbn in El; congruence].
  - right. apply mark_shape in Hm; destruct Hm as (Hr & Hd).
    subst s r.
    change (c :: p ++ c_sp :: body w d ++ r') with ((c :: p) ++ c_sp :: body w d ++ r') in Hle.
    rewrite nmarkers_app_add in Hle by (right; eexists; reflexivity).
    pose proof (nmarkers_marked w d r' Hw Hd) as H1.
    cbn [good]; apply Nat.eqb_eq; lia.
Qed.

Theorem parse_lagged_good : forall n v k, parse n = Some (v, k) -> k <> 0%Z -> good v = true.
Proof.
  intros n v k H Hk; destruct (parse_whole_or_good _ _ _ H) as [[_ H0]|Hg]; [contradiction|exact Hg].
Qed.

(** Re-lagging goes through the variable name, with no side condition. *)
Theorem relag_any : forall n v j k, parse n = Some (v, j) -> fmt n k = fmt v k.
Proof.
  intros n v j k H; destruct (parse_whole_or_good _ _ _ H) as [[-> _]|Hg]; [reflexivity|].
  exact (relag n v j k H Hg).
Qed.

(** * Refuted conjectures (true of the Python code, checked on the real functions) *)

(** [get_name_with_lag] can build a name that [get_variable_name_and_lag] rejects:
    get_name_with_lag('flag(n=3)', 2) = 'flag(n=3) future(n=2)', which raises ValueError
    (findall sees lag(n=3) inside flag(n=3), so two markers are counted). *)
Theorem fmt_then_parse_refuted :
  exists n k s, fmt n k = Some s /\ parse s = None.
Proof.
  exists [102; 108; 97; 103; 40; 110; 61; 51; 41], 2%Z,
    [102; 108; 97; 103; 40; 110; 61; 51; 41; 32; 102; 117; 116; 117; 114; 101; 40; 110; 61; 50; 41].
  split; vm_compute; reflexivity.
Qed.

(** Distinct node names with the same (variable, lag): 'X lag(n=1)' and 'X lag(n=1)\n'
    (Python's [$] also matches before a final newline); 'X lag(n=01)' is a third one. *)
Theorem parse_injective_refuted :
  exists a b, a <> b /\ parse a = parse b /\ parse a <> None.
Proof.
  exists [88; 32; 108; 97; 103; 40; 110; 61; 49; 41], [88; 32; 108; 97; 103; 40; 110; 61; 49; 41; 10].
  split; [discriminate|split; vm_compute; [reflexivity|discriminate]].
Qed.

(** Hence a successfully parsed name need not be the canonical spelling of what it parses to,
    and the variable returned need not be good ('lag(n=1)' parses to itself at lag 0). *)
Theorem parse_canonical_refuted :
  (exists n v k, parse n = Some (v, k) /\ n <> tident v k) /\
  (exists n v k, parse n = Some (v, k) /\ good v = false).
Proof.
  split.
  - exists [88; 32; 108; 97; 103; 40; 110; 61; 48; 49; 41], [88], (-1)%Z.
    split; vm_compute; [reflexivity|discriminate].
  - exists [108; 97; 103; 40; 110; 61; 49; 41], [108; 97; 103; 40; 110; 61; 49; 41], 0%Z.
    split; vm_compute; reflexivity.
Qed.

(** * Non-vacuity: concrete inputs satisfying the hypotheses of the theorems above *)

(* good 'X', good 'a b', good 'X\n', good 'flag(n=' ; not good: '', 'flag(n=3)', 'X lag(n=1)' *)
Example good_X : good [88] = true. Proof. vm_compute. reflexivity. Qed.
Example good_a_b : good [97; 32; 98] = true. Proof. vm_compute. reflexivity. Qed.
Example good_X_nl : good [88; 10] = true. Proof. vm_compute. reflexivity. Qed.
Example good_unfinished : good [102; 108; 97; 103; 40; 110; 61] = true.
Proof. vm_compute. reflexivity. Qed.
Example good_empty : good [] = false. Proof. vm_compute. reflexivity. Qed.
Example good_flag : good [102; 108; 97; 103; 40; 110; 61; 51; 41] = false.
Proof. vm_compute. reflexivity. Qed.
Example good_lagged : good [88; 32; 108; 97; 103; 40; 110; 61; 49; 41] = false.
Proof. vm_compute. reflexivity. Qed.

(* read_print / print_dec: str(0) = '0', str(120) = '120', int('007') = 7 *)
Example print_dec_0 : print_dec 0 = [48]. Proof. vm_compute. reflexivity. Qed.
Example print_dec_120 : print_dec 120 = [49; 50; 48]. Proof. vm_compute. reflexivity. Qed.
Example read_dec_007 : read_dec [48; 48; 55] = Some 7. Proof. vm_compute. reflexivity. Qed.
Example read_dec_empty : read_dec [] = None. Proof. vm_compute. reflexivity. Qed.
Example read_dec_bad : read_dec [49; 97] = None. Proof. vm_compute. reflexivity. Qed.

(* parse_tident / fmt_good / parse_fmt on the good name 'a b\n' at lag -12 *)
Example parse_tident_ex :
  good [97; 32; 98; 10] = true /\
  tident [97; 32; 98; 10] (-12) = [97; 32; 98; 10; 32; 108; 97; 103; 40; 110; 61; 49; 50; 41] /\
  parse (tident [97; 32; 98; 10] (-12)) = Some ([97; 32; 98; 10], (-12)%Z).
Proof. vm_compute. repeat split; reflexivity. Qed.

(* relag: n = 'X lag(n=1)\n' parses to the good variable 'X' *)
Example relag_ex :
  parse [88; 32; 108; 97; 103; 40; 110; 61; 49; 41; 10] = Some ([88], (-1)%Z) /\
  good [88] = true /\
  fmt [88; 32; 108; 97; 103; 40; 110; 61; 49; 41; 10] 3 = fmt [88] 3.
Proof. vm_compute. repeat split; reflexivity. Qed.

(* tident_inj / fmt_inj: two good names, 'X' and 'X future(n=' *)
Example fmt_inj_ex :
  good [88] = true /\ good [88; 32; 102; 117; 116; 117; 114; 101; 40; 110; 61] = true /\
  fmt [88] 5 = Some [88; 32; 102; 117; 116; 117; 114; 101; 40; 110; 61; 53; 41].
Proof. vm_compute. repeat split; reflexivity. Qed.

(* parse_total_nonempty / parse_none_iff: nmarkers 'X flag(n=3)' = 1, nmarkers of
   'flag(n=3) future(n=2)' = 2 *)
Example nmarkers_ex :
  nmarkers [88; 32; 102; 108; 97; 103; 40; 110; 61; 51; 41] = 1%nat /\
  nmarkers [102; 108; 97; 103; 40; 110; 61; 51; 41; 32; 102; 117; 116; 117; 114; 101; 40; 110; 61; 50; 41] = 2%nat.
Proof. vm_compute. split; reflexivity. Qed.

(* canonical: 'X lag(n=1)' yes; 'X lag(n=01)', 'X lag(n=1)\n', 'X lag(n=0)', 'lag(n=1)' no *)
Example canonical_yes : canonical [88; 32; 108; 97; 103; 40; 110; 61; 49; 41] = true.
Proof. vm_compute. reflexivity. Qed.
Example canonical_lead_zero : canonical [88; 32; 108; 97; 103; 40; 110; 61; 48; 49; 41] = false.
Proof. vm_compute. reflexivity. Qed.
Example canonical_trailing_nl : canonical [88; 32; 108; 97; 103; 40; 110; 61; 49; 41; 10] = false.
Proof. vm_compute. reflexivity. Qed.
Example canonical_lag0 : canonical [88; 32; 108; 97; 103; 40; 110; 61; 48; 41] = false.
Proof. vm_compute. reflexivity. Qed.
Example canonical_bare : canonical [108; 97; 103; 40; 110; 61; 49; 41] = false.
Proof. vm_compute. reflexivity. Qed.

(** * The model pinned to the behaviour observed on the real Python functions *)

(* 'X' -> ('X', 0) *)
Example parse_x : parse [88] = Some ([88], (0)%Z).
Proof. vm_compute. reflexivity. Qed.
(* 'X\n' -> ('X\n', 0) *)
Example parse_x_nl : parse [88; 10] = Some ([88; 10], (0)%Z).
Proof. vm_compute. reflexivity. Qed.
(* 'X lag(n=1)' -> ('X', -1) *)
Example parse_lag1 : parse [88; 32; 108; 97; 103; 40; 110; 61; 49; 41] = Some ([88], (-1)%Z).
Proof. vm_compute. reflexivity. Qed.
(* 'X future(n=2)' -> ('X', 2) *)
Example parse_fut2 : parse [88; 32; 102; 117; 116; 117; 114; 101; 40; 110; 61; 50; 41] = Some ([88], (2)%Z).
Proof. vm_compute. reflexivity. Qed.
(* 'X lag(n=1)\n' -> ('X', -1) *)
Example parse_lag1_nl : parse [88; 32; 108; 97; 103; 40; 110; 61; 49; 41; 10] = Some ([88], (-1)%Z).
Proof. vm_compute. reflexivity. Qed.
(* 'X\n lag(n=1)' -> ('X\n', -1) *)
Example parse_nl_lag1 : parse [88; 10; 32; 108; 97; 103; 40; 110; 61; 49; 41] = Some ([88; 10], (-1)%Z).
Proof. vm_compute. reflexivity. Qed.
(* 'lag(n=1)' -> ('lag(n=1)', 0) *)
Example parse_bare_marker : parse [108; 97; 103; 40; 110; 61; 49; 41] = Some ([108; 97; 103; 40; 110; 61; 49; 41], (0)%Z).
Proof. vm_compute. reflexivity. Qed.
(* ' lag(n=1)' -> (' lag(n=1)', 0) *)
Example parse_sp_marker : parse [32; 108; 97; 103; 40; 110; 61; 49; 41] = Some ([32; 108; 97; 103; 40; 110; 61; 49; 41], (0)%Z).
Proof. vm_compute. reflexivity. Qed.
(* 'X lag(n=1) future(n=2)' -> ValueError *)
Example parse_lag_future : parse [88; 32; 108; 97; 103; 40; 110; 61; 49; 41; 32; 102; 117; 116; 117; 114; 101; 40; 110; 61; 50; 41] = None.
Proof. vm_compute. reflexivity. Qed.
(* 'X lag(n=01)' -> ('X', -1) *)
Example parse_lead_zero : parse [88; 32; 108; 97; 103; 40; 110; 61; 48; 49; 41] = Some ([88], (-1)%Z).
Proof. vm_compute. reflexivity. Qed.
(* 'X lag(n=0)' -> ('X', 0) *)
Example parse_lag0 : parse [88; 32; 108; 97; 103; 40; 110; 61; 48; 41] = Some ([88], (0)%Z).
Proof. vm_compute. reflexivity. Qed.
(* 'flag(n=3)' -> ('flag(n=3)', 0) *)
Example parse_flag : parse [102; 108; 97; 103; 40; 110; 61; 51; 41] = Some ([102; 108; 97; 103; 40; 110; 61; 51; 41], (0)%Z).
Proof. vm_compute. reflexivity. Qed.
(* 'X lag(n=1) lag(n=2)' -> ValueError *)
Example parse_two_lags : parse [88; 32; 108; 97; 103; 40; 110; 61; 49; 41; 32; 108; 97; 103; 40; 110; 61; 50; 41] = None.
Proof. vm_compute. reflexivity. Qed.
(* 'X lag(n=1)\n\n' -> ('X lag(n=1)\n\n', 0) *)
Example parse_lag1_nl_nl : parse [88; 32; 108; 97; 103; 40; 110; 61; 49; 41; 10; 10] = Some ([88; 32; 108; 97; 103; 40; 110; 61; 49; 41; 10; 10], (0)%Z).
Proof. vm_compute. reflexivity. Qed.
(* 'X lag(n=1)Y' -> ('X lag(n=1)Y', 0) *)
Example parse_lag1_Y : parse [88; 32; 108; 97; 103; 40; 110; 61; 49; 41; 89] = Some ([88; 32; 108; 97; 103; 40; 110; 61; 49; 41; 89], (0)%Z).
Proof. vm_compute. reflexivity. Qed.
(* 'X future(n=2) lag(n=1)' -> ValueError *)
Example parse_future_lag : parse [88; 32; 102; 117; 116; 117; 114; 101; 40; 110; 61; 50; 41; 32; 108; 97; 103; 40; 110; 61; 49; 41] = None.
Proof. vm_compute. reflexivity. Qed.
(* '' -> ValueError *)
Example parse_empty : parse [] = None.
Proof. vm_compute. reflexivity. Qed.
(* '\n' -> ('\n', 0) *)
Example parse_nl : parse [10] = Some ([10], (0)%Z).
Proof. vm_compute. reflexivity. Qed.
(* 'X\nY' -> ('X\nY', 0) *)
Example parse_X_nl_Y : parse [88; 10; 89] = Some ([88; 10; 89], (0)%Z).
Proof. vm_compute. reflexivity. Qed.
(* 'X lag(n=123456789012345678901234567890)' -> ('X', -123456789012345678901234567890) *)
Example parse_big : parse [88; 32; 108; 97; 103; 40; 110; 61; 49; 50; 51; 52; 53; 54; 55; 56; 57; 48; 49; 50; 51; 52; 53; 54; 55; 56; 57; 48; 49; 50; 51; 52; 53; 54; 55; 56; 57; 48; 41] = Some ([88], (-123456789012345678901234567890)%Z).
Proof. vm_compute. reflexivity. Qed.
(* 'X flag(n=3)' -> ('X flag(n=3)', 0) *)
Example parse_Xflag : parse [88; 32; 102; 108; 97; 103; 40; 110; 61; 51; 41] = Some ([88; 32; 102; 108; 97; 103; 40; 110; 61; 51; 41], (0)%Z).
Proof. vm_compute. reflexivity. Qed.
(* 'a b future(n=12)' -> ('a b', 12) *)
Example parse_sp_in_var : parse [97; 32; 98; 32; 102; 117; 116; 117; 114; 101; 40; 110; 61; 49; 50; 41] = Some ([97; 32; 98], (12)%Z).
Proof. vm_compute. reflexivity. Qed.
(* get_name_with_lag('X', 0) = 'X' *)
Example fmt_ex0 : fmt [88] (0)%Z = Some [88].
Proof. vm_compute. reflexivity. Qed.
(* get_name_with_lag('X', 3) = 'X future(n=3)' *)
Example fmt_ex1 : fmt [88] (3)%Z = Some [88; 32; 102; 117; 116; 117; 114; 101; 40; 110; 61; 51; 41].
Proof. vm_compute. reflexivity. Qed.
(* get_name_with_lag('X', -12) = 'X lag(n=12)' *)
Example fmt_ex2 : fmt [88] (-12)%Z = Some [88; 32; 108; 97; 103; 40; 110; 61; 49; 50; 41].
Proof. vm_compute. reflexivity. Qed.
(* get_name_with_lag('X lag(n=1)', 2) = 'X future(n=2)' *)
Example fmt_ex3 : fmt [88; 32; 108; 97; 103; 40; 110; 61; 49; 41] (2)%Z = Some [88; 32; 102; 117; 116; 117; 114; 101; 40; 110; 61; 50; 41].
Proof. vm_compute. reflexivity. Qed.
(* get_name_with_lag('X future(n=5)', 0) = 'X' *)
Example fmt_ex4 : fmt [88; 32; 102; 117; 116; 117; 114; 101; 40; 110; 61; 53; 41] (0)%Z = Some [88].
Proof. vm_compute. reflexivity. Qed.
(* get_name_with_lag('flag(n=3)', 2) = 'flag(n=3) future(n=2)' *)
Example fmt_ex5 : fmt [102; 108; 97; 103; 40; 110; 61; 51; 41] (2)%Z = Some [102; 108; 97; 103; 40; 110; 61; 51; 41; 32; 102; 117; 116; 117; 114; 101; 40; 110; 61; 50; 41].
Proof. vm_compute. reflexivity. Qed.
(* get_name_with_lag('X\n', -1) = 'X\n lag(n=1)' *)
Example fmt_ex6 : fmt [88; 10] (-1)%Z = Some [88; 10; 32; 108; 97; 103; 40; 110; 61; 49; 41].
Proof. vm_compute. reflexivity. Qed.
(* get_name_with_lag('X lag(n=1)\n', -7) = 'X lag(n=7)' *)
Example fmt_ex7 : fmt [88; 32; 108; 97; 103; 40; 110; 61; 49; 41; 10] (-7)%Z = Some [88; 32; 108; 97; 103; 40; 110; 61; 55; 41].
Proof. vm_compute. reflexivity. Qed.
