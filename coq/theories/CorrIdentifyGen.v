(** CorrIdentifyGen.v — entry points for a correspondence harness: the functions GENERATED from
    cai_causal_graph/identify_utils.py (IdentifyGen.v) evaluated on a DAG over the vertices
    [0 .. n-1] given by its arc list (DEFINITIONS ONLY, plus a few pinned examples).

    - the graph is [{| verts := seq 0 n; arcs := arcs |}] (nodes added in the order 0 .. n-1, then
      the edges in the order of the list);
    - [None] is the number [n] and the empty string the number [n + 1] (neither is a vertex);
    - the recursion fuel is [n + 1] (IdentifyGenProofs.v proves that it suffices on a DAG);
    - sets are iterated in list order ([pyorder_id]); the [cigo_] variants take the iteration
      order as a parameter (IdentifyGenProofs.v proves that the result sets do not depend on it);
    - a result is [Ret l] with [l] SORTED (Python returns [list(set)], whose order is hash
      dependent), [Exc e] when the Python function raises [e], [Fuel] never on a DAG. *)
From CG Require Import Base Digraph Identify Markov PyRt IdentifyGen.
Set Implicit Arguments.

Definition cig_graph (n : nat) (arcs : list (nat * nat)) : digraph nat :=
  {| verts := seq 0 n; arcs := arcs |}.
Definition cig_none (n : nat) : nat := n.
Definition cig_empty_str (n : nat) : nat := S n.
Definition cig_fuel (n : nat) : nat := n + 1.

Definition cig_sorted (o : pyout (list nat)) : pyout (list nat) :=
  match o with
  | Ret l => Ret (isort Nat.leb l)
  | Exc e => Exc e
  | Fuel => Fuel
  end.

(** [identify_confounders(graph, x, y)] *)
Definition cigo_confounders (ord : pyorder) (n : nat) (arcs : list (nat * nat)) (x y : nat)
  : pyout (list nat) :=
  cig_sorted (gen_identify_confounders Nat.eqb (cig_none n) (cig_empty_str n) ord (cig_fuel n)
                (cig_graph n arcs) x y).
Definition cig_confounders := cigo_confounders pyorder_id.

(** [identify_instruments(graph, x, y, max_num_paths)] *)
Definition cigo_instruments_max (ord : pyorder) (n : nat) (arcs : list (nat * nat))
           (x y max_num_paths : nat) : pyout (list nat) :=
  cig_sorted (gen_identify_instruments Nat.eqb (cig_none n) (cig_empty_str n) ord (cig_fuel n)
                (cig_graph n arcs) x y max_num_paths).
Definition cig_instruments_max := cigo_instruments_max pyorder_id.

(** [identify_mediators(graph, x, y, max_num_paths)] *)
Definition cigo_mediators_max (ord : pyorder) (n : nat) (arcs : list (nat * nat))
           (x y max_num_paths : nat) : pyout (list nat) :=
  cig_sorted (gen_identify_mediators Nat.eqb (cig_none n) (cig_empty_str n) ord (cig_fuel n)
                (cig_graph n arcs) x y max_num_paths).
Definition cig_mediators_max := cigo_mediators_max pyorder_id.

(** with the default [max_num_paths = 25] *)
Definition cig_instruments (n : nat) (arcs : list (nat * nat)) (x y : nat) : pyout (list nat) :=
  cig_instruments_max n arcs x y 25.
Definition cig_mediators (n : nat) (arcs : list (nat * nat)) (x y : nat) : pyout (list nat) :=
  cig_mediators_max n arcs x y 25.

(** [identify_markov_boundary(graph, x)] *)
Definition cigo_markov_boundary (ord : pyorder) (n : nat) (arcs : list (nat * nat)) (x : nat)
  : pyout (list nat) :=
  cig_sorted (gen_identify_markov_boundary Nat.eqb (cig_none n) (cig_empty_str n) ord (cig_graph n arcs) x).
Definition cig_markov_boundary := cigo_markov_boundary pyorder_id.

(** [identify_colliders(graph, unshielded_only)] on a graph with arbitrary edge types: the nodes
    [0 .. n-1] and the edges [(source, destination, type)] in insertion order. *)
Definition cigo_colliders (ord : pyorder) (n : nat) (edges : list (nat * nat * etype))
           (unshielded_only : bool) : pyout (list nat) :=
  cig_sorted (gen_identify_colliders Nat.eqb ord {| mnodes := seq 0 n; medges := edges |} unshielded_only).
Definition cig_colliders := cigo_colliders pyorder_id.

(** The three result sets of one call. *)
Definition cig_all (n : nat) (arcs : list (nat * nat)) (x y : nat)
  : pyout (list nat) * pyout (list nat) * pyout (list nat) :=
  (cig_confounders n arcs x y, cig_instruments n arcs x y, cig_mediators n arcs x y).

(** Token form for a harness that compares numbers: [0 :: sorted result] for a normal return,
    [[1; k]] for an exception ([k] = 0 TypeError, 1 ValueError, 2 KeyError,
    3 NodeDoesNotExistError, 4 EdgeDoesNotExistError, 5 NetworkXError), [[2]] for fuel. *)
Definition cig_exc_code (e : pyexc) : nat :=
  match e with
  | PyTypeError => 0 | PyValueError => 1 | PyKeyError => 2
  | PyNodeDoesNotExistError => 3 | PyEdgeDoesNotExistError => 4 | PyNetworkXError => 5
  end.
Definition cig_tokens (o : pyout (list nat)) : list nat :=
  match o with
  | Ret l => 0 :: l
  | Exc e => [1; cig_exc_code e]
  | Fuel => [2]
  end.
Definition cig_all_tokens (n : nat) (arcs : list (nat * nat)) (x y : nat) : list (list nat) :=
  let '(c, i, m) := cig_all n arcs x y in [cig_tokens c; cig_tokens i; cig_tokens m].

(** * Pinned examples (every right-hand side was obtained from the real library) *)

(** docstring of [identify_confounders]: z=0 u=1 x=2 y=3 *)
Example cig_ex_conf : cig_confounders 4 [(0, 1); (1, 2); (1, 3); (2, 3)] 2 3 = Ret [1].
Proof. vm_compute. reflexivity. Qed.
(** docstring of [identify_instruments]: z=0 u=1 x=2 y=3 *)
Example cig_ex_inst : cig_instruments 4 [(0, 2); (1, 2); (1, 3); (2, 3)] 2 3 = Ret [0].
Proof. vm_compute. reflexivity. Qed.
(** docstring of [identify_mediators]: x=0 m=1 y=2 u=3 *)
Example cig_ex_med : cig_mediators 4 [(0, 1); (1, 2); (3, 0); (3, 2); (0, 2)] 0 2 = Ret [1].
Proof. vm_compute. reflexivity. Qed.
(** equal nodes: ValueError; unknown node: NodeDoesNotExistError *)
Example cig_ex_errors :
  cig_confounders 2 [(0, 1)] 1 1 = Exc PyValueError /\
  cig_confounders 2 [(0, 1)] 0 5 = Exc PyNodeDoesNotExistError /\
  cig_mediators 2 [(0, 1)] 7 0 = Exc PyNodeDoesNotExistError.
Proof. vm_compute. repeat split; reflexivity. Qed.
(** x -> a -> y, x -> b -> y, x -> y: three causal paths; with max_num_paths = 1 the third one
    (index 2 > 1) makes identify_mediators raise ValueError; with max_num_paths = 2 it returns [] *)
Example cig_ex_max_paths :
  cig_mediators_max 4 [(0, 1); (1, 3); (0, 2); (2, 3); (0, 3)] 0 3 1 = Exc PyValueError /\
  cig_mediators_max 4 [(0, 1); (1, 3); (0, 2); (2, 3); (0, 3)] 0 3 2 = Ret [].
Proof. vm_compute. split; reflexivity. Qed.
(** docstring of [identify_markov_boundary]: u v b c a d e w f x y g z = 0 .. 12 *)
Example cig_ex_markov :
  cig_markov_boundary 13 [(0, 2); (1, 3); (2, 4); (3, 4); (4, 5); (4, 6); (7, 8); (8, 5); (5, 9);
                          (5, 10); (11, 6); (11, 12)] 4 = Ret [2; 3; 5; 6; 8; 11] /\
  cig_markov_boundary 2 [(0, 1)] 5 = Exc PyNodeDoesNotExistError.
Proof. vm_compute. split; reflexivity. Qed.
(** a -> c <- b, c <> d, d -- e, a -> e (a b c d e = 0 .. 4): the real library returns ['c'] for
    both settings of unshielded_only (a, b, d point into c and are pairwise non-adjacent; d has a
    single arrowhead).  a -> c <- b with a -- b: c is a collider, but a shielded one. *)
Example cig_ex_colliders :
  cig_colliders 5 [(0, 2, Dir); (1, 2, Dir); (2, 3, Bi); (3, 4, Und); (0, 4, Dir)] false = Ret [2] /\
  cig_colliders 5 [(0, 2, Dir); (1, 2, Dir); (2, 3, Bi); (3, 4, Und); (0, 4, Dir)] true = Ret [2] /\
  cig_colliders 3 [(0, 2, Dir); (1, 2, Dir); (0, 1, Und)] false = Ret [2] /\
  cig_colliders 3 [(0, 2, Dir); (1, 2, Dir); (0, 1, Und)] true = Ret [].
Proof. vm_compute. repeat split; reflexivity. Qed.

(** The other concrete iteration order (reversed at the odd observation sites) gives the same
    sorted results on the examples above. *)
Example cig_ex_other_order :
  cigo_confounders pyorder_alt 4 [(0, 1); (1, 2); (1, 3); (2, 3)] 2 3 = Ret [1] /\
  cigo_instruments_max pyorder_alt 4 [(0, 2); (1, 2); (1, 3); (2, 3)] 2 3 25 = Ret [0] /\
  cigo_mediators_max pyorder_alt 4 [(0, 1); (1, 2); (3, 0); (3, 2); (0, 2)] 0 2 25 = Ret [1] /\
  cigo_mediators_max pyorder_alt 4 [(0, 1); (1, 3); (0, 2); (2, 3); (0, 3)] 0 3 1 = Exc PyValueError /\
  cigo_colliders pyorder_alt 5 [(0, 2, Dir); (1, 2, Dir); (2, 3, Bi); (3, 4, Und); (0, 4, Dir)] true = Ret [2].
Proof. vm_compute. repeat split; reflexivity. Qed.

(** * Regression cases

    Random DAGs / random graphs with arbitrary edge types; every expected value is what the real
    library returned (seeded generator, PYTHONHASHSEED=0).  A DAG case is
    [(n, arcs, x, y, max_num_paths, (confounders, instruments, mediators), markov_boundary of x)], a mixed
    case is [(n, edges, colliders, unshielded colliders)].  Both iteration orders are checked.
    (Several thousand more cases of the same kind were checked in scratch files; see the report.) *)
Definition cig_regression_dags :
  list (nat * list (nat * nat) * nat * nat * nat * (pyout (list nat) * pyout (list nat) * pyout (list nat)) * pyout (list nat)) :=
  [(7, [(5, 6); (0, 3); (4, 6); (0, 4); (0, 6); (4, 1); (1, 2); (3, 4); (3, 6); (0, 2); (0, 1); (1, 6)], 2, 1, 25, (Ret [0], Ret [], Ret []), Ret [0; 1]);
   (4, [(3, 2); (2, 0); (3, 0); (3, 1); (2, 1)], 3, 0, 25, (Ret [], Ret [], Ret [2]), Ret [0; 1; 2]);
   (6, [(3, 1); (4, 1); (1, 5); (0, 2)], 0, 4, 25, (Ret [], Ret [], Ret []), Ret [2]);
   (5, [(1, 4); (3, 0); (3, 2); (1, 3)], 4, 2, 25, (Ret [1], Ret [], Ret []), Ret [1]);
   (7, [(4, 1); (2, 5); (1, 3); (4, 5); (0, 6); (1, 5); (4, 3); (0, 1); (0, 5); (0, 3); (4, 2); (2, 6)], 6, 2, 1, (Ret [], Ret [], Ret []), Ret [0; 2]);
   (8, [(5, 7); (4, 2); (4, 6); (7, 2); (5, 6); (0, 5); (4, 3); (5, 2); (4, 7); (1, 3); (5, 4); (7, 1); (7, 3); (0, 1)], 3, 6, 2, (Ret [4; 5], Ret [], Ret []), Ret [1; 4; 7]);
   (6, [(4, 3); (5, 3); (2, 3); (5, 4); (0, 5); (1, 2); (0, 4); (1, 5)], 5, 3, 2, (Ret [0; 1], Ret [], Ret []), Ret [0; 1; 2; 3; 4]);
   (8, [(3, 1); (3, 2); (5, 0); (3, 7); (3, 4); (6, 4); (3, 6); (7, 4); (7, 0); (0, 2)], 1, 2, 25, (Ret [3], Ret [], Ret []), Ret [3]);
   (4, [(1, 2); (0, 1)], 1, 3, 1, (Ret [], Ret [0], Ret []), Ret [0; 2]);
   (8, [(5, 4); (2, 0); (6, 3); (5, 7); (6, 1); (7, 0); (4, 1); (5, 0); (4, 0); (4, 7); (5, 3); (1, 0); (1, 3)], 7, 4, 25, (Ret [5], Ret [], Ret []), Ret [0; 1; 2; 4; 5]);
   (7, [(6, 3); (2, 3); (6, 4); (1, 6); (4, 0); (0, 3); (4, 3); (2, 0); (2, 1); (1, 5); (6, 5); (1, 3)], 3, 4, 25, (Ret [6], Ret [], Ret []), Ret [0; 1; 2; 4; 6]);
   (7, [(2, 4); (6, 4); (6, 1); (1, 4); (5, 2); (5, 1); (5, 0); (5, 6)], 1, 6, 1, (Ret [5], Ret [], Ret []), Ret [2; 4; 5; 6]);
   (5, [(3, 1); (3, 0); (3, 4); (3, 2)], 0, 4, 25, (Ret [3], Ret [], Ret []), Ret [3]);
   (5, [(3, 0); (2, 3); (1, 4); (2, 4); (3, 4); (1, 3)], 2, 1, 2, (Ret [], Ret [], Ret []), Ret [1; 3; 4]);
   (7, [(4, 6); (4, 0); (2, 4); (4, 5); (3, 0); (1, 3); (2, 1); (2, 3); (2, 0)], 0, 6, 1, (Ret [4], Ret [], Ret []), Ret [2; 3; 4]);
   (6, [(1, 2); (1, 5); (1, 4); (3, 5); (3, 2); (1, 0); (0, 4); (0, 3)], 5, 0, 1, (Ret [1], Ret [], Ret []), Ret [1; 3]);
   (8, [(1, 2); (1, 4); (2, 4); (3, 0); (3, 2); (1, 6); (5, 0)], 2, 4, 25, (Ret [1], Ret [3], Ret []), Ret [1; 3; 4]);
   (6, [(0, 2); (3, 4); (5, 1); (5, 2); (4, 5)], 3, 1, 25, (Ret [], Ret [], Ret [4; 5]), Ret [4]);
   (5, [(2, 3); (4, 1); (3, 0); (3, 4); (2, 1)], 4, 0, 25, (Ret [3], Ret [], Ret []), Ret [1; 2; 3]);
   (4, [(1, 3); (1, 0)], 1, 0, 2, (Ret [], Ret [], Ret []), Ret [0; 3]);
   (6, [(4, 1); (5, 0); (5, 2); (3, 2); (0, 4); (3, 0); (5, 1); (5, 4); (4, 2)], 0, 1, 2, (Ret [5], Ret [3], Ret []), Ret [3; 4; 5]);
   (7, [(1, 0); (3, 0); (1, 3); (6, 3); (6, 4); (6, 0); (1, 2); (2, 0); (4, 3); (5, 1)], 1, 6, 25, (Ret [], Ret [5], Ret []), Ret [0; 2; 3; 4; 5; 6]);
   (7, [(3, 0); (6, 0); (2, 0); (1, 2); (6, 4); (3, 6); (3, 4); (1, 3); (1, 0); (2, 6)], 0, 3, 25, (Ret [1], Ret [], Ret []), Ret [1; 2; 3; 6]);
   (8, [(6, 5); (7, 3); (4, 5); (1, 3); (0, 5); (1, 2); (2, 6); (1, 7); (0, 7); (1, 5); (2, 4); (0, 2); (2, 7); (3, 4)], 7, 2, 25, (Ret [0; 1], Ret [], Ret []), Ret [0; 1; 2; 3]);
   (5, [(2, 0); (4, 1); (2, 3); (4, 3); (0, 3)], 4, 1, 1, (Ret [], Ret [], Ret []), Ret [0; 1; 2; 3]);
   (8, [(6, 7); (3, 2); (4, 1); (5, 1); (4, 0); (3, 5); (2, 1); (2, 6); (4, 6); (3, 4); (0, 1); (2, 4); (7, 5)], 5, 7, 1, (Ret [3], Ret [], Ret []), Ret [0; 1; 2; 3; 4; 7]);
   (8, [(5, 4); (6, 5); (3, 4); (2, 4); (2, 5); (5, 7); (6, 4); (3, 0); (0, 7); (0, 1); (6, 1); (4, 1); (6, 7); (6, 0); (2, 0)], 7, 1, 1, (Ret [0; 5; 6], Ret [], Ret []), Ret [0; 5; 6]);
   (5, [(4, 1); (0, 3); (2, 4); (0, 4); (2, 3); (3, 4)], 3, 2, 25, (Ret [], Ret [], Ret []), Ret [0; 2; 4]);
   (5, [(2, 0); (4, 1); (1, 3)], 0, 2, 25, (Ret [], Ret [], Ret []), Ret [2]);
   (7, [(0, 6); (1, 3); (5, 0); (4, 3); (4, 6); (6, 3); (5, 6)], 4, 2, 25, (Ret [], Ret [], Ret []), Ret [0; 1; 3; 5; 6]);
   (6, [(2, 0); (3, 5); (4, 5); (0, 3); (2, 4); (2, 3)], 0, 4, 25, (Ret [2], Ret [], Ret []), Ret [2; 3]);
   (5, [(4, 0); (1, 4); (3, 0); (1, 3); (2, 0); (4, 3)], 1, 3, 2, (Ret [], Ret [], Ret [4]), Ret [3; 4]);
   (7, [(1, 3); (1, 6); (4, 0); (0, 6); (2, 5); (5, 6); (2, 0); (1, 2); (2, 3)], 2, 6, 1, (Ret [1], Ret [], Ret []), Ret [0; 1; 3; 4; 5]);
   (4, [(3, 0); (2, 0)], 0, 1, 1, (Ret [], Ret [2; 3], Ret []), Ret [2; 3]);
   (8, [(0, 3); (2, 5); (3, 1); (5, 3); (2, 3); (2, 1); (2, 4); (0, 7); (3, 4); (6, 7); (0, 2); (7, 1); (7, 3); (6, 3); (0, 4); (2, 7); (6, 1); (6, 2)], 1, 2, 25, (Ret [0; 6], Ret [], Ret []), Ret [2; 3; 6; 7]);
   (5, [(0, 3); (1, 2); (4, 0); (4, 2); (0, 2); (1, 0)], 2, 4, 1, (Ret [], Ret [], Ret []), Ret [0; 1; 4])].
Definition cig_regression_mixed : list (nat * list (nat * nat * etype) * pyout (list nat) * pyout (list nat)) :=
  [(6, [(0, 2, Bi); (2, 4, Bi); (3, 4, Bi); (1, 4, Unk); (3, 0, Bi)], Ret [0; 2; 3; 4], Ret [0; 2; 3; 4]);
   (4, [(0, 2, Und); (3, 1, Bi); (0, 3, UnkDir); (1, 0, Und); (2, 1, UnkUnd); (3, 2, Bi)], Ret [3], Ret []);
   (7, [(6, 4, Bi); (0, 3, Dir); (1, 5, Bi); (1, 2, UnkDir); (6, 1, Und); (3, 4, UnkDir); (1, 0, Dir); (1, 3, UnkUnd); (3, 2, Dir); (6, 3, Dir)], Ret [3], Ret [3]);
   (6, [(2, 3, UnkDir); (1, 5, Bi); (3, 0, UnkUnd); (2, 5, UnkDir); (3, 4, Dir); (0, 4, Bi); (5, 3, Dir); (2, 0, Dir); (1, 4, Bi)], Ret [0; 1; 4], Ret [0; 1]);
   (4, [(2, 1, Dir); (0, 2, Dir); (1, 0, UnkDir); (3, 2, UnkDir); (3, 0, Bi)], Ret [], Ret []);
   (4, [(2, 3, Und); (0, 2, Bi); (2, 1, Bi)], Ret [2], Ret [2]);
   (4, [(0, 3, Dir); (2, 0, Bi); (1, 3, Dir); (3, 2, Unk); (1, 2, Dir)], Ret [2; 3], Ret [2; 3]);
   (6, [(1, 0, Bi); (5, 3, UnkDir); (3, 1, Und); (0, 4, Dir); (1, 5, UnkDir); (0, 5, Bi)], Ret [0], Ret []);
   (7, [(5, 2, Dir); (3, 2, Dir); (1, 6, UnkDir); (1, 5, UnkUnd); (1, 0, UnkDir); (0, 4, UnkUnd); (4, 1, Dir); (6, 4, Und); (2, 4, UnkDir); (1, 2, Dir); (5, 3, Dir); (3, 1, Und); (3, 4, UnkUnd); (2, 0, Dir)], Ret [2], Ret []);
   (4, [(1, 2, Bi); (0, 3, UnkDir); (3, 2, Dir); (0, 2, Bi)], Ret [2], Ret []);
   (7, [(1, 4, Bi); (3, 0, Bi); (3, 5, Dir); (6, 4, Dir); (2, 3, Dir); (4, 2, Unk); (4, 5, UnkDir); (5, 0, UnkUnd); (1, 0, UnkDir); (4, 0, Dir); (6, 1, UnkDir); (2, 6, Bi); (1, 5, Dir); (3, 6, Dir)], Ret [0; 3; 4; 5; 6], Ret [0; 3; 5]);
   (6, [(1, 3, Dir); (0, 3, Dir); (2, 0, Dir); (4, 0, Bi); (2, 4, Unk); (4, 1, Bi); (2, 3, Bi)], Ret [0; 3; 4], Ret [4]);
   (5, [(3, 4, Dir); (4, 2, Dir); (3, 2, Unk); (1, 3, Unk); (1, 0, Bi); (4, 1, Dir); (1, 2, Dir); (0, 2, Bi)], Ret [0; 1; 2], Ret [1]);
   (6, [(0, 4, UnkUnd); (4, 1, Dir); (2, 4, Dir); (1, 2, Bi); (3, 0, UnkDir); (5, 4, Bi); (1, 0, Dir); (1, 5, Unk); (3, 2, Bi); (3, 1, Bi)], Ret [1; 2; 3; 4], Ret [4]);
   (6, [(0, 1, Unk); (4, 0, Dir); (5, 0, Unk); (4, 2, Bi); (2, 1, Und); (3, 1, Und); (1, 4, Bi); (5, 3, Unk)], Ret [4], Ret []);
   (4, [(3, 0, Bi); (2, 0, UnkDir); (1, 3, Dir); (1, 0, Dir)], Ret [0; 3], Ret [])].

Definition cig_exc_eqb (a b : pyexc) : bool := Nat.eqb (cig_exc_code a) (cig_exc_code b).
Fixpoint cig_list_eqb (a b : list nat) : bool :=
  match a, b with
  | [], [] => true
  | x :: a', y :: b' => Nat.eqb x y && cig_list_eqb a' b'
  | _, _ => false
  end.
Definition cig_out_eqb (a b : pyout (list nat)) : bool :=
  match a, b with
  | Ret x, Ret y => cig_list_eqb x y
  | Exc x, Exc y => cig_exc_eqb x y
  | _, _ => false
  end.

Definition cig_check_dag (ord : pyorder)
    (c : nat * list (nat * nat) * nat * nat * nat
         * (pyout (list nat) * pyout (list nat) * pyout (list nat)) * pyout (list nat)) : bool :=
  let '(n, arcs, x, y, mx, (ec, ei, em), emb) := c in
  cig_out_eqb (cigo_confounders ord n arcs x y) ec
  && cig_out_eqb (cigo_instruments_max ord n arcs x y mx) ei
  && cig_out_eqb (cigo_mediators_max ord n arcs x y mx) em
  && cig_out_eqb (cigo_markov_boundary ord n arcs x) emb.

Definition cig_check_mixed (ord : pyorder)
    (c : nat * list (nat * nat * etype) * pyout (list nat) * pyout (list nat)) : bool :=
  let '(n, es, e1, e2) := c in
  cig_out_eqb (cigo_colliders ord n es false) e1 && cig_out_eqb (cigo_colliders ord n es true) e2.

Example cig_regression_ok :
  forallb (cig_check_dag pyorder_id) cig_regression_dags = true /\
  forallb (cig_check_dag pyorder_alt) cig_regression_dags = true /\
  forallb (cig_check_mixed pyorder_id) cig_regression_mixed = true /\
  forallb (cig_check_mixed pyorder_alt) cig_regression_mixed = true.
Proof. vm_compute. repeat split; reflexivity. Qed.
