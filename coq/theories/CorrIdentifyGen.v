(** CorrIdentifyGen.v — what the entry points of the correspondence harness for the functions
    GENERATED from cai_causal_graph/identify_utils.py have in common (DEFINITIONS ONLY).  This file
    does NOT depend on any generated file; the entry points are in
      CorrIdentifyGenConf.v  (identify_confounders;                         IdentifyGenConf.v)
      CorrIdentifyGenIM.v    (identify_instruments, identify_mediators;     IdentifyGenIM.v)
      CorrIdentifyGenMB.v    (identify_markov_boundary, identify_colliders; IdentifyGenMB.v)
    each of which depends only on its own generated file (and on what that file imports).

    - a DAG over the vertices [0 .. n-1] is given by its arc list: the graph is
      [{| verts := seq 0 n; arcs := arcs |}] (nodes added in the order 0 .. n-1, then the edges in
      the order of the list);
    - [None] is the number [n] and the empty string the number [n + 1] (neither is a vertex);
    - the recursion fuel is [n + 1] (IdentifyGenConfProofs.v proves that it suffices on a DAG);
    - sets are iterated in list order ([pyorder_id]); the [cigo_] variants take the iteration
      order as a parameter (the proofs show that the result sets do not depend on it);
    - a result is [Ret l] with [l] SORTED (Python returns [list(set)], whose order is hash
      dependent), [Exc e] when the Python function raises [e], [Fuel] never on a DAG. *)
From CG Require Import Base Digraph Markov PyRt.
Set Implicit Arguments.

Definition cig_graph (n : nat) (arcs : list (nat * nat)) : digraph nat :=
  {| verts := seq 0 n; arcs := arcs |}.
Definition cig_none (n : nat) : nat := n.
Definition cig_empty_str (n : nat) : nat := S n.
Definition cig_fuel (n : nat) : nat := n + 1.

Definition cig_sorted (o : pyout (list nat)) : pyout (list nat) :=
  match o with
  | Ret l => Ret (isort Nat.leb l)
  | Exc e => Exc e
  | Fuel => Fuel
  end.

(** Token form for a harness that compares numbers: [0 :: sorted result] for a normal return,
    [[1; k]] for an exception ([k] = 0 TypeError, 1 ValueError, 2 KeyError,
    3 NodeDoesNotExistError, 4 EdgeDoesNotExistError, 5 NetworkXError, 6 AssertionError, 7 IndexError), [[2]] for fuel. *)
Definition cig_exc_code (e : pyexc) : nat :=
  match e with
  | PyTypeError => 0 | PyValueError => 1 | PyKeyError => 2
  | PyNodeDoesNotExistError => 3 | PyEdgeDoesNotExistError => 4 | PyNetworkXError => 5
  | PyAssertionError => 6 | PyIndexError => 7
  end.
Definition cig_tokens (o : pyout (list nat)) : list nat :=
  match o with
  | Ret l => 0 :: l
  | Exc e => [1; cig_exc_code e]
  | Fuel => [2]
  end.
(** comparison of outcomes *)
Definition cig_exc_eqb (a b : pyexc) : bool := Nat.eqb (cig_exc_code a) (cig_exc_code b).
Fixpoint cig_list_eqb (a b : list nat) : bool :=
  match a, b with
  | [], [] => true
  | x :: a', y :: b' => Nat.eqb x y && cig_list_eqb a' b'
  | _, _ => false
  end.
Definition cig_out_eqb (a b : pyout (list nat)) : bool :=
  match a, b with
  | Ret x, Ret y => cig_list_eqb x y
  | Exc x, Exc y => cig_exc_eqb x y
  | _, _ => false
  end.
(** * Regression cases (data only; they are checked in the three entry point files)

    Random DAGs / random graphs with arbitrary edge types; every expected value is what the real
    library returned (seeded generator, PYTHONHASHSEED=0).  A DAG case is
    [(n, arcs, x, y, max_num_paths, (confounders, instruments, mediators), markov_boundary of x)], a mixed
    case is [(n, edges, colliders, unshielded colliders)].
    (Several thousand more cases of the same kind were checked in scratch files.) *)
Definition cig_regression_dags :
  list (nat * list (nat * nat) * nat * nat * nat * (pyout (list nat) * pyout (list nat) * pyout (list nat)) * pyout (list nat)) :=
  [(7, [(5, 6); (0, 3); (4, 6); (0, 4); (0, 6); (4, 1); (1, 2); (3, 4); (3, 6); (0, 2); (0, 1); (1, 6)], 2, 1, 25, (Ret [0], Ret [], Ret []), Ret [0; 1]);
   (4, [(3, 2); (2, 0); (3, 0); (3, 1); (2, 1)], 3, 0, 25, (Ret [], Ret [], Ret [2]), Ret [0; 1; 2]);
   (6, [(3, 1); (4, 1); (1, 5); (0, 2)], 0, 4, 25, (Ret [], Ret [], Ret []), Ret [2]);
   (5, [(1, 4); (3, 0); (3, 2); (1, 3)], 4, 2, 25, (Ret [1], Ret [], Ret []), Ret [1]);
   (7, [(4, 1); (2, 5); (1, 3); (4, 5); (0, 6); (1, 5); (4, 3); (0, 1); (0, 5); (0, 3); (4, 2); (2, 6)], 6, 2, 1, (Ret [], Ret [], Ret []), Ret [0; 2]);
   (8, [(5, 7); (4, 2); (4, 6); (7, 2); (5, 6); (0, 5); (4, 3); (5, 2); (4, 7); (1, 3); (5, 4); (7, 1); (7, 3); (0, 1)], 3, 6, 2, (Ret [4; 5], Ret [], Ret []), Ret [1; 4; 7]);
   (6, [(4, 3); (5, 3); (2, 3); (5, 4); (0, 5); (1, 2); (0, 4); (1, 5)], 5, 3, 2, (Ret [0; 1], Ret [], Ret []), Ret [0; 1; 2; 3; 4]);
   (8, [(3, 1); (3, 2); (5, 0); (3, 7); (3, 4); (6, 4); (3, 6); (7, 4); (7, 0); (0, 2)], 1, 2, 25, (Ret [3], Ret [], Ret []), Ret [3]);
   (4, [(1, 2); (0, 1)], 1, 3, 1, (Ret [], Ret [0], Ret []), Ret [0; 2]);
   (8, [(5, 4); (2, 0); (6, 3); (5, 7); (6, 1); (7, 0); (4, 1); (5, 0); (4, 0); (4, 7); (5, 3); (1, 0); (1, 3)], 7, 4, 25, (Ret [5], Ret [], Ret []), Ret [0; 1; 2; 4; 5]);
   (7, [(6, 3); (2, 3); (6, 4); (1, 6); (4, 0); (0, 3); (4, 3); (2, 0); (2, 1); (1, 5); (6, 5); (1, 3)], 3, 4, 25, (Ret [6], Ret [], Ret []), Ret [0; 1; 2; 4; 6]);
   (7, [(2, 4); (6, 4); (6, 1); (1, 4); (5, 2); (5, 1); (5, 0); (5, 6)], 1, 6, 1, (Ret [5], Ret [], Ret []), Ret [2; 4; 5; 6]);
   (5, [(3, 1); (3, 0); (3, 4); (3, 2)], 0, 4, 25, (Ret [3], Ret [], Ret []), Ret [3]);
   (5, [(3, 0); (2, 3); (1, 4); (2, 4); (3, 4); (1, 3)], 2, 1, 2, (Ret [], Ret [], Ret []), Ret [1; 3; 4]);
   (7, [(4, 6); (4, 0); (2, 4); (4, 5); (3, 0); (1, 3); (2, 1); (2, 3); (2, 0)], 0, 6, 1, (Ret [4], Ret [], Ret []), Ret [2; 3; 4]);
   (6, [(1, 2); (1, 5); (1, 4); (3, 5); (3, 2); (1, 0); (0, 4); (0, 3)], 5, 0, 1, (Ret [1], Ret [], Ret []), Ret [1; 3]);
   (8, [(1, 2); (1, 4); (2, 4); (3, 0); (3, 2); (1, 6); (5, 0)], 2, 4, 25, (Ret [1], Ret [3], Ret []), Ret [1; 3; 4]);
   (6, [(0, 2); (3, 4); (5, 1); (5, 2); (4, 5)], 3, 1, 25, (Ret [], Ret [], Ret [4; 5]), Ret [4]);
   (5, [(2, 3); (4, 1); (3, 0); (3, 4); (2, 1)], 4, 0, 25, (Ret [3], Ret [], Ret []), Ret [1; 2; 3]);
   (4, [(1, 3); (1, 0)], 1, 0, 2, (Ret [], Ret [], Ret []), Ret [0; 3]);
   (6, [(4, 1); (5, 0); (5, 2); (3, 2); (0, 4); (3, 0); (5, 1); (5, 4); (4, 2)], 0, 1, 2, (Ret [5], Ret [3], Ret []), Ret [3; 4; 5]);
   (7, [(1, 0); (3, 0); (1, 3); (6, 3); (6, 4); (6, 0); (1, 2); (2, 0); (4, 3); (5, 1)], 1, 6, 25, (Ret [], Ret [5], Ret []), Ret [0; 2; 3; 4; 5; 6]);
   (7, [(3, 0); (6, 0); (2, 0); (1, 2); (6, 4); (3, 6); (3, 4); (1, 3); (1, 0); (2, 6)], 0, 3, 25, (Ret [1], Ret [], Ret []), Ret [1; 2; 3; 6]);
   (8, [(6, 5); (7, 3); (4, 5); (1, 3); (0, 5); (1, 2); (2, 6); (1, 7); (0, 7); (1, 5); (2, 4); (0, 2); (2, 7); (3, 4)], 7, 2, 25, (Ret [0; 1], Ret [], Ret []), Ret [0; 1; 2; 3]);
   (5, [(2, 0); (4, 1); (2, 3); (4, 3); (0, 3)], 4, 1, 1, (Ret [], Ret [], Ret []), Ret [0; 1; 2; 3]);
   (8, [(6, 7); (3, 2); (4, 1); (5, 1); (4, 0); (3, 5); (2, 1); (2, 6); (4, 6); (3, 4); (0, 1); (2, 4); (7, 5)], 5, 7, 1, (Ret [3], Ret [], Ret []), Ret [0; 1; 2; 3; 4; 7]);
   (8, [(5, 4); (6, 5); (3, 4); (2, 4); (2, 5); (5, 7); (6, 4); (3, 0); (0, 7); (0, 1); (6, 1); (4, 1); (6, 7); (6, 0); (2, 0)], 7, 1, 1, (Ret [0; 5; 6], Ret [], Ret []), Ret [0; 5; 6]);
   (5, [(4, 1); (0, 3); (2, 4); (0, 4); (2, 3); (3, 4)], 3, 2, 25, (Ret [], Ret [], Ret []), Ret [0; 2; 4]);
   (5, [(2, 0); (4, 1); (1, 3)], 0, 2, 25, (Ret [], Ret [], Ret []), Ret [2]);
   (7, [(0, 6); (1, 3); (5, 0); (4, 3); (4, 6); (6, 3); (5, 6)], 4, 2, 25, (Ret [], Ret [], Ret []), Ret [0; 1; 3; 5; 6]);
   (6, [(2, 0); (3, 5); (4, 5); (0, 3); (2, 4); (2, 3)], 0, 4, 25, (Ret [2], Ret [], Ret []), Ret [2; 3]);
   (5, [(4, 0); (1, 4); (3, 0); (1, 3); (2, 0); (4, 3)], 1, 3, 2, (Ret [], Ret [], Ret [4]), Ret [3; 4]);
   (7, [(1, 3); (1, 6); (4, 0); (0, 6); (2, 5); (5, 6); (2, 0); (1, 2); (2, 3)], 2, 6, 1, (Ret [1], Ret [], Ret []), Ret [0; 1; 3; 4; 5]);
   (4, [(3, 0); (2, 0)], 0, 1, 1, (Ret [], Ret [2; 3], Ret []), Ret [2; 3]);
   (8, [(0, 3); (2, 5); (3, 1); (5, 3); (2, 3); (2, 1); (2, 4); (0, 7); (3, 4); (6, 7); (0, 2); (7, 1); (7, 3); (6, 3); (0, 4); (2, 7); (6, 1); (6, 2)], 1, 2, 25, (Ret [0; 6], Ret [], Ret []), Ret [2; 3; 6; 7]);
   (5, [(0, 3); (1, 2); (4, 0); (4, 2); (0, 2); (1, 0)], 2, 4, 1, (Ret [], Ret [], Ret []), Ret [0; 1; 4])].
Definition cig_regression_mixed : list (nat * list (nat * nat * etype) * pyout (list nat) * pyout (list nat)) :=
  [(6, [(0, 2, Bi); (2, 4, Bi); (3, 4, Bi); (1, 4, Unk); (3, 0, Bi)], Ret [0; 2; 3; 4], Ret [0; 2; 3; 4]);
   (4, [(0, 2, Und); (3, 1, Bi); (0, 3, UnkDir); (1, 0, Und); (2, 1, UnkUnd); (3, 2, Bi)], Ret [3], Ret []);
   (7, [(6, 4, Bi); (0, 3, Dir); (1, 5, Bi); (1, 2, UnkDir); (6, 1, Und); (3, 4, UnkDir); (1, 0, Dir); (1, 3, UnkUnd); (3, 2, Dir); (6, 3, Dir)], Ret [3], Ret [3]);
   (6, [(2, 3, UnkDir); (1, 5, Bi); (3, 0, UnkUnd); (2, 5, UnkDir); (3, 4, Dir); (0, 4, Bi); (5, 3, Dir); (2, 0, Dir); (1, 4, Bi)], Ret [0; 1; 4], Ret [0; 1]);
   (4, [(2, 1, Dir); (0, 2, Dir); (1, 0, UnkDir); (3, 2, UnkDir); (3, 0, Bi)], Ret [], Ret []);
   (4, [(2, 3, Und); (0, 2, Bi); (2, 1, Bi)], Ret [2], Ret [2]);
   (4, [(0, 3, Dir); (2, 0, Bi); (1, 3, Dir); (3, 2, Unk); (1, 2, Dir)], Ret [2; 3], Ret [2; 3]);
   (6, [(1, 0, Bi); (5, 3, UnkDir); (3, 1, Und); (0, 4, Dir); (1, 5, UnkDir); (0, 5, Bi)], Ret [0], Ret []);
   (7, [(5, 2, Dir); (3, 2, Dir); (1, 6, UnkDir); (1, 5, UnkUnd); (1, 0, UnkDir); (0, 4, UnkUnd); (4, 1, Dir); (6, 4, Und); (2, 4, UnkDir); (1, 2, Dir); (5, 3, Dir); (3, 1, Und); (3, 4, UnkUnd); (2, 0, Dir)], Ret [2], Ret []);
   (4, [(1, 2, Bi); (0, 3, UnkDir); (3, 2, Dir); (0, 2, Bi)], Ret [2], Ret []);
   (7, [(1, 4, Bi); (3, 0, Bi); (3, 5, Dir); (6, 4, Dir); (2, 3, Dir); (4, 2, Unk); (4, 5, UnkDir); (5, 0, UnkUnd); (1, 0, UnkDir); (4, 0, Dir); (6, 1, UnkDir); (2, 6, Bi); (1, 5, Dir); (3, 6, Dir)], Ret [0; 3; 4; 5; 6], Ret [0; 3; 5]);
   (6, [(1, 3, Dir); (0, 3, Dir); (2, 0, Dir); (4, 0, Bi); (2, 4, Unk); (4, 1, Bi); (2, 3, Bi)], Ret [0; 3; 4], Ret [4]);
   (5, [(3, 4, Dir); (4, 2, Dir); (3, 2, Unk); (1, 3, Unk); (1, 0, Bi); (4, 1, Dir); (1, 2, Dir); (0, 2, Bi)], Ret [0; 1; 2], Ret [1]);
   (6, [(0, 4, UnkUnd); (4, 1, Dir); (2, 4, Dir); (1, 2, Bi); (3, 0, UnkDir); (5, 4, Bi); (1, 0, Dir); (1, 5, Unk); (3, 2, Bi); (3, 1, Bi)], Ret [1; 2; 3; 4], Ret [4]);
   (6, [(0, 1, Unk); (4, 0, Dir); (5, 0, Unk); (4, 2, Bi); (2, 1, Und); (3, 1, Und); (1, 4, Bi); (5, 3, Unk)], Ret [4], Ret []);
   (4, [(3, 0, Bi); (2, 0, UnkDir); (1, 3, Dir); (1, 0, Dir)], Ret [0; 3], Ret [])].
