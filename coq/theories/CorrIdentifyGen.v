(** CorrIdentifyGen.v — entry points for a correspondence harness: the functions GENERATED from
    cai_causal_graph/identify_utils.py (IdentifyGen.v) evaluated on a DAG over the vertices
    [0 .. n-1] given by its arc list (DEFINITIONS ONLY, plus a few pinned examples).

    - the graph is [{| verts := seq 0 n; arcs := arcs |}] (nodes added in the order 0 .. n-1, then
      the edges in the order of the list);
    - [None] is the number [n] and the empty string the number [n + 1] (neither is a vertex);
    - the recursion fuel is [n + 1] (IdentifyGenProofs.v proves that it suffices on a DAG);
    - a result is [Ret l] with [l] SORTED (Python returns [list(set)], whose order is hash
      dependent), [Exc e] when the Python function raises [e], [Fuel] never on a DAG. *)
From CG Require Import Base Digraph Identify Markov PyRt IdentifyGen.
Set Implicit Arguments.

Definition cig_graph (n : nat) (arcs : list (nat * nat)) : digraph nat :=
  {| verts := seq 0 n; arcs := arcs |}.
Definition cig_none (n : nat) : nat := n.
Definition cig_empty_str (n : nat) : nat := S n.
Definition cig_fuel (n : nat) : nat := n + 1.

Definition cig_sorted (o : pyout (list nat)) : pyout (list nat) :=
  match o with
  | Ret l => Ret (isort Nat.leb l)
  | Exc e => Exc e
  | Fuel => Fuel
  end.

(** [identify_confounders(graph, x, y)] *)
Definition cig_confounders (n : nat) (arcs : list (nat * nat)) (x y : nat) : pyout (list nat) :=
  cig_sorted (gen_identify_confounders Nat.eqb (cig_none n) (cig_empty_str n) (cig_fuel n)
                (cig_graph n arcs) x y).

(** [identify_instruments(graph, x, y, max_num_paths)] *)
Definition cig_instruments_max (n : nat) (arcs : list (nat * nat)) (x y max_num_paths : nat)
  : pyout (list nat) :=
  cig_sorted (gen_identify_instruments Nat.eqb (cig_none n) (cig_empty_str n) (cig_fuel n)
                (cig_graph n arcs) x y max_num_paths).

(** [identify_mediators(graph, x, y, max_num_paths)] *)
Definition cig_mediators_max (n : nat) (arcs : list (nat * nat)) (x y max_num_paths : nat)
  : pyout (list nat) :=
  cig_sorted (gen_identify_mediators Nat.eqb (cig_none n) (cig_empty_str n) (cig_fuel n)
                (cig_graph n arcs) x y max_num_paths).

(** with the default [max_num_paths = 25] *)
Definition cig_instruments (n : nat) (arcs : list (nat * nat)) (x y : nat) : pyout (list nat) :=
  cig_instruments_max n arcs x y 25.
Definition cig_mediators (n : nat) (arcs : list (nat * nat)) (x y : nat) : pyout (list nat) :=
  cig_mediators_max n arcs x y 25.

(** [identify_markov_boundary(graph, x)] *)
Definition cig_markov_boundary (n : nat) (arcs : list (nat * nat)) (x : nat) : pyout (list nat) :=
  cig_sorted (gen_identify_markov_boundary Nat.eqb (cig_none n) (cig_empty_str n) (cig_graph n arcs) x).

(** [identify_colliders(graph, unshielded_only)] on a graph with arbitrary edge types: the nodes
    [0 .. n-1] and the edges [(source, destination, type)] in insertion order. *)
Definition cig_colliders (n : nat) (edges : list (nat * nat * etype)) (unshielded_only : bool)
  : pyout (list nat) :=
  cig_sorted (gen_identify_colliders Nat.eqb {| mnodes := seq 0 n; medges := edges |} unshielded_only).

(** The three result sets of one call. *)
Definition cig_all (n : nat) (arcs : list (nat * nat)) (x y : nat)
  : pyout (list nat) * pyout (list nat) * pyout (list nat) :=
  (cig_confounders n arcs x y, cig_instruments n arcs x y, cig_mediators n arcs x y).

(** Token form for a harness that compares numbers: [0 :: sorted result] for a normal return,
    [[1; k]] for an exception ([k] = 0 TypeError, 1 ValueError, 2 KeyError,
    3 NodeDoesNotExistError, 4 EdgeDoesNotExistError, 5 NetworkXError), [[2]] for fuel. *)
Definition cig_exc_code (e : pyexc) : nat :=
  match e with
  | PyTypeError => 0 | PyValueError => 1 | PyKeyError => 2
  | PyNodeDoesNotExistError => 3 | PyEdgeDoesNotExistError => 4 | PyNetworkXError => 5
  end.
Definition cig_tokens (o : pyout (list nat)) : list nat :=
  match o with
  | Ret l => 0 :: l
  | Exc e => [1; cig_exc_code e]
  | Fuel => [2]
  end.
Definition cig_all_tokens (n : nat) (arcs : list (nat * nat)) (x y : nat) : list (list nat) :=
  let '(c, i, m) := cig_all n arcs x y in [cig_tokens c; cig_tokens i; cig_tokens m].

(** * Pinned examples (every right-hand side was obtained from the real library) *)

(** docstring of [identify_confounders]: z=0 u=1 x=2 y=3 *)
Example cig_ex_conf : cig_confounders 4 [(0, 1); (1, 2); (1, 3); (2, 3)] 2 3 = Ret [1].
Proof. vm_compute. reflexivity. Qed.
(** docstring of [identify_instruments]: z=0 u=1 x=2 y=3 *)
Example cig_ex_inst : cig_instruments 4 [(0, 2); (1, 2); (1, 3); (2, 3)] 2 3 = Ret [0].
Proof. vm_compute. reflexivity. Qed.
(** docstring of [identify_mediators]: x=0 m=1 y=2 u=3 *)
Example cig_ex_med : cig_mediators 4 [(0, 1); (1, 2); (3, 0); (3, 2); (0, 2)] 0 2 = Ret [1].
Proof. vm_compute. reflexivity. Qed.
(** equal nodes: ValueError; unknown node: NodeDoesNotExistError *)
Example cig_ex_errors :
  cig_confounders 2 [(0, 1)] 1 1 = Exc PyValueError /\
  cig_confounders 2 [(0, 1)] 0 5 = Exc PyNodeDoesNotExistError /\
  cig_mediators 2 [(0, 1)] 7 0 = Exc PyNodeDoesNotExistError.
Proof. vm_compute. repeat split; reflexivity. Qed.
(** x -> a -> y, x -> b -> y, x -> y: three causal paths; with max_num_paths = 1 the third one
    (index 2 > 1) makes identify_mediators raise ValueError; with max_num_paths = 2 it returns [] *)
Example cig_ex_max_paths :
  cig_mediators_max 4 [(0, 1); (1, 3); (0, 2); (2, 3); (0, 3)] 0 3 1 = Exc PyValueError /\
  cig_mediators_max 4 [(0, 1); (1, 3); (0, 2); (2, 3); (0, 3)] 0 3 2 = Ret [].
Proof. vm_compute. split; reflexivity. Qed.
(** docstring of [identify_markov_boundary]: u v b c a d e w f x y g z = 0 .. 12 *)
Example cig_ex_markov :
  cig_markov_boundary 13 [(0, 2); (1, 3); (2, 4); (3, 4); (4, 5); (4, 6); (7, 8); (8, 5); (5, 9);
                          (5, 10); (11, 6); (11, 12)] 4 = Ret [2; 3; 5; 6; 8; 11] /\
  cig_markov_boundary 2 [(0, 1)] 5 = Exc PyNodeDoesNotExistError.
Proof. vm_compute. split; reflexivity. Qed.
(** a -> c <- b, c <> d, d -- e, a -> e (a b c d e = 0 .. 4): c (a, b, d point into it) and d
    (c <> d only: one arrowhead) ... the real library returns ['c'] for both settings of
    unshielded_only; adding b -> a keeps c a collider, unshielded because a, d are not adjacent *)
Example cig_ex_colliders :
  cig_colliders 5 [(0, 2, Dir); (1, 2, Dir); (2, 3, Bi); (3, 4, Und); (0, 4, Dir)] false = Ret [2] /\
  cig_colliders 5 [(0, 2, Dir); (1, 2, Dir); (2, 3, Bi); (3, 4, Und); (0, 4, Dir)] true = Ret [2] /\
  cig_colliders 3 [(0, 2, Dir); (1, 2, Dir); (0, 1, Und)] false = Ret [2] /\
  cig_colliders 3 [(0, 2, Dir); (1, 2, Dir); (0, 1, Und)] true = Ret [].
Proof. vm_compute. repeat split; reflexivity. Qed.
