(** Cache.v — property C04: memoised answers always reflect the current graph.

    The Python classes [CausalGraph] / [TimeSeriesCausalGraph] keep memoised attributes
    ([_is_dag], [_networkx], [_adjacency], [_is_fully_directed_cached], [_is_fully_undirected_cached];
    TS adds [_variables], [_is_minimal_graph], [_is_stationary_graph]).  Readers follow

        if self._x is None: self._x = compute(); return self._x        (or the [is not None] / copy variant)

    and every public mutator carries [reset_cached_attributes_decorator], which runs
    [self._reset_cached_attributes()] AFTER the wrapped function returned normally — and NOT when it raised.

    This file is a PARAMETRIC meta-theorem about that mechanism; nothing here mentions graphs.
      - [core]     the uncached state (the graph proper);
      - [field]    names of the memoised attributes;
      - [compute]  the uncached answer of a field on a core state (what a freshly rebuilt,
                   never-queried copy would answer);
      - [stores]   whether a reader memoises the value it computed (a reader that raises, e.g.
                   [to_networkx] on a mixed graph, stores nothing; the value [None] is never "stored");
      - [apply]    a mutator call: the new core and whether the call returned normally;
      - [resets]   fields cleared when the call returns normally (the decorator);
      - [fail_clears]  fields that happen to be cleared although the call raised (inner decorated calls
                   that returned normally before the failure).
    The two hypotheses are exactly what has to be established about the real code:
      (H1) a successful mutator clears every field whose answer it can change
           (implied by "clears every field", [H1_of_total_reset], which Facts.v proves from the
           tables extracted from the Python source);
      (H2) a failed mutator leaves the answer of every field it did not clear unchanged
           (this is where failure atomicity, property C03, enters).
    [stale_possible] / [stale_possible_failure] show that neither hypothesis can be dropped. *)
From CG Require Import Base.

Section CacheMeta.
  Variable core : Type.
  Variable field : Type.
  Variable value : Type.
  Variable mutator : Type.
  Variable field_eq_dec : forall f g : field, {f = g} + {f <> g}.
  Variable compute : field -> core -> value.
  Variable stores : field -> value -> bool.
  Variable apply : mutator -> core -> core * bool.
  Variable resets : mutator -> field -> bool.
  Variable fail_clears : mutator -> field -> bool.

  Record sys : Type := mkSys { st : core; cache : field -> option value }.

  Inductive event : Type :=
  | Read (f : field)
  | Mutate (m : mutator).

  (** A freshly constructed (never queried) object: [__init__] assigns [None] to every cache attribute. *)
  Definition init (c : core) : sys := mkSys c (fun _ => None).

  (** [if self._x is None: self._x = compute(); return self._x] *)
  Definition read (f : field) (s : sys) : sys * value :=
    match cache s f with
    | Some v => (s, v)
    | None =>
        let v := compute f (st s) in
        if stores f v
        then (mkSys (st s) (fun g => if field_eq_dec g f then Some v else cache s g), v)
        else (s, v)
    end.

  (** A decorated mutator call.  Normal return: the decorator clears [resets m].  Exception: the
      decorator does not run; the core is whatever the failed call left behind and only the fields in
      [fail_clears m] were cleared on the way. *)
  Definition mutate (m : mutator) (s : sys) : sys :=
    let (c', ok) := apply m (st s) in
    mkSys c' (fun f => if (if ok then resets m f else fail_clears m f) then None else cache s f).

  Definition step (s : sys) (e : event) : sys :=
    match e with
    | Read f => fst (read f s)
    | Mutate m => mutate m s
    end.

  (** What the caller sees. *)
  Definition output (s : sys) (e : event) : option value :=
    match e with
    | Read f => Some (snd (read f s))
    | Mutate _ => None
    end.

  Definition run (s : sys) (h : list event) : sys := fold_left step h s.

  (** The full observable trace: the core state before each event, the event, its output. *)
  Fixpoint trace (s : sys) (h : list event) : list (core * event * option value) :=
    match h with
    | [] => []
    | e :: h' => (st s, e, output s e) :: trace (step s e) h'
    end.

  Definition coherent (s : sys) : Prop :=
    forall f v, cache s f = Some v -> v = compute f (st s).

  (** ** Facts that need no hypothesis *)

  Lemma coherent_init : forall c, coherent (init c).
  Proof. intros c f v Hc. simpl in Hc. discriminate Hc. Qed.

  Lemma read_st : forall f s, st (fst (read f s)) = st s.
  Proof.
    intros f s. unfold read. destruct (cache s f) as [v|]; [reflexivity|].
    destruct (stores f (compute f (st s))); reflexivity.
  Qed.

  Lemma read_coherent : forall f s, coherent s -> coherent (fst (read f s)).
  Proof.
    intros f s Hs. unfold read. destruct (cache s f) as [v0|] eqn:Ef; [exact Hs|].
    destruct (stores f (compute f (st s))) eqn:Est; [|exact Hs].
    intros g v. simpl. destruct (field_eq_dec g f) as [Heq|Hne].
    - subst g. intros Hv. injection Hv as Hv. symmetry. exact Hv.
    - apply Hs.
  Qed.

  Lemma read_value : forall f s, coherent s -> snd (read f s) = compute f (st s).
  Proof.
    intros f s Hs. unfold read. destruct (cache s f) as [v0|] eqn:Ef.
    - simpl. apply Hs. exact Ef.
    - destruct (stores f (compute f (st s))); reflexivity.
  Qed.

  (** Reading never changes what any later read returns (reads are idempotent observers). *)
  Lemma read_read : forall f g s, coherent s -> snd (read g (fst (read f s))) = snd (read g s).
  Proof.
    intros f g s Hs. rewrite (read_value g (fst (read f s)) (read_coherent f s Hs)), read_st.
    symmetry. apply read_value. exact Hs.
  Qed.

  (** ** The negative direction: the hypotheses are not vacuous.
      If a mutator succeeds, changes the answer of a field and does not clear it, then the history
      [Read f; Mutate m] leaves a stale value that the next [Read f] returns. *)
  Theorem stale_possible :
    forall m f c c',
      apply m c = (c', true) -> resets m f = false ->
      stores f (compute f c) = true ->
      compute f c' <> compute f c ->
      exists h : list event,
        let s := run (init c) h in
        st s = c' /\ ~ coherent s /\ snd (read f s) <> compute f (st s).
  Proof.
    intros m f c c' Hap Hres Hst Hne. exists [Read f; Mutate m].
    assert (Hrun : run (init c) [Read f; Mutate m]
                   = mkSys c' (fun g => if resets m g then None
                                        else if field_eq_dec g f then Some (compute f c) else None)).
    { unfold run. simpl. unfold read. simpl. rewrite Hst. simpl. unfold mutate. simpl.
      rewrite Hap. reflexivity. }
    cbv zeta. rewrite Hrun. simpl.
    assert (Hcf : (if resets m f then None
                   else if field_eq_dec f f then Some (compute f c) else None) = Some (compute f c)).
    { rewrite Hres. destruct (field_eq_dec f f) as [_|Hbad]; [reflexivity|]. exfalso. apply Hbad. reflexivity. }
    split; [reflexivity|]. split.
    - intros Hco. apply Hne. symmetry. apply (Hco f (compute f c)). simpl. exact Hcf.
    - unfold read. simpl. rewrite Hcf. simpl. intros Heq. apply Hne. symmetry. exact Heq.
  Qed.

  (** The same for a FAILED call that nevertheless changed the answer (no failure atomicity) and did
      not clear the field: this is why the decorator not running on exceptions needs (H2). *)
  Theorem stale_possible_failure :
    forall m f c c',
      apply m c = (c', false) -> fail_clears m f = false ->
      stores f (compute f c) = true ->
      compute f c' <> compute f c ->
      exists h : list event,
        let s := run (init c) h in
        st s = c' /\ ~ coherent s /\ snd (read f s) <> compute f (st s).
  Proof.
    intros m f c c' Hap Hres Hst Hne. exists [Read f; Mutate m].
    assert (Hrun : run (init c) [Read f; Mutate m]
                   = mkSys c' (fun g => if fail_clears m g then None
                                        else if field_eq_dec g f then Some (compute f c) else None)).
    { unfold run. simpl. unfold read. simpl. rewrite Hst. simpl. unfold mutate. simpl.
      rewrite Hap. reflexivity. }
    cbv zeta. rewrite Hrun. simpl.
    assert (Hcf : (if fail_clears m f then None
                   else if field_eq_dec f f then Some (compute f c) else None) = Some (compute f c)).
    { rewrite Hres. destruct (field_eq_dec f f) as [_|Hbad]; [reflexivity|]. exfalso. apply Hbad. reflexivity. }
    split; [reflexivity|]. split.
    - intros Hco. apply Hne. symmetry. apply (Hco f (compute f c)). simpl. exact Hcf.
    - unfold read. simpl. rewrite Hcf. simpl. intros Heq. apply Hne. symmetry. exact Heq.
  Qed.

  (** ** The positive direction *)

  (** (H1) a successful mutator clears every field whose answer it can change. *)
  Hypothesis H1 :
    forall m c c' f, apply m c = (c', true) -> resets m f = false -> compute f c' = compute f c.
  (** (H2) a failed mutator leaves the answer of every field it did not clear unchanged. *)
  Hypothesis H2 :
    forall m c c', apply m c = (c', false) ->
                   forall f, fail_clears m f = false -> compute f c' = compute f c.

  Lemma mutate_coherent : forall m s, coherent s -> coherent (mutate m s).
  Proof.
    intros m s Hs. unfold mutate. destruct (apply m (st s)) as [c' ok] eqn:Hap.
    intros f v. simpl. destruct ok.
    - destruct (resets m f) eqn:Hr; [intros Hd; discriminate Hd|].
      intros Hc. rewrite (H1 m (st s) c' f Hap Hr). apply Hs. exact Hc.
    - destruct (fail_clears m f) eqn:Hr; [intros Hd; discriminate Hd|].
      intros Hc. rewrite (H2 m (st s) c' Hap f Hr). apply Hs. exact Hc.
  Qed.

  Theorem step_coherent : forall s e, coherent s -> coherent (step s e).
  Proof.
    intros s [f|m] Hs; simpl.
    - apply read_coherent. exact Hs.
    - apply mutate_coherent. exact Hs.
  Qed.

  Lemma run_coherent : forall h s, coherent s -> coherent (run s h).
  Proof.
    induction h as [|e h IH]; intros s Hs; simpl; [exact Hs|].
    apply IH. apply step_coherent. exact Hs.
  Qed.

  (** Any interleaving of reads and mutations, from a freshly constructed object, is coherent. *)
  Theorem history_coherent : forall c h, coherent (run (init c) h).
  Proof. intros c h. apply run_coherent. apply coherent_init. Qed.

  (** After ANY history, reading ANY field returns the uncached answer on the current core.  Since
      every prefix of a history is a history, this covers every read of every history. *)
  Theorem read_correct :
    forall c h f, snd (read f (run (init c) h)) = compute f (st (run (init c) h)).
  Proof. intros c h f. apply read_value. apply history_coherent. Qed.

  Lemma trace_coherent :
    forall h s c0 f v, coherent s -> In (c0, Read f, Some v) (trace s h) -> v = compute f c0.
  Proof.
    induction h as [|e h IH]; intros s c0 f v Hs Hin; simpl in Hin; [contradiction|].
    destruct Hin as [Heq|Hin].
    - destruct e as [g|m]; simpl in Heq; [|discriminate Heq].
      injection Heq as Hc Hg Hv. subst c0 g. rewrite <- Hv. apply read_value. exact Hs.
    - apply (IH (step s e)); [apply step_coherent; exact Hs|exact Hin].
  Qed.

  (** The same, phrased on the whole trace: EVERY read event of ANY history returned the uncached
      answer on the core state at the time of the read. *)
  Theorem trace_read_correct :
    forall c h c0 f v, In (c0, Read f, Some v) (trace (init c) h) -> v = compute f c0.
  Proof. intros c h c0 f v. apply trace_coherent. apply coherent_init. Qed.

  (** A cached and an uncached object that went through the same history are indistinguishable:
      the cached system's core is the plain fold of the mutators. *)
  Definition core_step (c : core) (e : event) : core :=
    match e with Read _ => c | Mutate m => fst (apply m c) end.

  Lemma run_st : forall h s, st (run s h) = fold_left core_step h (st s).
  Proof.
    induction h as [|e h IH]; intros s; simpl; [reflexivity|].
    rewrite IH. f_equal. destruct e as [f|m]; simpl.
    - apply read_st.
    - unfold mutate. destruct (apply m (st s)) as [c' ok]. reflexivity.
  Qed.

  Theorem read_equals_fresh :
    forall c h f,
      snd (read f (run (init c) h)) = snd (read f (init (fold_left core_step h c))).
  Proof.
    intros c h f. rewrite read_correct, run_st. simpl.
    symmetry. apply read_value. apply coherent_init.
  Qed.
End CacheMeta.

Arguments Read {field mutator} f.
Arguments Mutate {field mutator} m.
Arguments mkSys {core field value} st cache.
Arguments st {core field value} s.
Arguments cache {core field value} s.
Arguments init {core field value} c.
Arguments read {core field value} field_eq_dec compute stores f s.
Arguments mutate {core field value mutator} apply resets fail_clears m s.
Arguments step {core field value mutator} field_eq_dec compute stores apply resets fail_clears s e.
Arguments output {core field value mutator} field_eq_dec compute stores s e.
Arguments run {core field value mutator} field_eq_dec compute stores apply resets fail_clears s h.
Arguments trace {core field value mutator} field_eq_dec compute stores apply resets fail_clears s h.
Arguments coherent {core field value} compute s.
Arguments core_step {core field mutator} apply c e.
Arguments stale_possible {core field value mutator} field_eq_dec compute stores apply resets fail_clears.
Arguments stale_possible_failure {core field value mutator} field_eq_dec compute stores apply resets fail_clears.
Arguments history_coherent {core field value mutator} field_eq_dec compute stores apply resets fail_clears.
Arguments read_correct {core field value mutator} field_eq_dec compute stores apply resets fail_clears.
Arguments trace_read_correct {core field value mutator} field_eq_dec compute stores apply resets fail_clears.
Arguments read_equals_fresh {core field value mutator} field_eq_dec compute stores apply resets fail_clears.
Arguments step_coherent {core field value mutator} field_eq_dec compute stores apply resets fail_clears.

(** (H1) follows from the coarse, table-checkable condition "every successful mutator clears every field". *)
Lemma H1_of_total_reset :
  forall (core field value mutator : Type) (compute : field -> core -> value)
         (apply : mutator -> core -> core * bool) (resets : mutator -> field -> bool),
    (forall m f, resets m f = true) ->
    forall m c c' f, apply m c = (c', true) -> resets m f = false -> compute f c' = compute f c.
Proof.
  intros core field value mutator compute apply resets Hall m c c' f _ Hr.
  rewrite (Hall m f) in Hr. discriminate Hr.
Qed.

(** * A concrete tiny instance (non-vacuity of the hypotheses)

    core = nat, one field (the parity of the number), two mutators:
    [Incr] always succeeds; [Decr] fails on 0 and leaves the state unchanged. *)
Module TinyInstance.
  Inductive mut := Incr | Decr.

  Definition t_compute (_ : unit) (n : nat) : bool := Nat.even n.
  Definition t_stores (_ : unit) (_ : bool) : bool := true.
  Definition t_apply (m : mut) (n : nat) : nat * bool :=
    match m, n with
    | Incr, _ => (S n, true)
    | Decr, 0 => (0, false)
    | Decr, S k => (k, true)
    end.
  Definition t_resets (_ : mut) (_ : unit) : bool := true.
  Definition t_fail_clears (_ : mut) (_ : unit) : bool := false.

  Definition unit_eq_dec : forall a b : unit, {a = b} + {a <> b}.
  Proof. intros [] []. left. reflexivity. Defined.

  Example tiny_H1 :
    forall m c c' f, t_apply m c = (c', true) -> t_resets m f = false -> t_compute f c' = t_compute f c.
  Proof. intros m c c' f _ Hr. discriminate Hr. Qed.

  Example tiny_H2 :
    forall m c c', t_apply m c = (c', false) ->
                   forall f, t_fail_clears m f = false -> t_compute f c' = t_compute f c.
  Proof.
    intros m c c' Hap f _. destruct m; simpl in Hap.
    - discriminate Hap.
    - destruct c as [|k]; [|discriminate Hap]. injection Hap as Hc. subst c'. reflexivity.
  Qed.

  (** The meta-theorem applies to the instance. *)
  Example tiny_read_correct :
    forall c h f,
      snd (read unit_eq_dec t_compute t_stores f (run unit_eq_dec t_compute t_stores t_apply t_resets t_fail_clears (init c) h))
      = t_compute f (st (run unit_eq_dec t_compute t_stores t_apply t_resets t_fail_clears (init c) h)).
  Proof. intros c h f. apply read_correct; [exact tiny_H1|exact tiny_H2]. Qed.

  (** A concrete history, by computation: outputs are the parities of 1, 2, 1, 0, 0 (failed Decr), 0. *)
  Example tiny_trace :
    map (fun x => snd x)
        (trace unit_eq_dec t_compute t_stores t_apply t_resets t_fail_clears (init 1)
               [Read tt; Mutate Incr; Read tt; Mutate Decr; Read tt; Mutate Decr; Read tt;
                Mutate Decr; Read tt])
    = [Some false; None; Some true; None; Some false; None; Some true; None; Some true].
  Proof. vm_compute. reflexivity. Qed.

  (** The same instance with a decorator-less [Incr]: the stale read is real. *)
  Definition bad_resets (m : mut) (_ : unit) : bool := match m with Incr => false | Decr => true end.

  Example tiny_stale :
    map (fun x => snd x)
        (trace unit_eq_dec t_compute t_stores t_apply bad_resets t_fail_clears (init 1)
               [Read tt; Mutate Incr; Read tt])
    = [Some false; None; Some false]   (* 2 is even: the fresh answer would be [Some true] *).
  Proof. vm_compute. reflexivity. Qed.

  Example tiny_stale_by_theorem :
    exists h : list (event unit mut),
      let s := run unit_eq_dec t_compute t_stores t_apply bad_resets t_fail_clears (init 1) h in
      st s = 2 /\ ~ coherent t_compute s /\ snd (read unit_eq_dec t_compute t_stores tt s) <> t_compute tt (st s).
  Proof.
    apply (stale_possible unit_eq_dec t_compute t_stores t_apply bad_resets t_fail_clears Incr tt 1 2);
      try reflexivity.
    vm_compute. intros Hd. discriminate Hd.
  Qed.
End TinyInstance.
