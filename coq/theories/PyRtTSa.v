(** PyRtTSa.v — the runtime targeted by /verif/tools/translate_ts_summary.py
    (DEFINITIONS and pinned [Example]s only; proofs about the generated code are in
    TSGenSummaryProofs.v and TSGenStationaryProofs.v).

    The translator reads, with the Python [ast] module only, three methods of class
    [TimeSeriesCausalGraph] (cai_causal_graph/time_series_causal_graph.py) and writes, independently,
      TSGenSummary.v     get_summary_graph                            (property C17)
      TSGenStationary.v  get_stationary_graph, is_stationary_graph    (property C16)
    one Gallina definition per method, statement by statement.  The control flow (loops, ifs, continue,
    early returns, asserts, order of the tests, which arguments are passed) comes from the Python text; the
    GRAPH API the methods call is mapped by the table below onto the primitive operations of the
    hand-written model TSGraph.v.  That table is the trusted part.

    ** Conventions
    - Outcome of a call: [Ret v] (normal return) / [Exc e] (an exception; [e : Base.err] is the exception
      CLASS as the hand model names it, messages are not modelled).  The three methods contain [for] loops
      only: there is no fuel.  [out_res] / [res_out] convert between [pyout] and the model's [res].
    - [self] and every other [TimeSeriesCausalGraph] is a [tsg] (TSGraph.v: nodes keyed by (variable, lag) in
      dict insertion order, edges, graph metadata); a plain [CausalGraph] (the summary graph) is a [pgraph].
      A graph object that the method mutates ([summary_graph]) is threaded through as state: each
      mutating call rebinds the variable.  The translator refuses aliasing of such a variable.
    - An edge returned by [self.get_edges()] is a [tedge] (keys of the two endpoints, type, metadata).  Its
      endpoints [edge.source] / [edge.destination] are REFERENCES to nodes of [self] ([key] = (variable name,
      lag)); [.variable_name] / [.time_lag] of a reference read the key, [.meta] / [.variable_type] look the
      node up in [self] ([Exc ENodeMissing] on an ill-formed state whose edge ends at something that is not
      a node — unreachable in Python; TSGraph.v reports the same error at the same place).
    - A [TimeSeriesNode] OBJECT (an item of [self.get_nodes()], or built by [self._NodeCls(..)]) is a
      [tnode]; [tm] is the USER metadata (without the reserved tags 'variable_name' / 'time_lag', which every
      constructor recomputes from the identifier: TSGraph.v header).
    - A [TimeSeriesEdge] OBJECT built by [self._EdgeCls(..)] from node objects is a [tsedgeobj].
    - Instance attributes used as caches ([self._is_stationary_graph]) are an explicit state variable of
      type [option bool] ([None] = Python None): an extra parameter [c_<attr>] of the generated function,
      whose final value is returned together with the result, [Ret (c_<attr>, result)].  Every mutating call
      of the library resets these caches to None ([_reset_cached_attributes]).
    - A value of Python type Optional[bool] is an [option bool]; a bool literal returned by a function that
      also returns such a value is wrapped in [Some].
    - [int] is [Z]; a Python list is a [list].

    ** THE TRUSTED TABLE: Python construct |-> Coq term emitted by the translator
       -- control ---------------------------------------------------------------------------------------
       return e                       |-> inj (Ret e)
       assert c [, msg]               |-> if c then .. else inj (Exc EAssert)       (message dropped)
       for x in xs: body ; rest       |-> py_for inj xs state (fun x state => body) (fun state => rest)
       continue                       |-> Cont state          (falling off the end of the body: the same)
       if c: a else: b ; rest         |-> if c then a;rest else b;rest
       a call that can raise          |-> py_bind inj <call> (fun r => ..), hoisted in evaluation order
       a, b = x, y                    |-> let a' := x in let b' := y in (both right-hand sides first)
       logger.warning(<constant>)     |-> (nothing)
       'text'.format(..)  as an assert message |-> (nothing)
       isinstance(x, TimeSeriesNode)  |-> py_isinstance_TimeSeriesNode x   (true: x is a node reference / object)
       x is not None   (x a variable name, i.e. a str)   |-> py_str_is_not_None x    (true)
       x is None       (x an Optional[bool])             |-> py_opt_is_None x
       a == b (str) , a == b (EdgeType) , not a          |-> name_eqb a b , etype_eqb a b , negb a
       x not in l  (str, list of str) |-> negb (mem x l)
       -e (int)                       |-> Z.opp e
       sorted(l)  (list of int)       |-> py_sorted_int l                 (isort Z.leb)
       l[0] , l[-1]                   |-> py_list_first l , py_list_last l  (Exc EIndex on the empty list)
       [e for x in xs]                |-> map (fun x => e) xs
       deepcopy(m)                    |-> py_deepcopy m                   (m itself: values are immutable here)
       EdgeType.DIRECTED_EDGE ..      |-> Dir Und Bi Unk UnkDir UnkUnd    (-> -- <> oo o> o-)
       -- self : TimeSeriesCausalGraph (tsg) -------------------------------------------------------------
       self.is_dag()                  |-> py_ts_is_dag self               (ts_is_dag)
       self.meta                      |-> py_ts_meta self                 (tgmeta)
       self.get_edges()               |-> py_ts_get_edges self            (sorted_edges: by (source id, destination id))
       self.get_nodes()               |-> py_ts_get_nodes self            (sorted_nodes: by identifier)
       self.get_all_variable_names()  |-> py_ts_get_all_variable_names self   (variables: sorted, no duplicates)
       self.get_minimal_graph()       |-> py_ts_get_minimal_graph self    (TSGraph.minimal; translated separately)
       g.extend_graph(b, f, include_all_parents=p)
                                      |-> py_ts_extend_graph g b f p      (TSGraph.extend; translated separately;
                                          parameters in the order backward_steps, forward_steps,
                                          include_all_parents, defaults None, None, True; an int argument is [Some z])
       a == b  (two time-series graphs) |-> py_ts_graph_eq a b            (ts_graph_eqb a b: shallow CausalGraph.__eq__)
       self._SummaryGraphCls(meta=m)  |-> py_cg_new m                     (empty plain CausalGraph)
       self._NodeCls(identifier=v, meta=m, variable_type=t)   (v a variable name: lag 0)
                                      |-> py_TimeSeriesNode v m t         ({| tv := v; tl := 0; tvt := t; tm := m |})
       self._EdgeCls(source=s, destination=d, edge_type=t, meta=m)   (s, d node objects)
                                      |-> py_TimeSeriesEdge s d t m       (ValueError for a directed edge that goes back
                                          in time, endpoints swapped for any other type that does; TSGraph.add_edge)
       self.get_stationary_graph()    |-> gen_get_stationary_graph self   (the translated method itself)
       self._is_stationary_graph      |-> c__is_stationary_graph          (cache state, see above)
       -- edges and nodes of self ------------------------------------------------------------------------
       e.source , e.destination       |-> py_tsedge_source e , py_tsedge_destination e     (node references)
       e.edge_type , e.meta           |-> py_tsedge_edge_type e , py_tsedge_meta e
       r.variable_name                |-> py_noderef_variable_name r      (never None in the model)
       r.meta , r.variable_type       |-> py_noderef_meta self r , py_noderef_variable_type self r
       n.time_lag  (n a node object)  |-> py_tsnode_time_lag n
       -- summary_graph : CausalGraph (pgraph) -----------------------------------------------------------
       sg.is_edge_by_pair((a, b))     |-> py_cg_is_edge_by_pair sg a b    (p_edge_exists: an edge STORED as (a, b))
       sg.get_edge(a, b)              |-> py_cg_get_edge sg a b           (p_find_edge; Exc EEdgeMissing)
       r.get_edge_type() , r.meta     |-> py_pedge_get_edge_type r , py_pedge_meta r
       sg.remove_edge(a, b)           |-> sg := py_cg_remove_edge sg a b  (p_remove_edge; Exc EEdgeMissing if absent.
                                          NodeDoesNotExistError for an endpoint that is not a node is NOT modelled:
                                          every edge of a pgraph built by p_add_edge has both endpoints as nodes)
       sg.add_edge(a, b, edge_type=t, meta=m, validate=False)   (a, b identifiers)
                                      |-> sg := py_cg_add_edge_ids sg a b t m   (p_add_edge with bare nodes)
       sg.add_edge(edge=e, validate=False)   (e an edge OBJECT with node objects)
                                      |-> sg := py_cg_add_edge_obj sg e   (p_add_edge; a node that has to be created
                                          copies identifier, variable type and the FULL metadata of the node object)
       sg.get_node_names()            |-> py_cg_get_node_names sg         (sorted identifiers)
       sg.add_node(v)                 |-> sg := py_cg_add_node sg v       (Exc ENodeDup if present; bare node) *)
From CG Require Import Base Dec Digraph TSGraph.
Set Implicit Arguments.
Local Open Scope Z_scope.

(** * Outcomes, loops *)
Inductive pyout (R : Type) : Type :=
| Ret (r : R)
| Exc (e : err).
Arguments Ret {R} r.
Arguments Exc {R} e.

Inductive pyctl (S R : Type) : Type :=
| Cont (s : S)
| Brk (s : S)
| Done (o : pyout R).
Arguments Cont {S R} s.
Arguments Brk {S R} s.
Arguments Done {S R} o.

Definition py_top {R : Type} (o : pyout R) : pyout R := o.
Definition py_in {S R : Type} (o : pyout R) : pyctl S R := Done o.

Definition py_bind {T R Res : Type} (inj : pyout R -> Res) (o : pyout T) (k : T -> Res) : Res :=
  match o with
  | Ret t => k t
  | Exc e => inj (Exc e)
  end.

Fixpoint py_for {X S R Res : Type} (inj : pyout R -> Res) (xs : list X) (s : S)
         (body : X -> S -> pyctl S R) (k : S -> Res) {struct xs} : Res :=
  match xs with
  | [] => k s
  | x :: xs' =>
      match body x s with
      | Cont s' => py_for inj xs' s' body k
      | Brk s' => k s'
      | Done o => inj o
      end
  end.

Definition res_out {R : Type} (r : res R) : pyout R :=
  match r with Ok x => Ret x | Err e => Exc e end.
Definition out_res {R : Type} (o : pyout R) : res R :=
  match o with Ret x => Ok x | Exc e => Err e end.

(** * Builtins *)
Definition py_deepcopy {X : Type} (x : X) : X := x.
Definition py_sorted_int (l : list Z) : list Z := isort Z.leb l.
Definition py_list_first {X : Type} (l : list X) : pyout X :=
  match l with [] => Exc EIndex | x :: _ => Ret x end.
Definition py_list_last {X : Type} (l : list X) : pyout X :=
  match rev l with [] => Exc EIndex | x :: _ => Ret x end.
Definition py_str_is_not_None (x : name) : bool := true.
Definition py_opt_is_None {X : Type} (o : option X) : bool :=
  match o with None => true | Some _ => false end.

(** * Time-series graphs *)
Definition py_ts_is_dag (g : tsg) : bool := ts_is_dag g.
Definition py_ts_meta (g : tsg) : meta := tgmeta g.
Definition py_ts_get_edges (g : tsg) : list tedge := sorted_edges g.
Definition py_ts_get_nodes (g : tsg) : list tnode := sorted_nodes g.
Definition py_ts_get_all_variable_names (g : tsg) : list name := variables g.
Definition py_ts_get_minimal_graph (g : tsg) : pyout tsg := res_out (minimal g).
Definition py_ts_extend_graph (g : tsg) (b f : option Z) (iap : bool) : pyout tsg :=
  res_out (extend g b f iap).
Definition py_ts_graph_eq (a b : tsg) : bool := ts_graph_eqb a b.

(** node references / node objects / edges *)
Definition py_tsedge_source (e : tedge) : key := esrc e.
Definition py_tsedge_destination (e : tedge) : key := edst e.
Definition py_tsedge_edge_type (e : tedge) : etype := ety e.
Definition py_tsedge_meta (e : tedge) : meta := em e.
Definition py_isinstance_TimeSeriesNode (r : key) : bool := true.
Definition py_noderef_variable_name (r : key) : name := fst r.
Definition py_noderef_meta (g : tsg) (r : key) : pyout meta :=
  match find_node g r with Some n => Ret (tm n) | None => Exc ENodeMissing end.
Definition py_noderef_variable_type (g : tsg) (r : key) : pyout vtype :=
  match find_node g r with Some n => Ret (tvt n) | None => Exc ENodeMissing end.
Definition py_tsnode_time_lag (n : tnode) : Z := tl n.
Definition py_TimeSeriesNode (v : name) (m : meta) (t : vtype) : tnode :=
  {| tv := v; tl := 0; tvt := t; tm := m |}.

Record tsedgeobj := { eo_src : tnode; eo_dst : tnode; eo_ty : etype; eo_meta : meta }.
Definition py_TimeSeriesEdge (s d : tnode) (t : etype) (m : meta) : pyout tsedgeobj :=
  if etype_eqb t Dir && (tl d <? tl s) then Exc EValue
  else if tl d <? tl s then Ret {| eo_src := d; eo_dst := s; eo_ty := t; eo_meta := m |}
  else Ret {| eo_src := s; eo_dst := d; eo_ty := t; eo_meta := m |}.

(** * Plain causal graphs *)
Definition py_cg_new (m : meta) : pgraph := {| pnodes := []; pedges := []; pgmeta := m |}.
Definition py_cg_is_edge_by_pair (sg : pgraph) (a b : name) : bool := p_edge_exists sg a b.
Definition py_cg_get_edge (sg : pgraph) (a b : name) : pyout pedge :=
  match p_find_edge sg a b with Some r => Ret r | None => Exc EEdgeMissing end.
Definition py_pedge_get_edge_type (r : pedge) : etype := pty r.
Definition py_pedge_meta (r : pedge) : meta := pem r.
Definition py_cg_remove_edge (sg : pgraph) (a b : name) : pyout pgraph :=
  if p_edge_exists sg a b then Ret (p_remove_edge sg a b) else Exc EEdgeMissing.
Definition py_cg_add_edge_ids (sg : pgraph) (a b : name) (t : etype) (m : meta) : pyout pgraph :=
  res_out (p_add_edge sg (bare_node a) (bare_node b) t m).
(** the plain [Node] made by [add_edge] / [add_node(node=..)] from a [TimeSeriesNode] object *)
Definition py_plain_node_of (n : tnode) : pnode :=
  {| pn := tident (tv n) (tl n); pvt := tvt n;
     pm := meta_set s_variable_name (JStr (tv n)) (meta_set s_time_lag (JInt (tl n)) (tm n)) |}.
Definition py_cg_add_edge_obj (sg : pgraph) (e : tsedgeobj) : pyout pgraph :=
  res_out (p_add_edge sg (py_plain_node_of (eo_src e)) (py_plain_node_of (eo_dst e)) (eo_ty e) (eo_meta e)).
Definition py_cg_get_node_names (sg : pgraph) : list name := sort_names (map pn (pnodes sg)).
Definition py_cg_add_node (sg : pgraph) (v : name) : pyout pgraph :=
  if p_node_exists sg v then Exc ENodeDup
  else Ret {| pnodes := pnodes sg ++ [bare_node v]; pedges := pedges sg; pgmeta := pgmeta sg |}.

(** * Pinned rows

    Every right-hand side below is what the real interpreter / library printed for the same expression
    (PYTHONPATH=/repo /venv/bin/python; the probe is quoted in the comment in front of each Example).
    Names: A B X Y W Z = [65] [66] [88] [89] [87] [90], '0C' = [48; 67], metadata keys a g k m = [97] [103] [107] [109]. *)
Module PyRtTSaExamples.
  Local Open Scope N_scope.
  Definition nA : name := [65]. Definition nB : name := [66]. Definition nC0 : name := [48; 67].
  Definition nX : name := [88]. Definition nY : name := [89]. Definition nW : name := [87]. Definition nZ : name := [90].
  Definition mk (k : N) (v : Z) : meta := [([k], JInt v)].

  (* sorted([0, -2, -1, 0]) = [-2, -1, 0, 0]; its [0] = -2, its [-1] = 0; [][0] and [][-1] raise IndexError *)
  Example ex_sorted :
    py_sorted_int [0; -2; -1; 0]%Z = [-2; -1; 0; 0]%Z /\ py_list_first (py_sorted_int [0; -2; -1; 0]%Z) = Ret (-2)%Z /\
    py_list_last (py_sorted_int [0; -2; -1; 0]%Z) = Ret 0%Z /\
    py_list_first (@nil Z) = Exc EIndex /\ py_list_last (@nil Z) = Exc EIndex.
  Proof. vm_compute. repeat split; reflexivity. Qed.

  (* sg = CausalGraph(meta={'g': 1}); sg.add_edge('A', 'B', edge_type=EdgeType.DIRECTED_EDGE, meta={'k': 1}, validate=False) *)
  Definition sg1 : pgraph :=
    match py_cg_add_edge_ids (py_cg_new (mk 103 1)) nA nB Dir (mk 107 1) with Ret g => g | Exc _ => py_cg_new [] end.
  (* sg.is_edge_by_pair(('A','B')) = True; sg.is_edge_by_pair(('B','A')) = False;
     sg.get_edge('B','A') raises EdgeDoesNotExistError; sg.get_edge('A','B').get_edge_type() = '->', .meta = {'k': 1} *)
  Example ex_cg_queries :
    py_cg_is_edge_by_pair sg1 nA nB = true /\ py_cg_is_edge_by_pair sg1 nB nA = false /\
    py_cg_get_edge sg1 nB nA = Exc EEdgeMissing /\
    (match py_cg_get_edge sg1 nA nB with
     | Ret r => etype_eqb (py_pedge_get_edge_type r) Dir && meta_eqb (py_pedge_meta r) (mk 107 1) | Exc _ => false end) = true.
  Proof. vm_compute. repeat split; reflexivity. Qed.
  (* sg.remove_edge('B','A') raises EdgeDoesNotExistError; sg.add_node('A') raises NodeDuplicatedError;
     sg.add_edge('B','A', edge_type='<>', meta={}, validate=False) raises ReverseEdgeExistsError;
     sg.add_edge('A','B', ..) raises EdgeDuplicatedError; sg.add_edge('A','A', ..) raises CyclicConnectionError *)
  Example ex_cg_errors :
    py_cg_remove_edge sg1 nB nA = Exc EEdgeMissing /\ py_cg_add_node sg1 nA = Exc ENodeDup /\
    py_cg_add_edge_ids sg1 nB nA Bi [] = Exc EReverse /\ py_cg_add_edge_ids sg1 nA nB Bi [] = Exc EEdgeDup /\
    py_cg_add_edge_ids sg1 nA nA Bi [] = Exc ECyclic.
  Proof. vm_compute. repeat split; reflexivity. Qed.
  (* sg.remove_edge('A','B'): nodes A, B (unspecified, {}) stay, no edges;
     then sg.add_edge('B','A', edge_type='<>', meta={'k': 1}, validate=False); sg.add_node('0C'):
     sg.get_node_names() = ['0C', 'A', 'B'] (sorted), dict order A, B, 0C; edges [('B','A','<>',{'k': 1})]; sg.meta = {'g': 1} *)
  Example ex_cg_mutations :
    match py_cg_remove_edge sg1 nA nB with
    | Ret g2 =>
        match py_cg_add_edge_ids g2 nB nA Bi (mk 107 1) with
        | Ret g3 =>
            match py_cg_add_node g3 nC0 with
            | Ret g4 =>
                (map pn (pnodes g2), map pvt (pnodes g2), map pm (pnodes g2), pedges g2,
                 py_cg_get_node_names g4, map pn (pnodes g4),
                 map (fun e => (ps e, pd e, pty e, pem e)) (pedges g4), pgmeta g4)
                = ([nA; nB], [VUnspec; VUnspec], [[]; []], [],
                   [nC0; nA; nB], [nA; nB; nC0], [(nB, nA, Bi, mk 107 1)], mk 103 1)
            | Exc _ => False
            end
        | Exc _ => False
        end
    | Exc _ => False
    end.
  Proof. vm_compute. reflexivity. Qed.

  (* n1 = TimeSeriesNode(identifier='X', meta={'a': 1, 'time_lag': -3, 'variable_name': 'Q'}, variable_type=CONTINUOUS):
     n1.meta = {'a': 1, 'time_lag': 0, 'variable_name': 'X'} (the reserved tags are recomputed: [tm] is the user part);
     n2 = TimeSeriesNode(identifier='Y', meta={}, variable_type=UNSPECIFIED);
     e = TimeSeriesEdge(source=n1, destination=n2, edge_type='->', meta={'m': 2}); sg2 = CausalGraph(); sg2.add_edge(edge=e, validate=False):
     nodes (plain Node objects) X continuous {'a': 1, 'time_lag': 0, 'variable_name': 'X'}, Y unspecified {'time_lag': 0, 'variable_name': 'Y'};
     edge ('X', 'Y', '->', {'m': 2}).  On a graph that already has a bare node X, X keeps its attributes. *)
  Example ex_cg_add_edge_obj :
    match py_TimeSeriesEdge (py_TimeSeriesNode nX (mk 97 1) VCont) (py_TimeSeriesNode nY [] VUnspec) Dir (mk 109 2) with
    | Ret e =>
        match py_cg_add_edge_obj (py_cg_new []) e,
              py_bind py_top (py_cg_add_node (py_cg_new []) nX) (fun g => py_cg_add_edge_obj g e) with
        | Ret g, Ret g' =>
            (pnodes g, map (fun e => (ps e, pd e, pty e, pem e)) (pedges g), pnodes g')
            = ([ {| pn := nX; pvt := VCont; pm := [([97], JInt 1); (s_time_lag, JInt 0); (s_variable_name, JStr nX)] |};
                 {| pn := nY; pvt := VUnspec; pm := [(s_time_lag, JInt 0); (s_variable_name, JStr nY)] |} ],
               [(nX, nY, Dir, mk 109 2)],
               [ {| pn := nX; pvt := VUnspec; pm := [] |};
                 {| pn := nY; pvt := VUnspec; pm := [(s_time_lag, JInt 0); (s_variable_name, JStr nY)] |} ])
        | _, _ => False
        end
    | Exc _ => False
    end.
  Proof. vm_compute. reflexivity. Qed.
  (* a = TimeSeriesNode('X lag(n=1)'); b = TimeSeriesNode('Y'):
     TimeSeriesEdge(source=b, destination=a, edge_type='->') raises ValueError;
     TimeSeriesEdge(source=b, destination=a, edge_type='--') is (X lag(n=1) -- Y) (swapped);
     TimeSeriesEdge(source=a, destination=b, edge_type='--') is (X lag(n=1) -- Y) *)
  Example ex_ts_edge_ctor :
    let a := {| tv := nX; tl := -1; tvt := VUnspec; tm := [] |} in
    let b := {| tv := nY; tl := 0; tvt := VUnspec; tm := [] |} in
    py_TimeSeriesEdge b a Dir [] = Exc EValue /\
    py_TimeSeriesEdge b a Und [] = Ret {| eo_src := a; eo_dst := b; eo_ty := Und; eo_meta := [] |} /\
    py_TimeSeriesEdge a b Und [] = Ret {| eo_src := a; eo_dst := b; eo_ty := Und; eo_meta := [] |}.
  Proof. vm_compute. repeat split; reflexivity. Qed.

  (* the graph ex_g of TSGraphProofs.v, built in Python as
       g = TimeSeriesCausalGraph(meta={'g': 1}); g.add_node('Z', variable_type=CONTINUOUS, meta={'a': 1});
       g.add_edge('X lag(n=1)', 'Y'); g.add_edge('Y lag(n=1)', 'X', meta={'b': 'u'}); g.add_edge('X lag(n=1)', 'X');
       g.add_edge('X', 'Y'); g.add_edge('W lag(n=2)', 'Y lag(n=1)')
     [(e.source.variable_name, e.source.time_lag, e.destination.variable_name, e.destination.time_lag) for e in g.get_edges()]
       = [(W,-2,Y,-1), (X,0,Y,0), (X,-1,X,0), (X,-1,Y,0), (Y,-1,X,0)];
     [(n.variable_name, n.time_lag) for n in g.get_nodes()] = [(W,-2), (X,0), (X,-1), (Y,0), (Y,-1), (Z,0)];
     g.get_all_variable_names() = [W, X, Y, Z]; g.is_dag() = True; g.meta = {'g': 1};
     e0 = g.get_edges()[0]: isinstance(e0.source, TimeSeriesNode), e0.source.variable_name is not None,
       user part of e0.source.meta = {}, e0.source.variable_type = unspecified, e0.edge_type = '->', e0.meta = {} *)
  Definition g0 : tsg :=
    {| tnodes := [ {| tv := [90]; tl := 0; tvt := VCont; tm := mk 97 1 |}; {| tv := nX; tl := -1; tvt := VUnspec; tm := [] |};
                   {| tv := nY; tl := 0; tvt := VUnspec; tm := [] |}; {| tv := nY; tl := -1; tvt := VUnspec; tm := [] |};
                   {| tv := nX; tl := 0; tvt := VUnspec; tm := [] |}; {| tv := [87]; tl := -2; tvt := VUnspec; tm := [] |} ];
       tedges := [ {| es := [87]; esl := -2; ed := nY; edl := -1; ety := Dir; em := [] |};
                   {| es := nX; esl := 0; ed := nY; edl := 0; ety := Dir; em := [] |};
                   {| es := nX; esl := -1; ed := nX; edl := 0; ety := Dir; em := [] |};
                   {| es := nX; esl := -1; ed := nY; edl := 0; ety := Dir; em := [] |};
                   {| es := nY; esl := -1; ed := nX; edl := 0; ety := Dir; em := [([98], JStr [117])] |} ];
       tgmeta := mk 103 1 |}.
  Example ex_ts_views :
    map (fun e => (py_noderef_variable_name (py_tsedge_source e), snd (py_tsedge_source e),
                   py_noderef_variable_name (py_tsedge_destination e), snd (py_tsedge_destination e))) (py_ts_get_edges g0)
      = [(nW, -2, nY, -1); (nX, 0, nY, 0); (nX, -1, nX, 0); (nX, -1, nY, 0); (nY, -1, nX, 0)]%Z /\
    map (fun n => (tv n, py_tsnode_time_lag n)) (py_ts_get_nodes g0)
      = [(nW, -2); (nX, 0); (nX, -1); (nY, 0); (nY, -1); (nZ, 0)]%Z /\
    py_ts_get_all_variable_names g0 = [nW; nX; nY; nZ] /\ py_ts_is_dag g0 = true /\ py_ts_meta g0 = mk 103 1 /\
    (match py_ts_get_edges g0 with
     | e0 :: _ => (py_isinstance_TimeSeriesNode (py_tsedge_source e0), py_str_is_not_None (py_noderef_variable_name (py_tsedge_source e0)),
                   py_noderef_meta g0 (py_tsedge_source e0), py_noderef_variable_type g0 (py_tsedge_source e0),
                   py_tsedge_edge_type e0, py_tsedge_meta e0) = (true, true, Ret [], Ret VUnspec, Dir, [])
     | [] => False
     end).
  Proof. vm_compute. repeat split; reflexivity. Qed.
  (* g.get_minimal_graph() == g = False; g == g.get_minimal_graph() = False; g == g = True *)
  Example ex_ts_eq :
    match py_ts_get_minimal_graph g0 with
    | Ret m => (py_ts_graph_eq m g0, py_ts_graph_eq g0 m, py_ts_graph_eq g0 g0) = (false, false, true)
    | Exc _ => False
    end.
  Proof. vm_compute. reflexivity. Qed.
End PyRtTSaExamples.
