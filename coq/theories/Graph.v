(** Graph.v — CONCRETE executable model of CausalGraph / TimeSeriesCausalGraph state and of
    every public mutator (DEFINITIONS ONLY; proofs are in GraphInv*.v).

    The state mirrors the implementation's data structure:
      [gnodes]  = _nodes_by_identifier (insertion order), each node carrying its variable
                  type, metadata and its _inbound_edges / _outbound_edges lists (as the names
                  of the other endpoint, in insertion order);
      [gsrc]    = _edges_by_source   flattened, insertion order;
      [gdst]    = _edges_by_destination flattened, insertion order (the mirrored index);
      [glag]    = _lag_to_nodes      flattened to (lag, node id), insertion order;
      [gvar]    = _variable_name_to_nodes flattened to (variable, node id), insertion order.
    Functions follow the Python control flow statement by statement (same order of checks,
    same error class).  The two name-codec functions are section variables; GraphTS.v
    instantiates them with Names.parse / Names.fmt. *)
From CG Require Import Base.
Set Implicit Arguments.

Record node := { nid : name; nvt : vtype; nmeta : meta; ninb : list name; noutb : list name }.
Record edge := { esrc : name; edst : name; ety : etype; emeta : meta }.
Record graph := {
  gnodes : list node;
  gsrc : list edge;
  gdst : list edge;
  gmeta : meta;
  glag : list (Z * name);
  gvar : list (name * name)
}.

Definition empty_graph (m : meta) : graph :=
  {| gnodes := []; gsrc := []; gdst := []; gmeta := m; glag := []; gvar := [] |}.

(** Reserved metadata tags of TimeSeriesNode: "time_lag", "variable_name". *)
Definition k_time_lag : name := [116; 105; 109; 101; 95; 108; 97; 103]%N.
Definition k_variable_name : name :=
  [118; 97; 114; 105; 97; 98; 108; 101; 95; 110; 97; 109; 101]%N.

Definition meta_lag (m : meta) : option Z :=
  match meta_get k_time_lag m with Some (JInt z) => Some z | _ => None end.
Definition meta_var (m : meta) : option name :=
  match meta_get k_variable_name m with Some (JStr v) => Some v | _ => None end.
Definition set_tags (v : name) (k : Z) (m : meta) : meta :=
  meta_set k_variable_name (JStr v) (meta_set k_time_lag (JInt k) m).

Definition edge_key (e : edge) : name * name := (esrc e, edst e).

(** * Lookups on the state *)

Fixpoint find_node (id : name) (ns : list node) : option node :=
  match ns with
  | [] => None
  | n :: ns' => if name_eqb id (nid n) then Some n else find_node id ns'
  end.

Definition get_node (g : graph) (id : name) : option node := find_node id (gnodes g).
Definition node_exists (g : graph) (id : name) : bool :=
  match get_node g id with Some _ => true | None => false end.

Fixpoint find_edge (s d : name) (es : list edge) : option edge :=
  match es with
  | [] => None
  | e :: es' => if name_eqb s (esrc e) && name_eqb d (edst e) then Some e else find_edge s d es'
  end.

(** [self._edges_by_source[s].get(d)] *)
Definition edge_at (g : graph) (s d : name) : option edge := find_edge s d (gsrc g).

Definition update_node (f : node -> node) (id : name) (ns : list node) : list node :=
  map (fun n => if name_eqb id (nid n) then f n else n) ns.

(** Remove the first occurrence ([list.remove]). *)
Fixpoint remove_first (x : name) (l : list name) : list name :=
  match l with
  | [] => []
  | y :: l' => if name_eqb x y then l' else y :: remove_first x l'
  end.

Definition node_lag (g : graph) (id : name) : option Z :=
  match get_node g id with Some n => meta_lag (nmeta n) | None => None end.

Section Model.
  (** [get_variable_name_and_lag] and [get_name_with_lag]; [None] = ValueError. *)
  Variable parse : name -> option (name * Z).
  Variable fmt : name -> Z -> option name.
  Variable k : kind.

  (** * Node construction: [self._NodeCls(identifier, meta=meta, variable_type=vt)] *)
  Definition mk_node (id : name) (vt : vtype) (m : meta) : res node :=
    match k with
    | Plain => Ok {| nid := id; nvt := vt; nmeta := m; ninb := []; noutb := [] |}
    | TS =>
        match parse id with
        | None => Err EValue
        | Some (v, l) =>
            Ok {| nid := id; nvt := vt; nmeta := set_tags v l m; ninb := []; noutb := [] |}
        end
    end.

  (** Index upkeep of the time-series class ([_add_node_to_cache] / [_remove_node_from_cache]);
      a node whose tags are missing makes the property accessors raise ValueError. *)
  Definition idx_add (g : graph) (n : node) : res graph :=
    match k with
    | Plain => Ok g
    | TS =>
        match meta_lag (nmeta n), meta_var (nmeta n) with
        | Some l, Some v =>
            Ok {| gnodes := gnodes g; gsrc := gsrc g; gdst := gdst g; gmeta := gmeta g;
                  glag := glag g ++ [(l, nid n)]; gvar := gvar g ++ [(v, nid n)] |}
        | _, _ => Err EValue
        end
    end.

  Fixpoint remove_first_pair {K} (keq : K -> K -> bool) (key : K) (id : name) (l : list (K * name))
    : option (list (K * name)) :=
    match l with
    | [] => None
    | (k', id') :: l' =>
        if keq key k' && name_eqb id id' then Some l'
        else match remove_first_pair keq key id l' with
             | Some r => Some ((k', id') :: r)
             | None => None
             end
    end.

  Definition idx_remove (g : graph) (n : node) : res graph :=
    match k with
    | Plain => Ok g
    | TS =>
        match meta_lag (nmeta n), meta_var (nmeta n) with
        | Some l, Some v =>
            match remove_first_pair Z.eqb l (nid n) (glag g),
                  remove_first_pair name_eqb v (nid n) (gvar g) with
            | Some gl, Some gv =>
                Ok {| gnodes := gnodes g; gsrc := gsrc g; gdst := gdst g; gmeta := gmeta g;
                      glag := gl; gvar := gv |}
            | _, _ => Err EValue
            end
        | _, _ => Err EValue
        end
    end.

  Definition push_node (g : graph) (n : node) : graph :=
    {| gnodes := gnodes g ++ [n]; gsrc := gsrc g; gdst := gdst g; gmeta := gmeta g;
       glag := glag g; gvar := gvar g |}.

  (** * add_node *)

  (** [add_node(identifier, variable_type=vt, meta=m)].  The time-series class constructs the
      node (and so validates the name) BEFORE the duplicate check. *)
  Definition add_node_id (g : graph) (id : name) (vt : vtype) (m : option meta) : res graph :=
    let m' := match m with Some x => x | None => [] end in
    match k with
    | Plain =>
        if node_exists g id then Err ENodeDup
        else bind (mk_node id vt m') (fun n => Ok (push_node g n))
    | TS =>
        bind (mk_node id vt m') (fun n =>
          if node_exists g id then Err ENodeDup
          else bind (mk_node id vt (nmeta n)) (fun n2 => idx_add (push_node g n2) n2))
    end.

  (** [add_node(node=Node(id, meta=m, variable_type=vt))]: duplicate check first. *)
  Definition add_node_obj (g : graph) (id : name) (vt : vtype) (m : meta) : res graph :=
    if node_exists g id then Err ENodeDup
    else bind (mk_node id vt m) (fun n => idx_add (push_node g n) n).

  (** time-series [add_node(variable_name=v, time_lag=l, ...)] *)
  Definition add_node_vl (g : graph) (v : name) (l : Z) (vt : vtype) (m : option meta) : res graph :=
    match k with
    | Plain => Err EType
    | TS => match fmt v l with
            | None => Err EValue
            | Some id => add_node_id g id vt m
            end
    end.

  (** * delete_edge *)

  Definition drop_edge (s d : name) (es : list edge) : list edge :=
    filter (fun e => negb (name_eqb s (esrc e) && name_eqb d (edst e))) es.

  Definition delete_edge (g : graph) (s d : name) (oty : option etype) : res graph :=
    if negb (node_exists g s) then Err ENodeMissing
    else if negb (node_exists g d) then Err ENodeMissing
    else
      match edge_at g s d with
      | None => Err EEdgeMissing
      | Some e =>
          if match oty with Some t => negb (etype_eqb t (ety e)) | None => false end
          then Err EEdgeMissing
          else
            let ns :=
              if etype_eqb (ety e) Dir then
                update_node (fun n => {| nid := nid n; nvt := nvt n; nmeta := nmeta n;
                                         ninb := ninb n; noutb := remove_first d (noutb n) |}) s
                  (update_node (fun n => {| nid := nid n; nvt := nvt n; nmeta := nmeta n;
                                            ninb := remove_first s (ninb n); noutb := noutb n |}) d
                     (gnodes g))
              else gnodes g in
            Ok {| gnodes := ns; gsrc := drop_edge s d (gsrc g); gdst := drop_edge s d (gdst g);
                  gmeta := gmeta g; glag := glag g; gvar := gvar g |}
      end.

  (** * delete_node *)

  Definition pair_leb_e (a b : edge) : bool := pair_leb (edge_key a) (edge_key b).
  Definition sorted_edges (g : graph) : list edge := isort pair_leb_e (gsrc g).

  Definition delete_node (g : graph) (id : name) : res graph :=
    match get_node g id with
    | None => Err EKey
    | Some n =>
        bind (idx_remove g n) (fun g1 =>
          let incident :=
            filter (fun e => name_eqb id (esrc e) || name_eqb id (edst e)) (sorted_edges g1) in
          bind (fold_left (fun acc e => bind acc (fun g' => delete_edge g' (esrc e) (edst e) None))
                  incident (Ok g1))
            (fun g2 =>
               Ok {| gnodes := filter (fun n' => negb (name_eqb id (nid n'))) (gnodes g2);
                     gsrc := gsrc g2; gdst := gdst g2; gmeta := gmeta g2;
                     glag := glag g2; gvar := gvar g2 |}))
    end.

  (** * The cycle check: the literal stack loop of _assert_node_does_not_depend_on_itself.
      The stack is kept with its top at the head. [Some true] = AssertionError raised,
      [None] = out of fuel. *)
  Definition inb_of (g : graph) (id : name) : option (list name) :=
    match get_node g id with Some n => Some (ninb n) | None => None end.

  Fixpoint dep_loop (fuel : nat) (g : graph) (id : name) (checked to_check : list name)
    : option bool :=
    match fuel with
    | O => None
    | S f =>
        match to_check with
        | [] => Some false
        | cur :: rest =>
            if name_eqb cur id && negb (match checked with [] => true | _ => false end)
            then Some true
            else if mem cur checked then dep_loop f g id checked rest
            else match inb_of g cur with
                 | None => None
                 | Some ps => dep_loop f g id (cur :: checked) (rev ps ++ rest)
                 end
        end
    end.

  Definition depends_on_itself (g : graph) (id : name) : option bool :=
    dep_loop (length (gsrc g) + 2) g id [] [id].

  (** * add_edge *)

  Definition endpoint := (name * option (vtype * meta))%type.
  (** an endpoint given as a string ([None]) or as a Node object ([Some (vt, meta)]) *)

  Definition add_endpoint (g : graph) (p : endpoint) : res graph :=
    if node_exists g (fst p) then Ok g
    else match snd p with
         | None => add_node_id g (fst p) VUnspec None
         | Some (vt, m) => add_node_obj g (fst p) vt m
         end.

  Definition insert_edge (g : graph) (e : edge) : graph :=
    let ns :=
      if etype_eqb (ety e) Dir then
        update_node (fun n => {| nid := nid n; nvt := nvt n; nmeta := nmeta n;
                                 ninb := ninb n; noutb := noutb n ++ [edst e] |}) (esrc e)
          (update_node (fun n => {| nid := nid n; nvt := nvt n; nmeta := nmeta n;
                                    ninb := ninb n ++ [esrc e]; noutb := noutb n |}) (edst e)
             (gnodes g))
      else gnodes g in
    {| gnodes := ns; gsrc := gsrc g ++ [e]; gdst := gdst g ++ [e]; gmeta := gmeta g;
       glag := glag g; gvar := gvar g |}.

  (** [_EdgeCls(source_node, destination_node, edge_type)]: the time-series edge swaps a
      non-directed edge given later->earlier and refuses a directed one. *)
  Definition orient (g : graph) (s d : name) (ty : etype) : res (name * name) :=
    match k with
    | Plain => Ok (s, d)
    | TS =>
        match node_lag g s, node_lag g d with
        | Some ls, Some ld =>
            if (ld <? ls)%Z then
              if etype_eqb ty Dir then Err EValue else Ok (d, s)
            else Ok (s, d)
        | _, _ => Err EValue
        end
    end.

  (** [_set_edge] *)
  Definition set_edge (g : graph) (s d : name) (ty : etype) (m : meta) (validate : bool)
    : res graph :=
    match edge_at g s d with
    | Some _ => Err EEdgeDup
    | None =>
        match edge_at g d s with
        | Some _ => Err EReverse
        | None =>
            let g1 := insert_edge g {| esrc := s; edst := d; ety := ty; emeta := m |} in
            if validate then
              match depends_on_itself g1 d with
              | Some false => Ok g1
              | Some true => bind (delete_edge g1 s d None) (fun _ => Err ECyclic)
              | None => Err EIndex (* out of fuel: excluded by theorem *)
              end
            else Ok g1
        end
    end.

  (** the body of the try block of add_edge *)
  Definition add_edge_try (g : graph) (sp dp : endpoint) (ty : etype) (m : option meta)
    (validate : bool) : res graph * graph :=
    (* returns the result and the last state reached (needed by the clean-up) *)
    let s := fst sp in let d := fst dp in
    if name_eqb s d then (Err ECyclic, g)
    else
      let had_edge := match edge_at g s d with Some _ => true | None => false end in
      match add_endpoint g sp with
      | Err e => (Err e, g)
      | Ok g1 =>
          match add_endpoint g1 dp with
          | Err e => (Err e, g1)
          | Ok g2 =>
              if had_edge then (Err EEdgeDup, g2)
              else
                match orient g2 s d ty with
                | Err e => (Err e, g2)
                | Ok (s', d') =>
                    let m' := match m with Some x => x | None => [] end in
                    match set_edge g2 s' d' ty m' validate with
                    | Err e => (Err e, g2)
                    | Ok g3 => (Ok g3, g3)
                    end
                end
          end
      end.

  Definition add_edge (g : graph) (sp dp : endpoint) (ty : etype) (m : option meta)
    (validate : bool) : res graph * graph :=
    (* result, and the state the graph is left in (equal to the result on success) *)
    let implicit := filter (fun id => negb (node_exists g id)) [fst sp; fst dp] in
    match add_edge_try g sp dp ty m validate with
    | (Ok g', _) => (Ok g', g')
    | (Err e, gl) =>
        (* except: remove the nodes this call created *)
        let cleaned :=
          fold_left (fun acc id =>
                       if node_exists acc id then
                         match delete_node acc id with Ok a => a | Err _ => acc end
                       else acc) implicit gl in
        (Err e, cleaned)
    end.

  Definition str_ep (id : name) : endpoint := (id, None).

  (** * change_edge_type *)
  Definition change_edge_type (g : graph) (s d : name) (ty : etype) : res graph * graph :=
    match edge_at g s d with
    | None => (Err EEdgeMissing, g)
    | Some e =>
        if etype_eqb (ety e) ty then (Ok g, g)
        else
          match delete_edge g s d (Some (ety e)) with
          | Err x => (Err x, g)
          | Ok g1 =>
              match add_edge g1 (str_ep s) (str_ep d) ty (Some (emeta e)) true with
              | (Ok g2, _) => (Ok g2, g2)
              | (Err x, g2) =>
                  (* restore the original edge, unvalidated *)
                  match add_edge g2 (str_ep s) (str_ep d) (ety e) (Some (emeta e)) false with
                  | (Ok g3, _) => (Err x, g3)
                  | (Err y, g3) => (Err y, g3)
                  end
              end
          end
    end.

  (** * replace_edge *)
  Definition replace_edge (g : graph) (s d s' d' : name) (oty : option etype)
    (om : option meta) : res graph * graph :=
    match edge_at g s d with
    | None => (Err EEdgeMissing, g)
    | Some e =>
        match edge_at g s' d' with
        | Some _ => (Err EEdgeExists, g)
        | None =>
            let ty := match oty with Some t => t | None => ety e end in
            let m := match om with Some x => x | None => emeta e end in
            match delete_edge g s d None with
            | Err x => (Err x, g)
            | Ok g1 =>
                match add_edge g1 (str_ep s') (str_ep d') ty (Some m) true with
                | (Ok g2, _) => (Ok g2, g2)
                | (Err x, g2) =>
                    match add_edge g2 (str_ep s) (str_ep d) (ety e) (Some (emeta e)) false with
                    | (Ok g3, _) => (Err x, g3)
                    | (Err y, g3) => (Err y, g3)
                    end
                end
            end
        end
    end.

  (** * replace_node *)
  Definition edges_into (g : graph) (id : name) : list edge :=
    isort pair_leb_e (filter (fun e => name_eqb id (edst e)) (gdst g)).
  Definition edges_from (g : graph) (id : name) : list edge :=
    isort pair_leb_e (filter (fun e => name_eqb id (esrc e)) (gsrc g)).

  (** sequential composition that remembers the state left behind by a failing call *)
  Definition seq_edges (g : graph)
    (calls : list (endpoint * endpoint * etype * meta)) : res graph * graph :=
    fold_left (fun (acc : res graph * graph) c =>
                 match acc with
                 | (Ok g', _) =>
                     let '(sp, dp, ty, m) := c in add_edge g' sp dp ty (Some m) true
                 | (Err x, gl) => (Err x, gl)
                 end) calls (Ok g, g).

  (** [vt]: [None] = the caller passed variable_type=None (keep the old type); the Python
      default is UNSPECIFIED, which RESETS the type. *)
  Definition replace_node_base (g : graph) (id : name) (new_id : option name)
    (vt : option vtype) (m : option meta) : res graph * graph :=
    match get_node g id with
    | None => (Err EAssert, g)
    | Some n =>
        match new_id with
        | None =>
            let n' := {| nid := nid n; nvt := match vt with Some t => t | None => nvt n end;
                         nmeta := match m with Some x => x | None => nmeta n end;
                         ninb := ninb n; noutb := noutb n |} in
            let g' := {| gnodes := update_node (fun _ => n') id (gnodes g); gsrc := gsrc g;
                         gdst := gdst g; gmeta := gmeta g; glag := glag g; gvar := gvar g |} in
            (Ok g', g')
        | Some id' =>
            if node_exists g id' then (Err EAssert, g)
            else
              let vt' := match vt with Some t => t | None => nvt n end in
              let m' := match m with Some x => x | None => nmeta n end in
              match add_node_id g id' vt' (Some m') with
              | Err x => (Err x, g)
              | Ok g1 =>
                  let calls :=
                    map (fun e => (str_ep (esrc e), str_ep id', ety e, emeta e)) (edges_into g1 id)
                    ++ map (fun e => (str_ep id', str_ep (edst e), ety e, emeta e)) (edges_from g1 id)
                  in
                  (* NB the outbound list is read after the inbound copies were made; copying
                     inbound edges never adds an edge out of [id], so reading both first is
                     the same *)
                  match seq_edges g1 calls with
                  | (Ok g2, _) =>
                      match delete_node g2 id with
                      | Ok g3 => (Ok g3, g3)
                      | Err x => (Err x, g2)
                      end
                  | (Err x, g2) =>
                      match delete_node g2 id' with
                      | Ok g3 => (Err x, g3)
                      | Err y => (Err y, g2)
                      end
                  end
              end
        end
    end.

  (** the time-series override: re-lagging form and tag upkeep for the in-place form *)
  Definition replace_node (g : graph) (id : name) (new_id : option name)
    (lag : option Z) (var : option name) (vt : option vtype) (m : option meta)
    : res graph * graph :=
    match k with
    | Plain =>
        match lag, var with
        | None, None => replace_node_base g id new_id vt m
        | _, _ => (Err EType, g)
        end
    | TS =>
        let new_id_r : res (option name) :=
          match new_id with
          | Some x =>
              match lag, var with
              | None, None => Ok (Some x)
              | _, _ => Err EAssert
              end
          | None =>
              match lag, var with
              | None, None => Ok None
              | _, _ =>
                  match parse id with
                  | None => Err EValue
                  | Some (dv, dl) =>
                      let l := match lag with Some x => x | None => dl end in
                      let v := match var with Some x => x | None => dv end in
                      match fmt v l with
                      | None => Err EValue
                      | Some x => Ok (Some x)
                      end
                  end
              end
          end in
        match new_id_r with
        | Err x => (Err x, g)
        | Ok nid' =>
            let m_r : res (option meta) :=
              match nid', m with
              | None, Some mm =>
                  match parse id with
                  | None => Err EValue
                  | Some (cv, cl) => Ok (Some (set_tags cv cl mm))
                  end
              | _, _ => Ok m
              end in
            match m_r with
            | Err x => (Err x, g)
            | Ok m' => replace_node_base g id nid' vt m'
            end
        end
    end.

  (** * Bulk adders *)
  Definition add_nodes_from (g : graph) (ids : list name) : res graph * graph :=
    fold_left (fun (acc : res graph * graph) id =>
                 match acc with
                 | (Ok g', _) =>
                     match add_node_id g' id VUnspec None with
                     | Ok g'' => (Ok g'', g'')
                     | Err x => (Err x, g')
                     end
                 | (Err x, gl) => (Err x, gl)
                 end) ids (Ok g, g).

  Definition add_edges_from (g : graph) (pairs : list (name * name)) (validate : bool)
    : res graph * graph :=
    fold_left (fun (acc : res graph * graph) p =>
                 match acc with
                 | (Ok g', _) => add_edge g' (str_ep (fst p)) (str_ep (snd p)) Dir None validate
                 | (Err x, gl) => (Err x, gl)
                 end) pairs (Ok g, g).

  Definition add_fully_connected (g : graph) (ins outs : list name) : res graph * graph :=
    add_edges_from g (flat_map (fun i => map (fun o => (i, o)) outs) ins) true.

  Fixpoint pairwise (l : list name) : list (name * name) :=
    match l with
    | a :: ((b :: _) as l') => (a, b) :: pairwise l'
    | _ => []
    end.

  Definition add_path (g : graph) (path : list name) (validate : bool) : res graph * graph :=
    match path with
    | [] => (Err EAssert, g)
    | _ =>
        fold_left (fun (acc : res graph * graph) p =>
                     match acc with
                     | (Ok g', _) =>
                         match edge_at g' (fst p) (snd p) with
                         | Some _ => (Ok g', g')
                         | None => add_edge g' (str_ep (fst p)) (str_ep (snd p)) Dir None validate
                         end
                     | (Err x, gl) => (Err x, gl)
                     end) (pairwise path) (Ok g, g)
    end.

  (** nested form: every inner path is added with the default validate=True *)
  Definition add_paths (g : graph) (paths : list (list name)) : res graph * graph :=
    match paths with
    | [] => (Err EAssert, g)
    | _ =>
        fold_left (fun (acc : res graph * graph) p =>
                     match acc with
                     | (Ok g', _) => add_path g' p true
                     | (Err x, gl) => (Err x, gl)
                     end) paths (Ok g, g)
    end.

  Definition add_time_edge (g : graph) (sv : name) (st : Z) (dv : name) (dt : Z)
    (m : option meta) (validate : bool) : res graph * graph :=
    match k with
    | Plain => (Err EType, g)
    | TS =>
        match fmt sv st with
        | None => (Err EValue, g)
        | Some s =>
            match fmt dv dt with
            | None => (Err EValue, g)
            | Some d => add_edge g (str_ep s) (str_ep d) Dir m validate
            end
        end
    end.

  (** * Operations and the step function *)
  Inductive op :=
  | OAddNode (id : name) (vt : vtype) (m : option meta)
  | OAddNodeObj (id : name) (vt : vtype) (m : meta)
  | OAddNodeVL (v : name) (l : Z) (vt : vtype) (m : option meta)
  | OAddNodesFrom (ids : list name)
  | OAddFullyConnected (ins outs : list name)
  | ODeleteNode (id : name)
  | OReplaceNode (id : name) (new_id : option name) (lag : option Z) (var : option name)
      (vt : option vtype) (m : option meta)
  | OAddEdge (sp dp : endpoint) (ty : etype) (m : option meta) (validate : bool)
  | OAddEdgesFrom (pairs : list (name * name)) (validate : bool)
  | OAddPath (path : list name) (validate : bool)
  | OAddPaths (paths : list (list name))
  | OAddTimeEdge (sv : name) (st : Z) (dv : name) (dt : Z) (m : option meta) (validate : bool)
  | ODeleteEdge (s d : name) (oty : option etype)
  | OChangeEdgeType (s d : name) (ty : etype)
  | OReplaceEdge (s d s' d' : name) (oty : option etype) (om : option meta).

  Definition lift (g : graph) (r : res graph) : res graph * graph :=
    match r with Ok g' => (Ok g', g') | Err x => (Err x, g) end.

  (** [run_op g o] = (outcome, state the graph is left in). *)
  Definition run_op (g : graph) (o : op) : res graph * graph :=
    match o with
    | OAddNode id vt m => lift g (add_node_id g id vt m)
    | OAddNodeObj id vt m => lift g (add_node_obj g id vt m)
    | OAddNodeVL v l vt m => lift g (add_node_vl g v l vt m)
    | OAddNodesFrom ids => add_nodes_from g ids
    | OAddFullyConnected ins outs => add_fully_connected g ins outs
    | ODeleteNode id => lift g (delete_node g id)
    | OReplaceNode id new_id lag var vt m => replace_node g id new_id lag var vt m
    | OAddEdge sp dp ty m validate => add_edge g sp dp ty m validate
    | OAddEdgesFrom pairs validate => add_edges_from g pairs validate
    | OAddPath path validate => add_path g path validate
    | OAddPaths paths => add_paths g paths
    | OAddTimeEdge sv st dv dt m validate => add_time_edge g sv st dv dt m validate
    | ODeleteEdge s d oty => lift g (delete_edge g s d oty)
    | OChangeEdgeType s d ty => change_edge_type g s d ty
    | OReplaceEdge s d s' d' oty om => replace_edge g s d s' d' oty om
    end.

  Definition step (g : graph) (o : op) : graph := snd (run_op g o).
  Definition outcome (g : graph) (o : op) : option err :=
    match fst (run_op g o) with Ok _ => None | Err x => Some x end.
  Definition run (ops : list op) (g : graph) : graph := fold_left step ops g.

  (** An operation issued with default validation. *)
  Definition validated (o : op) : bool :=
    match o with
    | OAddEdge _ _ _ _ v | OAddEdgesFrom _ v | OAddPath _ v | OAddTimeEdge _ _ _ _ _ v => v
    | _ => true
    end.

  (** single-element mutators (the scope of the failure-atomicity property) *)
  Definition single_element (o : op) : bool :=
    match o with
    | OAddNode _ _ _ | OAddNodeObj _ _ _ | OAddNodeVL _ _ _ _ | ODeleteNode _
    | OReplaceNode _ _ _ _ _ _ | OAddEdge _ _ _ _ _ | OAddTimeEdge _ _ _ _ _ _
    | ODeleteEdge _ _ _ | OChangeEdgeType _ _ _ | OReplaceEdge _ _ _ _ _ _ => true
    | _ => false
    end.
End Model.
