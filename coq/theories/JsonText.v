(** JsonText.v — executable model of the TEXT level of JSON as Python 3.12's [json] module
    implements it, for the value shapes that occur in the modelled dictionaries (C05 "after the
    dictionary has been through JSON text": the harness runs [json.loads(json.dumps(d))] with
    default arguments).  DEFINITIONS ONLY; proofs are in JsonTextProofs.v.

    - [json_print t] is the list of code points of [json.dumps(t)] (defaults: separators
      [', '] and [': '], [ensure_ascii=True], insertion-ordered objects, no indentation).
    - [json_print_indent ind 0 t] is [json.dumps(t, indent=...)] (end of the file).
    - [json_canon t] is the closed form of [json.loads(json.dumps(t))] (proved in
      JsonTextProofs.v); [json_wfb] characterises the trees it leaves unchanged.
    - [json_parse s] is [json.loads(s)] for a [str] given by its code points:
      [Some t] when Python returns a float-free value, [None] when Python raises OR when the
      value Python returns contains a float ([1.5], [1e5], [NaN], [Infinity], [-Infinity]).
      FLOATS ARE EXCLUDED: [Base.json] has no float constructor and the harness never generates
      float metadata.

    What was read: Lib/json/encoder.py ([encode_basestring_ascii], [ESCAPE_DCT]),
    Lib/json/decoder.py, Lib/json/scanner.py and Modules/_json.c ([scanstring_unicode],
    [_parse_object_unicode], [_parse_array_unicode], [_match_number_unicode],
    [scan_once_unicode]); the C accelerators are the ones in use in /venv.

    Python facts the model follows (all observed on /venv/bin/python 3.12.1):
    - strings: the double quote, ['\\'], ['\n'], ['\r'], ['\t'], ['\b'], ['\f'] have two-character
      escapes; every other code point outside [0x20..0x7e] (so also DEL, 0x7f) is written
      [\uXXXX] with LOWER-CASE hexadecimal digits, code points above U+FFFF as a surrogate
      pair; a lone surrogate in a [str] is written as its own [\uXXXX];
    - [json.loads] accepts upper- and lower-case hexadecimal digits, the escape [\/], raw
      (unescaped) characters >= 0x20 of any kind, and rejects raw characters < 0x20;
    - [json.loads] joins an ESCAPED high surrogate that is immediately followed by an ESCAPED
      low surrogate into one code point; it never joins raw surrogate characters;
    - a repeated key in an object: the LAST value wins and the key keeps the position of its
      FIRST occurrence ([dict] semantics) — [dict_of_pairs];
    - whitespace is exactly space, tab, LF, CR; a leading BOM, form feed, NBSP are errors;
    - numbers: an optional minus sign, then 0 or a non-zero digit followed by digits; ['-0'] is the integer [0]; anything that continues with
      ['.'], ['e'], ['E'] is either a float or an error, [None] here in both cases; a digit
      run with a superfluous leading zero is always an error a few characters later
      (Extra data / Expecting ',' delimiter), [None] here.
    - NOT modelled: CPython's integer/string conversion limit ([sys.get_int_max_str_digits()],
      4300 by default: [json.dumps(10**4300)] and [json.loads('1' + '0'*4300)] raise
      ValueError) and the recursion limit.  [json_in_py_domain] is the executable test that a
      tree stays inside the first limit; the round-trip theorem does not need it. *)
From CG Require Import Base.
Set Implicit Arguments.
Local Open Scope N_scope.

(** * Character classes *)

Definition c_quote : N := 34.       (* double quote *)
Definition c_bslash : N := 92.      (* \ *)
Definition c_comma : N := 44.
Definition c_colon : N := 58.
Definition c_space : N := 32.
Definition c_lbrack : N := 91.
Definition c_rbrack : N := 93.
Definition c_lbrace : N := 123.
Definition c_rbrace : N := 125.
Definition c_minus : N := 45.

Definition is_ws (c : N) : bool := (c =? 32) || (c =? 9) || (c =? 10) || (c =? 13).
Definition is_high (c : N) : bool := (55296 <=? c) && (c <=? 56319).   (* D800..DBFF *)
Definition is_low (c : N) : bool := (56320 <=? c) && (c <=? 57343).    (* DC00..DFFF *)
Definition is_surrogate (c : N) : bool := (55296 <=? c) && (c <=? 57343).
Definition max_cp : N := 1114111.                                      (* 0x10FFFF *)

(** [Py_UNICODE_JOIN_SURROGATES] *)
Definition join_sur (h l : N) : N := 65536 + (h - 55296) * 1024 + (l - 56320).

(** * Printing *)

Definition hex_digit (n : N) : N := if n <? 10 then 48 + n else 87 + n.
Definition hex4 (n : N) : list N :=
  [hex_digit ((n / 4096) mod 16); hex_digit ((n / 256) mod 16);
   hex_digit ((n / 16) mod 16); hex_digit (n mod 16)].
Definition esc_u (n : N) : list N := 92 :: 117 :: hex4 n.

(** the two-character escapes of ESCAPE_DCT: code point -> letter after the backslash *)
Definition short_escape (c : N) : option N :=
  if c =? 34 then Some 34            (* backslash quote *)
  else if c =? 92 then Some 92       (* \\ *)
  else if c =? 10 then Some 110      (* \n *)
  else if c =? 13 then Some 114      (* \r *)
  else if c =? 9 then Some 116       (* \t *)
  else if c =? 8 then Some 98        (* \b *)
  else if c =? 12 then Some 102      (* \f *)
  else None.

Definition is_plain (c : N) : bool := (32 <=? c) && (c <=? 126).

Definition print_char (c : N) : list N :=
  match short_escape c with
  | Some e => [92; e]
  | None =>
      if is_plain c then [c]
      else if c <? 65536 then esc_u c
      else let v := c - 65536 in
           esc_u (55296 + (v / 1024) mod 1024) ++ esc_u (56320 + v mod 1024)
  end.

Definition print_string (s : name) : list N := 34 :: flat_map print_char s ++ [34].

Fixpoint chars_of_uint (u : Decimal.uint) : list N :=
  match u with
  | Decimal.Nil => []
  | Decimal.D0 u => 48 :: chars_of_uint u
  | Decimal.D1 u => 49 :: chars_of_uint u
  | Decimal.D2 u => 50 :: chars_of_uint u
  | Decimal.D3 u => 51 :: chars_of_uint u
  | Decimal.D4 u => 52 :: chars_of_uint u
  | Decimal.D5 u => 53 :: chars_of_uint u
  | Decimal.D6 u => 54 :: chars_of_uint u
  | Decimal.D7 u => 55 :: chars_of_uint u
  | Decimal.D8 u => 56 :: chars_of_uint u
  | Decimal.D9 u => 57 :: chars_of_uint u
  end.

Definition print_N (n : N) : list N := chars_of_uint (N.to_uint n).

Definition print_Z (z : Z) : list N :=
  match z with
  | Zneg _ => 45 :: print_N (Z.abs_N z)
  | _ => print_N (Z.abs_N z)
  end.

(** [', '.join(parts)] *)
Definition sep_join (parts : list (list N)) : list N :=
  match parts with
  | [] => []
  | p :: r => p ++ flat_map (fun q => 44 :: 32 :: q) r
  end.

Definition s_null : list N := [110; 117; 108; 108].
Definition s_true : list N := [116; 114; 117; 101].
Definition s_false : list N := [102; 97; 108; 115; 101].

Fixpoint json_print (t : json) : list N :=
  match t with
  | JNull => s_null
  | JBool true => s_true
  | JBool false => s_false
  | JInt z => print_Z z
  | JStr s => print_string s
  | JList l => 91 :: sep_join (map json_print l) ++ [93]
  | JObj l =>
      123 :: sep_join (map (fun kv => let '(k, v) := kv in
                                      print_string k ++ 58 :: 32 :: json_print v) l) ++ [125]
  end.

(** * Parsing *)

Fixpoint skip_ws (s : list N) : list N :=
  match s with
  | c :: r => if is_ws c then skip_ws r else s
  | [] => []
  end.

Definition hexval (c : N) : option N :=
  if (48 <=? c) && (c <=? 57) then Some (c - 48)
  else if (97 <=? c) && (c <=? 102) then Some (c - 87)
  else if (65 <=? c) && (c <=? 70) then Some (c - 55)
  else None.

Definition hex4val (a b c d : N) : option N :=
  match hexval a, hexval b, hexval c, hexval d with
  | Some x, Some y, Some z, Some w => Some (x * 4096 + y * 256 + z * 16 + w)
  | _, _, _, _ => None
  end.

(** BACKSLASH dictionary of the decoder: letter after the backslash -> code point *)
Definition unescape (e : N) : option N :=
  if e =? 34 then Some 34
  else if e =? 92 then Some 92
  else if e =? 47 then Some 47       (* \/ *)
  else if e =? 98 then Some 8
  else if e =? 102 then Some 12
  else if e =? 110 then Some 10
  else if e =? 114 then Some 13
  else if e =? 116 then Some 9
  else None.

(** One decoded unit of a string body: a character that stands for itself (raw, or a
    two-character escape) or the value of a [\uXXXX] escape. *)
Inductive stok := TRaw (c : N) | TEsc (c : N).

(** The body of a string literal after the opening quote, up to and including the closing
    quote (strict mode: raw characters below 0x20 are refused). *)
Fixpoint scan_units (s : list N) : option (list stok * list N) :=
  match s with
  | [] => None
  | c :: r =>
      if c =? 34 then Some ([], r)
      else if c =? 92 then
        match r with
        | [] => None
        | e :: r1 =>
            if e =? 117 then
              match r1 with
              | a :: b :: c2 :: d :: r2 =>
                  match hex4val a b c2 d with
                  | Some u =>
                      match scan_units r2 with
                      | Some (ts, rest) => Some (TEsc u :: ts, rest)
                      | None => None
                      end
                  | None => None
                  end
              | _ => None
              end
            else
              match unescape e with
              | Some ch =>
                  match scan_units r1 with
                  | Some (ts, rest) => Some (TRaw ch :: ts, rest)
                  | None => None
                  end
              | None => None
              end
        end
      else if c <? 32 then None
      else
        match scan_units r with
        | Some (ts, rest) => Some (TRaw c :: ts, rest)
        | None => None
        end
  end.

(** An escaped high surrogate immediately followed by an escaped low surrogate is one code
    point; everything else stands for itself. *)
Fixpoint join_units (ts : list stok) : name :=
  match ts with
  | [] => []
  | TRaw c :: r => c :: join_units r
  | TEsc h :: r =>
      match r with
      | TEsc l :: r' =>
          if is_high h && is_low l then join_sur h l :: join_units r' else h :: join_units r
      | _ => h :: join_units r
      end
  end.

Definition scan_string (s : list N) : option (name * list N) :=
  match scan_units s with
  | Some (ts, rest) => Some (join_units ts, rest)
  | None => None
  end.

Definition digit_cons (c : N) : option (Decimal.uint -> Decimal.uint) :=
  if c =? 48 then Some Decimal.D0 else if c =? 49 then Some Decimal.D1
  else if c =? 50 then Some Decimal.D2 else if c =? 51 then Some Decimal.D3
  else if c =? 52 then Some Decimal.D4 else if c =? 53 then Some Decimal.D5
  else if c =? 54 then Some Decimal.D6 else if c =? 55 then Some Decimal.D7
  else if c =? 56 then Some Decimal.D8 else if c =? 57 then Some Decimal.D9
  else None.

(** the longest run of decimal digits at the head of [s] *)
Fixpoint scan_digits (s : list N) : Decimal.uint * list N :=
  match s with
  | [] => (Decimal.Nil, [])
  | c :: r =>
      match digit_cons c with
      | Some D => let (u, rest) := scan_digits r in (D u, rest)
      | None => (Decimal.Nil, s)
      end
  end.

(** '.', 'e', 'E' after the integer part: a float or an error *)
Definition float_mark (s : list N) : bool :=
  match s with
  | c :: _ => (c =? 46) || (c =? 101) || (c =? 69)
  | [] => false
  end.

Definition uint_is_nil (u : Decimal.uint) : bool :=
  match u with Decimal.Nil => true | _ => false end.

(** a digit run of at least two digits that starts with 0 *)
Definition lead_zero (u : Decimal.uint) : bool :=
  match u with
  | Decimal.D0 u' => negb (uint_is_nil u')
  | _ => false
  end.

Definition scan_nat (s : list N) : option (N * list N) :=
  let (u, rest) := scan_digits s in
  if uint_is_nil u || lead_zero u || float_mark rest then None
  else Some (N.of_uint u, rest).

Definition scan_number (s : list N) : option (Z * list N) :=
  match s with
  | c :: r =>
      if c =? 45 then
        match scan_nat r with
        | Some (n, rest) => Some (Z.opp (Z.of_N n), rest)
        | None => None
        end
      else
        match scan_nat s with
        | Some (n, rest) => Some (Z.of_N n, rest)
        | None => None
        end
  | [] => None
  end.

(** [s] starts with the word [w]: the rest *)
Fixpoint expect (w s : list N) : option (list N) :=
  match w with
  | [] => Some s
  | c :: w' =>
      match s with
      | d :: s' => if c =? d then expect w' s' else None
      | [] => None
      end
  end.

(** [dict(pairs)]: a repeated key keeps its first position and takes the last value *)
Definition dict_of_pairs (ps : list (name * json)) : list (name * json) :=
  fold_left (fun d kv => upsert (fst kv) (snd kv) d) ps [].

(** [scan_once] (no leading whitespace is skipped), the array loop after ['[' ws] when the
    next character is not [']'], the object loop after ['{' ws] when the next character is
    not ['}'].  [f] is fuel: [None] when exhausted; [S (length s)] is enough for every text
    ([JsonTextProofs.json_parse_print] proves it for the printed texts). *)
Fixpoint parse_value (f : nat) (s : list N) {struct f} : option (json * list N) :=
  match f with
  | O => None
  | S f' =>
      match s with
      | [] => None
      | c :: r =>
          if c =? 34 then
            match scan_string r with
            | Some (str, rest) => Some (JStr str, rest)
            | None => None
            end
          else if c =? 91 then
            match skip_ws r with
            | [] => None
            | d :: r1 =>
                if d =? 93 then Some (JList [], r1)
                else match parse_elems f' (d :: r1) with
                     | Some (l, rest) => Some (JList l, rest)
                     | None => None
                     end
            end
          else if c =? 123 then
            match skip_ws r with
            | [] => None
            | d :: r1 =>
                if d =? 125 then Some (JObj [], r1)
                else match parse_members f' (d :: r1) with
                     | Some (ps, rest) => Some (JObj (dict_of_pairs ps), rest)
                     | None => None
                     end
            end
          else if c =? 110 then
            match expect [117; 108; 108] r with
            | Some rest => Some (JNull, rest) | None => None end
          else if c =? 116 then
            match expect [114; 117; 101] r with
            | Some rest => Some (JBool true, rest) | None => None end
          else if c =? 102 then
            match expect [97; 108; 115; 101] r with
            | Some rest => Some (JBool false, rest) | None => None end
          else
            match scan_number s with
            | Some (z, rest) => Some (JInt z, rest)
            | None => None
            end
      end
  end
with parse_elems (f : nat) (s : list N) {struct f} : option (list json * list N) :=
  match f with
  | O => None
  | S f' =>
      match parse_value f' s with
      | None => None
      | Some (v, r) =>
          match skip_ws r with
          | [] => None
          | c :: r1 =>
              if c =? 93 then Some ([v], r1)
              else if c =? 44 then
                match parse_elems f' (skip_ws r1) with
                | Some (l, rest) => Some (v :: l, rest)
                | None => None
                end
              else None
          end
      end
  end
with parse_members (f : nat) (s : list N) {struct f}
  : option (list (name * json) * list N) :=
  match f with
  | O => None
  | S f' =>
      match s with
      | [] => None
      | q :: r0 =>
          if q =? 34 then
            match scan_string r0 with
            | None => None
            | Some (k, r) =>
                match skip_ws r with
                | [] => None
                | c :: r1 =>
                    if c =? 58 then
                      match parse_value f' (skip_ws r1) with
                      | None => None
                      | Some (v, r2) =>
                          match skip_ws r2 with
                          | [] => None
                          | e :: r3 =>
                              if e =? 125 then Some ([(k, v)], r3)
                              else if e =? 44 then
                                match parse_members f' (skip_ws r3) with
                                | Some (ps, rest) => Some ((k, v) :: ps, rest)
                                | None => None
                                end
                              else None
                          end
                      end
                    else None
                end
            end
          else None
      end
  end.

(** [json.loads(s)] *)
Definition json_parse (s : list N) : option json :=
  let s1 := skip_ws s in
  match parse_value (S (length s1)) s1 with
  | Some (t, rest) => match skip_ws rest with [] => Some t | _ :: _ => None end
  | None => None
  end.

(** * Well-formedness: what the round trip needs *)

(** Python guarantees every code point of a [str] is at most U+10FFFF. *)
Definition str_cp_ok (s : name) : bool := forallb (fun c => c <=? max_cp) s.

(** no high surrogate immediately followed by a low surrogate (true of every [str] obtained
    by decoding well-formed UTF-8/16/32, i.e. of every string of Unicode scalar values) *)
Fixpoint str_no_pair (s : name) : bool :=
  match s with
  | [] => true
  | c :: r =>
      negb (is_high c && match r with d :: _ => is_low d | [] => false end) && str_no_pair r
  end.

Definition str_wfb (s : name) : bool := str_cp_ok s && str_no_pair s.

(** Unicode scalar values only (no surrogate at all): the usual, stronger, condition *)
Definition str_scalar (s : name) : bool :=
  forallb (fun c => (c <=? max_cp) && negb (is_surrogate c)) s.

Fixpoint keys_nodupb (l : list name) : bool :=
  match l with
  | [] => true
  | k :: r => negb (mem k r) && keys_nodupb r
  end.

(** every code point of every string and key is at most U+10FFFF *)
Fixpoint json_cp_ok (t : json) : bool :=
  match t with
  | JStr s => str_cp_ok s
  | JList l => (fix go (l : list json) : bool :=
                  match l with [] => true | x :: l' => json_cp_ok x && go l' end) l
  | JObj l => (fix go (l : list (name * json)) : bool :=
                 match l with
                 | [] => true
                 | (k, v) :: l' => str_cp_ok k && json_cp_ok v && go l'
                 end) l
  | _ => true
  end.

(** [json_cp_ok], no string or key contains a (high, low) surrogate pair as two code points,
    and the keys of every object are pairwise distinct (true of every Python [dict]). *)
Fixpoint json_wfb (t : json) : bool :=
  match t with
  | JStr s => str_wfb s
  | JList l => (fix go (l : list json) : bool :=
                  match l with [] => true | x :: l' => json_wfb x && go l' end) l
  | JObj l =>
      keys_nodupb (map fst l)
      && (fix go (l : list (name * json)) : bool :=
            match l with
            | [] => true
            | (k, v) :: l' => str_wfb k && json_wfb v && go l'
            end) l
  | _ => true
  end.

Definition json_wf (t : json) : Prop := json_wfb t = true.

(** * What the text round trip does to an arbitrary tree *)

(** the string [json.loads(json.dumps(s))] *)
Fixpoint str_canon (s : name) : name :=
  match s with
  | [] => []
  | h :: r =>
      match r with
      | l :: r' => if is_high h && is_low l then join_sur h l :: str_canon r'
                   else h :: str_canon r
      | [] => [h]
      end
  end.

(** the tree [json.loads(json.dumps(t))] *)
Fixpoint json_canon (t : json) : json :=
  match t with
  | JStr s => JStr (str_canon s)
  | JList l => JList (map json_canon l)
  | JObj l =>
      JObj (dict_of_pairs
              (map (fun kv => let '(k, v) := kv in (str_canon k, json_canon v)) l))
  | _ => t
  end.

(** * The integer/string conversion limit of CPython >= 3.11 *)

Definition int_digits_limit : nat := 4300.

Fixpoint uint_length (u : Decimal.uint) : nat :=
  match u with
  | Decimal.Nil => O
  | Decimal.D0 u | Decimal.D1 u | Decimal.D2 u | Decimal.D3 u | Decimal.D4 u
  | Decimal.D5 u | Decimal.D6 u | Decimal.D7 u | Decimal.D8 u | Decimal.D9 u =>
      S (uint_length u)
  end.

Definition int_in_py_domain (z : Z) : bool :=
  Nat.leb (uint_length (N.to_uint (Z.abs_N z))) int_digits_limit.

(** [json.dumps(t)] does not raise ValueError for an integer that is too long *)
Fixpoint json_in_py_domain (t : json) : bool :=
  match t with
  | JInt z => int_in_py_domain z
  | JList l => (fix go (l : list json) : bool :=
                  match l with [] => true | x :: l' => json_in_py_domain x && go l' end) l
  | JObj l => (fix go (l : list (name * json)) : bool :=
                 match l with
                 | [] => true
                 | (_, v) :: l' => json_in_py_domain v && go l'
                 end) l
  | _ => true
  end.

(** * [json.dumps(t, indent=...)]

    [ind] is the indentation unit ([' ' * n] for [indent=n], the string itself for a string
    [indent]); with an indentation the item separator is [','] and the key separator [': '];
    empty containers are written ['[]'] / ['{}']. *)

Fixpoint repeat_app (ind : list N) (n : nat) : list N :=
  match n with O => [] | S n' => ind ++ repeat_app ind n' end.

(** ['\n' + _indent * _current_indent_level] *)
Definition newline_indent (ind : list N) (lvl : nat) : list N := 10 :: repeat_app ind lvl.

(** [sep.join(parts)] *)
Definition join_with (sep : list N) (parts : list (list N)) : list N :=
  match parts with
  | [] => []
  | p :: r => p ++ flat_map (fun q => sep ++ q) r
  end.

Fixpoint json_print_indent (ind : list N) (lvl : nat) (t : json) : list N :=
  match t with
  | JList [] => [91; 93]
  | JList l =>
      91 :: newline_indent ind (S lvl)
      ++ join_with (44 :: newline_indent ind (S lvl)) (map (json_print_indent ind (S lvl)) l)
      ++ newline_indent ind lvl ++ [93]
  | JObj [] => [123; 125]
  | JObj l =>
      123 :: newline_indent ind (S lvl)
      ++ join_with (44 :: newline_indent ind (S lvl))
           (map (fun kv => let '(k, v) := kv in
                           print_string k ++ 58 :: 32 :: json_print_indent ind (S lvl) v) l)
      ++ newline_indent ind lvl ++ [125]
  | _ => json_print t
  end.
