(** StationaryProofs.v — property C16: [stationary] (get_stationary_graph), [is_stationary]. *)
From CG Require Import Base Dec Digraph TSGraph TSGraphProofs MinimalProofs ExtendProofs.
Local Open Scope Z_scope.

(** * Earliest and latest lag *)

Lemma fold_min_spec ks : forall k,
  (fold_left Z.min ks k = k \/ In (fold_left Z.min ks k) ks)
  /\ fold_left Z.min ks k <= k /\ forall j, In j ks -> fold_left Z.min ks k <= j.
Proof.
  induction ks as [|a ks IH]; intros k; simpl; [split; [auto|split; [lia|tauto]]|].
  destruct (IH (Z.min k a)) as (H1 & H2 & H3). split; [|split].
  - destruct H1 as [H1|H1]; [|auto].
    destruct (Z.min_spec k a) as [[_ E]|[_ E]]; rewrite E in H1; [left|right; left]; congruence.
  - lia.
  - intros j [<-|Hj]; [lia|auto].
Qed.

Lemma fold_max_spec ks : forall k,
  (fold_left Z.max ks k = k \/ In (fold_left Z.max ks k) ks)
  /\ k <= fold_left Z.max ks k /\ forall j, In j ks -> j <= fold_left Z.max ks k.
Proof.
  induction ks as [|a ks IH]; intros k; simpl; [split; [auto|split; [lia|tauto]]|].
  destruct (IH (Z.max k a)) as (H1 & H2 & H3). split; [|split].
  - destruct H1 as [H1|H1]; [|auto].
    destruct (Z.max_spec k a) as [[_ E]|[_ E]]; rewrite E in H1; [right; left|left]; congruence.
  - lia.
  - intros j [<-|Hj]; [lia|auto].
Qed.

Lemma min_lag_spec l lo : min_lag l = Some lo -> In lo l /\ forall k, In k l -> lo <= k.
Proof.
  destruct l as [|k ks]; [discriminate|]. simpl; intros [= <-].
  destruct (fold_min_spec ks k) as ([H1|H1] & H2 & H3); split; auto.
  - intros j [<-|Hj]; [exact H2|auto].
  - intros j [<-|Hj]; [exact H2|auto].
Qed.

Lemma max_lag_spec l hi : max_lag l = Some hi -> In hi l /\ forall k, In k l -> k <= hi.
Proof.
  destruct l as [|k ks]; [discriminate|]. simpl; intros [= <-].
  destruct (fold_max_spec ks k) as ([H1|H1] & H2 & H3); split; auto.
  - intros j [<-|Hj]; [exact H2|auto].
  - intros j [<-|Hj]; [exact H2|auto].
Qed.

(** * [c15_spec] only depends on the minimal graph as a set *)

Lemma c15_spec_same m m' b f iap x :
  same_graph m m' -> c15_spec m' b f iap x -> c15_spec m b f iap x.
Proof.
  intros (Hn & He & Hm) [S1 S2 S3 S4 S5 S6 S7 S8].
  assert (Kn : forall k, In k (map nkey (tnodes m')) -> In k (map nkey (tnodes m))).
  { intros k Hk; apply in_map_iff in Hk; destruct Hk as (n & <- & H); apply in_map, Hn, H. }
  assert (Kv : forall v, In v (map tv (tnodes m')) -> In v (map tv (tnodes m))).
  { intros k Hk; apply in_map_iff in Hk; destruct Hk as (n & <- & H); apply in_map, Hn, H. }
  constructor; auto.
  - intros e' He'; destruct (S1 e' He') as [(e & H & C) K]; split; [|exact K].
    exists e; split; [apply He, H|exact C].
  - intros e t H; apply S2, He, H.
  - intros n' Hn'; destruct (S4 n' Hn') as [A (n & H & C)]; split.
    + destruct A as [A|[[A1 A2]|A]]; auto.
    + exists n; split; [apply Hn, H|exact C].
  - intros n H; apply S5, Hn, H.
  - congruence.
Qed.

(** * C16 *)

(** get_stationary_graph is, by definition, the extension of the minimal graph to the lag
    window [lo, hi] of the input without include_all_parents (IndexError on the empty graph). *)
Theorem stationary_def g :
  stationary g =
    match minimal g with
    | Err e => Err e
    | Ok m =>
        match min_lag (map tl (tnodes g)), max_lag (map tl (tnodes g)) with
        | Some lo, Some hi => extend m (Some (- lo)) (Some hi) false
        | _, _ => Err EIndex
        end
    end.
Proof. reflexivity. Qed.

Theorem stationary_empty g : tnodes g = [] -> minimal g <> Err EReverse ->
  stationary g = Err EIndex \/ exists e, minimal g = Err e /\ stationary g = Err e.
Proof.
  intros E _; unfold stationary; rewrite E; simpl.
  destruct (minimal g) as [m|e]; [left; reflexivity|right; eauto].
Qed.

(** The setting of C16: a consistent graph whose latest lag is 0 (earliest lag [lo]). *)
Definition window0 (g : tsg) (lo : Z) : Prop :=
  min_lag (map tl (tnodes g)) = Some lo /\ max_lag (map tl (tnodes g)) = Some 0.

Lemma window0_bounds g lo :
  window0 g lo -> lo <= 0 /\ forall n, In n (tnodes g) -> lo <= tl n <= 0.
Proof.
  intros [H1 H2]; apply min_lag_spec in H1; apply max_lag_spec in H2.
  destruct H1 as [I1 L1], H2 as [I2 L2]. split; [apply L1, I2|].
  intros n Hn; split; [apply L1|apply L2]; apply in_map, Hn.
Qed.

Lemma edge_bounds g lo e :
  wf g -> window0 g lo -> In e (tedges g) -> lo <= esl e /\ esl e <= edl e /\ edl e <= 0.
Proof.
  intros W H He; destruct (window0_bounds g lo H) as [_ B].
  destruct (wf_ends g W e He) as [H1 H2]; pose proof (wf_time g W e He).
  apply in_map_iff in H1, H2; destruct H1 as (n1 & K1 & Hn1), H2 as (n2 & K2 & Hn2).
  unfold nkey, esrc, edst in K1, K2; inversion K1; inversion K2.
  pose proof (B n1 Hn1); pose proof (B n2 Hn2); lia.
Qed.

(** The stationary graph exists and is the window extension of the minimal graph [m]. *)
Theorem stat_spec g m lo :
  consistent g -> window0 g lo -> minimal g = Ok m ->
  exists s, stationary g = Ok s /\ c15_spec m (Some (- lo)) (Some 0) false s /\ wf s.
Proof.
  intros C HW E; destruct (window0_bounds g lo HW) as [Hlo HB].
  destruct (minimal_idem g m C E) as (m' & E' & SG & _).
  pose proof (minimal_consistent g m C E) as Cm.
  assert (Hg : exists n0, In n0 (tnodes g)).
  { destruct HW as [H1 _]; apply min_lag_spec in H1; destruct H1 as [H1 _].
    apply in_map_iff in H1; destruct H1 as (n0 & _ & H); eauto. }
  rewrite stationary_def, E. destruct HW as [-> ->].
  assert (Hb : neg_opt (Some (- lo)) = false) by (simpl; apply Z.ltb_ge; lia).
  assert (Hf : neg_opt (Some 0) = false) by reflexivity.
  destruct (extend_spec m m' (Some (- lo)) (Some 0) false Cm E' Hb Hf) as (s & Es & S).
  exists s; split; [exact Es|].
  assert (Hne : is_empty m' = false).
  { destruct Hg as (n0 & Hn0).
    destruct (minimal_c14 g m C E) as [S14 _].
    assert (Hv : exists n, In n (tnodes m)).
    { destruct (touches g (tv n0)) eqn:T.
      - apply touches_spec in T; destruct T as (e & He & _).
        destruct (c14_nc1 g m S14 e He) as [H1 _]; apply in_map_iff in H1.
        destruct H1 as (n & _ & Hn); eauto.
      - assert (H1 : In (tv n0, 0) (map nkey (tnodes m))).
        { apply (c14_nc2 g m S14 n0); [exact Hn0|exact T]. }
        apply in_map_iff in H1; destruct H1 as (n & _ & Hn); eauto. }
    destruct Hv as (n & Hn); apply (proj1 SG) in Hn.
    unfold is_empty; destruct (tnodes m'); [destruct Hn|reflexivity]. }
  rewrite Hne in S; destruct S as [S X]. split; [|exact (xi_wf m' s X)].
  apply (c15_spec_same m m'); assumption.
Qed.

(** the result contains every node and every edge (with its type) of the input *)
Theorem stat_contains_input g m lo s :
  consistent g -> window0 g lo -> minimal g = Ok m -> stationary g = Ok s ->
  (forall n, In n (tnodes g) -> In (nkey n) (map nkey (tnodes s)))
  /\ (forall e, In e (tedges g) ->
        exists e', In e' (tedges s) /\ ekey e' = ekey e /\ ety e' = ety e).
Proof.
  intros C HW E Es; destruct (stat_spec g m lo C HW E) as (s' & Es' & S & _).
  assert (s' = s) by congruence; subst s'.
  destruct (window0_bounds g lo HW) as [Hlo HB].
  destruct (minimal_c14 g m C E) as [S14 Wm]. destruct (minimal_mwf g m C E) as [Hm _].
  pose proof C as (Wg & Htc & _). split.
  - intros n Hn.
    assert (Hv : exists n1, In n1 (tnodes m) /\ tv n1 = tv n).
    { destruct (touches g (tv n)) eqn:T.
      - apply touches_spec in T; destruct T as (e & He & Hv).
        destruct (c14_nc1 g m S14 e He) as [H1 H2]; apply in_map_iff in H1, H2.
        destruct H1 as (n1 & K1 & Hn1), H2 as (n2 & K2 & Hn2).
        unfold nkey, place_src, place_dst in K1, K2; inversion K1; inversion K2.
        destruct Hv as [Hv|Hv]; [exists n1|exists n2]; split; auto; congruence.
      - pose proof (c14_nc2 g m S14 n Hn T) as H1; apply in_map_iff in H1.
        destruct H1 as (n1 & K1 & Hn1); unfold nkey in K1; inversion K1; eauto. }
    destruct Hv as (n1 & Hn1 & Tv). unfold nkey; rewrite <- Tv.
    apply (c15_nc1 _ _ _ _ _ S n1 Hn1). unfold windows; apply in_or_app; left.
    apply zrange_in; pose proof (HB n Hn); lia.
  - intros e He. destruct (edge_bounds g lo e Wg HW He) as (B1 & B2 & B3).
    pose proof (c14_ec g m S14 e He) as K; apply in_map_iff in K; destruct K as (em & K & Hem).
    apply ekey_inv in K; destruct K as [K1 K2].
    assert (Dm : delta em = delta e /\ es em = es e /\ ed em = ed e).
    { unfold esrc, edst, place_src, place_dst in K1, K2; inversion K1; inversion K2.
      unfold delta in *; repeat split; auto; lia. }
    destruct Dm as (Dm & Em1 & Em2).
    assert (Hk : kept (Some (- lo)) (Some 0) false (edl e - delta em) (edl e) = true).
    { unfold kept, in_back, src_ok, in_fwd; simpl.
      destruct (Z.eqb_spec (edl e) 0) as [|N0]; [reflexivity|simpl].
      apply orb_true_iff; left; rewrite !andb_true_iff, !Z.leb_le; unfold delta in *; lia. }
    assert (Ht : In (edl e) (ends (Some (- lo)) (Some 0))).
    { unfold ends; destruct (Z.eq_dec (edl e) 0) as [->|N0]; [left; reflexivity|right].
      apply in_or_app; left; apply zrange_in; lia. }
    pose proof (c15_ec _ _ _ _ _ S em (edl e) Hem Ht Hk) as K; apply in_map_iff in K.
    destruct K as (e' & K & He'). exists e'; split; [exact He'|].
    assert (Ke : ekey e' = ekey e).
    { rewrite K; unfold shiftk, ekey, esrc, edst; rewrite Em1, Em2, Dm.
      repeat f_equal; unfold delta; lia. }
    split; [exact Ke|].
    destruct (c15_es _ _ _ _ _ S e' He') as [(e2 & H2 & C1 & C2 & C3 & C4 & _) _].
    rewrite C4. apply ekey_inv in Ke; destruct Ke as [Ke1 Ke2].
    unfold esrc, edst in Ke1, Ke2; inversion Ke1; inversion Ke2.
    destruct (c14_es g m S14 e2 H2) as (e0 & Hq0 & Q1 & Q2 & Q3 & _). rewrite Q3.
    unfold esrc, edst, place_src, place_dst in Q1, Q2; inversion Q1; inversion Q2.
    apply Htc; auto; try congruence.
    destruct (mwf_delta m e2 Hm H2) as [_ L2]. unfold delta in *; lia.
Qed.

(** the result spans the same lag window: every variable at every lag of [lo, 0], nothing else *)
Theorem stat_window g m lo s :
  consistent g -> window0 g lo -> minimal g = Ok m -> stationary g = Ok s ->
  (forall n k, In n (tnodes g) -> lo <= k <= 0 -> In (tv n, k) (map nkey (tnodes s)))
  /\ (forall n', In n' (tnodes s) -> lo <= tl n' <= 0 /\ In (tv n') (map tv (tnodes g)))
  /\ (forall e', In e' (tedges s) -> lo <= esl e' /\ esl e' <= edl e' /\ edl e' <= 0).
Proof.
  intros C HW E Es; destruct (stat_spec g m lo C HW E) as (s' & Es' & S & Ws).
  assert (s' = s) by congruence; subst s'.
  destruct (window0_bounds g lo HW) as [Hlo HB].
  destruct (minimal_c14 g m C E) as [S14 Wm]. destruct (minimal_mwf g m C E) as [Hm _].
  pose proof C as (Wg & _ & _).
  assert (Mv : forall n1, In n1 (tnodes m) -> In (tv n1) (map tv (tnodes g)) /\ lo <= tl n1 <= 0).
  { intros n1 Hn1.
    destruct (c14_ns g m S14 n1 Hn1) as [(e0 & H0 & [(n0 & F0 & ->)|(n0 & F0 & ->)])|(_ & n0 & F0 & ->)];
      simpl.
    - apply find_node_some in F0; destruct F0 as [F0 _]; split; [apply in_map, F0|].
      destruct (edge_bounds g lo e0 Wg HW H0); unfold delta; lia.
    - apply find_node_some in F0; destruct F0 as [F0 _]; split; [apply in_map, F0|lia].
    - apply first_of_var_some in F0; destruct F0 as [F0 _]; split; [apply in_map, F0|lia]. }
  assert (Ev : forall e', In e' (tedges s) -> lo <= esl e' /\ esl e' <= edl e' /\ edl e' <= 0).
  { intros e' He'. destruct (c15_es _ _ _ _ _ S e' He') as [(e & He & C1 & C2 & C3 & _) Hk].
    destruct (mwf_delta m e Hm He) as [Dp Dl].
    destruct (wf_ends m Wm e He) as [H1 _]; apply in_map_iff in H1; destruct H1 as (n1 & K1 & Hn1).
    destruct (Mv n1 Hn1) as [_ Bn]. unfold nkey, esrc in K1; inversion K1.
    unfold kept, in_back, src_ok, in_fwd in Hk; simpl in Hk.
    rewrite !orb_true_iff, !andb_true_iff, Z.eqb_eq, !Z.leb_le in Hk. unfold delta in *; lia. }
  split; [|split; [|exact Ev]].
  - intros n k Hn Hk.
    destruct (stat_contains_input g m lo s C HW E Es) as [Hin _].
    pose proof (Hin n Hn) as K; apply in_map_iff in K; destruct K as (n' & K & Hn').
    destruct (c15_ns _ _ _ _ _ S n' Hn') as [_ (n1 & Hn1 & R)].
    assert (Tv : tv n1 = tv n) by (unfold nkey in K; inversion K; rewrite R; reflexivity).
    rewrite <- Tv; apply (c15_nc1 _ _ _ _ _ S n1 Hn1).
    unfold windows; apply in_or_app; left; apply zrange_in; lia.
  - intros n' Hn'. destruct (c15_ns _ _ _ _ _ S n' Hn') as [A (n1 & Hn1 & R)].
    destruct (Mv n1 Hn1) as [V1 _]. split; [|rewrite R; exact V1].
    destruct A as [A|[[_ A]|(e' & He' & A)]].
    + apply in_map_iff in A; destruct A as (n2 & K & Hn2). destruct (Mv n2 Hn2) as [_ B2].
      unfold nkey in K; inversion K; lia.
    + unfold in_window in A; simpl in A.
      rewrite orb_true_iff, !andb_true_iff, !Z.leb_le in A; lia.
    + destruct (Ev e' He'). destruct A as [A|A]; unfold esrc, edst, nkey in A; inversion A; lia.
Qed.

(** the result contains every template copy that fits in the window *)
Theorem stat_complete g m lo s :
  consistent g -> window0 g lo -> minimal g = Ok m -> stationary g = Ok s ->
  forall e t, In e (tedges g) -> lo <= t - delta e -> t <= 0 ->
    In ((es e, t - delta e), (ed e, t)) (map ekey (tedges s)).
Proof.
  intros C HW E Es e t He H1 H2; destruct (stat_spec g m lo C HW E) as (s' & Es' & S & _).
  assert (s' = s) by congruence; subst s'.
  destruct (minimal_c14 g m C E) as [S14 Wm]. pose proof C as (Wg & _ & _).
  pose proof (c14_ec g m S14 e He) as K; apply in_map_iff in K; destruct K as (em & K & Hem).
  apply ekey_inv in K; destruct K as [K1 K2].
  pose proof (wf_time g Wg e He) as Tm.
  assert (Dm : delta em = delta e /\ es em = es e /\ ed em = ed e).
  { unfold esrc, edst, place_src, place_dst in K1, K2; inversion K1; inversion K2.
    unfold delta in *; repeat split; auto; lia. }
  destruct Dm as (Dm & Em1 & Em2).
  replace ((es e, t - delta e), (ed e, t)) with (shiftk em t)
    by (unfold shiftk; rewrite Em1, Em2, Dm; reflexivity).
  apply (c15_ec _ _ _ _ _ S em t Hem).
  - unfold ends; destruct (Z.eq_dec t 0) as [->|N0]; [left; reflexivity|right].
    apply in_or_app; left; apply zrange_in; unfold delta in *; lia.
  - unfold kept, in_back, src_ok, in_fwd; simpl.
    destruct (Z.eqb_spec t 0) as [|N0]; [reflexivity|simpl].
    apply orb_true_iff; left; rewrite !andb_true_iff, !Z.leb_le; unfold delta in *; lia.
Qed.

(** is_stationary_graph: false for any graph that is not a DAG; otherwise true exactly when the
    graph equals its stationary graph. *)
Theorem is_stationary_not_dag g : is_stationary false g = Ok false.
Proof. reflexivity. Qed.

Theorem is_stationary_iff g :
  is_stationary true g = Ok true <-> exists s, stationary g = Ok s /\ ts_graph_eqb s g = true.
Proof.
  unfold is_stationary; simpl; split.
  - destruct (stationary g) as [s|]; [|discriminate]. intros [= H]; eauto.
  - intros (s & -> & ->); reflexivity.
Qed.

Theorem is_stationary_graph_iff g :
  is_stationary_graph g = Ok true <->
  ts_is_dag g = true /\ exists s, stationary g = Ok s /\ ts_graph_eqb s g = true.
Proof.
  unfold is_stationary_graph; destruct (ts_is_dag g).
  - rewrite is_stationary_iff; tauto.
  - simpl; split; [discriminate|intros [? _]; discriminate].
Qed.

(** * Examples (see [ex_g] in TSGraphProofs.v; values observed on the Python code) *)

Example ex_g_window0 : window0 ex_g (-2).
Proof. split; vm_compute; reflexivity. Qed.

(** Python: ex_g.get_stationary_graph(): every variable at lags 0, -1, -2 and the 11 template
    copies that fit; ex_g.is_stationary_graph() is False, and True for the stationary graph. *)
Definition ex_s : tsg :=
  Gr [(Nd [87]%N (-1)%Z VUnspec []); (Nd [88]%N (0)%Z VUnspec []); (Nd [88]%N (-1)%Z VUnspec []); (Nd [89]%N (0)%Z VUnspec []); (Nd [89]%N (-1)%Z VUnspec []); (Nd [90]%N (0)%Z VCont [([97]%N, JInt (1)%Z)]); (Nd [87]%N (0)%Z VUnspec []); (Nd [90]%N (-1)%Z VCont [([97]%N, JInt (1)%Z)]); (Nd [87]%N (-2)%Z VUnspec []); (Nd [88]%N (-2)%Z VUnspec []); (Nd [89]%N (-2)%Z VUnspec []); (Nd [90]%N (-2)%Z VCont [([97]%N, JInt (1)%Z)])] [(Ed [87]%N (-1)%Z [89]%N (0)%Z Dir []); (Ed [87]%N (-2)%Z [89]%N (-1)%Z Dir []); (Ed [88]%N (0)%Z [89]%N (0)%Z Dir []); (Ed [88]%N (-1)%Z [88]%N (0)%Z Dir []); (Ed [88]%N (-1)%Z [89]%N (0)%Z Dir []); (Ed [88]%N (-1)%Z [89]%N (-1)%Z Dir []); (Ed [88]%N (-2)%Z [88]%N (-1)%Z Dir []); (Ed [88]%N (-2)%Z [89]%N (-1)%Z Dir []); (Ed [88]%N (-2)%Z [89]%N (-2)%Z Dir []); (Ed [89]%N (-1)%Z [88]%N (0)%Z Dir [([98]%N, JStr [117]%N)]); (Ed [89]%N (-2)%Z [88]%N (-1)%Z Dir [([98]%N, JStr [117]%N)])] [([103]%N, JInt (1)%Z)].
Example ex_g_stationary : res_exact (stationary ex_g) (Ok ex_s) = true.
Proof. vm_compute; reflexivity. Qed.
Example ex_g_is_stationary :
  is_stationary_graph ex_g = Ok false /\ is_stationary_graph ex_s = Ok true.
Proof. split; vm_compute; reflexivity. Qed.
Example ex_g_c16_check : c16_check ex_g ex_s = true.
Proof. vm_compute; reflexivity. Qed.
Example ex_empty_stationary : stationary (empty_tsg []) = Err EIndex.
Proof. vm_compute; reflexivity. Qed.
(** only future lags: the AssertionError of extend_graph's argument check *)
Example ex_future_stationary :
  stationary (Gr [Nd [88]%N 1 VUnspec []; Nd [89]%N 2 VUnspec []]
                 [Ed [88]%N 1 [89]%N 2 Dir []] []) = Err EAssert.
Proof. vm_compute; reflexivity. Qed.

(** * The stationary graph has the minimal graph of the input (as keys, types, metadata) *)
Theorem stat_minimal g m lo s :
  consistent g -> window0 g lo -> minimal g = Ok m -> stationary g = Ok s ->
  exists ms, minimal s = Ok ms
    /\ (forall k, In k (map ekey (tedges ms)) <-> In k (map ekey (tedges m)))
    /\ (forall e1 e2, In e1 (tedges ms) -> In e2 (tedges m) -> ekey e1 = ekey e2 ->
          ety e1 = ety e2 /\ em e1 = em e2)
    /\ (forall k, In k (map nkey (tnodes ms)) <-> In k (map nkey (tnodes m))).
Proof.
  intros C HW E Es. pose proof (minimal_consistent g m C E) as Cm.
  destruct (minimal_idem g m C E) as (m' & E' & (Sn & Se & _) & _).
  rewrite stationary_def, E in Es. destruct HW as [H1 H2]; rewrite H1, H2 in Es.
  destruct (minimal_of_extend m m' (Some (- lo)) (Some 0) false s Cm E' Es) as (ms & Ems & K1 & K2 & K3).
  exists ms; split; [exact Ems|]. split; [|split].
  - intros k; rewrite K1; split; intros Hk; apply in_map_iff in Hk; destruct Hk as (e & <- & He);
      apply in_map, Se, He.
  - intros e1 e2 I1 I2; apply K2; [exact I1|apply Se, I2].
  - intros k; rewrite K3; split; intros Hk; apply in_map_iff in Hk; destruct Hk as (n & <- & Hn);
      apply in_map, Sn, Hn.
Qed.

(** * What is NOT proved here (statements kept in full)

    [stat_idem_statement]: the stationary graph is itself stationary.  [stat_minimal] gives the
    first half (its minimal graph is that of the input); the missing half is that [extend] only
    depends on the KEYS and edge types of the minimal graph (node attributes of the copies can
    differ, which shallow graph equality ignores).  Pinned by [vm_compute] on [ex_s]
    ([ex_g_is_stationary]); on the Python side it held on every random consistent DAG tried. *)
Definition stat_idem_statement : Prop :=
  forall g m lo s, consistent g -> window0 g lo -> minimal g = Ok m -> stationary g = Ok s ->
    exists s', stationary s = Ok s' /\ ts_graph_eqb s' s = true.

(** The Prop reading of the oracle [c16_check g s] (for [window0 g lo]): the conjunction of
    [stat_contains_input], [stat_window], [stat_complete] and uniqueness of keys. *)
Definition c16_spec (g s : tsg) : Prop :=
  exists m lo, minimal g = Ok m /\ min_lag (map tl (tnodes g)) = Some lo
    /\ max_lag (map tl (tnodes g)) = Some 0
    /\ (forall n, In n (tnodes g) -> In (nkey n) (map nkey (tnodes s)))
    /\ (forall e, In e (tedges g) ->
          exists e', In e' (tedges s) /\ ekey e' = ekey e /\ ety e' = ety e)
    /\ (forall n k, In n (tnodes g) -> lo <= k <= 0 -> In (tv n, k) (map nkey (tnodes s)))
    /\ (forall n', In n' (tnodes s) -> In (tv n') (map tv (tnodes g)) /\ lo <= tl n' <= 0)
    /\ (forall e', In e' (tedges s) ->
          (exists e, In e (tedges m) /\ is_copyP e e') /\ lo <= esl e' /\ edl e' <= 0)
    /\ (forall e t, In e (tedges m) -> lo <= t - delta e -> lo <= t <= 0 ->
          In (shiftk e t) (map ekey (tedges s)))
    /\ NoDup (map ekey (tedges s)) /\ NoDup (map nkey (tnodes s)).
Definition c16_check_statement : Prop :=
  forall g s, max_lag (map tl (tnodes g)) = Some 0 -> (c16_check g s = true <-> c16_spec g s).

(** The model's stationary graph satisfies the Prop reading. *)
Theorem stat_c16_spec g m lo s :
  consistent g -> window0 g lo -> minimal g = Ok m -> stationary g = Ok s -> c16_spec g s.
Proof.
  intros C HW E Es. exists m, lo.
  destruct (stat_contains_input g m lo s C HW E Es) as [A1 A2].
  destruct (stat_window g m lo s C HW E Es) as (B1 & B2 & B3).
  destruct (stat_spec g m lo C HW E) as (s' & Es' & S & Ws).
  assert (s' = s) by congruence; subst s'.
  destruct (minimal_mwf g m C E) as [Hm _]. destruct (window0_bounds g lo HW) as [Hlo _].
  destruct HW as [W1 W2].
  repeat (split; [assumption|]). split; [|split; [|split; [|split]]].
  - intros n' Hn'; destruct (B2 n' Hn'); auto.
  - intros e' He'; destruct (B3 e' He') as (Q1 & Q2 & Q3).
    split; [exact (proj1 (c15_es _ _ _ _ _ S e' He'))|lia].
  - intros e t He T1 T2. apply (c15_ec _ _ _ _ _ S e t He).
    + unfold ends; destruct (Z.eq_dec t 0) as [->|N0]; [left; reflexivity|right].
      apply in_or_app; left; apply zrange_in; lia.
    + unfold kept, in_back, src_ok, in_fwd; simpl.
      destruct (Z.eqb_spec t 0) as [|N0]; [reflexivity|simpl].
      apply orb_true_iff; left; rewrite !andb_true_iff, !Z.leb_le; lia.
  - exact (wf_edges s Ws).
  - exact (wf_nodes s Ws).
Qed.
