(** IdentifyDSep.v — the d-separation clauses of C18 / C19, which tie Identify.v to DSep.v.

    The documentation of identify_confounders promises a SUFFICIENT adjustment set.  That full
    statement is FALSE of the faithful model (and of the code): [conf_sufficient_refuted] gives
    the witness (recorded finding F12).  What does hold is proved for the finite domain of all
    DAGs on at most 4 labelled nodes (the bound is part of the statement). *)
From CG Require Import Base Digraph DigraphProofs DSep DSepProofs Identify IdentifyProofs.
From Coq Require Import Arith.

(** The full statement (kept visible). *)
Definition conf_sufficient_statement : Prop :=
  forall (g : digraph nat) x y Z,
    wf g -> acyclic g -> In x (verts g) -> In y (verts g) -> x <> y -> ~ path g y x ->
    confounders Nat.eqb g x y = Some Z ->
    dsep (del_arcs_from Nat.eqb g [x]) [x] [y] Z.

Lemma del_arcs_wf_nat (g : digraph nat) xs : wf g -> wf (del_arcs_from Nat.eqb g xs).
Proof. apply (@del_arcs_wf nat Nat.eqb Nat.eqb_spec). Qed.

Theorem conf_sufficient_refuted : ~ conf_sufficient_statement.
Proof.
  intros H.
  destruct conf_witness_ok as [Hwf Hac].
  assert (Hd : dsep (del_arcs_from Nat.eqb conf_witness_graph [2]) [2] [3] [4]).
  { apply (H conf_witness_graph 2 3 [4] Hwf Hac).
    - vm_compute; auto 10.
    - vm_compute; auto 10.
    - discriminate.
    - intros Hp.
      apply (proj2 (@desc_spec nat Nat.eqb Nat.eqb_spec conf_witness_graph 3 2 Hwf)) in Hp.
      vm_compute in Hp. tauto.
    - exact conf_witness. }
  apply (proj2 (@dsepb_correct nat Nat.eqb Nat.eqb_spec _ [2] [3] [4]
                  (del_arcs_wf_nat conf_witness_graph [2] Hwf))) in Hd.
  vm_compute in Hd. discriminate.
Qed.

(** The failing path of the witness: c <- b -> e <- a -> d is opened by conditioning on the
    collider e. *)
Example conf_witness_open_path :
  blockedb Nat.eqb (del_arcs_from Nat.eqb conf_witness_graph [2]) [4] [2; 1; 4; 0; 3] = false.
Proof. vm_compute. reflexivity. Qed.

(** Finite version: on every DAG with at most 4 labelled nodes the reported set IS a sufficient
    adjustment set, for every ordered pair with y not an ancestor of x. *)
Definition suff_check_graph (n : nat) (arcs : list (nat * nat)) : bool :=
  let g := ds_g n arcs in
  negb (acyclicb Nat.eqb g)
  || forallb (fun x => forallb (fun y =>
       Nat.eqb x y || memb Nat.eqb y (anc Nat.eqb g x)
       || match confounders Nat.eqb g x y with
          | Some Z => dsepb Nat.eqb (del_arcs_from Nat.eqb g [x]) [x] [y] Z
          | None => false
          end) (seq 0 n)) (seq 0 n).

Theorem conf_sufficient_le4 :
  forall n, In n [1; 2; 3; 4] -> forallb (suff_check_graph n) (ds_orient (ds_upairs n)) = true.
Proof.
  intros n H; simpl in H.
  repeat (destruct H as [H|H]; [subst n; vm_cast_no_check (eq_refl true)|]); contradiction.
Qed.

(** Instruments: the d-separation clause "every reported instrument is d-separated from the
    destination once the edges leaving the source are removed", on the same finite domain. *)
Definition inst_dsep_statement : Prop :=
  forall (g : digraph nat) s d Is i,
    wf g -> acyclic g -> In s (verts g) -> In d (verts g) -> s <> d ->
    instruments Nat.eqb g s d = Some Is -> In i Is ->
    dsep (del_arcs_from Nat.eqb g [s]) [i] [d] [].

Definition inst_check_graph (n : nat) (arcs : list (nat * nat)) : bool :=
  let g := ds_g n arcs in
  negb (acyclicb Nat.eqb g)
  || forallb (fun s => forallb (fun d =>
       Nat.eqb s d
       || match instruments Nat.eqb g s d with
          | Some Is => forallb (fun i => dsepb Nat.eqb (del_arcs_from Nat.eqb g [s]) [i] [d] []) Is
          | None => false
          end) (seq 0 n)) (seq 0 n).

Theorem inst_dsep_le4 :
  forall n, In n [1; 2; 3; 4] -> forallb (inst_check_graph n) (ds_orient (ds_upairs n)) = true.
Proof.
  intros n H; simpl in H.
  repeat (destruct H as [H|H]; [subst n; vm_cast_no_check (eq_refl true)|]); contradiction.
Qed.
