#!/bin/bash
# usage: tools/try_seed.sh <patch file> <Cxx> [<Cyy> ...]
# Applies a seeded change to a scratch worktree of /repo's HEAD (so that /repo itself, which other processes read, is never
# touched), runs the named checks against it (VERIF_REPO), and removes the worktree.  Equivalent to
# `git -C /repo apply <patch>; ./check ...; git -C /repo checkout -- .` (pass --in-repo to do exactly that instead).
set -u
INREPO=0; [ "$1" = "--in-repo" ] && { INREPO=1; shift; }
PATCH=$1; shift
if [ $INREPO = 1 ]; then
  git -C /repo status --short | grep -q . && { echo "/repo not clean"; exit 2; }
  git -C /repo apply "$PATCH" || { echo "patch does not apply"; exit 2; }
  R=/repo
else
  R=/tmp/seedrepo_$$
  git -C /repo worktree add --detach "$R" HEAD >/dev/null 2>&1 || { echo "cannot create worktree"; exit 2; }
  git -C "$R" apply "$PATCH" || { echo "patch does not apply"; git -C /repo worktree remove --force "$R"; exit 2; }
fi
for P in "$@"; do
  echo "=== $P (tier ${VERIF_TIER:-quick})"
  VERIF_EVIDENCE_DIR=/tmp/seed_evidence VERIF_REPO=$R timeout 3000 /verif/check "$P" --tier "${VERIF_TIER:-quick}" 2>&1 | grep -a "VIOLATION\|KNOWN-FINDING\|obligations=" | cut -c1-300 | awk '/^VIOLATION/ {n++; if (n>3) next} {print}'
done
if [ $INREPO = 1 ]; then git -C /repo checkout -- .; git -C /repo status --short | head -3
else git -C /repo worktree remove --force "$R"; fi
# leave Extracted.v describing the unchanged tree again
/venv/bin/python /verif/tools/extract_facts.py /repo /verif/coq/theories/Extracted.v
/venv/bin/python /verif/tools/translate_identify.py /repo /verif/coq/theories >/dev/null 2>&1 || true
/venv/bin/python /verif/tools/translate_traversal.py /repo /verif/coq/theories >/dev/null 2>&1 || true
/venv/bin/python /verif/tools/translate_ts_summary.py /repo /verif/coq/theories >/dev/null 2>&1 || true
/venv/bin/python /verif/tools/translate_ts_extend.py /repo /verif/coq/theories >/dev/null 2>&1 || true
/venv/bin/python /verif/tools/translate_mutators.py /repo /verif/coq/theories >/dev/null 2>&1 || true
/venv/bin/python /verif/tools/translate_add_edge.py /repo /verif/coq/theories >/dev/null 2>&1 || true
