#!/bin/bash
# usage: tools/try_seed.sh <patch file> <Cxx> [<Cyy> ...]   — applies a seeded change to /repo, runs the checks, reverts.
set -u
PATCH=$1; shift
git -C /repo status --short | grep -q . && { echo "/repo not clean"; exit 2; }
git -C /repo apply "$PATCH" || { echo "patch does not apply"; exit 2; }
for P in "$@"; do
  echo "=== $P (tier ${VERIF_TIER:-quick})"
  timeout 3000 ./check "$P" --tier "${VERIF_TIER:-quick}" 2>&1 | grep -a "VIOLATION\|KNOWN-FINDING\|obligations=" | cut -c1-300
done
git -C /repo checkout -- .
git -C /repo status --short | head -3
