#!/usr/bin/env python3
"""Regenerates /verif/MANIFEST.json from the table below (kept valid at all times)."""
import json
from pathlib import Path

VERIF = Path(__file__).resolve().parent.parent
ALL = [f'C{i:02d}' for i in range(1, 21)]

TB = ('Trusted: Coq 8.16.1 kernel (vm_compute in finite side-conditions, no native_compute); every property theorem is '
      '`Closed under the global context` (Print Assumptions re-run on every check); the hand-written Gallina model is tied to '
      '/repo by the correspondence check of each run (model evaluated inside Coq with vm_compute on the same inputs as the real '
      'code; Uint63 primitives only hash observations); Python harness, CPython/numpy/networkx substrate. ')

CHECKS = {
 'C01': dict(
    text='Machine-checked proof (Coq) that EVERY state reachable by ANY sequence of the public mutators of the concrete model (which mirrors '
         'the two edge indexes, the per-node directed lists and the time-series indexes of the real classes) satisfies the invariant Inv: unique '
         'node names, mirrored indexes, at most one edge per unordered pair, per-node lists equal to the directed edges, and that every read view '
         'reports that one state (inv_run, one_edge_per_pair, views_agree). The model is executable and is compared with the real classes after '
         'EVERY step of random and exhaustive-short histories (all mutators, argument forms, edge types, both classes, warm/cold caches): any '
         'divergence in observable state or error class is reported as a failing history.',
    note=TB, technique='Coq invariant proof by induction over histories + step-by-step model/implementation correspondence', design='§7 C01'),
 'C02': dict(
    text='Machine-checked proof that the literal cycle-check loop terminates within its fuel and decides "lies on a directed cycle" '
         '(cycle_check), that every validated mutation preserves acyclicity of the directed part for all histories (acyclic_step, acyclic_run), '
         'that a directed add is refused with CyclicConnectionError exactly when it closes a cycle (add_edge_cyclic_iff), and that is_dag is true '
         'exactly for all-directed acyclic graphs with no acyclicity premise (is_dag_spec). Tied to the code by step-by-step correspondence on '
         'cycle-seeking histories and by running every constructor on every binary matrix up to a bound. The constructors are covered by theorems too (CtorAcyclicProofs.v, CtorAcyclicLag.v): from_dict on ANY JSON input, from_adjacency_matrix (deferred validation), from_networkx, from_skeleton, Skeleton constructors and from_adjacency_matrices yield an acyclic graph or CyclicConnectionError, the validated call succeeds exactly when the unvalidated result is acyclic, and is_dag is exact on every constructed graph; the source fact \'validate defaults to True in all 15 functions that take it\' is regenerated and re-proved on every run.',
    note=TB + 'The edge-adding path (_set_edge with its validation and rollback, add_edge) is TRANSLATED as well (MutGenAdd.v): a validated generated add_edge keeps the directed part acyclic and is refused exactly when it closes a cycle (gen_add_edge_acyclic, gen_add_edge_cyclic_iff); self-loops are probed in every argument form (F18, repaired) (DESIGN 3.7). add_edge, _set_edge, _prepare_nodes and add_node are additionally TRANSLATED from causal_graph.py on every run (tools/translate_add_edge.py -> MutGenAdd.v) and proved equal to the model in result and leftover state; the add_edge / add_node steps of the histories are also run through the generated code; a refusal of the translator falls back to the hand-written model and its correspondence (DESIGN 3.7). networkx.is_directed_acyclic_graph is modelled by its specification (acyclicb); GML parsing is exercised, not modelled. The cycle check itself (_assert_node_does_not_depend_on_itself) is additionally TRANSLATED from causal_graph.py on every run (tools/translate_traversal.py -> TraversalGenCyc.v) and the translation is proved equal to the stack-loop model for every fuel and to decide "on a directed cycle" on every invariant graph state; the translated code is compared with the real method on every run (DESIGN 3.4).',
    technique='Coq proof of loop correctness (on the loop translated from the source on every run) + acyclicity invariant; correspondence', design='§7 C02'),
 'C04': dict(
    text='Machine-checked meta-theorem (Cache.v) that for EVERY interleaving of reads and mutations a cached read equals the uncached function '
         'of the current state, i.e. the answer of a never-queried copy, given that successful mutators reset every memoised field and failed ones '
         'change no derived answer; the premises are proved BY COMPUTATION about tables REGENERATED FROM THE SOURCE on every run '
         '(tools/extract_facts.py -> Extracted.v -> Facts.v: every state-writing public method is decorated, memoised fields are a subset of reset '
         'fields incl. inheritance, mutators never read a cache, mutable caches are returned by copy). A dynamic search compares every derived '
         'answer with from_dict(to_dict(g)) after every mutation, warm and cold.',
    note=TB + 'The two semantic hypotheses of the instance (non-mutators change no derived answer; failed calls are atomic = C03) are validated dynamically.',
    technique='Coq meta-theorem instantiated on tables regenerated from source (fail-closed extractor) + dynamic stale-read search', design='§7 C04'),
 'C10': dict(
    text='Machine-checked proofs that the executable query models equal their graph-theoretic definitions on all graphs: descendants/ancestors = '
         'transitive closure, all_paths = exactly the simple directed paths, the memoised nodes_between recursion = {v | a ~>* v ~>* b} on DAGs, '
         'directed_path_exists (fuelled, as written) = reachability on acyclic directed parts, all_topo = exactly the linear extensions, renaming '
         'invariance. Tied to the code by comparing every query on every labelled DAG up to 4 (quick) / 5 (thorough) nodes and sampled larger ones. The sub-graph builders are proved to return induced sub-graphs / stars, and every query is proved to depend only on the arc set (construction-order invariance). The default get_topological_order() is modelled exactly as networkx computes it (Kahn by generations over to_networkx()) and proved to be a linear extension on every graph state (TopoSortProofs.v).',
    note=TB + 'networkx routines (ancestors, descendants, all_simple_paths, topological sorts) are modelled by specification; the sub-graph builders (_get_subgraph, ancestral / descendant / parents / children graphs) are modelled as written on the concrete graph state and PROVED to be the induced sub-graphs / stars on the right node sets, independent of the set iteration order and of the construction order (SubGraphProofs.v).',
    technique='Coq proofs of query = definition (get_nodes_between and directed_path_exists on code translated from the source on every run); exhaustive small-scope correspondence', design='§7 C10'),
 'C11': dict(
    text='Machine-checked proof that the executable dsepb decides the path-based definition of d-separation for all graphs (dsepb_correct), '
         'symmetry, and the exact minimal-separator checker (min_sepb_spec). The library delegates to networkx; agreement of is_d_separated / '
         'is_minimally_d_separated with dsepb / min_sepb is checked for EVERY DAG up to 4 (quick) / 5 (thorough) nodes, every pair and every '
         'conditioning subset, and every get_d_separation_set answer is checked by the Coq predicate. networkx\'s two minimal-separator algorithms are modelled algorithmically and proved correct on every DAG (Lauritzen\'s theorem).',
    note=TB + 'Nothing is proved ABOUT networkx: its routines are modelled by the textbook definition and validated exhaustively to the stated size ; the minimal_d_separator of networkx 3.2.1 and is_minimal_d_separator are additionally modelled ALGORITHMICALLY (moralised ancestral graph + BFS with marks) and proved correct on EVERY DAG via the moralisation theorem of Lauritzen et al. (MoralProofs.v: moral_separation_iff_dsep, min_dsep_set_min_sep, nx_min_sepb_eq).',
    technique='Coq proof of decision procedure = definition + algorithmic model of the networkx separator routines proved correct on every DAG; exhaustive correspondence', design='§7 C11'),
 'C12': dict(
    text='Machine-checked proof (Coq) that the name codec model is a bijection between canonical names and (variable, lag) pairs for ALL '
         'good variable names and ALL integer lags (parse_fmt, fmt_zero, relag, fmt_inj, canonical_inv, exact rejection set), and that '
         'NodeOK / IdxOK are part of the invariant of every reachable time-series state with the lookups equal to a scan (inv_run, lookups_eq_scan); '
         'the codec model is a direct transcription of the regex semantics tied to utils.py by differential evaluation on all token strings up '
         'to a length plus hostile strings, and the index/tag coherence is both compared with the model and evaluated directly on the '
         'implementation after every step of random histories and constructors. The source text of get_variable_name_and_lag / get_name_with_lag and the defaults of the time-series node parameters are regenerated from utils.py on every run and proved equal to what Names.v models (SFCodec.v, SFTSNode.v).',
    note=TB + 'Non-ASCII decimal digits inside a marker are not modelled (Python \\d is Unicode-aware).',
    technique='Coq proof of codec bijection + invariant; model/implementation correspondence by vm_compute', design='§7 C12'),
 'C13': dict(
    text='Machine-checked proof that TimeOK (no stored edge points backwards in time; non-directed edges stored earlier->later) is part of the '
         'invariant of EVERY reachable time-series state, that a time-sorted topological order exists for every such DAG and that return_all is '
         'exactly the set of time-sorted topological orders (all_time_topo_spec). Tied to the code by step-by-step correspondence on time-series '
         'histories, by checking every stored edge and (on DAG states) the default / return_all orders against brute force, and by constructor inputs naming lagged nodes. The default time-series order is modelled exactly (networkx lexicographical_topological_sort with key = lag, ties by sorted name) and proved to be a time-sorted topological order, the least one for (lag, name), after any validated history (TopoSortProofs.v).',
    note=TB + 'networkx.lexicographical_topological_sort is checked (valid + time sorted), not recomputed.',
    technique='Coq invariant proof + correspondence', design='§7 C13'),
 'C18': dict(
    text='Machine-checked proofs about the confounder search as written (fuelled, in-place pruning): it terminates on DAGs, returns only common '
         'ancestors, is symmetric in the pair; the promised sufficiency is REFUTED in Coq with a 5-node witness (recorded finding F12) and proved for '
         'the finite domain of all DAGs on <= 4 nodes. The model is compared with identify_confounders on every ordered pair of every DAG up to 4/5 '
         'nodes and sampled larger ones; sufficiency is evaluated by the Coq d-separation checker on the implementation\'s answers and failures are '
         'matched against the committed known-findings list / rule. identify_confounders (with its nested in-place helper and _verify_identify_inputs) is additionally TRANSLATED from identify_utils.py to Gallina on every run (tools/translate_identify.py -> IdentifyGenConf.v) and proved equal to the hand-written model for every set iteration order (IdentifyGenConfProofs.v).',
    note=TB + 'Known finding F12 (known_findings.json) is reported as KNOWN-FINDING, any other failure as VIOLATION.',
    technique='Coq proofs + refutation witness; exhaustive small-scope correspondence', design='§7 C18'),
 'C19': dict(
    text='Machine-checked proofs that the mediator model equals the declarative characterisation (strictly inside every directed path of length '
         '>= 2, not reached by a confounder avoiding the source) and the exact instrument characterisation, emptiness when the destination is an '
         'ancestor; the instrument d-separation clause is proved for all DAGs on <= 4 nodes and evaluated by the Coq checker on every implementation '
         'answer. The model is compared with the code on every ordered pair of every DAG up to 4/5 nodes, and the answers are re-computed under several '
         'PYTHONHASHSEED values with multi-character identifiers. The d-separation clause of identify_instruments is proved on EVERY DAG (InstrumentsGen.v: inst_dsep_all; the confounder set is empty exactly without a common cause); identify_instruments / identify_mediators are TRANSLATED from the source on every run and proved equal to the model for every set iteration order, including the exact max_num_paths behaviour (IdentifyGenIMProofs.v).',
    note=TB + 'max_num_paths is not modelled (fewer than 26 paths on the explored graphs).',
    technique='Coq proofs of model = declarative spec; exhaustive small-scope correspondence; hash-seed sweep', design='§7 C19'),
 'C20': dict(
    text='Machine-checked proofs that the Markov boundary is parents + children + co-parents, d-separates its node from every other node and is '
         'minimal on every DAG (mb_shields, mb_minimal), that the Skeleton boundary is the neighbours, and that colliders / unshielded colliders are '
         'exactly the nodes with two arrowheads / pairwise non-adjacent arrow senders. Compared with the code on every node of every DAG up to 4/5 '
         'nodes and on all mixed graphs (->, <>, --; both stored orientations) on <= 3 (quick) / 4 (thorough) nodes. identify_markov_boundary / identify_colliders are TRANSLATED from the source on every run and proved equal to the model (IdentifyGenMBProofs.v); the sweeps also run over unusual identifiers (F17: the empty-string identifier, repaired).',
    note=TB, technique='Coq proofs; exhaustive small-scope correspondence', design='§7 C20'),
}

CHECKS.update({
 'C03': dict(
    text='Machine-checked proof that for EVERY state satisfying the invariant and EVERY single-element mutator that the model rejects, the full '
         'observation (all read views, mirrored indexes, time-series lookups) of the state left behind equals that of the input state '
         '(failed_step_noop), with the stronger facts that all mutators except change_edge_type / replace_edge leave the state literally unchanged '
         'and that a rejected add_edge leaves no implicitly created nodes; every error path is covered (cycle rollback, implicit-node clean-up, '
         'restore of the original edge, removal of a half-built replacement node). Tied to the code by step-by-step correspondence on error-seeking '
         'histories and by snapshotting the real graph before and after every raising call (cell coverage mutator x error class in the evidence).',
    note=TB, technique='Coq proof of failure atomicity over all error paths + correspondence + before/after snapshots', design='§7 C03'),
 'C07': dict(
    text='Machine-checked proof that the model of __eq__ (statement-by-statement transcription, with an error value where Python would raise) '
         'never raises on states satisfying the invariant and returns true exactly when the canonical forms coincide (symmetric edge types oriented '
         'by endpoint order), hence is reflexive, symmetric, transitive, independent of construction order, != is its negation, deep implies shallow; '
         'same for Skeleton, Node, Edge. The list of direction-free edge types and the edge-type spellings are regenerated from the source and '
         'proved equal to the modelled ones. Tied to the code by comparing 11 comparisons per pair on permuted rebuilds, single-edit neighbours and '
         'independent histories, plus a structural predicate evaluated on the implementation.',
    note=TB + 'change_edge_type, replace_edge, delete_node and delete_edge are additionally TRANSLATED from causal_graph.py on every run (tools/translate_mutators.py -> MutGenRollback.v, try / except / re-raise as written) and proved equal to the model in result AND leftover state; trusted table PyRtMut.v; a refusal of the translator falls back to the hand-written model and its correspondence (DESIGN 3.6). Cross-class comparison is outside the property (same-class pairs only).',
    technique='Coq proof of equality = canonical-form equality; correspondence on graph pairs', design='§7 C07'),
 'C14': dict(
    text='Machine-checked proofs about the model of get_minimal_graph (loop as written: sorted edges, first-wins, one-orientation existence test): '
         'on every consistent template graph it succeeds, has exactly one edge per template placed with destination at lag 0, keeps every variable, '
         'adds nothing else, carries the attributes, is a fixed point, is minimal, and is_minimal is true exactly when the graph equals its minimal '
         'graph; the boolean oracle c14_check is proved equivalent to the characterisation and is evaluated on the graph the IMPLEMENTATION returned, '
         'for random template sets with partial/complete instantiation; model and implementation outputs are compared exactly (also on the raising inputs).',
    note=TB + 'get_minimal_graph and is_minimal_graph are additionally TRANSLATED from time_series_causal_graph.py on every run (tools/translate_ts_extend.py -> TSGenMinimal.v) and proved equal to the hand-written model (gen_minimal_equiv, gen_is_minimal_equiv); the trusted part is the API table PyRtTSb.v; when the translator refuses the current source the run falls back to the hand-written model and its correspondence (DESIGN 3.5). adjacency_matrices clause: compared with the implementation, general proof not closed (adj_matrices_statement).',
    technique='Coq proofs of membership characterisation + oracle equivalence; correspondence on template graphs', design='§7 C14'),
 'C15': dict(
    text='Machine-checked proofs that the model of extend_graph returns exactly the kept template copies over the window (None / 0 / include_all_parents '
         'handled as in the code), the exact node set, and the corollaries (same parents up to a time shift, monotone in the window, acyclic minimal graph '
         'extends to an acyclic graph by a (time, rank) argument, minimal graph of the result is the minimal graph of the input); the oracle c15_check is '
         'proved equivalent and evaluated on every graph the implementation returned over a grid of windows.',
    note=TB, technique='Coq proofs of membership characterisation + corollaries; correspondence over a window grid', design='§7 C15'),
 'C16': dict(
    text='Machine-checked proofs that on consistent DAG inputs whose latest lag is 0 the model of get_stationary_graph contains the input, spans the window '
         'with every variable at every lag, contains every template copy that fits, has the input\'s minimal graph, and that is_stationary_graph is true '
         'exactly when the graph is a DAG equal to that graph and false on non-DAGs; c16_check and the iff are evaluated on the implementation outputs.',
    note=TB + 'get_stationary_graph and is_stationary_graph are additionally TRANSLATED from the source on every run (tools/translate_ts_summary.py -> TSGenStationary.v) and proved equal to the model on every input (gen_stationary_equiv, gen_is_stationary_equiv); trusted API table PyRtTSa.v, in which the callee methods get_minimal_graph / extend_graph are rows; refusal falls back to the hand-written model and its correspondence (DESIGN 3.5). extend_graph is additionally TRANSLATED from the source on every run (TSGenExtend.v) and proved equal to the model on every input (gen_extend_equiv); trusted API table PyRtTSb.v; refusal falls back to the hand-written model and its correspondence (DESIGN 3.5). Not proved in general: stat_idem_statement (the result is itself stationary) and the oracle-to-Prop direction c16_check_statement; both are checked on every run by evaluation.',
    technique='Coq proofs + oracle evaluation on implementation outputs', design='§7 C16'),
 'C17': dict(
    text='Machine-checked proofs about the model of the (repaired) collapse loop: on every time-series DAG the call succeeds (only non-DAGs are refused), '
         'there is exactly one node per variable, two variables are adjacent iff some edge joins them, directed iff all edges go one way, bidirected iff both '
         'ways, no self edges; the oracle c17_check is proved equivalent and evaluated on the graph the implementation returned, on DAGs biased to feedback and cyclic summaries.',
    note=TB, technique='Coq proofs of the characterisation + oracle equivalence; correspondence', design='§7 C17'),
})

CHECKS.update({
 'C06': dict(
    text='Machine-checked proof about the modelled COPY DISCIPLINE (identities of metadata containers and of their nested mutable values; each '
         'export / copy / derived-graph operation allocates or shares identities according to a 19-row table): after ANY history of graph mutations, '
         'exports, derived-graph constructions and mutations applied to exports, the identity sets reachable from the graph and from every export are '
         'pairwise disjoint and distinct nodes / edges of a derived graph share nothing (sep_run), so mutating an export is invisible to the graph and to '
         'every other export, later graph changes do not reach earlier exports, and producing an export is read-only. The single exception, to_dict '
         'sharing NESTED values, is refuted in Coq and recorded as finding F9. The table is RE-MEASURED on live Python objects by id() on every run and '
         'compared with the model\'s table, and the behavioural statement of the property is tested directly (export, mutate in every way the type allows, '
         'export again, mutate the graph, first vs later calls).',
    note=TB + 'get_summary_graph is additionally TRANSLATED from the source on every run (TSGenSummary.v) and proved equal to the model on every input (gen_summary_equiv); trusted API table PyRtTSa.v; refusal falls back to the hand-written model and its correspondence (DESIGN 3.5). Partial by nature: the theorem is about the modelled allocation discipline; that deepcopy / dict.copy / numpy / networkx allocate as modelled is measured, not proved. One source graph; exports of derived graphs are not modelled.',
    technique='Coq proof of separation invariant over a table-defined identity model; table re-measured by id() + behavioural mutation tests', design='§7 C06'),
})

CHECKS.update({
 'C05': dict(
    text='Machine-checked proof that for every model state satisfying the invariant from_dict(to_dict(g)) succeeds and is deeply equal to g (validated '
         'form under acyclicity, unvalidated form without), that the result satisfies the invariant of the same class, that serialising it again gives the '
         'same ordered dictionary, that to_dict is independent of construction order, the Skeleton round trip, and the class conversions (identifiers, '
         'types, user metadata and every time-respecting edge preserved; non-directed edges flipped exactly when against time; directed ones refused). '
         'Tied to the code by comparing to_dict as an ORDERED tree through real JSON text, from_dict (full observation hash + error class) incl. three '
         'hostile variants of every dictionary, copy, skeleton and conversions, and by evaluating the property itself on the implementation. The JSON TEXT level is modelled and proved too (JsonText.v: json.dumps / json.loads with escapes, surrogate pairs, any whitespace layout and indent=; parse (print t) = t exactly on well-formed trees), and the round-trip theorems are restated through JSON text.',
    note=TB + 'json.dumps/loads is the identity on the modelled JSON type (validated by going through real JSON text). TS theorems assume TagsStable (key-sorted metadata), which the harness canonicalisation provides.',
    technique='Coq proof of round trip by induction over the sorted node/edge lists; ordered-tree correspondence', design='§7 C05'),
 'C08': dict(
    text='Machine-checked proofs that A[i,j] = 1 exactly for an edge i->j or i--j under the sorted node order, that any other edge type is refused by '
         'to_numpy / to_networkx / GML (never dropped or retyped), that malformed matrices are refused for ALL inputs, and the matrix and networkx round '
         'trips (validated and unvalidated, plain and own class; cyclic graphs refused under validation) by induction over the i<j construction loop. Tied to '
         'the code on graph states from histories, on every binary matrix up to 3x3 plus sampled larger and malformed ones through from_adjacency_matrix, '
         'and by evaluating the round-trip / refusal clauses and the lagged-matrix round trip on the implementation. to_numpy_by_lag / adjacency_matrices / from_adjacency_matrices are executable model functions (LagMatrix.v) with the round-trip theorem (= minimal graph; refused exactly when the minimal graph is cyclic), entry and key-order characterisations and refuted variants; compared with the implementation on template graphs and explicit matrix dictionaries (incl. malformed, several numpy dtypes).',
    note=TB + 'GML text is exercised (networkx), not modelled; to_numpy_by_lag / from_adjacency_matrices are checked by the implementation-side predicate and by C14 adjacency_matrices.',
    technique='Coq proofs of entry characterisation, refusals and round trips; correspondence on states and matrices', design='§7 C08'),
 'C09': dict(
    text='Machine-checked proofs that the skeleton views of the CURRENT model state have exactly the graph nodes, exactly one undirected edge per stored '
         'edge, a symmetric adjacency matrix with 1 exactly for adjacent pairs, orientation-blind existence / get_edge / neighbours, and that rebuilding '
         'from the matrix or networkx form gives the same skeleton. The Skeleton object is obtained BEFORE the history; after every mutation every public '
         'member is compared with the graph, all views are compared with the Coq model, and the skeleton is rebuilt from dict / matrix / networkx / GML. The rebuild from the skeleton\'s own dictionary is proved (SkeletonDict.v: sk_rebuild_dict, deep variant, JSON-tree model agrees).',
    note=TB + 'Rebuild from its own dictionary: compared on every run, general proof not closed (sk_rebuild_dict_statement).',
    technique='Coq proofs about skeleton views; liveness by observing a skeleton taken before the history', design='§7 C09'),
})


def main():
    checks = []
    for pid in ALL:
        if pid not in CHECKS:
            continue
        c = CHECKS[pid]
        checks.append(dict(
            property_id=pid,
            quick_cmd=f'./check {pid} --tier quick',
            thorough_cmd=f'./check {pid} --tier thorough',
            evidence_file=f'/verif/evidence/{pid}.json',
            replay_cmd_template=f'./check {pid} --replay {{path}}',
            engine='coq-model',
            level_claimed=dict(category=c.get('category', 'proof'), text=c['text'], design_ref=c['design']),
            level_note=c['note'],
            technique=c['technique'],
        ))
    na = [dict(property_id=p, reason=NA.get(p, 'check under construction: Coq model and proofs exist or are in progress but no registered check yet'))
          for p in ALL if p not in CHECKS]
    m = dict(
        version=1,
        setup_cmd='cd /verif && ./setup.sh',
        hooks=dict(guard='CAUSALENS_CAI_CAUSAL_GRAPH_VERIF',
                   enable='no source hooks are needed: the harness imports /repo directly (PYTHONPATH=/repo) and reads private attributes; '
                          './check exports CAUSALENS_CAI_CAUSAL_GRAPH_VERIF=1 for uniformity',
                   baseline_off_cmd='cd /repo && /venv/bin/python -m pytest -ra -q -p no:cacheprovider --timeout=900 --continue-on-collection-errors',
                   source_commits=[], add_only=True),
        engines=[dict(name='coq-model', path='/verif/coq', serves_properties=[c['property_id'] for c in checks],
                      kind_free_text='Coq 8.16.1 development (hand-written executable Gallina model + theorems) with a Python correspondence '
                                     'harness (/verif/harness) that evaluates the model inside Coq on the inputs the real code ran')],
        checks=checks,
        notes='Genuine defects found on the pinned tree were repaired by unguarded "fix:" commits in /repo (see known_findings.json, DESIGN.md §9).',
        not_applicable=na,
    )
    (VERIF / 'MANIFEST.json').write_text(json.dumps(m, indent=1))


NA = {}
if __name__ == '__main__':
    main()
