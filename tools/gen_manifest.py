#!/usr/bin/env python3
"""Regenerates /verif/MANIFEST.json from the table below (kept valid at all times)."""
import json
from pathlib import Path

VERIF = Path(__file__).resolve().parent.parent
ALL = [f'C{i:02d}' for i in range(1, 21)]

TB = ('Trusted: Coq 8.16.1 kernel (vm_compute in finite side-conditions, no native_compute); every property theorem is '
      '`Closed under the global context` (Print Assumptions re-run on every check); the hand-written Gallina model is tied to '
      '/repo by the correspondence check of each run (model evaluated inside Coq with vm_compute on the same inputs as the real '
      'code; Uint63 primitives only hash observations); Python harness, CPython/numpy/networkx substrate. ')

CHECKS = {
 'C12': dict(
    text='Machine-checked proof (Coq) that the name codec model is a bijection between canonical names and (variable, lag) pairs for ALL '
         'good variable names and ALL integer lags (parse_fmt, fmt_zero, relag, fmt_inj, canonical_inv, exact rejection set), and that '
         'the lag / variable indexes are an invariant of every reachable time-series state; the codec model is a direct transcription '
         'of the regex semantics tied to utils.py by differential evaluation on all token strings up to a length plus hostile strings, '
         'and the index/tag coherence is both compared with the model and evaluated directly on the implementation after every step of '
         'random histories and constructors.',
    note=TB + 'Non-ASCII decimal digits inside a marker are not modelled (Python \\d is Unicode-aware).',
    technique='Coq proof of codec bijection + invariant; model/implementation correspondence by vm_compute',
    design='§7 C12'),
}


def main():
    checks = []
    for pid in ALL:
        if pid not in CHECKS:
            continue
        c = CHECKS[pid]
        checks.append(dict(
            property_id=pid,
            quick_cmd=f'./check {pid} --tier quick',
            thorough_cmd=f'./check {pid} --tier thorough',
            evidence_file=f'/verif/evidence/{pid}.json',
            replay_cmd_template=f'./check {pid} --replay {{path}}',
            engine='coq-model',
            level_claimed=dict(category=c.get('category', 'proof'), text=c['text'], design_ref=c['design']),
            level_note=c['note'],
            technique=c['technique'],
        ))
    na = [dict(property_id=p, reason=NA.get(p, 'check under construction: Coq model and proofs exist or are in progress but no registered check yet'))
          for p in ALL if p not in CHECKS]
    m = dict(
        version=1,
        setup_cmd='cd /verif && ./setup.sh',
        hooks=dict(guard='CAUSALENS_CAI_CAUSAL_GRAPH_VERIF',
                   enable='no source hooks are needed: the harness imports /repo directly (PYTHONPATH=/repo) and reads private attributes; '
                          './check exports CAUSALENS_CAI_CAUSAL_GRAPH_VERIF=1 for uniformity',
                   baseline_off_cmd='cd /repo && /venv/bin/python -m pytest -ra -q -p no:cacheprovider --timeout=900 --continue-on-collection-errors',
                   source_commits=[], add_only=True),
        engines=[dict(name='coq-model', path='/verif/coq', serves_properties=[c['property_id'] for c in checks],
                      kind_free_text='Coq 8.16.1 development (hand-written executable Gallina model + theorems) with a Python correspondence '
                                     'harness (/verif/harness) that evaluates the model inside Coq on the inputs the real code ran')],
        checks=checks,
        notes='Genuine defects found on the pinned tree were repaired by unguarded "fix:" commits in /repo (see known_findings.json, DESIGN.md §9).',
        not_applicable=na,
    )
    (VERIF / 'MANIFEST.json').write_text(json.dumps(m, indent=1))


NA = {}
if __name__ == '__main__':
    main()
