#!/usr/bin/env python3
"""Generates coq/theories/Properties/Cxx.v from the table below: for every entry the FULL statement of
the source lemma is obtained from Coq itself (`Check`, with the `_statement` definitions unfolded) and
written out as `Theorem Cxx_<name> : <statement>. Proof. exact (<lemma>). Qed. Print Assumptions`.
Run by hand after the proof files change; the generated files are committed and re-checked by every run."""
import re
import subprocess
import sys
import tempfile
from pathlib import Path

VERIF = Path(__file__).resolve().parent.parent
TH = VERIF / 'coq' / 'theories'

NAMES_ARGS = 'Names.parse Names.fmt'
# property -> (imports, header comment, [(theorem name, lemma expression, statement definitions to unfold)])
TABLE = {
 'C01': ('Base Digraph Names Graph GraphObs GraphInv GraphInvProofs',
         'C01 — mutations behave as an abstract mixed graph: one typed edge per node pair.\n'
         '    The concrete model (Graph.v, validated against the real classes on every run) keeps the two mirrored edge\n'
         '    indexes, the per-node directed lists and the time-series lookup indexes; Inv says they all describe ONE mixed\n'
         '    graph with uniquely named nodes and at most one edge per unordered pair, and it holds in every reachable state.',
         [('init_satisfies_invariant', 'inv_init Names.parse', ['inv_init_statement']),
          ('every_step_preserves_invariant', 'inv_step Names.parse Names.fmt', ['inv_step_statement']),
          ('every_reachable_state_satisfies_invariant', 'inv_run Names.parse Names.fmt', ['inv_run_statement']),
          ('one_edge_per_pair', 'one_edge_per_pair Names.parse', ['one_edge_per_pair_statement']),
          ('views_report_one_state', 'views_agree Names.parse', ['views_agree_statement']),
          ]),
 'C02': ('Base Digraph DigraphProofs Names Graph GraphObs GraphInv GraphAcyclicProofs',
         'C02 — validated graphs never hold a directed cycle; is_dag() reports exactly that.',
         [('cycle_check_is_exact_and_terminates', 'cycle_check Names.parse', ['cycle_check_statement']),
          ('validated_step_preserves_acyclicity', 'acyclic_step Names.parse Names.fmt', ['acyclic_step_statement']),
          ('validated_histories_are_acyclic', 'acyclic_run Names.parse Names.fmt', ['acyclic_run_statement']),
          ('closing_edge_refused_acyclic_edge_accepted', 'add_edge_cyclic_iff Names.parse Names.fmt', ['add_edge_cyclic_iff_statement']),
          ('is_dag_iff_all_directed_and_acyclic', 'is_dag_spec Names.parse', []),
          ]),
 'C10': ('Base Digraph DigraphProofs Queries QueriesProofs',
         'C10 — structural queries agree with their graph-theoretic definitions.',
         [('descendants_are_directed_reachability', '@desc_spec', []),
          ('ancestors_are_directed_reachability', '@anc_spec', []),
          ('is_ancestor_all_of', '@is_ancestor_spec', []),
          ('is_descendant_all_of', '@is_descendant_spec', []),
          ('common_ancestors', '@common_anc_spec', []),
          ('common_descendants', '@common_desc_spec', []),
          ('all_causal_paths_are_exactly_the_simple_directed_paths', '@all_paths_spec', []),
          ('all_causal_paths_no_duplicates', '@all_paths_nodup', []),
          ('nodes_between_memoised_recursion', '@nodes_between_correct', []),
          ('directed_path_exists_on_acyclic_directed_part', '@directed_path_exists_correct', []),
          ('all_topological_orders_are_exactly_the_linear_extensions', '@all_topo_topo_order', []),
          ('all_topological_orders_no_duplicates', '@all_topo_nodup', []),
          ('topological_order_checker', '@is_topo_spec', []),
          ('a_dag_has_a_topological_order', '@all_topo_nonempty', []),
          ('renaming_invariance_descendants', '@desc_rename', []),
          ('renaming_invariance_ancestors', '@anc_rename', []),
          ('acyclicity_is_renaming_invariant', '@map_graph_acyclic', []),
          ]),
 'C11': ('Base Digraph DSep DSepProofs',
         'C11 — d-separation answers match the graphical definition.\n'
         '    networkx is modelled by the textbook definition [dsep] (every path between X and Y is blocked by Z); [dsepb]\n'
         '    is its executable form, compared with is_d_separated exhaustively by the correspondence check.',
         [('dsepb_decides_the_path_definition', '@dsepb_correct', []),
          ('dsepb_on_dags_disjoint_sets', '@dsepb_correct_dag', []),
          ('undirected_path_enumeration_is_exact', '@upaths_spec', []),
          ('blocked_path_checker', '@blockedb_spec', []),
          ('d_separation_is_symmetric', '@dsep_sym', []),
          ('minimal_separator_checker', '@min_sepb_spec', []),
          ('adjacent_nodes_are_never_separated', '@adjacent_never_separated', []),
          ('get_d_separation_set_minimal_on_all_dags_le4', 'min_dsep_set_partial', []),
          ('is_minimally_d_separated_algorithm_le4', 'nx_min_sepb_partial', []),
          ]),
 'C12': ('Base Dec Names NamesProofs Graph GraphObs GraphInv GraphInvProofs',
         'C12 — time-series node identity and lag / variable lookups stay coherent.\n'
         '    (A) the name codec is a bijection between canonical names and (variable, lag) pairs;\n'
         '    (B) NodeOK / IdxOK are part of Inv TS (fields ts_nodeok, ts_lagidx, ts_varidx of TSInv), hence hold in every\n'
         '    reachable state, and the lookups equal a scan over the current nodes.',
         [('parse_fmt', 'parse_fmt', []),
          ('fmt_is_canonical_spelling', 'fmt_good', []),
          ('parse_of_canonical_spelling', 'parse_tident', []),
          ('lag_zero_is_bare_name', 'fmt_zero', []),
          ('relag', 'relag', []),
          ('relag_any_name', 'relag_any', []),
          ('fmt_injective', 'fmt_inj', []),
          ('canonical_spelling_injective', 'tident_inj', []),
          ('canonical_names_are_exactly_formatted_pairs', 'canonical_inv', []),
          ('formatted_pairs_are_canonical', 'canonical_tident', []),
          ('parse_rejects_exactly', 'parse_none_iff', []),
          ('decimal_read_print', 'read_print', []),
          ('every_reachable_state_satisfies_invariant_incl_NodeOK_IdxOK', 'inv_run Names.parse Names.fmt', ['inv_run_statement']),
          ('lookups_equal_scan', 'lookups_eq_scan Names.parse', ['lookups_eq_scan_statement']),
          ]),
 'C13': ('Base Digraph DigraphProofs Names Graph GraphObs GraphInv GraphInvProofs Queries QueriesProofs',
         'C13 — time-series graphs never point a directed edge backwards in time.\n'
         '    TimeOK (field ts_time of TSInv) is part of Inv TS, hence holds in every reachable state.',
         [('every_reachable_ts_state_satisfies_invariant_incl_TimeOK', 'inv_run Names.parse Names.fmt', ['inv_run_statement']),
          ('time_sorted_topological_order_exists', '@time_topo_exists', []),
          ('return_all_is_exactly_the_time_sorted_topological_orders', '@all_time_topo_spec', []),
          ('time_sorted_orders_nonempty', '@all_time_topo_nonempty', []),
          ]),
 'C18': ('Base Digraph DigraphProofs DSep DSepProofs Identify IdentifyProofs IdentifyDSep',
         'C18 — identified confounders are common causes that close every back-door path.\n'
         '    The sufficiency clause is FALSE of the faithful model and of the code (recorded finding F12):\n'
         '    [sufficiency_refuted] is the witness; the finite statement for all DAGs on <= 4 nodes holds.',
         [('search_terminates_on_dags', '@confounders_some', []),
          ('only_common_ancestors', '@conf_common_ancestors', []),
          ('symmetric_in_the_pair', '@conf_sym', []),
          ('common_parents_are_found', '@conf_common_parent', []),
          ('sufficiency_refuted', 'conf_sufficient_refuted', ['conf_sufficient_statement']),
          ('sufficiency_holds_on_all_dags_le4', 'conf_sufficient_le4', []),
          ]),
 'C19': ('Base Digraph DigraphProofs DSep DSepProofs Identify IdentifyProofs IdentifyDSep',
         'C19 — identified instruments and mediators satisfy their graphical criteria.',
         [('mediators_exact_characterisation', '@med_spec', []),
          ('mediators_lie_between', '@med_between', []),
          ('mediators_empty_without_long_path', '@med_empty_if_no_long_path', []),
          ('mediators_empty_if_destination_is_ancestor', '@med_empty_if_dest_anc', []),
          ('instruments_exact_characterisation', '@inst_spec', []),
          ('instruments_are_ancestors_of_source', '@inst_sub_anc', []),
          ('instruments_empty_if_destination_is_ancestor', '@inst_empty_if_dest_anc', []),
          ('instruments_total_on_dags', '@instruments_some', []),
          ('mediators_total_on_dags', '@mediators_some', []),
          ('instrument_d_separation_on_all_dags_le4', 'inst_dsep_le4', []),
          ]),
 'C20': ('Base Digraph DSep DSepProofs Markov MarkovProofs',
         'C20 — Markov boundaries shield their node; colliders are the nodes with two arrowheads.',
         [('markov_boundary_is_parents_children_coparents', '@mb_spec', []),
          ('markov_boundary_shields', '@mb_shields', []),
          ('markov_boundary_shields_everything_else_at_once', '@mb_shields_all', []),
          ('markov_boundary_is_minimal', '@mb_minimal', []),
          ('skeleton_markov_boundary_is_neighbours', '@skeleton_mb_spec', []),
          ('skeleton_markov_boundary_shields', '@skeleton_mb_shields', []),
          ('skeleton_markov_boundary_minimal', '@skeleton_mb_minimal', []),
          ('colliders_have_two_arrowheads', '@colliders_spec', []),
          ('unshielded_colliders', '@unshielded_spec', []),
          ]),
}


def coq_type(imports, expr, unfold):
    with tempfile.TemporaryDirectory() as d:
        f = Path(d) / 'q.v'
        body = f'From CG Require Import {imports}.\nSet Printing Width 100.\nSet Printing Depth 100000.\n'
        if unfold:
            body += f'Definition q__ := ({expr}).\nEval cbv delta [{" ".join(unfold)}] beta in ltac:(let t := type of q__ in exact t).\n'
        else:
            body += f'Check ({expr}).\n'
        f.write_text(body)
        r = subprocess.run(['coqc', '-Q', str(TH), 'CG', str(f)], capture_output=True, text=True)
        if r.returncode != 0:
            raise RuntimeError(f'{expr}: {r.stderr[-800:]}')
        out = r.stdout
        if unfold:
            m = re.search(r'^\s*=\s*(.*)\n\s*:\s*Prop\s*$', out, re.S | re.M)
            if not m:
                raise RuntimeError(f'cannot parse: {out[:500]}')
            return m.group(1).strip()
        m = re.search(r'\n\s+:\s(.*)$', out, re.S)
        return m.group(1).strip()


def main(which):
    for pid, (imports, header, entries) in TABLE.items():
        if which and pid not in which:
            continue
        out = [f'(** {header}\n\n    GENERATED by tools/gen_properties.py: only property theorems, each closed by [exact] of a lemma proved\n'
               f'    elsewhere (statement printed by Coq itself from that lemma), with [Print Assumptions] beneath. *)',
               f'From CG Require Import {imports}.', '']
        for name, expr, unfold in entries:
            ty = coq_type(imports, expr, unfold)
            ty = '\n'.join('  ' + l for l in ty.splitlines())
            out += [f'Theorem {pid}_{name} :\n{ty}.', f'Proof. exact ({expr}). Qed.', f'Print Assumptions {pid}_{name}.', '']
        p = TH / 'Properties' / f'{pid}.v'
        p.write_text('\n'.join(out))
        r = subprocess.run(['coqc', '-Q', str(TH), 'CG', str(p)], capture_output=True, text=True)
        closed = r.stdout.count('Closed under the global context')
        print(pid, 'rc', r.returncode, 'theorems', len(entries), 'closed', closed, r.stderr[-600:])


if __name__ == '__main__':
    main(sys.argv[1:])
