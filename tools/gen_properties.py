#!/usr/bin/env python3
"""Generates coq/theories/Properties/Cxx.v from the table below: for every entry the FULL statement of
the source lemma is obtained from Coq itself (`Check`, with the `_statement` definitions unfolded) and
written out as `Theorem Cxx_<name> : <statement>. Proof. exact (<lemma>). Qed. Print Assumptions`.
Run by hand after the proof files change; the generated files are committed and re-checked by every run."""
import re
import subprocess
import sys
import tempfile
from pathlib import Path

VERIF = Path(__file__).resolve().parent.parent
TH = VERIF / 'coq' / 'theories'

NAMES_ARGS = 'Names.parse Names.fmt'
# property -> (imports, header comment, [(theorem name, lemma expression, statement definitions to unfold)])
TABLE = {
 'C01': ('Base Digraph Names Graph GraphObs GraphInv GraphInvProofs Spec SpecProofs Extracted SourceFacts SFMutators PyRtMut PyRtAdd MutGenAdd MutGenAddProofs',
         'C01 — mutations behave as an abstract mixed graph: one typed edge per node pair.\n'
         '    The concrete model (Graph.v, validated against the real classes on every run) keeps the two mirrored edge\n'
         '    indexes, the per-node directed lists and the time-series lookup indexes; Inv says they all describe ONE mixed\n'
         '    graph with uniquely named nodes and at most one edge per unordered pair, and it holds in every reachable state.',
         [('init_satisfies_invariant', 'inv_init Names.parse', ['inv_init_statement']),
          ('every_step_preserves_invariant', 'inv_step Names.parse Names.fmt', ['inv_step_statement']),
          ('every_reachable_state_satisfies_invariant', 'inv_run Names.parse Names.fmt', ['inv_run_statement']),
          ('one_edge_per_pair', 'one_edge_per_pair Names.parse', ['one_edge_per_pair_statement']),
          ('views_report_one_state', 'views_agree Names.parse', ['views_agree_statement']),
          ('abstraction_is_well_formed_reference_state', '@abs_wf Names.parse', []),
          ('every_operation_refines_the_reference_model', '@refines_step Names.parse Names.fmt', []),
          ('every_history_refines_the_reference_model_effects_and_errors', '@refines_run Names.parse Names.fmt', []),
          ('every_read_view_is_a_function_of_the_reference_state', '@views_from_abs Names.parse', []),
          ('reference_model_keeps_one_edge_per_pair', '@spec_one_edge_per_pair Names.parse', []),
          ('reference_model_cycle_clause', '@s_closes_cycle_acyclic Names.parse', []),
          ('every_reference_state_is_reachable_as_a_concrete_state', '@abs_surjective Names.parse', []),
          ('mutator_defaults_in_source_are_the_modelled_ones', 'mutator_defaults', []),
          ('translated_add_edge_equals_the_model_result_and_leftover_state', 'gen_add_edge_eq', []),
          ('translated_add_node_by_identifier_equals_the_model', 'gen_add_node_id_eq', []),
          ('translated_add_node_by_identifier_given_a_node_object_equals_the_model', 'gen_add_node_id_nodeobj_eq', []),
          ('translated_add_node_given_a_node_object_equals_the_model', 'gen_add_node_obj_eq', []),
          ('translated_add_node_argument_asserts', 'gen_add_node_asserts', []),
          ]),
 'C02': ('Base Digraph DigraphProofs Names Graph GraphObs GraphInv GraphAcyclicProofs Extracted SourceFacts SFValidate Serial Matrix Skeleton TSGraph LagMatrix CtorAcyclicProofs CtorAcyclicLag PyRt PyRtLoop Queries TraversalGenLemmas TraversalGenCyc TraversalGenCycProofs GraphInvProofs PyRtMut PyRtAdd MutGenAdd MutGenAddProofs',
         'C02 — validated graphs never hold a directed cycle; is_dag() reports exactly that.',
         [('cycle_check_is_exact_and_terminates', 'cycle_check Names.parse', ['cycle_check_statement']),
          ('validated_step_preserves_acyclicity', 'acyclic_step Names.parse Names.fmt', ['acyclic_step_statement']),
          ('validated_histories_are_acyclic', 'acyclic_run Names.parse Names.fmt', ['acyclic_run_statement']),
          ('closing_edge_refused_acyclic_edge_accepted', 'add_edge_cyclic_iff Names.parse Names.fmt', ['add_edge_cyclic_iff_statement']),
          ('is_dag_iff_all_directed_and_acyclic', 'is_dag_spec Names.parse', []),
          ('validate_defaults_to_true_in_source', 'validate_defaults_to_true_everywhere', []),
          ('from_dict_with_validation_is_acyclic_whatever_the_input', '@from_dict_validated_acyclic Names.parse Names.fmt', []),
          ('from_dict_with_validation_succeeds_iff_unvalidated_result_is_acyclic', '@from_dict_true_iff Names.parse Names.fmt', []),
          ('from_dict_validation_only_adds_the_cycle_refusal', '@from_dict_validate_err Names.parse Names.fmt', []),
          ('dictionary_of_a_cyclic_graph_is_refused_with_validation', '@dict_roundtrip_cyclic_refused Names.parse Names.fmt', []),
          ('from_adjacency_matrix_with_validation_is_acyclic_whatever_the_input', '@from_matrix_validated_acyclic Names.parse Names.fmt', []),
          ('from_adjacency_matrix_with_validation_succeeds_iff_unvalidated_result_is_acyclic', '@from_matrix_true_iff Names.parse Names.fmt', []),
          ('from_adjacency_matrix_cyclic_matrix_refused', '@from_matrix_cyclic_refused Names.parse Names.fmt', []),
          ('from_adjacency_matrix_acyclic_matrix_accepted', '@from_matrix_acyclic_accepted Names.parse Names.fmt', []),
          ('from_adjacency_matrix_default_names_only_cycles_are_refused', 'from_matrix_default_names', []),
          ('from_networkx_with_validation_is_acyclic', '@from_nx_validated_acyclic Names.parse Names.fmt', []),
          ('from_networkx_cyclic_refused', '@from_nx_cyclic_refused Names.parse Names.fmt', []),
          ('from_networkx_acyclic_accepted', '@from_nx_acyclic_accepted Names.parse Names.fmt', []),
          ('from_skeleton_gives_only_undirected_edges', '@from_skeleton_undirected Names.parse Names.fmt', []),
          ('skeleton_constructors_are_acyclic', '@sk_from_dict_acyclic Names.parse Names.fmt', []),
          ('every_validated_constructor_result_is_acyclic', '@built_validated_acyclic Names.parse Names.fmt', []),
          ('is_dag_exact_on_every_constructed_graph_validated_or_not', '@is_dag_of_constructed Names.parse Names.fmt', []),
          ('from_adjacency_matrices_with_validation_is_acyclic_whatever_the_input', 'from_adjacency_matrices_validated_acyclic', []),
          ('from_adjacency_matrices_with_validation_succeeds_iff_unvalidated_result_is_acyclic', 'from_adjacency_matrices_true_iff', []),
          ('from_adjacency_matrices_cyclic_refused', 'from_adjacency_matrices_cyclic_refused', []),
          ('is_dag_exact_on_graphs_built_from_lagged_matrices', 'lag_is_dag_spec', []),
          ('translated_cycle_check_equals_the_stack_loop_model_for_every_fuel', '@gen_assert_no_self_dependency_equiv', []),
          ('translated_cycle_check_raises_iff_the_node_is_on_a_directed_cycle', '@gen_assert_no_self_dependency_spec', []),
          ('translated_cycle_check_unknown_identifier_is_a_key_error', '@gen_assert_no_self_dependency_missing', []),
          ('translated_cycle_check_on_every_invariant_graph_state', 'gen_assert_no_self_dependency_cycle_check', []),
          ('translated_set_edge_equals_the_model_result_and_leftover_state', 'gen__set_edge_eq', []),
          ('translated_add_edge_equals_the_model_result_and_leftover_state', 'gen_add_edge_eq', []),
          ('translated_add_edge_given_an_edge_object_equals_the_model', 'gen_add_edge_edgeobj_eq', []),
          ('translated_validated_add_edge_preserves_acyclicity', 'gen_add_edge_acyclic', []),
          ('translated_validated_add_edge_refused_exactly_when_it_closes_a_cycle', 'gen_add_edge_cyclic_iff', []),
          ('translated_failing_add_edge_leaves_the_state_literally_unchanged', 'gen_add_edge_failed_exact', []),
          ]),
 'C03': ('Base Digraph Names Graph GraphObs GraphInv GraphAtomicLemmas GraphAtomicProofs Extracted SourceFacts SFMutators PyRtMut MutGenRollback MutGenRollbackProofs',
         'C03 — a rejected mutation leaves the graph exactly as it was.\n'
         '    [equiv] allows only the insertion order of the edge indexes and of the per-node directed lists to differ\n'
         '    (what a failed-and-restored change_edge_type / replace_edge leaves behind); every observation is insensitive to it.',
         [('rejected_single_element_mutator_is_unobservable', 'failed_step_noop Names.parse Names.fmt', ['failed_step_noop_statement']),
          ('rejected_single_element_mutator_leaves_equivalent_state', 'failed_step_equiv Names.parse Names.fmt', ['failed_step_equiv_statement']),
          ('equivalent_states_are_observationally_equal', 'observe_equiv Names.parse', ['observe_equiv_statement']),
          ('all_but_retyping_mutators_leave_the_state_literally_unchanged', 'failed_step_exact Names.parse Names.fmt', []),
          ('rejected_add_edge_leaves_no_implicit_nodes', '@at_add_edge_fail Names.parse', []),
          ('mutator_defaults_in_source_are_the_modelled_ones', 'mutator_defaults', []),
          ('translated_change_edge_type_equals_the_model_result_and_leftover_state', 'gen_change_edge_type_eq', []),
          ('translated_replace_edge_equals_the_model_result_and_leftover_state', 'gen_replace_edge_eq', []),
          ('translated_delete_node_equals_the_model', 'gen_delete_node_eq', []),
          ('translated_delete_node_result_on_every_graph', 'gen_delete_node_res', []),
          ('translated_delete_edge_equals_the_model', 'gen_delete_edge_eq', []),
          ('translated_change_edge_type_failing_call_is_a_noop', 'gen_change_edge_type_failed_noop', []),
          ('translated_replace_edge_failing_call_is_a_noop', 'gen_replace_edge_failed_noop', []),
          ('translated_delete_node_failing_call_is_a_noop', 'gen_delete_node_failed_noop', []),
          ('translated_delete_edge_failing_call_is_a_noop', 'gen_delete_edge_failed_noop', []),
          ]),
 'C05': ('Base Digraph Names Graph GraphObs GraphInv Serial SerialProofs Closed Extracted SourceFacts SFSerialEq JsonText CorrJsonText JsonTextProofs',
         'C05 — dictionary / JSON serialisation round-trips to a deeply equal graph.\n'
         '    TagsStable g: re-deriving the two reserved tags of a time-series node leaves its metadata unchanged (true of key-sorted\n'
         '    metadata and of metadata built by the node constructor; Inv has no clause on the shape of metadata lists).',
         [('round_trip_deeply_equal_validated', 'roundtrip_closed', []),
          ('round_trip_deeply_equal_unvalidated', 'roundtrip_novalidate_closed', []),
          ('copy_is_deeply_equal', '@copy_deep_eq Names.parse Names.fmt', []),
          ('result_of_from_dict_satisfies_the_invariant_same_class', 'from_dict_inv_closed', []),
          ('serialising_again_gives_the_same_dictionary', '@to_dict_idempotent Names.parse Names.fmt', []),
          ('to_dict_independent_of_construction_order', '@to_dict_order_independent Names.parse', []),
          ('to_dict_total_on_reachable_states', '@to_dict_inv Names.parse', []),
          ('skeleton_round_trip', '@skeleton_roundtrip Names.parse Names.fmt', []),
          ('plain_to_time_series_preserves', '@cg_to_ts_preserves Names.parse Names.fmt', []),
          ('plain_to_time_series_flips_exactly_nondirected_against_time', '@ts_orient_spec Names.parse', []),
          ('plain_to_time_series_rejects_directed_against_time', '@cg_to_ts_rejects_directed_against_time Names.parse Names.fmt', []),
          ('time_series_to_plain_deeply_equal', 'ts_to_cg_deep_eq_closed', []),
          ('time_series_to_plain_and_back', 'ts_to_cg_to_ts_closed', []),
          ('serialisation_defaults_in_source_are_the_modelled_ones', 'serialisation_and_equality_defaults', []),
          ('json_text_round_trip_parse_of_print_is_identity_on_well_formed_trees', 'json_parse_print', []),
          ('json_text_round_trip_closed_form_on_every_tree', 'json_parse_print_canon', []),
          ('json_text_round_trip_holds_exactly_on_well_formed_trees', 'json_roundtrip_iff', []),
          ('json_parser_accepts_every_whitespace_layout', 'json_parse_layout', []),
          ('json_indented_output_parses_back', 'json_parse_print_indent', []),
          ('dictionary_of_a_graph_survives_json_text', 'to_dict_text_roundtrip', []),
          ('round_trip_through_json_text_deeply_equal_unvalidated', '@roundtrip_novalidate_through_text Names.parse Names.fmt', []),
          ('round_trip_through_json_text_deeply_equal_validated', '(@roundtrip_through_text Names.parse Names.fmt inv_left HC)', []),
          ('skeleton_round_trip_through_json_text', '@skeleton_roundtrip_through_text Names.parse Names.fmt', []),
          ('json_text_merges_surrogate_pairs_refuted', 'json_parse_print_surrogate_pair_refuted', []),
          ]),
 'C08': ('Base Digraph Names Graph GraphObs GraphInv Matrix MatrixProofs Skeleton SkeletonProofs Closed TSGraph LagMatrix LagMatrixProofs Extracted SourceFacts SFMatrix',
         'C08 — matrix, networkx, GML and skeleton interchange reconstruct an equal graph.\n'
         '    GML text is not modelled (exercised through the networkx form). The lagged matrices (to_numpy_by_lag / from_adjacency_matrices)\n'
         '    are modelled in LagMatrix.v at the template level of TSGraph.v; with validate=True the round trip is refused exactly when the\n'
         '    minimal graph has a directed cycle (C02 requires that refusal; lag_c08_clause_with_validation_refuted is the witness).',
         [('matrix_entry_is_one_iff_edge', '@matrix_entry Names.parse', []),
          ('matrix_is_square_and_binary', '@matrix_shape Names.parse', []),
          ('directed_undirected_graphs_are_representable', '@to_numpy_total Names.parse', []),
          ('unrepresentable_edge_types_refused_by_to_numpy', 'unrepresentable_refused', []),
          ('unrepresentable_graphs_refused_by_networkx_and_gml', 'unrepresentable_refused_nx', []),
          ('malformed_matrices_refused', '@malformed_refused Names.parse Names.fmt', []),
          ('matrix_round_trip_validated', 'matrix_roundtrip_closed', []),
          ('matrix_round_trip_own_class', 'matrix_roundtrip_own_closed', []),
          ('matrix_round_trip_unvalidated', '@matrix_roundtrip_novalidate Names.parse Names.fmt', []),
          ('cyclic_graph_matrix_refused_with_validation', 'matrix_roundtrip_cyclic_refused_closed', []),
          ('networkx_round_trip', 'nx_roundtrip_closed', []),
          ('constructed_graph_satisfies_invariant', 'from_matrix_inv_closed', []),
          ('lagged_matrices_round_trip_to_the_minimal_graph', 'lag_matrices_roundtrip', []),
          ('lagged_matrices_round_trip_refused_iff_minimal_graph_cyclic', 'lag_matrices_roundtrip_cyclic', []),
          ('lagged_matrices_round_trip_without_construct_minimal', 'lag_matrices_roundtrip_full', []),
          ('lagged_matrix_entry_is_one_iff_template', 'lag_matrices_entry_spec', []),
          ('lagged_matrices_key_order', 'lag_matrices_key_order', []),
          ('lagged_matrices_refuse_other_edge_types', 'lag_matrices_refuse_other_types', []),
          ('from_adjacency_matrices_exact_characterisation', 'from_adjacency_matrices_spec', []),
          ('from_adjacency_matrices_refuses_future_lags', 'from_adjacency_matrices_future', []),
          ('from_adjacency_matrices_refuses_bad_names', 'from_adjacency_matrices_bad_names', []),
          ('from_adjacency_matrices_refuses_bad_shapes', 'from_adjacency_matrices_bad_shapes', []),
          ('lag_c08_clause_with_validation_refuted', 'c08_roundtrip_refuted', ['c08_roundtrip_statement']),
          ('lag_round_trip_needs_contemporaneous_undirected_edges_refuted', 'roundtrip_any_und_refuted', ['roundtrip_any_und_statement']),
          ('lag_round_trip_needs_an_edge_refuted', 'roundtrip_edgeless_refuted', ['roundtrip_edgeless_statement']),
          ('matrix_constructor_defaults_in_source_are_the_modelled_ones', 'matrix_constructor_defaults', []),
          ]),
 'C09': ('Base Digraph Names Graph GraphObs GraphInv Matrix Skeleton SkeletonProofs Closed Serial SubGraph SubGraphProofs SkeletonDict',
         'C09 — the skeleton is a live, purely undirected image of the graph.\n'
         '    Every skeleton view is a function of the CURRENT state of the graph model, so liveness is immediate in the model; the check\n'
         '    takes the Skeleton object BEFORE the history.',
         [('nodes_are_the_graph_nodes', '@sk_nodes_spec Names.parse', []),
          ('one_undirected_edge_per_stored_edge_nothing_else', '@sk_edges_spec Names.parse', []),
          ('adjacency_symmetric', '@sk_adj_sym Names.parse', []),
          ('adjacency_one_iff_adjacent', '@sk_adj_iff_adjacent Names.parse', []),
          ('existence_ignores_orientation', 'sk_exists_sym', []),
          ('existence_iff_adjacent', '@sk_exists_spec Names.parse', []),
          ('get_edge_either_orientation', '@sk_get_edge_spec Names.parse', []),
          ('neighbours_are_exactly_the_adjacent_names', '@sk_neighbors_spec Names.parse', []),
          ('rebuild_from_matrix', 'sk_rebuild_matrix_closed', []),
          ('rebuild_from_networkx', 'sk_rebuild_nx_closed', []),
          ('rebuild_from_matrix_own_class', 'sk_rebuild_matrix_own_closed', []),
          ('rebuild_from_networkx_own_class', 'sk_rebuild_nx_own_closed', []),
          ('rebuild_from_own_dictionary', '@sk_rebuild_dict Names.parse Names.fmt', []),
          ('rebuild_from_own_dictionary_deep', '@sk_rebuild_dict_deep Names.parse Names.fmt', []),
          ('rebuild_from_own_dictionary_json_model', '@sk_rebuild_json Names.parse Names.fmt', []),
          ]),
 'C06': ('Base Alias AliasProofs',
         'C06 — exports, copies and derived graphs never alias the graph or each other.\n'
         '    Object identity lives in the Python runtime; the model carries the COPY DISCIPLINE: every container has an identity,\n'
         '    metadata is two-level (dict + nested mutable values), and each operation allocates or shares identities as the table\n'
         '    [copy_discipline] says (the table is re-measured on the live objects by id() on every run). [Sep\'] is full separation\n'
         '    with the ONE known carve-out: to_dict shares nested values (recorded finding F9, refuted below).',
         [('separation_holds_after_any_history', 'sep_run_init', []),
          ('container_level_separation_after_any_history', 'sep_outer_run_init', []),
          ('full_separation_for_histories_without_to_dict', 'sep_full_run', []),
          ('every_step_preserves_separation', 'sep_step', []),
          ('to_dict_keeps_container_level_separation', 'sep_outer_export_dict', []),
          ('to_dict_shares_nested_values_refuted', 'to_dict_inner_shared_refuted', []),
          ('to_dict_nested_write_is_visible_refuted', 'to_dict_nested_write_visible', []),
          ('mutating_an_export_is_invisible_to_graph_and_other_exports', 'export_mutation_invisible', []),
          ('container_level_mutation_of_any_export_is_invisible', 'export_outer_mutation_invisible', []),
          ('later_graph_mutations_do_not_reach_earlier_exports', 'graph_mutation_invisible', []),
          ('producing_an_export_does_not_modify_the_graph', 'producing_is_readonly', []),
          ('distinct_nodes_and_edges_of_a_derived_graph_share_nothing', 'sep_export_internal', []),
          ('only_to_dict_is_shallow_in_the_table', 'table_only_to_dict_shallow', []),
          ('no_table_row_aliases', 'table_rows_safe', []),
          ]),
 'C07': ('Base Names Graph GraphObs GraphInv Equality EqualityProofs Extracted FactsEq SourceFacts SFSerialEq',
         'C07 — graph equality is a structural equivalence relation.\n'
         '    [graph_eqb] follows CausalGraph.__eq__ statement by statement (an error value where Python would raise);\n'
         '    [canon] forgets construction order and orients the symmetric edge types (-- <> oo) by endpoint order.',
         [('never_raises', '@graph_eq_never_raises Names.parse', []),
          ('deep_never_raises', '@deep_eq_never_raises Names.parse', []),
          ('equal_iff_same_canonical_form', '@graph_eq_char Names.parse', []),
          ('deep_equal_iff_same_deep_canonical_form', '@deep_eq_char Names.parse', []),
          ('reflexive', '@graph_eq_refl Names.parse', []),
          ('symmetric', '@graph_eq_sym Names.parse', []),
          ('transitive', '@graph_eq_trans Names.parse', []),
          ('ne_is_negation', '@graph_ne_negb Names.parse', []),
          ('deep_implies_shallow', '@deep_implies_shallow Names.parse', []),
          ('independent_of_construction_order', '@graph_eq_order_independent Names.parse', []),
          ('skeleton_never_raises', '@skeleton_eq_never_raises Names.parse', []),
          ('skeleton_equal_iff_same_canonical_form', '@skeleton_eq_char Names.parse', []),
          ('skeleton_deep', '@skeleton_deep_eq_char Names.parse', []),
          ('skeleton_symmetric', '@skeleton_eq_sym Names.parse', []),
          ('skeleton_transitive', '@skeleton_eq_trans Names.parse', []),
          ('edge_equality_is_an_equivalence', 'edge_eq_equiv', []),
          ('edge_pair_test_is_canonical_form_equality', 'edge_pair_test_canon', []),
          ('node_equality_symmetric', 'node_eqb_sym', []),
          ('node_equality_transitive', 'node_eqb_trans', []),
          ('dont_care_direction_list_in_source_is_the_modelled_one', 'dont_care_direction_set', []),
          ('edge_type_spellings_in_source_are_the_modelled_ones', 'edge_type_values_exact', []),
          ('equality_defaults_in_source_are_the_modelled_ones', 'serialisation_and_equality_defaults', []),
          ]),
 'C10': ('Base Digraph DigraphProofs Queries QueriesProofs Names Graph GraphObs GraphInv Bridge BridgeProofs Extracted SourceFacts SFTopo Serial SubGraph SubGraphProofs Equality TopoSort TopoSortProofs PyRt PyRtLoop TraversalGenLemmas TraversalGenQ TraversalGenQProofs',
         'C10 — structural queries agree with their graph-theoretic definitions.',
         [('descendants_are_directed_reachability', '@desc_spec', []),
          ('ancestors_are_directed_reachability', '@anc_spec', []),
          ('is_ancestor_all_of', '@is_ancestor_spec', []),
          ('is_descendant_all_of', '@is_descendant_spec', []),
          ('common_ancestors', '@common_anc_spec', []),
          ('common_descendants', '@common_desc_spec', []),
          ('all_causal_paths_are_exactly_the_simple_directed_paths', '@all_paths_spec', []),
          ('all_causal_paths_no_duplicates', '@all_paths_nodup', []),
          ('nodes_between_memoised_recursion', '@nodes_between_correct', []),
          ('directed_path_exists_on_acyclic_directed_part', '@directed_path_exists_correct', []),
          ('all_topological_orders_are_exactly_the_linear_extensions', '@all_topo_topo_order', []),
          ('all_topological_orders_no_duplicates', '@all_topo_nodup', []),
          ('topological_order_checker', '@is_topo_spec', []),
          ('a_dag_has_a_topological_order', '@all_topo_nonempty', []),
          ('renaming_invariance_descendants', '@desc_rename', []),
          ('renaming_invariance_ancestors', '@anc_rename', []),
          ('acyclicity_is_renaming_invariant', '@map_graph_acyclic', []),
          ('applies_to_every_reachable_state_descendants', '@reachable_descendants_correct', []),
          ('applies_to_every_validated_reachable_state_nodes_between', '@reachable_nodes_between_correct', []),
          ('graph_parents_view_is_digraph_parents', '@parents_bridge', []),
          ('reachable_validated_states_are_well_formed_dags', '@reachable_validated_dag', []),
          ('topological_order_defaults_in_source_are_the_modelled_ones', 'topological_order_defaults', []),
          ('ancestral_graph_is_the_induced_subgraph_on_node_and_ancestors', '@ancestral_graph_directed Names.parse Names.fmt', []),
          ('descendant_graph_is_the_induced_subgraph_on_node_and_descendants', '@descendant_graph_directed Names.parse Names.fmt', []),
          ('ancestral_graph_exact_whatever_the_set_iteration_order', '@ancestors_subgraph_any_order Names.parse Names.fmt', []),
          ('descendant_graph_exact_whatever_the_set_iteration_order', '@descendants_subgraph_any_order Names.parse Names.fmt', []),
          ('parents_graph_is_the_star_of_directed_edges_into_the_node', '@parents_graph_spec Names.parse Names.fmt', []),
          ('children_graph_is_the_star_of_directed_edges_out_of_the_node', '@children_graph_spec Names.parse Names.fmt', []),
          ('subgraphs_refuse_unknown_nodes', '@subgraph_missing_node Names.parse Names.fmt', []),
          ('parents_children_graphs_refuse_unknown_nodes', '@star_missing_node Names.parse Names.fmt', []),
          ('subgraphs_refuse_mixed_graphs', '@subgraph_mixed_refused Names.parse Names.fmt', []),
          ('ancestors_independent_of_construction_order', '@ancestors_order_invariant Names.parse Names.fmt', []),
          ('ancestral_graph_independent_of_construction_order', '@ancestral_graph_equiv_invariant Names.parse Names.fmt', []),
          ('parents_children_graphs_independent_of_construction_order', '@parents_children_graph_equiv_invariant Names.parse Names.fmt', []),
          ('descendants_depend_only_on_the_arc_set', '@desc_same_arcs', []),
          ('ancestors_depend_only_on_the_arc_set', '@anc_same_arcs', []),
          ('causal_paths_depend_only_on_the_arc_set', '@all_paths_same_arcs', []),
          ('topological_orders_depend_only_on_the_arc_set', '@all_topo_same_arcs', []),
          ('nodes_between_depend_only_on_the_arc_set', '@nodes_between_same_arcs', []),
          ('directed_path_exists_depends_only_on_the_arc_set', '@directed_path_exists_same_arcs', []),
          ('states_with_the_same_views_have_the_same_arcs', '@same_view_same_arcs', []),
          ('networkx_topological_sort_as_written_returns_a_topological_order', '@topological_sort_correct', []),
          ('default_topological_order_is_a_linear_extension_or_the_graph_is_refused', '@get_topological_order_correct', []),
          ('default_topological_order_on_every_graph_state', '@v_topological_order_correct', []),
          ('default_topological_order_depends_only_on_node_order_and_adjacency_order', '@topological_sort_depends', []),
          ('default_topological_order_of_equal_graphs_can_differ_refuted', 'equal_graphs_same_order_refuted', []),
          ('translated_memoised_helper_simulates_the_model_for_every_graph_fuel_and_cache', '@gen_inner_sim', []),
          ('translated_get_nodes_between_equals_the_model_on_every_dag', '@gen_nodes_between_equiv', []),
          ('translated_get_nodes_between_returns_exactly_the_nodes_on_directed_paths', '@gen_nodes_between_correct', []),
          ('translated_get_nodes_between_refuses_non_dags', '@gen_nodes_between_not_dag', []),
          ('translated_directed_path_exists_equals_the_model_for_every_fuel', '@gen_directed_path_exists_equiv', []),
          ('translated_directed_path_exists_decides_directed_reachability', '@gen_directed_path_exists_correct', []),
          ('translated_directed_path_exists_unknown_node_is_an_assertion_error', '@gen_directed_path_exists_missing', []),
          ]),
 'C11': ('Base Digraph DSep DSepProofs Moral MoralProofs Names Graph GraphObs GraphInv Bridge BridgeProofs Extracted SourceFacts SFSepSet',
         'C11 — d-separation answers match the graphical definition.\n'
         '    networkx is modelled by the textbook definition [dsep] (every path between X and Y is blocked by Z); [dsepb]\n'
         '    is its executable form, compared with is_d_separated exhaustively by the correspondence check.',
         [('dsepb_decides_the_path_definition', '@dsepb_correct', []),
          ('dsepb_on_dags_disjoint_sets', '@dsepb_correct_dag', []),
          ('undirected_path_enumeration_is_exact', '@upaths_spec', []),
          ('blocked_path_checker', '@blockedb_spec', []),
          ('d_separation_is_symmetric', '@dsep_sym', []),
          ('minimal_separator_checker', '@min_sepb_spec', []),
          ('adjacent_nodes_are_never_separated', '@adjacent_never_separated', []),
          ('moral_ancestral_graph_separation_iff_d_separation', '@moral_separation_iff_dsep', []),
          ('moral_separation_checker_equals_path_checker', '@moral_sepb_correct', []),
          ('bfs_with_marks_computes_the_touched_boundary', '@bfs_marks_spec', []),
          ('get_d_separation_set_is_a_minimal_separator_on_every_dag', '@min_dsep_set_min_sep', []),
          ('get_d_separation_set_is_inclusion_minimal', '@min_dsep_set_inclusion_minimal', []),
          ('no_removable_node_iff_inclusion_minimal', '@min_sep_iff_inclusion_minimal', []),
          ('is_minimally_d_separated_algorithm_equals_the_definition_on_every_dag', '@nx_min_sepb_eq', []),
          ('is_minimally_d_separated_true_exactly_for_minimal_separators', '@nx_min_sepb_spec', []),
          ('applies_to_every_reachable_state', '@reachable_dsepb_correct', []),
          ('separation_set_defaults_in_source_are_the_modelled_ones', 'separation_set_defaults', []),
          ]),
 'C12': ('Base Dec Names NamesProofs Graph GraphObs GraphInv GraphInvProofs Extracted SourceFacts SFTSNode SFCodec',
         'C12 — time-series node identity and lag / variable lookups stay coherent.\n'
         '    (A) the name codec is a bijection between canonical names and (variable, lag) pairs;\n'
         '    (B) NodeOK / IdxOK are part of Inv TS (fields ts_nodeok, ts_lagidx, ts_varidx of TSInv), hence hold in every\n'
         '    reachable state, and the lookups equal a scan over the current nodes.',
         [('parse_fmt', 'parse_fmt', []),
          ('fmt_is_canonical_spelling', 'fmt_good', []),
          ('parse_of_canonical_spelling', 'parse_tident', []),
          ('lag_zero_is_bare_name', 'fmt_zero', []),
          ('relag', 'relag', []),
          ('relag_any_name', 'relag_any', []),
          ('fmt_injective', 'fmt_inj', []),
          ('canonical_spelling_injective', 'tident_inj', []),
          ('canonical_names_are_exactly_formatted_pairs', 'canonical_inv', []),
          ('formatted_pairs_are_canonical', 'canonical_tident', []),
          ('parse_rejects_exactly', 'parse_none_iff', []),
          ('decimal_read_print', 'read_print', []),
          ('every_reachable_state_satisfies_invariant_incl_NodeOK_IdxOK', 'inv_run Names.parse Names.fmt', ['inv_run_statement']),
          ('lookups_equal_scan', 'lookups_eq_scan Names.parse', ['lookups_eq_scan_statement']),
          ('time_series_node_defaults_in_source_are_the_modelled_ones', 'time_series_node_defaults', []),
          ('name_codec_functions_in_source_are_the_modelled_ones', 'name_codec_source_is_the_modelled_one', []),
          ]),
 'C13': ('Base Digraph DigraphProofs Names Graph GraphObs GraphInv GraphInvProofs Queries QueriesProofs Bridge BridgeProofs Extracted SourceFacts SFTopo Equality TopoSort TopoSortProofs',
         'C13 — time-series graphs never point a directed edge backwards in time.\n'
         '    TimeOK (field ts_time of TSInv) is part of Inv TS, hence holds in every reachable state.',
         [('every_reachable_ts_state_satisfies_invariant_incl_TimeOK', 'inv_run Names.parse Names.fmt', ['inv_run_statement']),
          ('time_sorted_topological_order_exists', '@time_topo_exists', []),
          ('return_all_is_exactly_the_time_sorted_topological_orders', '@all_time_topo_spec', []),
          ('time_sorted_orders_nonempty', '@all_time_topo_nonempty', []),
          ('validated_reachable_ts_states_have_a_time_sorted_topological_order', '@reachable_time_topo_exists', []),
          ('topological_order_defaults_in_source_are_the_modelled_ones', 'topological_order_defaults', []),
          ('networkx_lexicographical_topological_sort_as_written_is_time_sorted', '@lex_topological_sort_correct', []),
          ('default_time_series_order_is_a_time_sorted_topological_order', '@get_time_topological_order_correct', []),
          ('default_time_series_order_is_the_least_topological_order_for_lag_then_name', '@lex_topological_sort_least', []),
          ('default_time_series_order_on_every_time_series_state', '@v_time_topological_order_correct', []),
          ('default_time_series_order_after_any_validated_history', '@reachable_default_time_topo', []),
          ('default_time_series_order_is_a_function_of_what_equality_compares', '@equal_graphs_same_time_order', []),
          ]),
 'C14': ('Base Digraph TSGraph TSGraphProofs MinimalProofs MinimalProofs2 Names Graph GraphObs GraphInv Bridge BridgeProofs PyRtTSb PyRtTSbLemmas TSGenMinimal TSGenMinimalProofs',
         'C14 — the minimal graph is exactly the set of lag-invariant edge templates.\n'
         '    NOT proved in general (statement kept in MinimalProofs.v): adj_matrices_statement (adjacency_matrices = the template set\n'
         '    written as one matrix per source lag); it is compared with the implementation on every run instead.',
         [('minimal_succeeds_on_consistent_input', 'minimal_ok', []),
          ('minimal_meets_characterisation_and_is_well_formed', 'minimal_spec', []),
          ('one_edge_per_template_placed_at_lag_0', 'minimal_edges', []),
          ('keeps_every_variable_adds_nothing_else', 'minimal_nodes', []),
          ('carries_attributes_of_variable_and_template', 'minimal_attributes', []),
          ('fixed_point', 'minimal_idem', []),
          ('result_is_minimal', 'minimal_is_minimal', []),
          ('is_minimal_iff_equals_minimal_graph', 'is_minimal_iff', []),
          ('oracle_decides_the_characterisation', 'c14_check_spec', []),
          ('model_output_passes_the_oracle', 'minimal_check', []),
          ('adjacency_matrices_is_the_template_set_per_source_lag', 'adj_matrices_spec', []),
          ('adjacency_matrices_refuses_other_edge_types', 'adj_matrices_type_error', []),
          ('applies_to_every_state_reached_by_calls_with_canonical_names', '@canonical_history_bridge', []),
          ('time_series_abstraction_of_reachable_state_is_well_formed', '@to_tsg_wf', []),
          ('translated_get_minimal_graph_equals_the_model', 'gen_minimal_equiv', []),
          ('translated_get_minimal_graph_on_every_input', 'gen_minimal_all_inputs', []),
          ('translated_is_minimal_graph_equals_the_model', 'gen_is_minimal_equiv', []),
          ('translated_is_minimal_graph_with_a_filled_cache', 'gen_is_minimal_cached', []),
          ('translated_get_minimal_graph_meets_the_characterisation', 'gen_minimal_spec', []),
          ('translated_get_minimal_graph_passes_the_oracle', 'gen_minimal_check', []),
          ('translated_is_minimal_graph_iff_equals_its_minimal_graph', 'gen_is_minimal_iff', []),
          ]),
 'C15': ('Base Digraph TSGraph TSGraphProofs MinimalProofs ExtendProofs Extracted SourceFacts SFExtend PyRtTSb PyRtTSbLemmas TSGenExtend TSGenExtendProofs',
         'C15 — the extended graph is the exact unrolling of the minimal graph over the window.',
         [('negative_steps_refused', 'extend_neg', []),
          ('extend_succeeds_and_meets_characterisation', 'extend_spec', []),
          ('edges_are_exactly_the_kept_template_copies', 'extend_edges', []),
          ('nodes_exact_characterisation', 'extend_nodes', []),
          ('same_parents_up_to_time_shift', 'extend_same_parents', []),
          ('larger_window_gives_supergraph', 'extend_monotone', []),
          ('acyclic_minimal_graph_extends_to_acyclic_graph', 'extend_acyclic_digraph', []),
          ('minimal_graph_of_the_result_is_the_minimal_graph_of_the_input', 'minimal_of_extend', []),
          ('oracle_decides_the_characterisation', 'c15_check_m_spec', []),
          ('model_output_passes_the_oracle', 'extend_check', []),
          ('extend_graph_defaults_in_source_are_the_modelled_ones', 'extend_graph_defaults', []),
          ('translated_extend_graph_equals_the_model_on_every_input', 'gen_extend_equiv', []),
          ('translated_extend_graph_default_arguments', 'gen_extend_defaults_pinned', []),
          ('translated_extend_graph_meets_the_characterisation', 'gen_extend_spec', []),
          ('translated_extend_graph_passes_the_oracle', 'gen_extend_check', []),
          ('translated_extend_graph_same_parents_up_to_shift', 'gen_extend_same_parents', []),
          ('translated_extend_graph_larger_window_gives_super_graph', 'gen_extend_monotone', []),
          ('translated_extend_graph_minimal_of_result', 'gen_minimal_of_extend', []),
          ]),
 'C16': ('Base Digraph TSGraph TSGraphProofs MinimalProofs ExtendProofs StationaryProofs StationaryProofs2 PyRtTSa TSGenStationary TSGenStationaryProofs',
         'C16 — the stationary graph is the least stationary super-graph; the test agrees.\n'
         '    A time-series DAG whose CONTEMPORANEOUS templates are cyclic across lags (X(t-1)->Y(t-1), Y->Z, Z(t-2)->X(t-2)) has a cyclic stationary\n'
         '    graph, which is_stationary_graph rejects as a non-DAG (stat_dag_input_refuted; observation O8 in DESIGN.md): the property presupposes\n'
         '    that a stationary DAG over the templates exists, i.e. that the minimal graph is a DAG (stat_stationary).',
         [('stationary_is_window_extension_of_minimal', 'stationary_def', []),
          ('contains_every_node_and_edge_of_the_input', 'stat_contains_input', []),
          ('spans_the_window_with_every_variable_at_every_lag', 'stat_window', []),
          ('contains_every_template_copy_that_fits', 'stat_complete', []),
          ('has_the_minimal_graph_of_the_input', 'stat_minimal', []),
          ('is_stationary_false_on_non_dags', 'is_stationary_not_dag', []),
          ('is_stationary_iff_equals_stationary_graph', 'is_stationary_iff', []),
          ('is_stationary_graph_iff', 'is_stationary_graph_iff', []),
          ('model_output_meets_the_characterisation', 'stat_c16_spec', []),
          ('result_is_a_fixed_point', 'stat_idem', []),
          ('result_is_stationary_iff_its_minimal_graph_is_a_dag', 'stat_is_stationary', []),
          ('result_is_stationary_when_minimal_graph_is_a_dag', 'stat_stationary', []),
          ('oracle_decides_the_characterisation', 'c16_check_spec', []),
          ('dag_input_with_cyclic_templates_refuted', 'stat_dag_input_refuted', []),
          ('translated_get_stationary_graph_equals_the_model_on_every_input', 'gen_stationary_equiv', []),
          ('translated_is_stationary_graph_equals_the_model_on_every_input', 'gen_is_stationary_equiv', []),
          ('translated_is_stationary_graph_with_a_filled_cache', 'gen_is_stationary_cached', []),
          ('translated_get_stationary_graph_meets_the_characterisation', 'gen_stationary_c16_spec', []),
          ('translated_get_stationary_graph_passes_the_oracle', 'gen_stationary_check', []),
          ('translated_is_stationary_graph_iff', 'gen_is_stationary_graph_iff', []),
          ]),
 'C17': ('Base Digraph TSGraph TSGraphProofs SummaryProofs Names Graph GraphObs GraphInv Bridge BridgeProofs PyRtTSa TSGenSummary TSGenSummaryProofs',
         'C17 — the summary graph has one node per variable and an edge per causal link.',
         [('succeeds_on_every_dag_and_meets_characterisation', 'summary_ok', []),
          ('only_non_dags_are_refused', 'summary_not_dag', []),
          ('exactly_one_node_per_variable', 'summary_nodes', []),
          ('adjacent_iff_some_edge_joins_the_variables', 'summary_adjacent', []),
          ('directed_iff_all_edges_go_one_way', 'summary_dir', []),
          ('bidirected_iff_edges_go_both_ways', 'summary_bi', []),
          ('no_self_edges_one_edge_per_pair', 'summary_no_self', []),
          ('oracle_decides_the_characterisation', 'c17_check_spec', []),
          ('applies_to_every_state_reached_by_calls_with_canonical_names', '@canonical_history_summary', []),
          ('translated_get_summary_graph_equals_the_model_on_every_input', 'gen_summary_equiv', []),
          ('translated_get_summary_graph_succeeds_on_every_dag_and_meets_characterisation', 'gen_summary_ok', []),
          ('translated_get_summary_graph_refuses_only_non_dags', 'gen_summary_only_assert', []),
          ('translated_get_summary_graph_passes_the_oracle', 'gen_summary_check', []),
          ('translated_get_summary_graph_one_node_per_variable', 'gen_summary_nodes', []),
          ]),
 'C18': ('Base Digraph DigraphProofs DSep DSepProofs Identify IdentifyProofs IdentifyDSep Names Graph GraphObs GraphInv Bridge BridgeProofs PyRt IdentifyGenLemmas IdentifyGenConf IdentifyGenConfProofs',
         'C18 — identified confounders are common causes that close every back-door path.\n'
         '    The sufficiency clause is FALSE of the faithful model and of the code (recorded finding F12):\n'
         '    [sufficiency_refuted] is the witness; the finite statement for all DAGs on <= 4 nodes holds.',
         [('search_terminates_on_dags', '@confounders_some', []),
          ('only_common_ancestors', '@conf_common_ancestors', []),
          ('symmetric_in_the_pair', '@conf_sym', []),
          ('common_parents_are_found', '@conf_common_parent', []),
          ('sufficiency_refuted', 'conf_sufficient_refuted', ['conf_sufficient_statement']),
          ('sufficiency_holds_on_all_dags_le4', 'conf_sufficient_le4', []),
          ('applies_to_every_validated_reachable_state', '@reachable_confounders_common_ancestors', []),
          ('translated_source_of_the_confounder_search_equals_the_model_and_restores_the_graph', '@gen_helper_spec', []),
          ('translated_source_of_identify_confounders_equals_the_model_for_every_set_iteration_order', '@gen_confounders_equiv', []),
          ('translated_input_checks_refuse_exactly_non_dags_unknown_and_equal_nodes', '@gen_verify_cases', []),
          ]),
 'C19': ('Base Digraph DigraphProofs DSep DSepProofs Identify IdentifyProofs IdentifyDSep Extracted SourceFacts SFIdentify InstrumentsGen PyRt IdentifyGenLemmas IdentifyGenConf IdentifyGenIM IdentifyGenConfProofs IdentifyGenIMProofs',
         'C19 — identified instruments and mediators satisfy their graphical criteria.',
         [('mediators_exact_characterisation', '@med_spec', []),
          ('mediators_lie_between', '@med_between', []),
          ('mediators_empty_without_long_path', '@med_empty_if_no_long_path', []),
          ('mediators_empty_if_destination_is_ancestor', '@med_empty_if_dest_anc', []),
          ('instruments_exact_characterisation', '@inst_spec', []),
          ('instruments_are_ancestors_of_source', '@inst_sub_anc', []),
          ('instruments_empty_if_destination_is_ancestor', '@inst_empty_if_dest_anc', []),
          ('instruments_total_on_dags', '@instruments_some', []),
          ('mediators_total_on_dags', '@mediators_some', []),
          ('instrument_d_separation_on_all_dags_le4', 'inst_dsep_le4', []),
          ('identify_defaults_in_source_are_the_modelled_ones', 'identify_defaults', []),
          ('instrument_d_separation_on_every_dag', '@inst_dsep_all', []),
          ('instruments_are_ancestors_and_d_separated_on_every_dag', '@inst_clause1_all', []),
          ('confounder_set_is_empty_exactly_without_a_common_cause', '@conf_nonempty_iff', []),
          ('no_common_cause_means_d_separated_given_the_empty_set', '@ig_dsep_empty', []),
          ('instruments_exact_characterisation_without_the_path_clause', '@inst_spec_no_paths', []),
          ('translated_source_of_identify_instruments_equals_the_model_for_every_set_iteration_order', '@gen_instruments_equiv', []),
          ('translated_source_of_identify_mediators_equals_the_model_for_every_set_iteration_order', '@gen_mediators_equiv', []),
          ('translated_identify_instruments_raises_exactly_beyond_the_path_limit', '@gen_instruments_raises', []),
          ('translated_identify_mediators_raises_exactly_beyond_the_path_limit', '@gen_mediators_raises', []),
          ]),
 'C20': ('Base Digraph DSep DSepProofs Markov MarkovProofs Names Graph GraphObs GraphInv Bridge BridgeProofs Extracted SourceFacts SFIdentify PyRt IdentifyGenLemmas IdentifyGenConf IdentifyGenMB IdentifyGenMBProofs',
         'C20 — Markov boundaries shield their node; colliders are the nodes with two arrowheads.',
         [('markov_boundary_is_parents_children_coparents', '@mb_spec', []),
          ('markov_boundary_shields', '@mb_shields', []),
          ('markov_boundary_shields_everything_else_at_once', '@mb_shields_all', []),
          ('markov_boundary_is_minimal', '@mb_minimal', []),
          ('skeleton_markov_boundary_is_neighbours', '@skeleton_mb_spec', []),
          ('skeleton_markov_boundary_shields', '@skeleton_mb_shields', []),
          ('skeleton_markov_boundary_minimal', '@skeleton_mb_minimal', []),
          ('colliders_have_two_arrowheads', '@colliders_spec', []),
          ('unshielded_colliders', '@unshielded_spec', []),
          ('applies_to_every_validated_reachable_state', '@reachable_markov_boundary_shields', []),
          ('colliders_on_every_reachable_state', '@reachable_colliders_spec', []),
          ('identify_defaults_in_source_are_the_modelled_ones', 'identify_defaults', []),
          ('translated_source_of_identify_markov_boundary_equals_the_model', '@gen_markov_boundary_equiv', []),
          ('translated_identify_markov_boundary_answers_for_every_node_of_a_dag', 'gen_markov_total_holds', []),
          ('translated_source_of_identify_colliders_equals_the_model_on_every_mixed_graph', '@gen_colliders_equiv', []),
          ]),
}


BASE_SPLIT = ('C01', 'C02', 'C03', 'C10', 'C14', 'C15', 'C16', 'C17', 'C18', 'C19', 'C20')
GEN_PREFIXES = ('PyRtTS', 'TSGen', 'IdentifyGen', 'TraversalGen', 'PyRtLoop', 'PyRtMut', 'PyRtAdd', 'MutGen')


def coq_type(imports, expr, unfold):
    with tempfile.TemporaryDirectory() as d:
        f = Path(d) / 'q.v'
        body = f'From CG Require Import {imports}.\nSet Printing Width 100.\nSet Printing Depth 100000.\n'
        if unfold:
            body += f'Definition q__ := ({expr}).\nEval cbv delta [{" ".join(unfold)}] beta in ltac:(let t := type of q__ in exact t).\n'
        else:
            body += f'Check ({expr}).\n'
        f.write_text(body)
        r = subprocess.run(['coqc', '-Q', str(TH), 'CG', str(f)], capture_output=True, text=True)
        if r.returncode != 0:
            raise RuntimeError(f'{expr}: {r.stderr[-800:]}')
        out = r.stdout
        if unfold:
            m = re.search(r'^\s*=\s*(.*)\n\s*:\s*Prop\s*$', out, re.S | re.M)
            if not m:
                raise RuntimeError(f'cannot parse: {out[:500]}')
            return m.group(1).strip()
        m = re.search(r'\n\s+:\s(.*)$', out, re.S)
        return m.group(1).strip()


def main(which):
    for pid, (imports, header, entries) in TABLE.items():
        if which and pid not in which:
            continue
        out = [f'(** {header}\n\n    GENERATED by tools/gen_properties.py: only property theorems, each closed by [exact] of a lemma proved\n'
               f'    elsewhere (statement printed by Coq itself from that lemma), with [Print Assumptions] beneath. *)',
               f'From CG Require Import {imports}.', '']
        for name, expr, unfold in entries:
            # the number of explicit codec arguments differs between lemmas: fall back to fewer
            alts = [expr]
            if expr.endswith(' Names.parse Names.fmt'):
                alts += [expr[:-len(' Names.fmt')], expr.split(' ')[0]]
            elif expr.endswith(' Names.parse'):
                alts += [expr.split(' ')[0]]
            ty = None
            for alt in alts:
                try:
                    ty = coq_type(imports, alt, unfold)
                    expr = alt
                    break
                except RuntimeError as e:
                    err = e
            if ty is None:
                raise err
            ty = '\n'.join('  ' + l for l in ty.splitlines())
            out += [f'Theorem {pid}_{name} :\n{ty}.', f'Proof. exact ({expr}). Qed.', f'Print Assumptions {pid}_{name}.', '']
        p = TH / 'Properties' / f'{pid}.v'
        p.write_text('\n'.join(out))
        if pid in BASE_SPLIT:
            # the same file without the theorems about the code TRANSLATED from the source: used by a run on which the translator
            # refused the current source (the property is then decided by the hand-written model tied by correspondence alone)
            imps = ' '.join(m for m in imports.split() if not m.startswith(GEN_PREFIXES) and m != 'PyRt')
            base = [out[0].replace('GENERATED by', 'BASE VARIANT (no translated-source theorems), GENERATED by'), f'From CG Require Import {imps}.', '']
            k = 3
            while k < len(out):
                if '_translated_' not in out[k].split(' :')[0]:
                    base += out[k:k + 4]
                k += 4
            (TH / 'Properties' / f'{pid}base.v').write_text('\n'.join(base))
        r = subprocess.run(['coqc', '-Q', str(TH), 'CG', str(p)], capture_output=True, text=True)
        closed = r.stdout.count('Closed under the global context')
        print(pid, 'rc', r.returncode, 'theorems', len(entries), 'closed', closed, r.stderr[-600:])


if __name__ == '__main__':
    main(sys.argv[1:])
