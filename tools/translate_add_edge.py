#!/usr/bin/env python3
"""translate_add_edge.py -- FAIL-CLOSED translator of the edge-adding path of class CausalGraph to Gallina.

usage:  translate_add_edge.py [<repo_root> [<output_dir>]]
        <repo_root>  defaults to $VERIF_REPO, else /repo
        <output_dir> defaults to ../coq/theories relative to this script

Reads, with `ast` only (repository code is never imported or executed),

    <repo_root>/cai_causal_graph/causal_graph.py

extracts from class CausalGraph exactly the methods

    _set_edge, _prepare_nodes, add_edge, add_node

and writes ONE file into <output_dir> (one group: the four methods fail together):

    MutGenAdd.v     properties C01 (every call applies exactly the model's effect) and C02 (a validated add never
                    closes a directed cycle; the graph is restored when it would)
                    proofs: MutGenAddProofs.v, harness entry points: CorrMutGenAdd.v (+ harness/addgencorr.py)

(started as a copy of translate_mutators.py; same conventions.)  One Gallina definition per Python method
(gen_<method>), statement by statement; the comments quote the first line of each Python statement.  The graph object
is the explicit state variable v_self : graph (hand model Graph.v); every definition returns pymut T = (outcome, STATE
LEFT BEHIND).  The runtime / trusted API table is coq/theories/PyRtAdd.v on top of PyRtMut.v: only the graph API is
mapped to primitives of Graph.v; the control flow (ifs, try / except, the loop and the comprehension of the clean-up,
asserts, the order of the tests and of the reads, which argument goes to which parameter) comes from the Python.
Calls between the translated methods (self._prepare_nodes(..), self._set_edge(..)) are calls of the generated
definitions, arguments bound BY NAME through the signatures read from the source.

FAIL CLOSED: exactly the subset below is accepted.  On anything else the tool prints
`translate_add_edge: FAIL: <file>:<line>: <reason>` to stderr, writes a stub that does NOT compile
(`Definition translator_failed : False := I.`) and exits 2.  The file is left untouched when its text is unchanged.

Accepted subset
  * `def m(self, [/,] p.., [*, kw..])`; parameter annotations NodeLike, Optional[NodeLike], EdgeType, Optional[EdgeType],
    Optional[dict], Edge, Optional[Edge], Optional[Node], NodeVariableType, bool (Optional parameters must default to
    None; bool / EdgeType / NodeVariableType may have a constant default, which only call sites use); return annotation
    None / Edge / Node (value dropped) / Tuple[Node, Node];
    the only decorator accepted (and ignored, see PyRtMut.v) is `@reset_cached_attributes_decorator`; docstrings, `pass`;
  * `x = e`, `x: T = e`, `a, b = e1, e2` (right-hand sides evaluated first), `a, b = self._prepare_nodes(..)`,
    `<local Edge>.meta = e`, `self._edges_by_source[a][b] = e`, `self._edges_by_destination[a][b] = e`,
    `self._nodes_by_identifier[i] = n`; a call that can raise (`self._EdgeCls(n1, n2, edge_type=t)`,
    `self._NodeCls(i, meta=m, variable_type=vt)`, `self._check_node_exists(x)`, `l[0]`) only as the whole right-hand side;
  * `if / elif / else` over a pure test; `if x is not None:` over an Optional local narrows x in its body; an `if`
    followed by further statements either ends every path of its body in `raise` (guard) or is JOINED: the locals it
    (re)binds on every path are returned to the continuation (kinds must agree up to str <= NodeLike, T <= Optional[T]);
  * `assert c [, msg]` (AssertionError); conjuncts `x is not None` over Optional locals narrow x afterwards;
  * `return`, `return <Edge / Node local>` (value dropped), `return l1[0], l2[0]`, as the last statement outside for / try;
  * `raise CausalGraphErrors.<EdgeDoesNotExistError|EdgeExistsError|NodeDoesNotExistError|EdgeDuplicatedError|
    ReverseEdgeExistsError|CyclicConnectionError>([<constant or f-string over names>])` as the last statement of a block;
  * `try: B except Exception: H; raise` (one handler, no name, no else / finally, H ends with a bare `raise`, H binds
    no locals, locals bound in B are not visible afterwards) and `try: B except AssertionError: H` where every path of H
    ends in `raise <class>(..)`;
  * `for x in <list>: B` (no else; B only mutating calls / ifs; no continue / break / return; binds no locals);
  * mutating statements `self.delete_edge(s, d[, edge_type=t])`, `self.delete_node(x)`, `self.add_node(node=x)`,
    `self.add_node(x, meta=m)`, `self._assert_node_does_not_depend_on_itself(i)`,
    `self._nodes_by_identifier[i]._add_inbound_edge(e)` / `._add_outbound_edge(e)`, `self._set_edge(edge=e, validate=b)`;
  * expressions: names, True / False, non-negative int constants, `EdgeType.<MEMBER>`, `not e`, `and` / `or`,
    `NodeVariableType.<MEMBER>`, `==` / `!=` on EdgeType, NodeVariableType, ints and NodeLikes, `<Optional value> is [not] None`, `e if c else None`,
    `[f for x in xs if c..]` (xs a list or a tuple display), `len(l)`, `deepcopy(<metadata>)`,
    `isinstance(x, Node | HasMetadata)`, `self._NodeCls.identifier_from(x)`, `x.get_metadata()`, `n.identifier`, `n.variable_type`, `n.meta` (n a Node), `e.source`,
    `e.destination`, `e.meta`, `e._edge_type`, `e.get_edge_type()`, `e.get_metadata()`, `self.node_exists(x)`,
    `self.get_nodes(x)`, `self.get_edges(a, b[, edge_type=t])`, `self._edges_by_source[a].get(b)`,
    `self._edges_by_destination[a].get(b)`;
  * module / class facts relied upon and checked: CausalGraph defined once; each translated method and each callee of
    the table defined once in it with the expected parameter names and defaults; `_NodeCls` bound to `Node` and `_EdgeCls`
    to `Edge` in the class; `self._edges_by_source` / `self._edges_by_destination` bound exactly once, in __init__, to
    `defaultdict(dict)`; Node, Edge, EdgeType, NodeLike, CausalGraphErrors, HasMetadata, deepcopy, defaultdict imported
    from their modules and not rebound at module level; the builtins isinstance / len / str / dict / Exception /
    AssertionError not rebound at module level; reset_cached_attributes_decorator is a module-level function.
Everything else (while, with, lambda, nested def, augmented assignment, other subscripts / attributes / methods /
builtins, `**kw`, starred arguments, use of an unknown name or of an Optional value where a value is needed, ...) is
refused.
"""
import ast
import os
import sys

CLASS = 'CausalGraph'
SOURCE = os.path.join('cai_causal_graph', 'causal_graph.py')
FNAME = 'MutGenAdd'
METHODS = ['_set_edge', '_prepare_nodes', 'add_edge', 'add_node']
RET = {'_set_edge': 'unit', '_prepare_nodes': '(node * node)', 'add_edge': 'unit', 'add_node': 'unit'}
VTYPES = {'UNSPECIFIED': 'VUnspec', 'CONTINUOUS': 'VCont', 'BINARY': 'VBin', 'MULTICLASS': 'VMulti', 'ORDINAL': 'VOrd'}

ERRS = {'EdgeDoesNotExistError': 'EEdgeMissing', 'EdgeExistsError': 'EEdgeExists',
        'NodeDoesNotExistError': 'ENodeMissing', 'EdgeDuplicatedError': 'EEdgeDup',
        'ReverseEdgeExistsError': 'EReverse', 'CyclicConnectionError': 'ECyclic'}
ETYPES = {'DIRECTED_EDGE': 'Dir', 'UNDIRECTED_EDGE': 'Und', 'BIDIRECTED_EDGE': 'Bi', 'UNKNOWN_EDGE': 'Unk',
          'UNKNOWN_DIRECTED_EDGE': 'UnkDir', 'UNKNOWN_UNDIRECTED_EDGE': 'UnkUnd'}
COQTY = {'name': 'name', 'etype': 'etype', 'oetype': 'option etype', 'meta': 'meta', 'ometa': 'option meta',
         'edge': 'edge', 'node': 'node', 'pair': '(name * name)', 'bool': 'bool', 'nodelike': 'endpoint',
         'onodelike': 'option endpoint', 'edgeobj': 'edge_obj', 'oedgeobj': 'option edge_obj', 'vtype': 'vtype'}
OPTS = ('oetype', 'ometa', 'onodelike', 'oedgeobj', 'ostored')
# callee signatures the table of PyRtMut.v assumes: (positional names after self, keyword-only names, defaults)
CALLEES = {
    'delete_edge': (['source', 'destination'], ['edge_type'], {'edge_type': 'None'}),
    'get_edges': (['source', 'destination'], ['edge_type'], {'source': 'None', 'destination': 'None', 'edge_type': 'None'}),
    'get_nodes': (['identifier'], [], {'identifier': 'None'}),
    'node_exists': (['identifier'], [], {}),
    'delete_node': (['identifier'], [], {}),
    'add_node': (['identifier'], ['variable_type', 'meta', 'node'],
                 {'identifier': 'None', 'variable_type': 'NodeVariableType.UNSPECIFIED', 'meta': 'None', 'node': 'None'}),
    '_assert_node_does_not_depend_on_itself': (['identifier'], [], {}),
    '_set_edge': (['edge', 'validate'], [], {'validate': 'True'}),
    '_prepare_nodes': (['source', 'destination'], [], {}),
    '_check_node_exists': (['identifier'], [], {}),
}
REMOVE_EDGE_BODY = 'self.delete_edge(source=source, destination=destination, edge_type=edge_type)'
EDGES_BODY = 'return self.get_edges()'

STUB = '''(** %(file)s.v -- STUB written by tools/translate_add_edge.py: the translation was REFUSED:
    %(why)s
    This file does not compile on purpose (fail closed). *)
Definition translator_failed : False := I.
'''


class Unsupported(Exception):
    def __init__(self, node, why):
        line = getattr(node, 'lineno', 0) if node is not None else 0
        super().__init__(f'{line}: {why}')


def clean(s):
    return s.replace('(*', '( *').replace('*)', '* )')


def is_self_attr(e, attr=None):
    return (isinstance(e, ast.Attribute) and isinstance(e.value, ast.Name) and e.value.id == 'self'
            and (attr is None or e.attr == attr))


def strip_doc(body):
    if body and isinstance(body[0], ast.Expr) and isinstance(body[0].value, ast.Constant) \
            and isinstance(body[0].value.value, str):
        return body[1:]
    return body


# ------------------------------------------------------------------------------------------------------------------
# module / class facts
# ------------------------------------------------------------------------------------------------------------------
def find_class(tree):
    found = [n for n in tree.body if isinstance(n, ast.ClassDef) and n.name == CLASS]
    if len(found) != 1:
        raise Unsupported(None, f'class {CLASS} must be defined exactly once at module level (found {len(found)})')
    return found[0]


def method(cls, name):
    found = [n for n in cls.body if isinstance(n, (ast.FunctionDef, ast.AsyncFunctionDef)) and n.name == name]
    if len(found) != 1 or not isinstance(found[0], ast.FunctionDef):
        raise Unsupported(cls, f'method {name} must be defined exactly once in class {CLASS}')
    for n in cls.body:
        for t in (n.targets if isinstance(n, ast.Assign) else [n.target] if isinstance(n, ast.AnnAssign) else []):
            if isinstance(t, ast.Name) and t.id == name:
                raise Unsupported(n, f'{name} is rebound in the class body')
    return found[0]


def check_module(tree, cls):
    want = {'Node': 'cai_causal_graph.graph_components', 'Edge': 'cai_causal_graph.graph_components',
            'EdgeType': 'cai_causal_graph.type_definitions', 'NodeLike': 'cai_causal_graph.type_definitions',
            'NodeVariableType': 'cai_causal_graph.type_definitions',
            'CausalGraphErrors': 'cai_causal_graph.exceptions', 'HasMetadata': 'cai_causal_graph.interfaces',
            'deepcopy': 'copy', 'defaultdict': 'collections'}
    seen = {}
    for n in tree.body:
        if isinstance(n, ast.ImportFrom):
            for a in n.names:
                nm = a.asname or a.name
                if nm in want:
                    if n.module != want[nm] or a.name != nm or n.level != 0 or nm in seen:
                        raise Unsupported(n, f'{nm} is not imported as the table assumes')
                    seen[nm] = True
        elif isinstance(n, ast.Import):
            for a in n.names:
                if (a.asname or a.name.split('.')[0]) in want:
                    raise Unsupported(n, 'a name of the table is rebound by an import')
        elif isinstance(n, (ast.FunctionDef, ast.ClassDef, ast.AsyncFunctionDef)):
            if n.name in want:
                raise Unsupported(n, f'{n.name} is rebound at module level')
        else:
            for sub in ast.walk(n):
                if isinstance(sub, ast.Name) and isinstance(sub.ctx, (ast.Store, ast.Del)) and sub.id in want:
                    raise Unsupported(n, f'{sub.id} is rebound at module level')
    for n in tree.body:
        names = []
        if isinstance(n, (ast.FunctionDef, ast.ClassDef, ast.AsyncFunctionDef)):
            names = [n.name]
        elif isinstance(n, (ast.Import, ast.ImportFrom)):
            names = [(a.asname or a.name).split('.')[0] for a in n.names]
        else:
            names = [x.id for x in ast.walk(n) if isinstance(x, ast.Name) and isinstance(x.ctx, ast.Store)]
        for b in ('isinstance', 'len', 'str', 'Exception', 'AssertionError', 'dict'):
            if b in names:
                raise Unsupported(n, f'builtin {b} is rebound at module level')
    method(cls, '_clean_empty_edge_dictionaries')
    for nm in want:
        if nm not in seen:
            raise Unsupported(None, f'{nm} is not imported from {want[nm]}')
    if not any(isinstance(n, ast.FunctionDef) and n.name == 'reset_cached_attributes_decorator' for n in tree.body):
        raise Unsupported(None, 'reset_cached_attributes_decorator is not a module-level function')
    # _NodeCls = Node
    binds = []
    for n in cls.body:
        if isinstance(n, ast.AnnAssign) and isinstance(n.target, ast.Name) and n.target.id == '_NodeCls':
            binds.append(n.value)
        if isinstance(n, ast.Assign) and any(isinstance(t, ast.Name) and t.id == '_NodeCls' for t in n.targets):
            binds.append(n.value)
    if len(binds) != 1 or not (isinstance(binds[0], ast.Name) and binds[0].id == 'Node'):
        raise Unsupported(cls, '_NodeCls must be bound exactly once, to Node, in the class body')
    # callee signatures
    for name, (pos, kwonly, defaults) in CALLEES.items():
        m = method(cls, name)
        a = m.args
        if a.vararg or a.kwarg:
            raise Unsupported(m, f'callee {name}: *args / **kwargs')
        got_pos = [x.arg for x in a.posonlyargs + a.args]
        if got_pos != ['self'] + pos or [x.arg for x in a.kwonlyargs] != kwonly:
            raise Unsupported(m, f'callee {name}: parameters are not (self, {", ".join(pos + kwonly)})')
        got = {}
        for x, d in zip(reversed(a.posonlyargs + a.args), reversed(a.defaults)):
            got[x.arg] = ast.unparse(d)
        for x, d in zip(a.kwonlyargs, a.kw_defaults):
            if d is not None:
                got[x.arg] = ast.unparse(d)
        if got != defaults:
            raise Unsupported(m, f'callee {name}: defaults are {got}, the table assumes {defaults}')
    # _EdgeCls = Edge
    binds = []
    for n in cls.body:
        if isinstance(n, ast.AnnAssign) and isinstance(n.target, ast.Name) and n.target.id == '_EdgeCls':
            binds.append(n.value)
        if isinstance(n, ast.Assign) and any(isinstance(t, ast.Name) and t.id == '_EdgeCls' for t in n.targets):
            binds.append(n.value)
    if len(binds) != 1 or not (isinstance(binds[0], ast.Name) and binds[0].id == 'Edge'):
        raise Unsupported(cls, '_EdgeCls must be bound exactly once, to Edge, in the class body')
    # the two edge indexes are defaultdict(dict) (indexing with a missing key does not raise), bound in __init__ only
    for attr in ('_edges_by_source', '_edges_by_destination'):
        vals = []
        for m in cls.body:
            if not isinstance(m, ast.FunctionDef):
                continue
            for n in ast.walk(m):
                tg = n.targets if isinstance(n, ast.Assign) else [n.target] if isinstance(n, ast.AnnAssign) else []
                for t in tg:
                    if is_self_attr(t, attr):
                        vals.append((m.name, ast.unparse(n.value) if n.value is not None else None))
        if vals != [('__init__', 'defaultdict(dict)')]:
            raise Unsupported(cls, f'self.{attr} must be bound exactly once, in __init__, to defaultdict(dict)')


# ------------------------------------------------------------------------------------------------------------------
# the translator of one method
# ------------------------------------------------------------------------------------------------------------------
class Tr:
    def __init__(self, src_lines):
        self.lines = src_lines
        self.no_assign = 0      # > 0 inside for / except handler
        self.no_return = 0      # > 0 inside for / try / joined if
        self.ret = 'unit'

    def quote(self, s, ind):
        text = clean(self.lines[s.lineno - 1].strip())
        return f'{ind}(* L{s.lineno}: {text} *)\n'

    # ---------------------------------------------------------------- parameters
    def param_type(self, a, default):
        ann = ast.unparse(a.annotation) if a.annotation is not None else None
        table = {'NodeLike': 'nodelike', 'EdgeType': 'etype', 'Optional[EdgeType]': 'oetype', 'Optional[dict]': 'ometa',
                 'Optional[NodeLike]': 'onodelike', 'Optional[Edge]': 'oedgeobj', 'Edge': 'edgeobj', 'bool': 'bool',
                 'NodeVariableType': 'vtype', 'Optional[Node]': 'onodelike'}
        if ann not in table:
            raise Unsupported(a, f'parameter {a.arg}: annotation {ann} is not accepted')
        ty = table[ann]
        d = ast.unparse(default) if default is not None else None
        if ty in OPTS:
            if d != 'None':
                raise Unsupported(a, f'parameter {a.arg}: an Optional parameter must default to None')
        elif d is not None and not ((ty == 'bool' and d in ('True', 'False'))
                                    or (ty == 'etype' and d.startswith('EdgeType.') and d[9:] in ETYPES)
                                    or (ty == 'vtype' and d.startswith('NodeVariableType.') and d[17:] in VTYPES)):
            raise Unsupported(a, f'parameter {a.arg}: default {d} is not accepted')
        return ty

    # ---------------------------------------------------------------- coercions
    def coerce(self, node, t, ty, to):
        if ty == to:
            return t
        if to == 'o' + str(ty):
            return f'(Some {t})'
        if ty == 'name' and to == 'nodelike':
            return f'(py_nl_of_str {t})'
        if ty == 'none' and to in OPTS:
            return 'None'
        raise Unsupported(node, f'{ast.unparse(node)[:50]} has kind {ty}, expected {to}')

    def join_type(self, node, tys):
        tys = set(tys)
        if len(tys) == 1:
            return tys.pop()
        if len(tys) == 2:
            a, b = sorted(tys, key=lambda x: len(str(x)))
            if b == 'o' + str(a):
                return b
            if tys == {'name', 'nodelike'}:
                return 'nodelike'
        raise Unsupported(node, f'a local has kinds {sorted(map(str, tys))} at the join of an if')

    # ---------------------------------------------------------------- expressions (pure)
    def expr(self, e, env):
        """-> (coq text, type); pure expressions only."""
        if isinstance(e, ast.Name):
            if e.id not in env:
                raise Unsupported(e, f'unknown name {e.id}')
            return f'v_{e.id}', env[e.id]
        if isinstance(e, ast.Constant) and isinstance(e.value, bool):
            return ('true' if e.value else 'false'), 'bool'
        if isinstance(e, ast.Constant) and type(e.value) is int and e.value >= 0:
            return f'{e.value}%nat', 'int'
        if isinstance(e, ast.Attribute):
            if isinstance(e.value, ast.Name) and e.value.id == 'EdgeType' and 'EdgeType' not in env:
                if e.attr not in ETYPES:
                    raise Unsupported(e, f'EdgeType.{e.attr}')
                return ETYPES[e.attr], 'etype'
            if isinstance(e.value, ast.Name) and e.value.id == 'NodeVariableType' and 'NodeVariableType' not in env:
                if e.attr not in VTYPES:
                    raise Unsupported(e, f'NodeVariableType.{e.attr}')
                return VTYPES[e.attr], 'vtype'
            if not is_self_attr(e):
                t, ty = self.expr(e.value, env)
                table = {('edgeobj', 'meta'): ('py_eo_meta', 'meta'), ('edgeobj', 'source'): ('py_eo_source', 'nodelike'),
                         ('edgeobj', 'destination'): ('py_eo_destination', 'nodelike'),
                         ('edgeobj', '_edge_type'): ('py_eo_type', 'etype'),
                         ('nodelike', 'identifier'): ('py_nl_identifier', 'name'),
                         ('nodelike', 'variable_type'): ('py_nl_vtype', 'vtype'),
                         ('nodelike', 'meta'): ('py_nl_metadata', 'meta')}
                if (ty, e.attr) in table:
                    fn, rt = table[(ty, e.attr)]
                    return f'({fn} {t})', rt
            raise Unsupported(e, f'attribute {ast.unparse(e)} is not in the table')
        if isinstance(e, ast.UnaryOp) and isinstance(e.op, ast.Not):
            t, ty = self.expr(e.operand, env)
            self.want(e, ty, 'bool')
            return f'(negb {t})', 'bool'
        if isinstance(e, ast.BoolOp):
            parts = []
            for v in e.values:
                t, ty = self.expr(v, env)
                self.want(v, ty, 'bool')
                parts.append(t)
            op = ' && ' if isinstance(e.op, ast.And) else ' || '
            return '(' + op.join(parts) + ')', 'bool'
        if isinstance(e, ast.Compare):
            if len(e.ops) != 1:
                raise Unsupported(e, 'chained comparison')
            op = e.ops[0]
            c0 = e.comparators[0]
            if isinstance(op, (ast.Is, ast.IsNot)):
                if isinstance(c0, ast.Constant) and c0.value is None:
                    a, ta = self.expr(e.left, env)
                    if ta in OPTS:
                        t = f'(py_opt_is_None {a})'
                        return (t if isinstance(op, ast.Is) else f'(negb {t})'), 'bool'
                raise Unsupported(e, 'is / is not: only `<Optional value> is [not] None`')
            a, ta = self.expr(e.left, env)
            b, tb = self.expr(c0, env)
            if isinstance(op, (ast.Eq, ast.NotEq)) and ta == 'etype' and tb == 'etype':
                t = f'(etype_eqb {a} {b})'
                return (t if isinstance(op, ast.Eq) else f'(negb {t})'), 'bool'
            if isinstance(op, (ast.Eq, ast.NotEq)) and ta == 'vtype' and tb == 'vtype':
                t = f'(vtype_eqb {a} {b})'
                return (t if isinstance(op, ast.Eq) else f'(negb {t})'), 'bool'
            if isinstance(op, (ast.Eq, ast.NotEq)) and ta == 'int' and tb == 'int':
                t = f'(Nat.eqb {a} {b})'
                return (t if isinstance(op, ast.Eq) else f'(negb {t})'), 'bool'
            if isinstance(op, (ast.Eq, ast.NotEq)) and ta in ('nodelike', 'name') and tb in ('nodelike', 'name'):
                t = f'(py_nl_eq {self.coerce(e.left, a, ta, "nodelike")} {self.coerce(c0, b, tb, "nodelike")})'
                return (t if isinstance(op, ast.Eq) else f'(negb {t})'), 'bool'
            raise Unsupported(e, f'comparison {ast.unparse(e)} ({ta} vs {tb}) is not accepted')
        if isinstance(e, ast.IfExp):
            c, tc = self.expr(e.test, env)
            self.want(e.test, tc, 'bool')
            if isinstance(e.orelse, ast.Constant) and e.orelse.value is None:
                x, tx = self.expr(e.body, env)
                if tx in ('meta', 'etype'):
                    return f'(if {c} then Some {x} else None)', 'o' + tx
            raise Unsupported(e, 'conditional expression: only `e if c else None` is accepted')
        if isinstance(e, ast.ListComp):
            if len(e.generators) != 1:
                raise Unsupported(e, 'comprehension with several generators')
            g = e.generators[0]
            if g.is_async or not isinstance(g.target, ast.Name) or g.target.id == 'self':
                raise Unsupported(e, 'comprehension target')
            if isinstance(g.iter, ast.Tuple) and g.iter.elts:
                parts = [self.expr(x, env) for x in g.iter.elts]
                jt = self.join_type(g.iter, [ty for _, ty in parts])
                xs = '[' + '; '.join(self.coerce(x, t, ty, jt) for x, (t, ty) in zip(g.iter.elts, parts)) + ']'
                txs = ('list', jt)
            else:
                xs, txs = self.expr(g.iter, env)
            if not (isinstance(txs, tuple) and txs[0] == 'list'):
                raise Unsupported(e, 'comprehension over a non-list')
            env2 = dict(env)
            env2[g.target.id] = txs[1]
            v = f'v_{g.target.id}'
            for c in g.ifs:
                ct, cty = self.expr(c, env2)
                self.want(c, cty, 'bool')
                xs = f'(filter (fun {v} => {ct}) {xs})'
            f, tf = self.expr(e.elt, env2)
            return f'(map (fun {v} => {f}) {xs})', ('list', tf)
        if isinstance(e, ast.Call):
            return self.call_pure(e, env)
        raise Unsupported(e, f'expression {type(e).__name__} is not accepted')

    def want(self, node, ty, expected):
        if ty != expected:
            raise Unsupported(node, f'{ast.unparse(node)[:50]} has kind {ty}, expected {expected}')

    def bind_args(self, call, callee, env):
        """bind the arguments of self.<callee>(..) to parameter names -> {param: (text, type)}"""
        pos, kwonly, _ = CALLEES[callee]
        out = {}
        if len(call.args) > len(pos):
            raise Unsupported(call, f'too many positional arguments for {callee}')
        for name, a in zip(pos, call.args):
            if isinstance(a, ast.Starred):
                raise Unsupported(call, 'starred argument')
            out[name] = self.arg(a, env)
        for kw in call.keywords:
            if kw.arg is None:
                raise Unsupported(call, '**kwargs')
            if kw.arg not in pos + kwonly:
                raise Unsupported(call, f'{callee} has no parameter {kw.arg}')
            if kw.arg in out:
                raise Unsupported(call, f'parameter {kw.arg} given twice')
            out[kw.arg] = self.arg(kw.value, env)
        return out

    def arg(self, a, env):
        if isinstance(a, ast.Constant) and a.value is None:
            return 'None', 'none'
        return self.expr(a, env)

    def typed_arg(self, call, b, p, to):
        if p not in b:
            raise Unsupported(call, f'argument {p} is missing')
        return self.coerce(call, b[p][0], b[p][1], to)

    def opt_arg(self, call, b, p, base):
        """an Optional[base] parameter with default None"""
        if p not in b:
            return 'None'
        return self.coerce(call, b[p][0], b[p][1], 'o' + base)

    def only(self, call, b, allowed):
        for p in b:
            if p not in allowed:
                raise Unsupported(call, f'argument {p} of {ast.unparse(call.func)} is not in the table')

    def one_arg(self, e):
        if len(e.args) != 1 or e.keywords or isinstance(e.args[0], ast.Starred):
            raise Unsupported(e, f'{ast.unparse(e.func)} takes exactly one positional argument')
        return e.args[0]

    def index_get(self, f):
        """self._edges_by_source[a] / self._edges_by_destination[a] -> (attr, key) or None"""
        if isinstance(f, ast.Subscript) and (is_self_attr(f.value, '_edges_by_source')
                                             or is_self_attr(f.value, '_edges_by_destination')):
            return f.value.attr, f.slice
        return None

    def call_pure(self, e, env):
        f = e.func
        if isinstance(f, ast.Name) and f.id in ('len', 'isinstance', 'deepcopy') and f.id not in env and not e.keywords \
                and not any(isinstance(a, ast.Starred) for a in e.args):
            if f.id == 'len' and len(e.args) == 1:
                t, ty = self.expr(e.args[0], env)
                if isinstance(ty, tuple) and ty[0] == 'list':
                    return f'(py_len {t})', 'int'
            if f.id == 'deepcopy' and len(e.args) == 1:
                t, ty = self.expr(e.args[0], env)
                if ty == 'meta':
                    return f'(py_deepcopy {t})', 'meta'
            if f.id == 'isinstance' and len(e.args) == 2 and isinstance(e.args[1], ast.Name) \
                    and e.args[1].id in ('Node', 'HasMetadata') and e.args[1].id not in env:
                t, ty = self.expr(e.args[0], env)
                fn = 'py_isinstance_node' if e.args[1].id == 'Node' else 'py_isinstance_hasmeta'
                return f'({fn} {self.coerce(e.args[0], t, ty, "nodelike")})', 'bool'
            raise Unsupported(e, f'call {ast.unparse(e)[:60]} is not in the table')
        if not isinstance(f, ast.Attribute):
            raise Unsupported(e, f'call {ast.unparse(f)} is not in the table')
        # self._NodeCls.identifier_from(x)
        if f.attr == 'identifier_from' and is_self_attr(f.value, '_NodeCls'):
            a = self.one_arg(e)
            t, ty = self.expr(a, env)
            return f'(py_nl_identifier {self.coerce(a, t, ty, "nodelike")})', 'name'
        # self._edges_by_source[a].get(b)
        ix = self.index_get(f.value)
        if f.attr == 'get' and ix is not None:
            a = self.one_arg(e)
            k1, t1 = self.expr(ix[1], env)
            k2, t2 = self.expr(a, env)
            self.want(ix[1], t1, 'name')
            self.want(a, t2, 'name')
            fn = 'py_src_get' if ix[0] == '_edges_by_source' else 'py_dst_get'
            return f'({fn} v_self {k1} {k2})', 'ostored'
        if is_self_attr(f):
            if f.attr == 'node_exists':
                b = self.bind_args(e, f.attr, env)
                return f'(py_node_exists_nl v_self {self.typed_arg(e, b, "identifier", "nodelike")})', 'bool'
            if f.attr == 'get_nodes':
                b = self.bind_args(e, 'get_nodes', env)
                return f'(py_get_nodes_nl v_self {self.typed_arg(e, b, "identifier", "nodelike")})', ('list', 'node')
            if f.attr == 'get_edges':
                b = self.bind_args(e, 'get_edges', env)
                return (f'(py_get_edges_nl v_self {self.typed_arg(e, b, "source", "nodelike")} '
                        f'{self.typed_arg(e, b, "destination", "nodelike")} {self.opt_arg(e, b, "edge_type", "etype")})'), \
                    ('list', 'edge')
            raise Unsupported(e, f'self.{f.attr}(..) is not in the table (as an expression)')
        # methods of local objects
        if e.args or e.keywords:
            raise Unsupported(e, f'call {ast.unparse(e)[:60]} is not in the table')
        t, ty = self.expr(f.value, env)
        table = {('edgeobj', 'get_edge_type'): ('py_eo_type', 'etype'), ('edgeobj', 'get_metadata'): ('py_eo_meta', 'meta'),
                 ('nodelike', 'get_metadata'): ('py_nl_metadata', 'meta')}
        if (ty, f.attr) not in table:
            raise Unsupported(e, f'call {ast.unparse(e)[:60]} is not in the table')
        fn, rt = table[(ty, f.attr)]
        return f'({fn} {t})', rt

    def call_raising(self, e, env):
        """pure calls that can raise -> (text : pyout T, type) or None"""
        if isinstance(e, ast.Subscript) and isinstance(e.slice, ast.Constant) and type(e.slice.value) is int \
                and e.slice.value == 0 and isinstance(e.value, ast.Name):
            t, ty = self.expr(e.value, env)
            if isinstance(ty, tuple) and ty[0] == 'list':
                return f'(py_list_first {t})', ty[1]
        # self._check_node_exists(x)
        if isinstance(e, ast.Call) and is_self_attr(e.func, '_check_node_exists'):
            b = self.bind_args(e, '_check_node_exists', env)
            return f'(py_check_node_exists v_self {self.typed_arg(e, b, "identifier", "nodelike")})', 'name'
        # self._NodeCls(identifier, meta=m, variable_type=vt)
        if isinstance(e, ast.Call) and is_self_attr(e.func, '_NodeCls'):
            kws = {k.arg: k.value for k in e.keywords}
            if len(e.args) != 1 or sorted(kws) != ['meta', 'variable_type'] or isinstance(e.args[0], ast.Starred):
                raise Unsupported(e, '_NodeCls: only _NodeCls(<id>, meta=<m>, variable_type=<vt>) is in the table')
            a, ta = self.expr(e.args[0], env)
            m, tm = self.arg(kws['meta'], env)
            v, tv = self.expr(kws['variable_type'], env)
            self.want(e.args[0], ta, 'name')
            self.want(kws['variable_type'], tv, 'vtype')
            return f'(py_mk_node parse k {a} {self.coerce(kws["meta"], m, tm, "ometa")} {v})', 'node'
        # self._EdgeCls(source_node, destination_node, edge_type=t)
        if isinstance(e, ast.Call) and is_self_attr(e.func, '_EdgeCls'):
            if len(e.args) != 2 or [k.arg for k in e.keywords] != ['edge_type'] \
                    or any(isinstance(a, ast.Starred) for a in e.args):
                raise Unsupported(e, '_EdgeCls: only _EdgeCls(<node>, <node>, edge_type=<t>) is in the table')
            a, ta = self.expr(e.args[0], env)
            b, tb = self.expr(e.args[1], env)
            t, tt = self.expr(e.keywords[0].value, env)
            self.want(e.args[0], ta, 'node')
            self.want(e.args[1], tb, 'node')
            self.want(e.keywords[0].value, tt, 'etype')
            return f'(py_mk_edge k v_self {a} {b} {t})', 'edgeobj'
        return None

    def call_translated(self, e, env):
        """self._prepare_nodes(..) / self._set_edge(..): another translated method -> (text : pymut T, type)"""
        if not (isinstance(e, ast.Call) and is_self_attr(e.func) and e.func.attr in ('_prepare_nodes', '_set_edge')):
            return None
        b = self.bind_args(e, e.func.attr, env)
        if e.func.attr == '_prepare_nodes':
            return (f'(gen__prepare_nodes v_self {self.typed_arg(e, b, "source", "nodelike")} '
                    f'{self.typed_arg(e, b, "destination", "nodelike")})'), ('tuple', 'node', 'node')
        val = self.typed_arg(e, b, 'validate', 'bool') if 'validate' in b else 'true'
        return f'(gen__set_edge v_self {self.typed_arg(e, b, "edge", "edgeobj")} {val})', 'unit'

    def call_mutating(self, e, env):
        """-> text : pymut unit, or None"""
        if not isinstance(e, ast.Call) or not isinstance(e.func, ast.Attribute):
            return None
        f = e.func
        if is_self_attr(f) and f.attr == 'delete_edge':
            b = self.bind_args(e, f.attr, env)
            return (f'(py_delete_edge v_self {self.typed_arg(e, b, "source", "name")} '
                    f'{self.typed_arg(e, b, "destination", "name")} {self.opt_arg(e, b, "edge_type", "etype")})')
        if is_self_attr(f) and f.attr == 'delete_node':
            b = self.bind_args(e, f.attr, env)
            return f'(py_delete_node k v_self {self.typed_arg(e, b, "identifier", "nodelike")})'
        if is_self_attr(f) and f.attr == '_assert_node_does_not_depend_on_itself':
            b = self.bind_args(e, f.attr, env)
            return f'(py_assert_no_self_dep v_self {self.typed_arg(e, b, "identifier", "name")})'
        if is_self_attr(f) and f.attr == 'add_node':
            b = self.bind_args(e, f.attr, env)
            if 'node' in b:
                self.only(e, b, ('node',))
                return f'(py_add_node_node parse k v_self {self.typed_arg(e, b, "node", "nodelike")})'
            self.only(e, b, ('identifier', 'meta'))
            return (f'(py_add_node_id parse k v_self {self.typed_arg(e, b, "identifier", "nodelike")} '
                    f'{self.opt_arg(e, b, "meta", "meta")})')
        for attr, fn in (('_add_inbound_edge', 'py_add_inbound'), ('_add_outbound_edge', 'py_add_outbound')):
            if f.attr == attr:
                v = f.value
                if isinstance(v, ast.Subscript) and is_self_attr(v.value, '_nodes_by_identifier'):
                    a = self.one_arg(e)
                    k1, t1 = self.expr(v.slice, env)
                    x, tx = self.expr(a, env)
                    self.want(v.slice, t1, 'name')
                    self.want(a, tx, 'edgeobj')
                    return f'({fn} v_self {k1} {x})'
                raise Unsupported(e, f'{attr}: only self._nodes_by_identifier[<id>].{attr}(<edge>) is in the table')
        return None

    # ---------------------------------------------------------------- statements
    def terminates(self, stmts):
        if not stmts:
            return False
        s = stmts[-1]
        if isinstance(s, ast.Raise):
            return True
        if isinstance(s, ast.If):
            return self.terminates(s.body) and self.terminates(s.orelse)
        return False

    def end(self, env, ind):
        return f'{ind}mu_ret v_self tt'

    def assign(self, s, name, ty, env):
        if self.no_assign:
            raise Unsupported(s, 'assignment to a local inside for / an except handler')
        if name == 'self':
            raise Unsupported(s, 'assignment to self')
        env2 = dict(env)
        env2[name] = ty
        return env2

    def narrowing(self, test, env):
        """conjuncts of an assert / the test of an if that are `x is not None` over an Optional local"""
        def is_nn(c):
            return (isinstance(c, ast.Compare) and len(c.ops) == 1 and isinstance(c.ops[0], ast.IsNot)
                    and isinstance(c.left, ast.Name) and isinstance(c.comparators[0], ast.Constant)
                    and c.comparators[0].value is None and env.get(c.left.id) in OPTS and env.get(c.left.id) != 'ostored')
        cs = test.values if isinstance(test, ast.BoolOp) and isinstance(test.op, ast.And) else [test]
        return [(c, c.left.id if is_nn(c) else None) for c in cs]

    def changed_names(self, stmts):
        out = []
        for s in stmts:
            tg = s.targets if isinstance(s, ast.Assign) else [s.target] if isinstance(s, ast.AnnAssign) else []
            for t in tg:
                for x in (t.elts if isinstance(t, ast.Tuple) else [t]):
                    if isinstance(x, ast.Attribute) and isinstance(x.value, ast.Name) and x.value.id != 'self':
                        x = x.value     # <local>.meta = ..  rebinds the local object
                    if isinstance(x, ast.Name) and x.id not in out:
                        out.append(x.id)
            if isinstance(s, ast.Assert):
                for c in ast.walk(s.test):
                    if isinstance(c, ast.Compare) and isinstance(c.ops[0], ast.IsNot) and isinstance(c.left, ast.Name) \
                            and c.left.id not in out:
                        out.append(c.left.id)
            if isinstance(s, ast.If):
                for n in self.changed_names(s.body) + self.changed_names(s.orelse):
                    if n not in out:
                        out.append(n)
        return out

    def tup(self, xs):
        out = xs[0]
        for x in xs[1:]:
            out = f'({out}, {x})'
        return out

    def block(self, stmts, env, ind, tail):
        if not stmts:
            return tail(env, ind)
        s, rest = stmts[0], stmts[1:]

        def cont(env2, ind2=ind):
            return self.block(rest, env2, ind2, tail)
        q = self.quote(s, ind)
        if isinstance(s, ast.Pass) or (isinstance(s, ast.Expr) and isinstance(s.value, ast.Constant)
                                       and isinstance(s.value.value, str)):
            return cont(env)
        if isinstance(s, (ast.Assign, ast.AnnAssign)):
            if isinstance(s, ast.Assign):
                if len(s.targets) != 1:
                    raise Unsupported(s, 'chained assignment')
                tgt, val = s.targets[0], s.value
            else:
                tgt, val = s.target, s.value
                if val is None:
                    raise Unsupported(s, 'annotation without value')
            # self._edges_by_source[a][b] = e
            if isinstance(tgt, ast.Subscript) and self.index_get(tgt.value) is not None:
                attr, key1 = self.index_get(tgt.value)
                k1, t1 = self.expr(key1, env)
                k2, t2 = self.expr(tgt.slice, env)
                x, tx = self.expr(val, env)
                self.want(key1, t1, 'name')
                self.want(tgt.slice, t2, 'name')
                self.want(val, tx, 'edgeobj')
                fn = 'py_src_set' if attr == '_edges_by_source' else 'py_dst_set'
                return q + f'{ind}mu_bind ({fn} v_self {k1} {k2} {x}) (fun _ v_self =>\n' + cont(env) + ')'
            # self._nodes_by_identifier[i] = node
            if isinstance(tgt, ast.Subscript) and is_self_attr(tgt.value, '_nodes_by_identifier'):
                k1, t1 = self.expr(tgt.slice, env)
                x, tx = self.expr(val, env)
                self.want(tgt.slice, t1, 'name')
                self.want(val, tx, 'node')
                return q + f'{ind}mu_bind (py_nodes_set v_self {k1} {x}) (fun _ v_self =>\n' + cont(env) + ')'
            # edge.meta = meta
            if isinstance(tgt, ast.Attribute) and tgt.attr == 'meta' and isinstance(tgt.value, ast.Name) \
                    and env.get(tgt.value.id) == 'edgeobj':
                x, tx = self.expr(val, env)
                self.want(val, tx, 'meta')
                env2 = self.assign(s, tgt.value.id, 'edgeobj', env)
                return q + f'{ind}let v_{tgt.value.id} := (py_eo_set_meta v_{tgt.value.id} {x}) in\n' + cont(env2)
            if isinstance(tgt, ast.Name):
                r = self.call_raising(val, env)
                if r is not None:
                    env2 = self.assign(s, tgt.id, r[1], env)
                    return q + f'{ind}mu_pure v_self {r[0]} (fun v_{tgt.id} =>\n' + cont(env2) + ')'
                t, ty = self.expr(val, env)
                env2 = self.assign(s, tgt.id, ty, env)
                return q + f'{ind}let v_{tgt.id} := {t} in\n' + cont(env2)
            if isinstance(tgt, ast.Tuple) and all(isinstance(x, ast.Name) for x in tgt.elts) and len(tgt.elts) >= 2 \
                    and len({x.id for x in tgt.elts}) == len(tgt.elts):
                m = self.call_translated(val, env)
                if m is not None:
                    if not (isinstance(m[1], tuple) and m[1][0] == 'tuple' and len(m[1]) - 1 == len(tgt.elts)):
                        raise Unsupported(s, 'unpacking: the callee does not return a tuple of that length')
                    env2 = env
                    for x, ty in zip(tgt.elts, m[1][1:]):
                        env2 = self.assign(s, x.id, ty, env2)
                    pat = self.tup([f'v_{x.id}' for x in tgt.elts])
                    return q + f"{ind}mu_bind {m[0]} (fun '{pat} v_self =>\n" + cont(env2) + ')'
                if isinstance(val, ast.Tuple) and len(tgt.elts) == len(val.elts):
                    vals = [self.expr(v, env) for v in val.elts]
                    env2 = env
                    for x, (_, ty) in zip(tgt.elts, vals):
                        env2 = self.assign(s, x.id, ty, env2)
                    pat = self.tup([f'v_{x.id}' for x in tgt.elts])
                    rhs = self.tup([t for t, _ in vals])
                    return q + f"{ind}let '{pat} := {rhs} in\n" + cont(env2)
            raise Unsupported(s, 'assignment target / form is not accepted')
        if isinstance(s, ast.Expr):
            m = self.call_mutating(s.value, env)
            if m is not None:
                return q + f'{ind}mu_bind {m} (fun _ v_self =>\n' + cont(env) + ')'
            m = self.call_translated(s.value, env)
            if m is not None:
                return q + f'{ind}mu_bind {m[0]} (fun _ v_self =>\n' + cont(env) + ')'
            raise Unsupported(s, f'statement {ast.unparse(s)[:60]} is not in the table')
        if isinstance(s, ast.Raise):
            if rest:
                raise Unsupported(rest[0], 'statement after raise')
            if s.cause is not None or s.exc is None:
                raise Unsupported(s, 'bare raise outside the end of an `except Exception:` handler / raise .. from')
            x = s.exc
            if not (isinstance(x, ast.Call) and isinstance(x.func, ast.Attribute) and isinstance(x.func.value, ast.Name)
                    and x.func.value.id == 'CausalGraphErrors' and x.func.attr in ERRS and not x.keywords
                    and len(x.args) <= 1):
                raise Unsupported(s, 'raise of something else than CausalGraphErrors.<known class>(msg)')
            for a in x.args:
                self.message(a, env)
            return q + f'{ind}mu_raise v_self {ERRS[x.func.attr]}'
        if isinstance(s, ast.Assert):
            if s.msg is not None:
                self.message(s.msg, env)
            out, env2, close, i2 = q, dict(env), '', ind
            for c, nm in self.narrowing(s.test, env):
                if nm is None:
                    t, ty = self.expr(c, env2)
                    self.want(c, ty, 'bool')
                    out += f'{i2}if {t}\n{i2}then (\n'
                    close = f')\n{i2}else (mu_raise v_self EAssert)' + close
                else:
                    if self.no_assign:
                        raise Unsupported(s, 'narrowing assert inside for / an except handler')
                    out += f'{i2}match v_{nm} with\n{i2}| None => mu_raise v_self EAssert\n{i2}| Some v_{nm} => (\n'
                    close = f')\n{i2}end' + close
                    env2[nm] = env2[nm][1:]
                i2 += '  '
            return out + cont(env2, i2) + close
        if isinstance(s, ast.Return):
            if rest or self.no_return:
                raise Unsupported(s, 'return is accepted as the last statement, outside for / try / an if with a join')
            v = s.value
            if v is None or (isinstance(v, ast.Constant) and v.value is None):
                if self.ret != 'unit':
                    raise Unsupported(s, 'return without a value in a method that returns objects')
                return q + f'{ind}mu_ret v_self tt'
            if self.ret == 'unit' and isinstance(v, ast.Name) and v.id in self.edge_locals and v.id in env \
                    and env[v.id] in ('edgeobj', 'oedgeobj', 'node'):
                return q + (f'{ind}(* the returned object is the one stored in the graph: the value is dropped *)\n'
                            f'{ind}mu_ret v_self tt')
            if False:
                return q + (f'{ind}(* the returned Edge is the object stored in the graph: the value is dropped *)\n'
                            f'{ind}mu_ret v_self tt')
            if self.ret == '(node * node)' and isinstance(v, ast.Tuple) and len(v.elts) == 2:
                rs = [self.call_raising(x, env) for x in v.elts]
                if all(r is not None and r[1] == 'node' for r in rs):
                    return q + (f'{ind}mu_pure v_self {rs[0][0]} (fun r_1 =>\n{ind}mu_pure v_self {rs[1][0]} (fun r_2 =>\n'
                                f'{ind}mu_ret v_self (r_1, r_2)))')
            raise Unsupported(s, f'return {ast.unparse(v)[:50]} is not accepted')
        if isinstance(s, ast.If):
            i2 = ind + '  '
            nar = self.narrowing(s.test, env)
            nm = nar[0][1] if len(nar) == 1 else None
            if nm is not None and self.no_assign:
                nm = None

            def branches(tail_then, tail_else):
                if nm is not None:
                    env_t = dict(env)
                    env_t[nm] = env[nm][1:]
                    a = self.block(s.body, env_t, i2, tail_then)
                    b = self.block(s.orelse, env, i2, tail_else)
                    return f'{ind}match v_{nm} with\n{ind}| Some v_{nm} => (\n{a})\n{ind}| None => (\n{b})\n{ind}end'
                c, ty = self.expr(s.test, env)
                self.want(s.test, ty, 'bool')
                a = self.block(s.body, env, i2, tail_then)
                b = self.block(s.orelse, env, i2, tail_else)
                return f'{ind}if {c}\n{ind}then (\n{a})\n{ind}else (\n{b})'
            if not rest:
                return q + branches(tail, tail)
            if self.terminates(s.body) and not s.orelse and nm is None:
                c, ty = self.expr(s.test, env)
                self.want(s.test, ty, 'bool')
                a = self.block(s.body, env, i2, tail)
                return q + f'{ind}if {c}\n{ind}then (\n{a})\n{ind}else (\n' + cont(env, i2) + ')'
            # an if followed by further statements: the locals it (re)binds are returned at the join
            cands = self.changed_names(s.body) + [n for n in self.changed_names(s.orelse)
                                                  if n not in self.changed_names(s.body)]
            if cands and self.no_assign:
                raise Unsupported(s, 'an if that binds locals inside for / an except handler')
            ends = []

            def probe(env_end, ind_end):
                ends.append(env_end)
                return ''
            self.no_return += 1
            branches(probe, probe)
            names = [n for n in cands if all(n in e for e in ends)]
            jt = {n: self.join_type(s, [e[n] for e in ends]) for n in names} if ends else {}
            for n in names:
                if any(n in e for e in ends) and n not in jt:
                    raise Unsupported(s, f'local {n} is not bound on every path of the if')

            def real(env_end, ind_end):
                if not names:
                    return f'{ind_end}mu_ret v_self tt'
                return f'{ind_end}mu_ret v_self ' + self.tup([self.coerce(s, f'v_{n}', env_end[n], jt[n]) for n in names])
            text = branches(real, real)
            self.no_return -= 1
            env2 = dict(env)
            for n in cands:
                if n in jt:
                    env2[n] = jt[n]
                elif n in env2 and any(n in e and e[n] != env[n] for e in ends):
                    del env2[n]
            pat = ("'" + self.tup([f'v_{n}' for n in names])) if len(names) > 1 else (f'v_{names[0]}' if names else '_')
            return q + f'{ind}mu_bind (\n{text}) (fun {pat} v_self =>\n' + cont(env2) + ')'
        if isinstance(s, ast.Try):
            if len(s.handlers) != 1 or s.orelse or s.finalbody:
                raise Unsupported(s, 'try must have exactly one handler and no else / finally')
            h = s.handlers[0]
            if h.name is not None or not (isinstance(h.type, ast.Name) and h.type.id in ('Exception', 'AssertionError')):
                raise Unsupported(h, 'the handler must be `except Exception:` or `except AssertionError:` (no name)')
            i2 = ind + '    '
            hq = self.quote(h, ind + '  ')
            if h.type.id == 'Exception':
                if not h.body or not (isinstance(h.body[-1], ast.Raise) and h.body[-1].exc is None
                                      and h.body[-1].cause is None):
                    raise Unsupported(h, 'an `except Exception:` handler must end with a bare `raise`')
                self.no_return += 1
                a = self.block(s.body, env, i2, self.end)
                self.no_assign += 1
                b = self.block(h.body[:-1], env, i2, self.end)
                self.no_assign -= 1
                self.no_return -= 1
                rq = self.quote(h.body[-1], i2)
                return (q + f'{ind}mu_bind (mu_try_reraise (\n{a})\n{hq}{ind}  (fun v_self =>\n{b}\n{rq}{ind}  ))'
                        f' (fun _ v_self =>\n' + cont(env) + ')')
            # except AssertionError: H, where every path of H ends in raise <class>
            if not self.terminates(h.body):
                raise Unsupported(h, 'an `except AssertionError:` handler must end every path with raise <class>(..)')
            self.no_return += 1
            a = self.block(s.body, env, i2, self.end)
            self.no_assign += 1
            b = self.block(h.body, env, i2, self.end)
            self.no_assign -= 1
            self.no_return -= 1
            return (q + f'{ind}mu_bind (mu_try_except EAssert (\n{a})\n{hq}{ind}  (fun v_self =>\n{b}\n{ind}  ))'
                    f' (fun _ v_self =>\n' + cont(env) + ')')
        if isinstance(s, ast.For):
            if s.orelse or not isinstance(s.target, ast.Name) or s.target.id == 'self':
                raise Unsupported(s, 'for: else clause / target is not a plain name')
            xs, txs = self.expr(s.iter, env)
            if not (isinstance(txs, tuple) and txs[0] == 'list'):
                raise Unsupported(s, 'for over a non-list')
            env2 = dict(env)
            env2[s.target.id] = txs[1]
            self.no_assign += 1
            self.no_return += 1
            a = self.block(s.body, env2, ind + '    ', self.end)
            self.no_assign -= 1
            self.no_return -= 1
            return (q + f'{ind}mu_for {xs} v_self (fun v_{s.target.id} v_self =>\n{a}) (fun v_self =>\n'
                    + cont(env) + ')')
        raise Unsupported(s, f'statement {type(s).__name__} is not accepted')

    def message(self, m, env):
        if isinstance(m, ast.Constant) and isinstance(m.value, str):
            return
        if isinstance(m, ast.JoinedStr):
            for v in m.values:
                if isinstance(v, ast.Constant):
                    continue
                if isinstance(v, ast.FormattedValue) and isinstance(v.value, ast.Name) and v.value.id in env \
                        and v.format_spec is None:
                    continue
                raise Unsupported(m, 'message: f-string over something else than known names')
            return
        raise Unsupported(m, 'message is not a constant / f-string over names')

    # ---------------------------------------------------------------- a method
    def method(self, m):
        for d in m.decorator_list:
            if not (isinstance(d, ast.Name) and d.id == 'reset_cached_attributes_decorator'):
                raise Unsupported(m, f'decorator {ast.unparse(d)} is not accepted')
        a = m.args
        if a.vararg or a.kwarg:
            raise Unsupported(m, '*args / **kwargs')
        want_ret = {'unit': (None, 'None', 'Edge', 'Node'), '(node * node)': ('Tuple[Node, Node]',)}[RET[m.name]]
        if (ast.unparse(m.returns) if m.returns is not None else None) not in want_ret:
            raise Unsupported(m, 'return annotation')
        self.ret = RET[m.name]
        # the locals a `return <name>` may mention: those bound to an Edge somewhere in the method
        self.edge_locals = {x.arg for x in a.posonlyargs + a.args + a.kwonlyargs
                            if x.annotation is not None and ast.unparse(x.annotation) in ('Edge', 'Optional[Edge]', 'Optional[Node]')}
        params = a.posonlyargs + a.args
        if not params or params[0].arg != 'self':
            raise Unsupported(m, 'first parameter must be self')
        params = params[1:]
        ndef = len(a.defaults)
        defaults = [None] * (len(params) - ndef) + list(a.defaults) if ndef <= len(params) else None
        if defaults is None:
            raise Unsupported(m, 'self has a default')
        env, sig = {}, ['(v_self : graph)']
        for p, d in list(zip(params, defaults)) + list(zip(a.kwonlyargs, a.kw_defaults)):
            if p.arg in env or p.arg == 'self':
                raise Unsupported(p, 'duplicate parameter')
            env[p.arg] = self.param_type(p, d)
            sig.append(f'(v_{p.arg} : {COQTY[env[p.arg]]})')
        # the signature the call sites inside the other translated methods were bound against
        if m.name in CALLEES:
            pos, kwonly, _ = CALLEES[m.name]
            if [x.arg for x in params] != pos or [x.arg for x in a.kwonlyargs] != kwonly:
                raise Unsupported(m, f'{m.name}: parameters are not ({", ".join(pos + kwonly)})')
        body = self.block(strip_doc(m.body), env, '  ', self.end)
        last = max(getattr(n, 'end_lineno', m.lineno) or m.lineno for n in ast.walk(m))
        return (f'(** [{CLASS}.{m.name}], lines {m.lineno}-{last} of causal_graph.py. *)\n'
                f'Definition gen_{m.name} {" ".join(sig)} : pymut {RET[m.name]} :=\n{body}.\n')


def translate(cls, src):
    lines = src.split('\n')
    defs = [Tr(lines).method(method(cls, name)) for name in METHODS]
    head = (f'(** {FNAME}.v -- GENERATED by /verif/tools/translate_add_edge.py from\n'
            f'    cai_causal_graph/causal_graph.py, class {CLASS}, methods:\n'
            f'      {", ".join(METHODS)}.\n'
            '    DO NOT EDIT: the file is regenerated on every verification run.  One Gallina function per Python\n'
            '    method, statement by statement (the comments quote the first line of each Python statement); the\n'
            '    runtime is PyRtAdd.v (on top of PyRtMut.v), whose header documents the mapping (the graph API is mapped onto the primitives\n'
            '    of Graph.v; the control flow is the Python\'s).  [v_self] is the graph object; every function returns\n'
            '    (outcome, state left behind). *)\n'
            'From CG Require Import Base Graph PyRtMut PyRtAdd.\n\n'
            'Section Gen.\n'
            '  (* the name codec and the class (plain / time series) the node / edge constructors depend on *)\n'
            '  Variable parse : name -> option (name * Z).\n'
            '  Variable k : kind.\n\n')
    return head + '\n'.join(defs) + '\nEnd Gen.\n'


def write_if_changed(out, text):
    if os.path.exists(out):
        with open(out, 'r', encoding='utf-8') as fh:
            if fh.read() == text:
                return
    tmp = out + '.tmp'
    with open(tmp, 'w', encoding='utf-8') as fh:
        fh.write(text)
    os.replace(tmp, out)


def main(argv):
    if len(argv) > 3:
        sys.stderr.write('usage: translate_add_edge.py [<repo_root> [<output_dir>]]\n')
        return 2
    root = argv[1] if len(argv) > 1 else os.environ.get('VERIF_REPO', '/repo')
    here = os.path.dirname(os.path.abspath(__file__))
    outdir = argv[2] if len(argv) > 2 else os.path.join(os.path.dirname(here), 'coq', 'theories')
    if not os.path.isdir(outdir):
        sys.stderr.write(f'translate_add_edge: FAIL: {outdir} is not a directory\n')
        return 2
    path = os.path.join(root, SOURCE)
    why, text = None, None
    try:
        with open(path, 'r', encoding='utf-8') as fh:
            src = fh.read()
        tree = ast.parse(src, filename=path)
        cls = find_class(tree)
        check_module(tree, cls)
        text = translate(cls, src)
    except Unsupported as ex:
        why = f'{path}:{ex}'
    except (OSError, SyntaxError) as ex:
        why = f'{path}: {type(ex).__name__}: {ex}'
    except (RecursionError, ValueError, KeyError, AttributeError, TypeError, IndexError) as ex:
        why = f'{path}: internal {type(ex).__name__}: {ex}'
    status = 0
    if why is not None:
        sys.stderr.write(f'translate_add_edge: FAIL: {why} [{FNAME}.v is a stub that does not compile]\n')
        text, status = STUB % {'file': FNAME, 'why': clean(why)}, 2
    write_if_changed(os.path.join(outdir, FNAME + '.v'), text)
    return status


if __name__ == '__main__':
    sys.exit(main(sys.argv))
