#!/usr/bin/env python3
"""translate_ts_summary.py -- FAIL-CLOSED translator of three methods of class TimeSeriesCausalGraph to Gallina.

usage:  translate_ts_summary.py [<repo_root> [<output_dir>]]
        <repo_root>  defaults to $VERIF_REPO, else /repo
        <output_dir> defaults to ../coq/theories relative to this script

Reads, with `ast` only (repository code is never imported or executed),

    <repo_root>/cai_causal_graph/time_series_causal_graph.py

extracts from class TimeSeriesCausalGraph exactly the methods

    get_summary_graph, get_stationary_graph, is_stationary_graph

and writes TWO files into <output_dir>, one per consumer property, each translated and failed-closed INDEPENDENTLY:

    TSGenSummary.v      get_summary_graph                            C17   (proofs: TSGenSummaryProofs.v)
    TSGenStationary.v   get_stationary_graph, is_stationary_graph    C16   (proofs: TSGenStationaryProofs.v)

Each file contains one Gallina definition per Python method, statement by statement (the comments quote the first
line of each Python statement).  The runtime is coq/theories/PyRtTSa.v; the table at its top says which Python
construct is mapped to which Coq term (the trusted part): only the graph API is mapped to primitives of the
hand-written model TSGraph.v, the control flow comes from the Python text.  The proofs files prove the generated
functions equal to the hand-written model functions (TSGraph.summary / stationary / is_stationary_graph).

FAIL CLOSED: exactly the Python subset described below is accepted.  On anything else the tool prints
`translate_ts_summary: FAIL: <file>:<line>: <reason>` to stderr, writes -- for the file of the offending group only --
a stub that does NOT compile (`Definition translator_failed : False := I.`) and exits with status 2 (0 only when both
files are generated).  A failure at module level (syntax error, class missing or duplicated) makes both files stubs; a
module / class level binding the table relies on (an import, `logger`, `_NodeCls`, the signature of a callee method,
an override of an inherited method) that is not as expected fails only the groups whose translation USES it.
Both files are always written (left untouched when the text is identical).

Accepted subset
  * a method `def m(self) [-> T]:` without decorators; docstrings, `pass`;
  * `x = e`, `x: T = e` (annotation ignored), `a, b = e1, e2` (all right-hand sides first), `self.<cache> = e` for the
    cache attribute `_is_stationary_graph` (an explicit state variable, see PyRtTSa.v);
  * `if / elif / else`, `for x in e:` (no else clause), `continue`, `break`, `return e`,
    `assert c [, msg]` (msg: a constant, an f-string over names, or '<constant>'.format(<names>));
  * `logger.warning(<constants>)` (dropped);
  * expression statements that mutate an OWNED plain graph: `sg.remove_edge(a, b)`,
    `sg.add_edge(a, b, edge_type=t, meta=m, validate=False)`, `sg.add_edge(edge=e, validate=False)`, `sg.add_node(v)`;
    a plain graph is owned by the local name it was created under (`self._SummaryGraphCls(meta=..)`); assigning it
    to another name, storing or passing it anywhere else is refused (aliasing);
  * expressions: names, True / False, non-negative int constants, `-e`, `not e`, `a and b` / `a or b` (only the first
    operand may contain a call that can raise), `==` on str / EdgeType / time-series graphs / int / bool,
    `x is None` / `x is not None`, `x in l` / `x not in l` (str in list of str), `l[0]`, `l[-1]`,
    `[e for x in xs]` (one generator, no condition, no call that can raise), `(a, b)` only as the argument of
    is_edge_by_pair or in a tuple assignment, and the API calls / attributes of the table in PyRtTSa.v, with exactly
    the argument shapes listed there (keywords checked by NAME; `validate` must be the constant False;
    extend_graph arguments are mapped to parameters through the signature read from the source, which must be
    (self, backward_steps=None, forward_steps=None, include_all_parents=True));
  * calls that can raise are hoisted, in evaluation order, into `py_bind` in front of the statement.
  * where used, the names `deepcopy`, `EdgeType`, `TimeSeriesNode`, `logger` and the class attributes `_NodeCls`,
    `_EdgeCls`, `_SummaryGraphCls` must be bound at module / class level exactly as the table assumes; `sorted`,
    `isinstance` must not be rebound; get_minimal_graph / extend_graph / get_all_variable_names must be plain methods
    of the class with the expected parameters; is_dag / get_edges / get_nodes / meta / __eq__ must not be overridden
    in the class.  Parameters that are positional-only in the library (remove_edge, get_edge, add_node, source /
    destination of add_edge) are accepted by position only.
Everything else (while, try, with, lambda, nested def, augmented assignment, starred, chained comparison, other
attributes / methods / builtins, use of a loop variable after its loop, a name whose kind differs between the two
branches of an if and is used afterwards, ...) is refused.
"""
import ast
import os
import sys

CLASS = 'TimeSeriesCausalGraph'
SOURCE = os.path.join('cai_causal_graph', 'time_series_causal_graph.py')
FILES = [('TSGenSummary', ['get_summary_graph']),
         ('TSGenStationary', ['get_stationary_graph', 'is_stationary_graph'])]
CACHE_ATTRS = {'_is_stationary_graph': 'c__is_stationary_graph'}
ETYPES = {'DIRECTED_EDGE': 'Dir', 'UNDIRECTED_EDGE': 'Und', 'BIDIRECTED_EDGE': 'Bi', 'UNKNOWN_EDGE': 'Unk',
          'UNKNOWN_DIRECTED_EDGE': 'UnkDir', 'UNKNOWN_UNDIRECTED_EDGE': 'UnkUnd'}
CLASS_ATTRS = {'_NodeCls': 'TimeSeriesNode', '_EdgeCls': 'TimeSeriesEdge', '_SummaryGraphCls': 'CausalGraph'}
API_METHODS_OF_CLASS = {'get_minimal_graph': ['self'],
                        'extend_graph': ['self', 'backward_steps', 'forward_steps', 'include_all_parents'],
                        'get_all_variable_names': ['self']}
MAX_OUTPUT_CHARS = 100000


class Unsupported(Exception):
    def __init__(self, node, msg):
        super().__init__(f'{getattr(node, "lineno", "?")}: {msg}')


# kinds
TSG, PG, TSEDGE, NODEREF, TSNODE, EDGEOBJ, PEDGE = ('tsg',), ('pg',), ('tsedge',), ('noderef',), ('tsnode',), ('edgeobj',), ('pedge',)
STR, INT, BOOL, OPTBOOL, OPTINT, ETYPE, META, VTYPE, NONE = ('str',), ('int',), ('bool',), ('optbool',), ('optint',), ('etype',), ('meta',), ('vtype',), ('none',)


def LIST(k): return ('list', k)


COQ_TYPES = {'tsg': 'tsg', 'pg': 'pgraph', 'tsedge': 'tedge', 'noderef': 'key', 'tsnode': 'tnode', 'edgeobj': 'tsedgeobj',
             'pedge': 'pedge', 'str': 'name', 'int': 'Z', 'bool': 'bool', 'optbool': 'option bool', 'optint': 'option Z',
             'etype': 'etype', 'meta': 'meta', 'vtype': 'vtype', 'none': 'unit'}


def coq_type(k):
    if k[0] == 'list':
        return f'list ({coq_type(k[1])})'
    return COQ_TYPES[k[0]]


def is_mutable(k):
    return k == PG


def tuple_pat(names):
    if not names:
        return '_'
    if len(names) == 1:
        return names[0]
    return "'(" + ', '.join(names) + ')'


def tuple_val(names):
    if not names:
        return 'tt'
    if len(names) == 1:
        return names[0]
    return '(' + ', '.join(names) + ')'


class Var:
    def __init__(self, coq, kind, owned=False, role='local'):
        self.coq, self.kind, self.owned, self.role = coq, kind, owned, role


class Ctx:
    def __init__(self, inj, state, in_loop, fall):
        self.inj, self.state, self.in_loop, self.fall = inj, state, in_loop, fall


def names_in(node):
    return [n.id for n in ast.walk(node) if isinstance(n, ast.Name)]


def cache_key(attr):
    return 'self.' + attr


class Translator:
    def __init__(self, cls, src_lines, extend_params, facts):
        self.cls, self.src_lines, self.extend_params, self.facts = cls, src_lines, extend_params, facts
        self.done = {}        # method name -> (coq name, caches, ret kind)
        self.outputs = []
        self.tmp = 0
        self.nstmts = 0
        self.caches = []      # cache attributes of the method being translated
        self.ret_kinds = []   # kinds of the returned values seen in this pass
        self.ret_final = None

    def need(self, node, fact):
        """the translation of [node] relies on a module / class level fact"""
        why = self.facts.get(fact, f'unknown fact {fact}')
        if why is not None:
            raise Unsupported(node, why)

    def fresh(self):
        self.tmp += 1
        return f'tmp_{self.tmp}'

    def first_line(self, node):
        return self.src_lines[node.lineno - 1].strip().replace('(*', '( *').replace('*)', '* )')

    # ------------------------------------------------------------------------------------------------------------
    # expressions
    def hoist(self, node, H, call, kind):
        if H is None:
            raise Unsupported(node, 'a call that can raise occurs where Python evaluates conditionally or repeatedly')
        t = self.fresh()
        H.append((call, t))
        return t, kind

    def is_self(self, e):
        return isinstance(e, ast.Name) and e.id == 'self'

    def want(self, node, k, *expected):
        if k not in expected:
            raise Unsupported(node, f'expected kind {" / ".join(x[0] for x in expected)}, found {k[0]}')

    def lookup(self, node, name, env):
        if name not in env:
            raise Unsupported(node, f'name {name!r} is not defined here (or not supported)')
        return env[name]

    def expr(self, e, env, H):
        if isinstance(e, ast.Name):
            if e.id == 'self':
                return 'v_self', TSG
            v = self.lookup(e, e.id, env)
            return v.coq, v.kind
        if isinstance(e, ast.Constant):
            if e.value is True:
                return 'true', BOOL
            if e.value is False:
                return 'false', BOOL
            if isinstance(e.value, int) and not isinstance(e.value, bool) and e.value >= 0:
                return f'{e.value}%Z', INT
            raise Unsupported(e, f'constant {e.value!r}')
        if isinstance(e, ast.Attribute):
            return self.attribute(e, env, H)
        if isinstance(e, ast.Call):
            return self.call(e, env, H)
        if isinstance(e, ast.Compare):
            return self.compare(e, env, H)
        if isinstance(e, ast.BoolOp):
            op = '&&' if isinstance(e.op, ast.And) else '||'
            parts = []
            for i, v in enumerate(e.values):
                c, k = self.expr(v, env, H if i == 0 else None)
                self.want(v, k, BOOL)
                parts.append(f'({c})')
            return '(' + f' {op} '.join(parts) + ')', BOOL
        if isinstance(e, ast.UnaryOp) and isinstance(e.op, ast.Not):
            c, k = self.expr(e.operand, env, H)
            self.want(e, k, BOOL)
            return f'(negb {c})', BOOL
        if isinstance(e, ast.UnaryOp) and isinstance(e.op, ast.USub):
            c, k = self.expr(e.operand, env, H)
            self.want(e, k, INT)
            return f'(Z.opp {c})', INT
        if isinstance(e, ast.Subscript):
            if not isinstance(e.ctx, ast.Load):
                raise Unsupported(e, 'subscript store')
            c, k = self.expr(e.value, env, H)
            if k[0] != 'list':
                raise Unsupported(e, 'subscript of something that is not a list')
            ix = e.slice
            if isinstance(ix, ast.Constant) and ix.value == 0 and ix.value is not False:
                return self.hoist(e, H, f'py_list_first {c}', k[1])
            if (isinstance(ix, ast.UnaryOp) and isinstance(ix.op, ast.USub) and isinstance(ix.operand, ast.Constant)
                    and ix.operand.value == 1 and ix.operand.value is not True):
                return self.hoist(e, H, f'py_list_last {c}', k[1])
            raise Unsupported(e, 'subscript other than [0] / [-1]')
        if isinstance(e, ast.ListComp):
            if len(e.generators) != 1 or e.generators[0].ifs or e.generators[0].is_async:
                raise Unsupported(e, 'comprehension with several generators / conditions')
            g = e.generators[0]
            it, ik = self.expr(g.iter, env, H)
            if ik[0] != 'list':
                raise Unsupported(e, 'comprehension over something that is not a list')
            if not isinstance(g.target, ast.Name) or g.target.id == 'self':
                raise Unsupported(e, 'unsupported comprehension target')
            env2 = dict(env)
            env2[g.target.id] = Var('v_' + g.target.id, ik[1], role='loop')
            c, k = self.expr(e.elt, env2, None)
            if is_mutable(k):
                raise Unsupported(e, 'a mutable object stored by a comprehension')
            return f'(map (fun v_{g.target.id} => {c}) {it})', LIST(k)
        raise Unsupported(e, f'unsupported expression {type(e).__name__}')

    def attribute(self, e, env, H):
        if self.is_self(e.value):
            if e.attr == 'meta':
                self.need(e, 'meta')
                return '(py_ts_meta v_self)', META
            if e.attr in CACHE_ATTRS:
                v = self.lookup(e, cache_key(e.attr), env)
                return v.coq, v.kind
            raise Unsupported(e, f'attribute self.{e.attr} used as a value')
        if isinstance(e.value, ast.Name) and e.value.id == 'EdgeType' and 'EdgeType' not in env:
            self.need(e, 'EdgeType')
            if e.attr not in ETYPES:
                raise Unsupported(e, f'unknown EdgeType.{e.attr}')
            return ETYPES[e.attr], ETYPE
        c, k = self.expr(e.value, env, H)
        a = e.attr
        if k == TSEDGE and a in ('source', 'destination'):
            return f'(py_tsedge_{a} {c})', NODEREF
        if k == TSEDGE and a == 'edge_type':
            return f'(py_tsedge_edge_type {c})', ETYPE
        if k == TSEDGE and a == 'meta':
            return f'(py_tsedge_meta {c})', META
        if k == NODEREF and a == 'variable_name':
            return f'(py_noderef_variable_name {c})', STR
        if k == NODEREF and a == 'meta':
            return self.hoist(e, H, f'py_noderef_meta v_self {c}', META)
        if k == NODEREF and a == 'variable_type':
            return self.hoist(e, H, f'py_noderef_variable_type v_self {c}', VTYPE)
        if k == TSNODE and a == 'time_lag':
            return f'(py_tsnode_time_lag {c})', INT
        if k == PEDGE and a == 'meta':
            return f'(py_pedge_meta {c})', META
        raise Unsupported(e, f'unsupported attribute .{a} of a {k[0]}')

    def args_by_name(self, e, positional, keywords):
        """the arguments of a call as a dict; positional: parameter names that may be given by position (in order)"""
        if any(isinstance(a, ast.Starred) for a in e.args) or any(k.arg is None for k in e.keywords):
            raise Unsupported(e, 'starred arguments')
        if len(e.args) > len(positional):
            raise Unsupported(e, 'too many positional arguments')
        out = {}
        for p, a in zip(positional, e.args):
            out[p] = a
        for k in e.keywords:
            if k.arg in out or k.arg not in keywords:
                raise Unsupported(e, f'unexpected / duplicated keyword argument {k.arg}')
            out[k.arg] = k.value
        return out

    def exact(self, e, args, names):
        if sorted(args) != sorted(names):
            raise Unsupported(e, f'expected exactly the arguments {", ".join(names)}')

    def call(self, e, env, H):
        f = e.func
        if isinstance(f, ast.Name):
            name = f.id
            if name in env:
                raise Unsupported(e, f'call of the local {name!r}')
            if name == 'deepcopy':
                self.need(e, 'deepcopy')
                a = self.args_by_name(e, ['x'], [])
                self.exact(e, a, ['x'])
                c, k = self.expr(a['x'], env, H)
                self.want(e, k, META)
                return f'(py_deepcopy {c})', META
            if name == 'sorted':
                self.need(e, 'sorted')
                a = self.args_by_name(e, ['x'], [])
                self.exact(e, a, ['x'])
                c, k = self.expr(a['x'], env, H)
                self.want(e, k, LIST(INT))
                return f'(py_sorted_int {c})', LIST(INT)
            if name == 'isinstance':
                self.need(e, 'isinstance')
                self.need(e, 'TimeSeriesNode')
                a = self.args_by_name(e, ['x', 't'], [])
                self.exact(e, a, ['x', 't'])
                c, k = self.expr(a['x'], env, H)
                if not (isinstance(a['t'], ast.Name) and a['t'].id == 'TimeSeriesNode' and 'TimeSeriesNode' not in env):
                    raise Unsupported(e, 'isinstance with a class other than TimeSeriesNode')
                self.want(e, k, NODEREF)
                return f'(py_isinstance_TimeSeriesNode {c})', BOOL
            raise Unsupported(e, f'call of {name!r}')
        if not isinstance(f, ast.Attribute):
            raise Unsupported(e, 'unsupported callee')
        m, recv = f.attr, f.value
        if self.is_self(recv):
            simple = {'is_dag': ('(py_ts_is_dag v_self)', BOOL), 'get_edges': ('(py_ts_get_edges v_self)', LIST(TSEDGE)),
                      'get_nodes': ('(py_ts_get_nodes v_self)', LIST(TSNODE)),
                      'get_all_variable_names': ('(py_ts_get_all_variable_names v_self)', LIST(STR))}
            if m in simple:
                self.need(e, m)
                self.exact(e, self.args_by_name(e, [], []), [])
                return simple[m]
            if m == 'get_minimal_graph':
                self.need(e, m)
                self.exact(e, self.args_by_name(e, [], []), [])
                return self.hoist(e, H, 'py_ts_get_minimal_graph v_self', TSG)
            if m in self.done:
                coq, caches, rk = self.done[m]
                self.exact(e, self.args_by_name(e, [], []), [])
                if caches:
                    raise Unsupported(e, 'call of a translated method that uses a cache attribute')
                return self.hoist(e, H, f'{coq} v_self', rk)
            if m == '_SummaryGraphCls':
                self.need(e, m)
                a = self.args_by_name(e, [], ['meta'])
                self.exact(e, a, ['meta'])
                c, k = self.expr(a['meta'], env, H)
                self.want(e, k, META)
                return f'(py_cg_new {c})', PG
            if m == '_NodeCls':
                self.need(e, m)
                a = self.args_by_name(e, [], ['identifier', 'meta', 'variable_type'])
                self.exact(e, a, ['identifier', 'meta', 'variable_type'])
                cs = []
                for p, kk in (('identifier', STR), ('meta', META), ('variable_type', VTYPE)):
                    c, k = self.expr(a[p], env, H)
                    self.want(a[p], k, kk)
                    cs.append(c)
                self.check_arg_order(e, a, ['identifier', 'meta', 'variable_type'])
                return f'(py_TimeSeriesNode {" ".join(cs)})', TSNODE
            if m == '_EdgeCls':
                self.need(e, m)
                a = self.args_by_name(e, [], ['source', 'destination', 'edge_type', 'meta'])
                self.exact(e, a, ['source', 'destination', 'edge_type', 'meta'])
                cs = []
                for p, kk in (('source', TSNODE), ('destination', TSNODE), ('edge_type', ETYPE), ('meta', META)):
                    c, k = self.expr(a[p], env, None)   # the arguments must be free of calls that can raise
                    self.want(a[p], k, kk)
                    cs.append(c)
                return self.hoist(e, H, f'py_TimeSeriesEdge {" ".join(cs)}', EDGEOBJ)
            raise Unsupported(e, f'unsupported method self.{m}')
        if isinstance(recv, ast.Name) and recv.id == 'logger':
            raise Unsupported(e, 'logger call used as a value')
        c, k = self.expr(recv, env, H)
        if k == TSG and m == 'extend_graph':
            self.need(e, m)
            a = self.args_by_name(e, self.extend_params, self.extend_params)
            vals = []
            for p, default, kk in (('backward_steps', 'None', INT), ('forward_steps', 'None', INT),
                                   ('include_all_parents', 'true', BOOL)):
                if p not in a:
                    vals.append(default)
                    continue
                x = a[p]
                if isinstance(x, ast.Constant) and x.value is None:
                    if kk != INT:
                        raise Unsupported(x, 'None passed as include_all_parents')
                    vals.append('None')
                    continue
                xc, xk = self.expr(x, env, None)   # free of calls that can raise
                self.want(x, xk, kk)
                vals.append(f'(Some {xc})' if kk == INT else xc)
            return self.hoist(e, H, f'py_ts_extend_graph {c} {" ".join(vals)}', TSG)
        if k == PG and m == 'is_edge_by_pair':
            a = self.args_by_name(e, ['pair'], ['pair'])
            self.exact(e, a, ['pair'])
            p = a['pair']
            if not (isinstance(p, ast.Tuple) and len(p.elts) == 2):
                raise Unsupported(e, 'is_edge_by_pair of something that is not a literal pair')
            xs = []
            for x in p.elts:
                xc, xk = self.expr(x, env, H)
                self.want(x, xk, STR)
                xs.append(xc)
            return f'(py_cg_is_edge_by_pair {c} {xs[0]} {xs[1]})', BOOL
        if k == PG and m == 'get_edge':
            a = self.args_by_name(e, ['source', 'destination'], [])
            self.exact(e, a, ['source', 'destination'])
            xs = []
            for p in ('source', 'destination'):
                xc, xk = self.expr(a[p], env, H)
                self.want(a[p], xk, STR)
                xs.append(xc)
            return self.hoist(e, H, f'py_cg_get_edge {c} {xs[0]} {xs[1]}', PEDGE)
        if k == PG and m == 'get_node_names':
            self.exact(e, self.args_by_name(e, [], []), [])
            return f'(py_cg_get_node_names {c})', LIST(STR)
        if k == PEDGE and m == 'get_edge_type':
            self.exact(e, self.args_by_name(e, [], []), [])
            return f'(py_pedge_get_edge_type {c})', ETYPE
        raise Unsupported(e, f'unsupported method .{m} of a {k[0]}')

    def check_arg_order(self, e, a, order):
        pass   # the arguments are free of effects on each other: their textual order does not matter

    def compare(self, e, env, H):
        if len(e.ops) != 1:
            raise Unsupported(e, 'chained comparison')
        op, l, r = e.ops[0], e.left, e.comparators[0]
        if isinstance(op, (ast.Is, ast.IsNot)):
            if not (isinstance(r, ast.Constant) and r.value is None):
                raise Unsupported(e, 'is / is not with something other than None')
            c, k = self.expr(l, env, H)
            if k == STR:
                t = f'(py_str_is_not_None {c})'
                return (t if isinstance(op, ast.IsNot) else f'(negb {t})'), BOOL
            if k in (OPTBOOL, OPTINT):
                t = f'(py_opt_is_None {c})'
                return (t if isinstance(op, ast.Is) else f'(negb {t})'), BOOL
            raise Unsupported(e, f'is None on a {k[0]}')
        lc, lk = self.expr(l, env, H)
        rc, rk = self.expr(r, env, H)
        if isinstance(op, (ast.In, ast.NotIn)):
            self.want(l, lk, STR)
            self.want(r, rk, LIST(STR))
            t = f'(mem {lc} {rc})'
            return (t if isinstance(op, ast.In) else f'(negb {t})'), BOOL
        if isinstance(op, (ast.Eq, ast.NotEq)):
            if lk != rk:
                raise Unsupported(e, f'== between a {lk[0]} and a {rk[0]}')
            fn = {STR: 'name_eqb', ETYPE: 'etype_eqb', TSG: 'py_ts_graph_eq', INT: 'Z.eqb', BOOL: 'Bool.eqb'}.get(lk)
            if lk == TSG:
                self.need(e, '__eq__')
            if fn is None:
                raise Unsupported(e, f'== on kind {lk[0]}')
            t = f'({fn} {lc} {rc})'
            return (t if isinstance(op, ast.Eq) else f'(negb {t})'), BOOL
        if lk != INT or rk != INT:
            raise Unsupported(e, 'ordering comparison on something that is not an integer')
        fn = {ast.Lt: ('Z.ltb', 0), ast.LtE: ('Z.leb', 0), ast.Gt: ('Z.ltb', 1), ast.GtE: ('Z.leb', 1)}.get(type(op))
        if fn is None:
            raise Unsupported(e, 'unsupported comparison')
        return (f'({fn[0]} {rc} {lc})' if fn[1] else f'({fn[0]} {lc} {rc})'), BOOL

    # ------------------------------------------------------------------------------------------------------------
    # statements
    def mutated_in(self, stmts):
        out = []

        def add(n):
            if n not in out:
                out.append(n)

        def target(t):
            if isinstance(t, ast.Name):
                add(t.id)
            elif isinstance(t, ast.Tuple):
                for x in t.elts:
                    target(x)
            elif isinstance(t, ast.Attribute) and self.is_self(t.value):
                add(cache_key(t.attr))

        def calls(x):
            for n in ast.walk(x):
                if (isinstance(n, ast.Call) and isinstance(n.func, ast.Attribute) and isinstance(n.func.value, ast.Name)
                        and n.func.attr in ('remove_edge', 'add_edge', 'add_node')):
                    add(n.func.value.id)

        def visit(s):
            if isinstance(s, ast.Assign):
                calls(s.value)
                for t in s.targets:
                    target(t)
            elif isinstance(s, ast.AnnAssign):
                if s.value is not None:
                    calls(s.value)
                target(s.target)
            elif isinstance(s, ast.If):
                calls(s.test)
                for x in s.body + s.orelse:
                    visit(x)
            elif isinstance(s, ast.For):
                calls(s.iter)
                target(s.target)
                for x in s.body + s.orelse:
                    visit(x)
            elif isinstance(s, (ast.Expr, ast.Return, ast.Assert)):
                for c in ast.iter_child_nodes(s):
                    calls(c)
            elif isinstance(s, (ast.Pass, ast.Break, ast.Continue)):
                pass
            else:
                raise Unsupported(s, f'unsupported statement {type(s).__name__}')
        for s in stmts:
            visit(s)
        return out

    def wrap(self, H, ctx, ind, inner):
        lines = [f'{ind}py_bind {ctx.inj} ({call}) (fun {t} =>' for call, t in H]
        return '\n'.join(lines + [inner(ind)]) + ')' * len(H)

    def message_ok(self, node, m, env):
        if m is None or (isinstance(m, ast.Constant) and isinstance(m.value, str)):
            return
        if isinstance(m, ast.JoinedStr):
            for v in m.values:
                if isinstance(v, ast.Constant):
                    continue
                if (isinstance(v, ast.FormattedValue) and isinstance(v.value, ast.Name) and v.value.id in env
                        and v.format_spec is None):
                    continue
                raise Unsupported(node, 'message: f-string over something that is not a defined name')
            return
        if (isinstance(m, ast.Call) and isinstance(m.func, ast.Attribute) and m.func.attr == 'format'
                and isinstance(m.func.value, ast.Constant) and isinstance(m.func.value.value, str) and not m.keywords
                and all(isinstance(a, ast.Name) and a.id in env for a in m.args)):
            return
        raise Unsupported(node, 'message that is not a constant, an f-string over names or a constant .format(names)')

    def ret(self, ctx, env, value, kind, node):
        self.ret_kinds.append(kind)
        if self.ret_final is not None and kind != self.ret_final:
            if kind == BOOL and self.ret_final == OPTBOOL:
                value = f'(Some {value})'
            else:
                raise Unsupported(node, f'returned kinds {kind[0]} and {self.ret_final[0]} do not agree')
        caches = [env[cache_key(a)].coq for a in self.caches]
        return f'{ctx.inj} (Ret {tuple_val(caches + [value]) if caches else value})'

    def comment(self, ind, s):
        return f'{ind}(* L{s.lineno}: {self.first_line(s)} *)'

    def bind(self, env, name, kind, owned=False, role='local'):
        env2 = dict(env)
        env2[name] = Var('v_' + name, kind, owned=owned, role=role)
        return env2

    def block(self, stmts, env, ctx, ind):
        if not stmts:
            return ind + ctx.fall(env, ind)
        s, rest = stmts[0], stmts[1:]
        self.nstmts += 1
        if self.nstmts > 3000:
            raise Unsupported(s, 'the generated text is too large (continuation duplication)')
        cm = self.comment(ind, s)

        def cont(env2, ind2=ind):
            return self.block(rest, env2, ctx, ind2)

        if isinstance(s, ast.Expr) and isinstance(s.value, ast.Constant) and isinstance(s.value.value, str):
            return cont(env)
        if isinstance(s, ast.Pass):
            return cont(env)
        if isinstance(s, (ast.Assign, ast.AnnAssign)):
            if isinstance(s, ast.Assign):
                if len(s.targets) != 1:
                    raise Unsupported(s, 'multiple assignment targets')
                target, value = s.targets[0], s.value
            else:
                if s.value is None:
                    raise Unsupported(s, 'annotation without value')
                target, value = s.target, s.value
            if isinstance(target, ast.Tuple):
                if not (isinstance(value, ast.Tuple) and len(value.elts) == len(target.elts)
                        and all(isinstance(t, ast.Name) and t.id != 'self' for t in target.elts)
                        and len({t.id for t in target.elts}) == len(target.elts)):
                    raise Unsupported(s, 'tuple assignment that is not  a, b = x, y')
                H, vals = [], []
                for x in value.elts:
                    c, k = self.expr(x, env, H)
                    if is_mutable(k):
                        raise Unsupported(s, 'a mutable object in a tuple assignment')
                    vals.append((c, k))
                tmps = [self.fresh() for _ in vals]
                env2 = env
                for t, (c, k) in zip(target.elts, vals):
                    self.check_rebind(s, t.id, env, ctx)
                    env2 = self.bind(env2, t.id, k)

                def inner(i):
                    ls = [f'{i}let {tmp} := {c} in' for tmp, (c, _) in zip(tmps, vals)]
                    ls += [f'{i}let v_{t.id} := {tmp} in' for t, tmp in zip(target.elts, tmps)]
                    return '\n'.join(ls) + '\n' + cont(env2, i)
                return cm + '\n' + self.wrap(H, ctx, ind, inner)
            if isinstance(target, ast.Attribute):
                if not (self.is_self(target.value) and target.attr in CACHE_ATTRS):
                    raise Unsupported(s, 'assignment to an attribute that is not a known cache attribute of self')
                H = []
                c, k = self.expr(value, env, H)
                if k == BOOL:
                    c = f'(Some {c})'
                elif k != OPTBOOL:
                    raise Unsupported(s, 'cache attribute assigned something that is not a bool')
                coq = CACHE_ATTRS[target.attr]
                return cm + '\n' + self.wrap(H, ctx, ind, lambda i: f'{i}let {coq} := {c} in\n' + cont(env, i))
            if not isinstance(target, ast.Name) or target.id == 'self':
                raise Unsupported(s, 'unsupported assignment target')
            name = target.id
            self.check_rebind(s, name, env, ctx)
            H = []
            c, k = self.expr(value, env, H)
            if isinstance(value, ast.Name) and is_mutable(k):
                raise Unsupported(s, f'{name} = {value.id}: two names for one mutable object')
            if k == NONE:
                raise Unsupported(s, 'None assigned to a name')
            fresh = is_mutable(k) and isinstance(value, ast.Call)
            if is_mutable(k) and not fresh:
                raise Unsupported(s, 'a mutable object that is not freshly created is bound to a name')
            if is_mutable(k) and ctx.in_loop:
                raise Unsupported(s, 'a mutable object created inside a loop')
            env2 = self.bind(env, name, k, owned=fresh)
            return cm + '\n' + self.wrap(H, ctx, ind, lambda i: f'{i}let v_{name} := {c} in\n' + cont(env2, i))
        if isinstance(s, ast.Expr) and isinstance(s.value, ast.Call):
            return self.expr_stmt(s, s.value, env, ctx, ind, cm, cont)
        if isinstance(s, ast.If):
            H = []
            c, k = self.expr(s.test, env, H)
            self.want(s, k, BOOL)

            def inner(i):
                sub = Ctx(ctx.inj, ctx.state, ctx.in_loop, lambda e2, i2: cont(self.merge_env(s, env, e2), i2).lstrip())
                a = self.block(s.body, env, sub, i + '  ')
                b = self.block(s.orelse, env, sub, i + '  ')
                return f'{i}if {c}\n{i}then (\n{a})\n{i}else (\n{b})'
            return cm + '\n' + self.wrap(H, ctx, ind, inner)
        if isinstance(s, ast.For):
            return self.loop(s, rest, env, ctx, ind, cm)
        if isinstance(s, ast.Return):
            if s.value is None:
                raise Unsupported(s, 'bare return')
            H = []
            c, k = self.expr(s.value, env, H)
            if is_mutable(k) and not (isinstance(s.value, ast.Name) and env[s.value.id].owned) or ctx.in_loop and is_mutable(k):
                raise Unsupported(s, 'returning a mutable object that the function does not own')
            return cm + '\n' + self.wrap(H, ctx, ind, lambda i: i + self.ret(ctx, env, c, k, s))
        if isinstance(s, ast.Assert):
            self.message_ok(s, s.msg, env)
            H = []
            c, k = self.expr(s.test, env, H)
            self.want(s, k, BOOL)
            return cm + '\n' + self.wrap(H, ctx, ind, lambda i: f'{i}if {c}\n{i}then (\n' + cont(env, i + '  ') +
                                         f')\n{i}else (\n{i}  {ctx.inj} (Exc EAssert))')
        if isinstance(s, ast.Break):
            if not ctx.in_loop:
                raise Unsupported(s, 'break outside a loop')
            return cm + '\n' + f'{ind}Brk {self.state_vals(ctx, env)}'
        if isinstance(s, ast.Continue):
            if not ctx.in_loop:
                raise Unsupported(s, 'continue outside a loop')
            return cm + '\n' + f'{ind}Cont {self.state_vals(ctx, env)}'
        raise Unsupported(s, f'unsupported statement {type(s).__name__}')

    def merge_env(self, node, env0, env_branch):
        """environment after an if: names bound in a branch only, or with another kind, are dropped"""
        out = {}
        for n, v in env_branch.items():
            if n in env0 and env0[n].kind == v.kind and env0[n].owned == v.owned:
                out[n] = env0[n] if env0[n].coq == v.coq else v
        return out

    def check_rebind(self, s, name, env, ctx):
        if name in env and is_mutable(env[name].kind):
            raise Unsupported(s, f'the name {name!r} of a mutable object is rebound')
        if name in CACHE_ATTRS.values() or name.startswith('tmp_'):
            raise Unsupported(s, f'reserved name {name!r}')

    def state_vals(self, ctx, env):
        return tuple_val([env[n].coq for n in ctx.state])

    def expr_stmt(self, s, call, env, ctx, ind, cm, cont):
        f = call.func
        if isinstance(f, ast.Attribute) and isinstance(f.value, ast.Name) and f.value.id == 'logger' and 'logger' not in env:
            self.need(s, 'logger')
            if f.attr not in ('debug', 'info', 'warning', 'error', 'critical'):
                raise Unsupported(s, f'logger.{f.attr}')
            if call.keywords or not all(isinstance(a, ast.Constant) for a in call.args):
                raise Unsupported(s, 'logger call with non-constant arguments')
            return cm + ' (* dropped *)\n' + cont(env)
        if not (isinstance(f, ast.Attribute) and isinstance(f.value, ast.Name) and f.value.id != 'self'):
            raise Unsupported(s, 'an expression statement that is not a mutation of a local graph')
        name = f.value.id
        v = self.lookup(s, name, env)
        if v.kind != PG:
            raise Unsupported(s, f'{name!r} is not a plain causal graph')
        if not v.owned:
            raise Unsupported(s, f'{name!r} does not own its object: mutating it is refused')
        H = []
        m = f.attr

        def arg(x, kind, allow_hoist=True):
            if name in names_in(x):
                raise Unsupported(s, 'the receiver occurs in an argument')
            c, k = self.expr(x, env, H if allow_hoist else None)
            self.want(x, k, kind)
            return c

        def is_false(x):
            return isinstance(x, ast.Constant) and x.value is False
        if m == 'remove_edge':
            a = self.args_by_name(call, ['source', 'destination'], [])   # positional-only in the library
            self.exact(call, a, ['source', 'destination'])
            op = f'py_cg_remove_edge {v.coq} {arg(a["source"], STR)} {arg(a["destination"], STR)}'
        elif m == 'add_node':
            a = self.args_by_name(call, ['identifier'], [])   # positional-only in the library
            self.exact(call, a, ['identifier'])
            op = f'py_cg_add_node {v.coq} {arg(a["identifier"], STR)}'
        elif m == 'add_edge':
            a = self.args_by_name(call, ['source', 'destination'],
                                  ['edge_type', 'meta', 'edge', 'validate'])   # source, destination: positional-only
            if 'validate' not in a or not is_false(a['validate']):
                raise Unsupported(s, 'add_edge without validate=False')
            if 'edge' in a:
                self.exact(call, a, ['edge', 'validate'])
                op = f'py_cg_add_edge_obj {v.coq} {arg(a["edge"], EDGEOBJ)}'
            else:
                self.exact(call, a, ['source', 'destination', 'edge_type', 'meta', 'validate'])
                op = (f'py_cg_add_edge_ids {v.coq} {arg(a["source"], STR)} {arg(a["destination"], STR)} '
                      f'{arg(a["edge_type"], ETYPE)} {arg(a["meta"], META)}')
        else:
            raise Unsupported(s, f'unsupported mutator .{m}')
        return cm + '\n' + self.wrap(H, ctx, ind, lambda i: f'{i}py_bind {ctx.inj} ({op}) (fun {v.coq} =>\n' + cont(env, i) + ')')

    def loop(self, s, rest, env, ctx, ind, cm):
        if s.orelse or getattr(s, 'type_comment', None):
            raise Unsupported(s, 'loop with an else clause / type comment')
        if not isinstance(s.target, ast.Name) or s.target.id == 'self':
            raise Unsupported(s, 'unsupported loop target')
        tname = s.target.id
        mut = self.mutated_in(s.body)
        state = [n for n in mut if n in env]
        if tname in env:
            raise Unsupported(s, 'the loop target is a variable that is live before the loop')
        for n in state:
            if not n.startswith('self.') and is_mutable(env[n].kind) and not env[n].owned:
                raise Unsupported(s, f'the loop mutates {n!r}, which does not own its object')
        pat = tuple_pat([env[n].coq for n in state])
        init = tuple_val([env[n].coq for n in state])
        H = []
        it, ik = self.expr(s.iter, env, H)
        if ik[0] != 'list':
            raise Unsupported(s, 'iteration over something that is not a list')
        if isinstance(s.iter, ast.Name) and s.iter.id in mut:
            raise Unsupported(s, 'the loop body rebinds the list it iterates over')
        env_b = self.bind(env, tname, ik[1], role='loop')

        def fall(e2, _i):
            for n in state:
                if n not in e2 or e2[n].kind != env[n].kind:
                    raise Unsupported(s, f'the kind of {n!r} changes in the loop body')
            return f'Cont {tuple_val([e2[n].coq for n in state])}'
        sub = Ctx('py_in', state, True, fall)
        env_after = {k: v for k, v in env.items() if k != tname}

        def inner(i):
            body = self.block(s.body, env_b, sub, i + '    ')
            return (f'{i}py_for {ctx.inj} {it} {init} (fun v_{tname} {pat} =>\n{body})\n'
                    f'{i}(fun {pat} =>\n' + self.block(rest, env_after, ctx, i) + ')')
        return cm + '\n' + self.wrap(H, ctx, ind, inner)

    # ------------------------------------------------------------------------------------------------------------
    def method(self, node):
        a = node.args
        if (node.decorator_list or a.vararg or a.kwarg or a.kwonlyargs or a.posonlyargs or a.defaults or a.kw_defaults
                or getattr(node, 'type_params', None)):
            raise Unsupported(node, 'decorators / default values / star or keyword-only parameters')
        if [p.arg for p in a.args] != ['self'] or a.args[0].annotation is not None:
            raise Unsupported(node, 'the translated methods take exactly the parameter self')
        for n in ast.walk(node):
            if isinstance(n, (ast.Global, ast.Nonlocal, ast.Lambda, ast.Yield, ast.YieldFrom, ast.Await, ast.Try, ast.With,
                              ast.ClassDef, ast.AsyncFunctionDef, ast.NamedExpr, ast.Delete, ast.Import, ast.ImportFrom,
                              ast.Starred, ast.AugAssign, ast.While, ast.AsyncFor, ast.AsyncWith, ast.Raise, ast.IfExp,
                              ast.GeneratorExp, ast.SetComp, ast.DictComp, ast.Dict, ast.Set)):
                raise Unsupported(n, f'unsupported construct {type(n).__name__}')
            if isinstance(n, ast.FunctionDef) and n is not node:
                raise Unsupported(n, 'nested function')
            if isinstance(n, ast.Name) and isinstance(n.ctx, ast.Store) and n.id in (
                    'self', 'deepcopy', 'sorted', 'isinstance', 'EdgeType', 'TimeSeriesNode', 'logger'):
                raise Unsupported(n, f'the name {n.id!r} is rebound')
        self.caches = []
        for n in ast.walk(node):
            if isinstance(n, ast.Attribute) and self.is_self(n.value) and n.attr in CACHE_ATTRS and n.attr not in self.caches:
                self.caches.append(n.attr)
        coq_name = 'gen_' + node.name
        env = {cache_key(c): Var(CACHE_ATTRS[c], OPTBOOL, role='cache') for c in self.caches}

        def fall(e2, _i):
            raise Unsupported(node, 'the method can fall off its end (returns None)')
        # first pass: the kinds of the returned values; second pass: the text
        body = None
        self.ret_final = None
        for _ in range(2):
            self.ret_kinds, self.tmp = [], 0
            ctx = Ctx('py_top', [], False, fall)
            body = self.block(node.body, env, ctx, '  ')
            ks = set(self.ret_kinds)
            if not ks:
                raise Unsupported(node, 'no return statement')
            if ks == {BOOL, OPTBOOL}:
                self.ret_final = OPTBOOL
            elif len(ks) == 1:
                self.ret_final = next(iter(ks))
            else:
                raise Unsupported(node, 'the returned values have different kinds')
        rt = coq_type(self.ret_final)
        if self.caches:
            rt = '(' + ' * '.join(['option bool'] * len(self.caches) + [rt]) + ')'
        sig = '(v_self : tsg)' + ''.join(f' ({CACHE_ATTRS[c]} : option bool)' for c in self.caches)
        end = getattr(node, 'end_lineno', node.lineno)
        doc = f'(** [{CLASS}.{node.name}], lines {node.lineno}-{end} of time_series_causal_graph.py.'
        if self.caches:
            doc += ('\n    Cache attributes of self (extra parameter = value on entry, returned with the result): '
                    + ', '.join('self.' + c for c in self.caches) + '.')
        doc += ' *)'
        self.outputs.append(f'{doc}\nDefinition {coq_name} {sig} : pyout ({rt}) :=\n{body}.')
        self.done[node.name] = (coq_name, list(self.caches), self.ret_final)


HEADER = '''(** %(file)s.v -- GENERATED by /verif/tools/translate_ts_summary.py from
    cai_causal_graph/time_series_causal_graph.py, class TimeSeriesCausalGraph, methods:
      %(targets)s.
    DO NOT EDIT: the file is regenerated on every verification run.  One Gallina function per Python method,
    statement by statement (the comments quote the first line of each Python statement); the runtime is
    PyRtTSa.v, whose header documents the mapping (the graph API is mapped onto the primitives of TSGraph.v;
    the control flow is the Python's). *)
From CG Require Import Base Dec Digraph TSGraph PyRtTSa.
Local Open Scope Z_scope.
'''

STUB = '''(** %(file)s.v -- NOT GENERATED: /verif/tools/translate_ts_summary.py refused the source.
    %(why)s
    This file deliberately does not compile. *)
Definition translator_failed : False := I.
'''


def find_class(tree):
    classes = [n for n in tree.body if isinstance(n, ast.ClassDef) and n.name == CLASS]
    if len(classes) != 1:
        raise Unsupported(tree.body[0] if tree.body else None, f'expected exactly one class {CLASS} at module level')
    return classes[0]


def module_facts(tree, cls):
    """The module / class level bindings the table relies on: fact name -> None (holds) or the reason it does not.
    A group is refused only for the facts its translation actually USED (Translator.need)."""
    facts = {}
    bound = {}
    unknown_stmt = None
    for n in tree.body:
        if isinstance(n, ast.ImportFrom):
            for al in n.names:
                bound.setdefault(al.asname or al.name, []).append(('from', n.module, al.name))
        elif isinstance(n, ast.Import):
            for al in n.names:
                bound.setdefault((al.asname or al.name).split('.')[0], []).append(('import', al.name, None))
        elif isinstance(n, (ast.FunctionDef, ast.AsyncFunctionDef, ast.ClassDef)):
            bound.setdefault(n.name, []).append(('def', None, None))
        elif isinstance(n, (ast.Assign, ast.AnnAssign, ast.AugAssign)):
            tg = n.targets if isinstance(n, ast.Assign) else [n.target]
            for t in tg:
                for x in ast.walk(t):
                    if isinstance(x, ast.Name):
                        bound.setdefault(x.id, []).append(('assign', n, None))
        elif isinstance(n, ast.Expr) and isinstance(n.value, ast.Constant):
            pass
        elif unknown_stmt is None:
            unknown_stmt = f'{n.lineno}: module-level statement {type(n).__name__} (cannot tell which names it binds)'
    want = {'deepcopy': ('from', 'copy', 'deepcopy'),
            'EdgeType': ('from', 'cai_causal_graph.type_definitions', 'EdgeType'),
            'TimeSeriesNode': ('from', 'cai_causal_graph.graph_components', 'TimeSeriesNode'),
            'TimeSeriesEdge': ('from', 'cai_causal_graph.graph_components', 'TimeSeriesEdge'),
            'CausalGraph': ('from', 'cai_causal_graph.causal_graph', 'CausalGraph')}
    for name, w in want.items():
        facts[name] = unknown_stmt or (None if bound.get(name) == [w] else
                                       f'the module-level name {name!r} is not bound exactly by the expected import')
    lg = bound.get('logger')
    ok = (lg is not None and len(lg) == 1 and lg[0][0] == 'assign' and isinstance(lg[0][1], ast.Assign)
          and ast.dump(lg[0][1].value) == ast.dump(ast.parse('logging.getLogger(__name__)').body[0].value)
          and bound.get('logging') == [('import', 'logging', None)])
    facts['logger'] = unknown_stmt or (None if ok else "the module-level name 'logger' is not logging.getLogger(__name__)")
    for name in ('sorted', 'isinstance'):
        facts[name] = unknown_stmt or (f'the builtin {name!r} is rebound at module level' if name in bound else None)
    # class attributes
    seen = {}
    for n in cls.body:
        if isinstance(n, (ast.Assign, ast.AnnAssign)):
            tg = n.targets if isinstance(n, ast.Assign) else [n.target]
            for t in tg:
                for x in ast.walk(t):
                    if isinstance(x, ast.Name):
                        seen.setdefault(x.id, []).append(n)
    for attr, val in CLASS_ATTRS.items():
        ns = seen.get(attr, [])
        good = len(ns) == 1 and ns[0].value is not None and isinstance(ns[0].value, ast.Name) and ns[0].value.id == val
        facts[attr] = facts[val] if good and facts.get(val) else (None if good else f'class attribute {attr} is not (exactly once) {val}')
    # API rows that are methods of this class: present exactly once, with the expected parameters
    for m, params in API_METHODS_OF_CLASS.items():
        defs = [n for n in cls.body if isinstance(n, (ast.FunctionDef, ast.AsyncFunctionDef)) and n.name == m]
        why = None
        if len(defs) != 1 or not isinstance(defs[0], ast.FunctionDef):
            why = f'expected exactly one plain method {m} in class {CLASS}'
        else:
            a = defs[0].args
            if [p.arg for p in a.args] != params or a.vararg or a.kwarg or a.kwonlyargs or a.posonlyargs:
                why = f'{defs[0].lineno}: the parameters of {m} are not ({", ".join(params)})'
            elif m == 'extend_graph' and [ast.dump(d) for d in a.defaults] != [
                    ast.dump(ast.Constant(value=None)), ast.dump(ast.Constant(value=None)), ast.dump(ast.Constant(value=True))]:
                why = f'{defs[0].lineno}: the defaults of extend_graph are not (None, None, True)'
            elif any(getattr(v, 'value', None) is not None for v in seen.get(m, [])):
                why = f'class-level assignment to {m}'
        facts[m] = why
    # inherited rows: the class must not override them
    for m in ('is_dag', 'get_edges', 'get_nodes', 'meta', '__eq__'):
        defs = [n for n in cls.body if isinstance(n, (ast.FunctionDef, ast.AsyncFunctionDef)) and n.name == m]
        over = defs or any(getattr(v, 'value', None) is not None for v in seen.get(m, []))
        facts[m] = f'class {CLASS} overrides {m}, which the table maps to the inherited behaviour' if over else None
    return facts


def translate_group(cls, src, fname, targets, facts):
    tr = Translator(cls, src.splitlines(), API_METHODS_OF_CLASS['extend_graph'][1:], facts)
    for name in targets:
        defs = [n for n in cls.body if isinstance(n, (ast.FunctionDef, ast.AsyncFunctionDef)) and n.name == name]
        if len(defs) != 1 or not isinstance(defs[0], ast.FunctionDef):
            raise Unsupported(cls, f'expected exactly one plain method {name} in class {CLASS}')
        for n in cls.body:
            if isinstance(n, (ast.Assign, ast.AnnAssign)) and name in names_in(n.targets[0] if isinstance(n, ast.Assign) else n.target):
                raise Unsupported(n, f'class-level assignment to {name}')
        tr.method(defs[0])
    text = HEADER % {'file': fname, 'targets': ', '.join(targets)} + '\n' + '\n\n'.join(tr.outputs) + '\n'
    if len(text) > MAX_OUTPUT_CHARS:
        raise Unsupported(cls, 'the generated text is too large')
    return text


def clean(msg):
    return msg.replace('*)', '* )').replace('(*', '( *')


def write_if_changed(out, text):
    if os.path.exists(out):
        with open(out, 'r', encoding='utf-8') as fh:
            if fh.read() == text:
                return
    tmp = out + '.tmp'
    with open(tmp, 'w', encoding='utf-8') as fh:
        fh.write(text)
    os.replace(tmp, out)


def main(argv):
    if len(argv) > 3:
        sys.stderr.write('usage: translate_ts_summary.py [<repo_root> [<output_dir>]]\n')
        return 2
    root = argv[1] if len(argv) > 1 else os.environ.get('VERIF_REPO', '/repo')
    here = os.path.dirname(os.path.abspath(__file__))
    outdir = argv[2] if len(argv) > 2 else os.path.join(os.path.dirname(here), 'coq', 'theories')
    if not os.path.isdir(outdir):
        sys.stderr.write(f'translate_ts_summary: FAIL: {outdir} is not a directory\n')
        return 2
    path = os.path.join(root, SOURCE)
    status, cls, src, module_failure, facts = 0, None, None, None, None
    try:
        with open(path, 'r', encoding='utf-8') as fh:
            src = fh.read()
        tree = ast.parse(src, filename=path)
        cls = find_class(tree)
        facts = module_facts(tree, cls)
    except Unsupported as ex:
        module_failure = f'{path}:{ex}'
    except (OSError, SyntaxError, RecursionError, ValueError) as ex:
        module_failure = f'{path}: {type(ex).__name__}: {ex}'
    for fname, targets in FILES:
        why, text = module_failure, None
        if why is None:
            try:
                text = translate_group(cls, src, fname, targets, facts)
            except Unsupported as ex:
                why = f'{path}:{ex}'
            except (RecursionError, ValueError, KeyError, AttributeError, TypeError, IndexError) as ex:
                why = f'{path}: internal {type(ex).__name__}: {ex}'
        if why is not None:
            sys.stderr.write(f'translate_ts_summary: FAIL: {why} [{fname}.v is a stub that does not compile]\n')
            text, status = STUB % {'file': fname, 'why': clean(why)}, 2
        write_if_changed(os.path.join(outdir, fname + '.v'), text)
    return status


if __name__ == '__main__':
    sys.exit(main(sys.argv))
